#!/usr/bin/env python
"""Equivalence check for the pbgen command line driver
(cnfgen/clitools/pbgen.py, cli: 'random seed' and 'command line' header
entries).

Prints one SHA256 digest of everything observable."""
import sys
import os
import io
import re
import hashlib
import random
import contextlib
import subprocess
import tempfile

sys.path.insert(0, os.getcwd())

from cnfgen.clitools.pbgen import cli as pbgen_cli

H = hashlib.sha256()


def record(*items):
    for it in items:
        # the version string comes from `git describe`: not under test
        it = re.sub(r'CNFgen \([^)]*\)', 'CNFgen (V)', repr(it))
        H.update(it.encode('utf-8'))
        H.update(b'\x00')


def run(argv, mode):
    err = io.StringIO()
    out = io.StringIO()
    try:
        with contextlib.redirect_stderr(err), contextlib.redirect_stdout(out):
            res = pbgen_cli(argv, mode=mode)
        if mode == 'formula':
            # header: keys, values, and their order
            res = (type(res).__name__, list(res.header.items()),
                   [(type(k).__name__, type(v).__name__)
                    for k, v in res.header.items()],
                   res.number_of_variables(), res.to_opb())
        record('OK', mode, argv, res, out.getvalue(), err.getvalue())
    except SystemExit as e:
        record('EXIT', mode, argv, e.code, out.getvalue(), err.getvalue())
    except BaseException as e:  # noqa
        record('EXC', mode, argv, type(e).__name__, str(e),
               type(e.__cause__).__name__, out.getvalue(), err.getvalue())
    # the state of the random stream after the call is observable too
    record(random.random())


formulas = [
    ['php', 4, 3],
    ['randkcnf', 3, 8, 10],
    ['randkcnf', 3, 8, 10, '--plant'],
    ['tseitin', 8, 3],
    ['tseitin', 'random', 'gnp', 6, 0.5, 'addedges', 2],
    ['php', 'glrd', 5, 4, 2],
    ['php', 'glrp', 5, 4, 0.5, 'plantbiclique', 2, 2],
    ['kclique', 3, 'gnp', 6, 0.6, 'plantclique', 3],
    ['kclique', 3, 'gnm', 6, 7, 'splitedges', 2],
    ['op', 4],
    ['and', 2, 1],
]
seed_opts = [
    [], ['--seed', 0], ['-S', 0], ['--seed', 1], ['--seed', -7],
    ['--seed', 2 ** 65 + 3], ['--seed', '0012'], ['--seed=5'], ['-S3'],
    ['--seed', 4, '--seed', 9],
]

for seedopt in seed_opts:
    for formula in formulas:
        for mode in ['output', 'string', 'formula']:
            if not seedopt:
                random.seed(99)
            run(['pbgen'] + seedopt + formula, mode)

# other global options around the seed
for extra in [['-q'], ['-v'], ['--varnames'], ['-of', 'latex'], ['-l'],
              ['-of', 'opb'], ['-q', '-l'], ['-of', 'dimacs'], ['-of', 'xyz'],
              ['-q', '-v']]:
    for seedopt in [[], ['--seed', 0], ['--seed', 31]]:
        for mode in ['output', 'string', 'formula']:
            random.seed(5)
            run(['pbgen'] + extra + seedopt + ['randkcnf', 3, 7, 9], mode)
            random.seed(5)
            run(['pbgen'] + seedopt + extra + ['tseitin', 6, 3], mode)

# error paths
for argv in [
    ['pbgen'],
    ['pbgen', '--seed', 0],
    ['pbgen', '--seed'],
    ['pbgen', '--seed', 'abc', 'php', 3, 2],
    ['pbgen', '--seed', 1.5, 'php', 3, 2],
    ['pbgen', '--seed', '', 'php', 3, 2],
    ['pbgen', '--seed', 3, 'nosuchformula'],
    ['pbgen', '--seed', 3, 'php', 3, 2, '-T', 'shuffle'],
    ['pbgen', '-T', 'shuffle'],
    ['pbgen', '--seed', 3, 'php', 3, 2, '--seed', 4],
    ['pbgen', '--seed', 3, 'tseitin', 5, 3],
    ['pbgen', '--seed', 3, 'tseitin', 'random', 'gnd', 5, 3],
    ['pbgen', '--seed', 3, 'php', 'glrp', 5, 4, 2.5],
    ['pbgen', '--seed', 3, 'php', 'nosuchfile.matrix'],
    ['pbgen', '--seed', 3, '-o', 'nosuchdir/x/y.opb', 'php', 3, 2],
    ['pbgen', '--seed', 3, 'randkcnf', 3, 2, 1],
    ['pbgen', '--seed', 3, 'php', 3, 2, 'c d', '"quoted"'],
]:
    for mode in ['output', 'string', 'formula']:
        random.seed(11)
        run(argv, mode)

# output to a file: format guessed from the extension
tmpdir = tempfile.mkdtemp()
for ext in ['opb', 'tex', 'cnf', 'xyz']:
    for seedopt in [[], ['--seed', 0], ['--seed', 8]]:
        fname = os.path.join(tmpdir, 'out.' + ext)
        random.seed(2)
        # the file name is variable (temporary directory): record a stable tag
        err = io.StringIO()
        out = io.StringIO()
        argv = ['pbgen'] + seedopt + ['-o', fname, 'randkcnf', 3, 6, 7]
        try:
            with contextlib.redirect_stderr(err), contextlib.redirect_stdout(
                    out):
                res = pbgen_cli(argv, mode='output')
            status = ('OK', res)
        except SystemExit as e:
            status = ('EXIT', e.code)
        except BaseException as e:  # noqa
            status = ('EXC', type(e).__name__, str(e).replace(tmpdir, 'TMP'))
        content = None
        if os.path.exists(fname):
            with open(fname) as f:
                content = f.read().replace(tmpdir, 'TMP')
            os.remove(fname)
        record(ext, seedopt, status, content,
               out.getvalue().replace(tmpdir, 'TMP'),
               err.getvalue().replace(tmpdir, 'TMP'))
os.rmdir(tmpdir)

# fresh processes with different hash randomisation
launcher = "import sys; from cnfgen.clitools.pbgen import main; main()"
for hashseed in ['0', '1', '4242']:
    for args in [
        ['--seed', '0', 'tseitin', 'random', 'gnp', '6', '0.5', 'addedges',
         '2'],
        ['kclique', '3', 'gnp', '6', '0.6', 'plantclique', '3'],
        ['--seed', '-3', '-l', 'randkcnf', '3', '6', '7'],
        ['--seed', '3', 'php', '3', '2', '-T', 'shuffle'],
    ]:
        env = dict(os.environ)
        env['PYTHONHASHSEED'] = hashseed
        env['PYTHONWARNINGS'] = 'ignore'
        p = subprocess.run([sys.executable, '-c', launcher] + args,
                           stdout=subprocess.PIPE, stderr=subprocess.PIPE,
                           stdin=subprocess.DEVNULL, env=env, cwd=os.getcwd())
        out = p.stdout.decode('utf-8')
        if '--seed' not in args:
            # unseeded run: only the header is deterministic
            out = [l for l in out.splitlines() if l.startswith('*')]
            out = [l for l in out if '#variable' not in l]
        record(args, p.returncode, out, p.stderr.decode('utf-8'))

print(H.hexdigest())
