"""Equivalence script for t20: literal checking / variable count update
in BaseCNF, CNFLinear and BaseOPB."""
import sys, os, io, copy, random, hashlib, warnings
warnings.simplefilter('ignore')
sys.path.insert(0, os.getcwd())

import networkx as nx
from cnfgen.formula.cnf import CNF
from cnfgen.formula.opb import OPB
from cnfgen.formula.basecnf import BaseCNF
from cnfgen.formula.baseopb import BaseOPB
from cnfgen.formula.linear import CNFLinear
from cnfgen.families.tseitin import TseitinFormula
from cnfgen.transformations.substitutions import XorSubstitution, MajoritySubstitution, LinearSubstitution
from cnfgen.transformations.shuffle import Shuffle

out = []


def rec(*items):
    out.append(repr(items))


def state(F):
    res = [type(F).__name__, F.number_of_variables(), list(F.header.items())]
    res.append([copy.deepcopy(c) for c in F])
    for fmt in ['dimacs', 'opb']:
        buf = io.StringIO()
        try:
            F.to_file(buf, fileformat=fmt, export_header=True)
            res.append(buf.getvalue())
        except BaseException as e:
            res.append((type(e).__name__, str(e)))
    return res


def attempt(tag, F, method, *args, **kwargs):
    saved = copy.deepcopy([a for a in args if isinstance(a, (list, tuple, dict))])
    try:
        r = getattr(F, method)(*args, **kwargs)
        rec(tag, method, 'ok', r)
    except BaseException as e:
        cause = e.__cause__
        rec(tag, method, 'exc', type(e).__name__, str(e),
            type(cause).__name__, str(cause))
    rec(tag, 'args untouched',
        saved == [a for a in args if isinstance(a, (list, tuple, dict))])
    rec(tag, state(F))


def gen(lits):
    for l in lits:
        yield l


literal_lists = [
    [], [1], [-1], [1, 2, 3], [3, -5, 2], [7], [-9, 1], [1, 1], [1, -1], (2, -4),
    [0], [1, 0, 2], [0, 0], [1.5, 2], [2.0, -3.0], ['a'], ['a', 1], [1, 'a'],
    [None], [1, None], [[1], 2], [(1, 2)], [True, False], [True, 3],
    [1000], [1, 2, 3, 4, 5, 6], [-6, 5, -4, 3, -2, 1], 'ab', '', None, 5, {1: 2}, {3, -4},
]

classes = [BaseCNF, CNFLinear, CNF, BaseOPB, OPB]

# 1. add_clause / add_clauses_from / constructor
for cls in classes:
    for k, lits in enumerate(literal_lists):
        for check in [True, False]:
            F = cls()
            attempt((cls.__name__, k, check), F, 'add_clause', lits, check=check)
            if isinstance(lits, (list, tuple)):
                attempt((cls.__name__, k, check, 'gen'), F, 'add_clause', gen(lits), check=check)
            attempt((cls.__name__, k, check, 'again'), F, 'add_clause', [2, -3], check=check)
        F = cls()
        attempt((cls.__name__, k, 'from'), F, 'add_clauses_from', [[1, -2], lits, [4]])
        attempt((cls.__name__, k, 'from-nocheck'), F, 'add_clauses_from', [[1, -2], lits, [4]],
                check=False)
        try:
            G = cls([[1, 2], lits])
            rec(cls.__name__, k, 'ctor', state(G))
        except BaseException as e:
            rec(cls.__name__, k, 'ctor-exc', type(e).__name__, str(e),
                type(e.__cause__).__name__, str(e.__cause__))
    try:
        G = cls([[1, -2], [3]], description='with descr')
        G.update_variable_number(5)
        rec(cls.__name__, 'ctor2', state(G), G.debug())
        G.update_variable_number(2)
        rec(cls.__name__, 'ctor3', state(G))
        G.update_variable_number(-2)
    except BaseException as e:
        rec(cls.__name__, 'ctor2-exc', type(e).__name__, str(e))

# 2. linear constraints and parities
lin_methods = [('add_parity', [(0,), (1,), (2,), ('x',)]),
               ('cardinality_geq', [(-1,), (0,), (1,), (2,), (9,)]),
               ('cardinality_leq', [(-1,), (0,), (1,), (2,), (9,)]),
               ('cardinality_eq', [(-1,), (0,), (1,), (2,), (9,)]),
               ('cardinality_neq', [(-1,), (0,), (1,), (2,), (9,)]),
               ('add_loose_majority', [()]), ('add_loose_minority', [()]),
               ('add_strict_majority', [()]), ('add_strict_minority', [()])]
for cls in [CNFLinear, CNF, BaseOPB, OPB]:
    for k, lits in enumerate(literal_lists):
        if isinstance(lits, (list, tuple)) and len(lits) > 5:
            continue
        for method, argsets in lin_methods:
            for extra in argsets:
                for check in [True, False]:
                    F = cls()
                    F.add_clause([1, -2])
                    attempt((cls.__name__, k, extra, check), F, method, lits, *extra, check=check)
                    if isinstance(lits, list) and check:
                        attempt((cls.__name__, k, extra, check, 'gen'), F, method, gen(lits),
                                *extra, check=check)
for cls in [CNFLinear, CNF]:
    for k, lits in enumerate(literal_lists):
        for op in ['<=', '>=', '<', '>', '==', '!=', '=', 'foo', None]:
            for C in [-1, 0, 1, 2, 3, 10]:
                F = cls()
                attempt((cls.__name__, k, op, C), F, 'add_linear', lits, op, C)
                attempt((cls.__name__, k, op, C, 'nocheck'), F, 'add_linear', lits, op, C,
                        check=False)

# 3. OPB constraints
constraints = [
    [1, 2, '>=', 1], [1, -2, 3, '==', 2], [(2, 1), (3, -2), '>=', 4], [(2, 1), (3, -2), '<=', 4],
    [(2, 1), (-3, 2), '>=', 1], [(2, 1), (3, 2), '<', 1], [(2, 1), (3, 2), '>', 1],
    [(2, 0), '>=', 1], [0, 1, '>=', 1], [(1, 'a'), '>=', 1], ['a', '>=', 1], [1, 2, '!=', 1],
    [1, 2, 'foo', 1], [1, 2, '>='], ['>=', 1], [], [1, 2], [(1, 2, 3), '>=', 1],
    [(1.5, 2), '>=', 1], [(1, 2.5), '>=', 1], [1, 2, '>=', 'x'], [1, 2, '>=', None],
    [(1, 7), (1, -12), '==', 0], None, 5, 'abc',
]
for cls in [BaseOPB, OPB]:
    for k, cons in enumerate(constraints):
        for check in [True, False]:
            F = cls()
            attempt((cls.__name__, 'cons', k, check), F, 'add_constraint', cons, check=check)
            attempt((cls.__name__, 'cons', k, check, 'again'), F, 'add_constraint',
                    [4, -5, '>=', 1], check=check)
        F = cls()
        attempt((cls.__name__, 'consfrom', k), F, 'add_constraints_from',
                [[1, 2, '>=', 1], cons, [3, '==', 1]])
        try:
            G = cls([[1, 2, '>=', 1], cons])
            rec(cls.__name__, 'cons-ctor', k, state(G))
        except BaseException as e:
            rec(cls.__name__, 'cons-ctor-exc', k, type(e).__name__, str(e),
                type(e.__cause__).__name__, str(e.__cause__))

# 4. formulas built through these paths, charges untouched, provenance
G = nx.cycle_graph(5)
for fcls in [CNF, OPB]:
    for charges in [None, [1, 0, 0, 0, 0], [True, True, False], [0, 0, 0, 0, 0], [1] * 7, []]:
        saved = copy.deepcopy(charges)
        edges = sorted(G.edges())
        try:
            T = TseitinFormula(G, charges, formula_class=fcls)
            rec('tseitin', fcls.__name__, charges, state(T))
        except BaseException as e:
            rec('tseitin-exc', fcls.__name__, charges, type(e).__name__, str(e))
        rec('tseitin args', saved == charges, edges == sorted(G.edges()))

F = CNF([[1, -2, 3], [-1], [2, 4]], description='chain base')
before = state(F)
random.seed(8)
H = Shuffle(LinearSubstitution(XorSubstitution(F, 2), 2, '!=', 1))
rec('chain-maj', state(Shuffle(MajoritySubstitution(F, 3))), before == state(F))
rec('chain', state(H), before == state(F))

print(hashlib.sha256("\n".join(out).encode('utf-8')).hexdigest())
