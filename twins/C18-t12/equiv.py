"""Equivalence check for cnfgen.clitools.cnfgen.parse_command_line.

Runs the `cnfgen` entry point (and the splitting function directly) on
many argument vectors with zero, one and several '-T' chunks, well
formed and malformed, and digests everything observable.
"""
import sys
import io
import os
import hashlib
import warnings
import tempfile
import random

warnings.simplefilter('ignore')
sys.path.insert(0, os.getcwd())

import importlib
cg = importlib.import_module("cnfgen.clitools.cnfgen")
import cnfgen.clitools.msg as msgmod
from cnfgen.info import info

out = []


def rec(*items):
    out.append(repr(items))


class Buf(io.StringIO):
    def close(self):
        pass

    def isatty(self):
        return False


def run_main(argv):
    msgmod._prefix = ''
    random.seed(20240518)
    saved = sys.argv, sys.stdout, sys.stderr, sys.stdin
    so, se = Buf(), Buf()
    sys.argv, sys.stdout, sys.stderr, sys.stdin = list(argv), so, se, Buf('')
    code = 0
    exc = None
    try:
        try:
            cg.main()
        except SystemExit as e:
            code = e.code
        except BaseException as e:  # unhandled internal exception
            exc = (type(e).__name__, str(e))
    finally:
        sys.argv, sys.stdout, sys.stderr, sys.stdin = saved
    rec('main', argv, code, exc, so.getvalue(), se.getvalue())


def run_cli(argv, mode='string'):
    msgmod._prefix = ''
    random.seed(20240518)
    saved = sys.stdout, sys.stderr, sys.stdin
    so, se = Buf(), Buf()
    sys.stdout, sys.stderr, sys.stdin = so, se, Buf('')
    try:
        try:
            res = cg.cli(list(argv), mode=mode)
            if mode == 'formula':
                res = (res.number_of_variables(), list(res.clauses()))
            rec('cli', argv, 'ok', res, so.getvalue(), se.getvalue())
        except SystemExit as e:
            rec('cli', argv, 'exit', e.code, so.getvalue(), se.getvalue())
        except BaseException as e:
            rec('cli', argv, 'exc', type(e).__name__, str(e), so.getvalue(),
                se.getvalue())
    finally:
        sys.stdout, sys.stderr, sys.stdin = saved


class FakeParser:
    """Records what it is asked to parse"""
    def __init__(self, tag, log):
        self.tag = tag
        self.log = log

    def parse_args(self, cmd):
        self.log.append((self.tag, list(cmd)))
        return (self.tag, tuple(cmd))


def run_split(argv):
    log = []
    try:
        res = cg.parse_command_line(argv, FakeParser('F', log),
                                    FakeParser('T', log))
        rec('split', argv, res, log)
    except BaseException as e:
        rec('split', argv, 'exc', type(e).__name__, str(e), log)


# direct calls of the splitting function
splits = [
    [],
    ['cnfgen'],
    ['-T'],
    ['cnfgen', '-T'],
    ['cnfgen', '-T', '-T'],
    ['-T', '-T', '-T'],
    ['cnfgen', 'php', '3', '2'],
    ['cnfgen', 'php', '3', '2', '-T'],
    ['cnfgen', 'php', '3', '2', '-T', 'xor', '2'],
    ['cnfgen', 'php', '3', '2', '-T', 'xor', '2', '-T', 'shuffle'],
    ['cnfgen', '-T', 'xor', '2', '-T', '-T', 'shuffle', '-T'],
    ['cnfgen', '-t', 'xor', '-TT', '--T', 'T', '-T'],
    ('cnfgen', 'op', '4', '-T', 'or', '2'),
]
for a in splits:
    run_split(a)

# work inside a scratch directory, with relative file names only, so
# that no random path name ends up in the output
startdir = os.getcwd()
tmpdir = tempfile.mkdtemp()
os.chdir(tmpdir)
good = 'g.cnf'
with open(good, 'w') as f:
    f.write('c hi\np cnf 3 2\n1 -2 0\n2 3 0\n')

# complete command lines
cmds = [
    ['cnfgen'],
    ['cnfgen', '-q'],
    ['cnfgen', '-T'],
    ['cnfgen', '-T', 'xor', '2'],
    ['cnfgen', '-q', 'php', '3', '2'],
    ['cnfgen', 'php', '3', '2'],
    ['cnfgen', '-q', 'php', '3', '2', '-T'],
    ['cnfgen', '-q', 'php', '3', '2', '-T', '-T'],
    ['cnfgen', '-q', 'php', '3', '2', '-T', 'xor'],
    ['cnfgen', '-q', 'php', '3', '2', '-T', 'xor', '2'],
    ['cnfgen', '-q', 'php', '3', '2', '-T', 'xor', '0'],
    ['cnfgen', '-q', 'php', '3', '2', '-T', 'xor', '-1'],
    ['cnfgen', '-q', 'php', '3', '2', '-T', 'xor', 'two'],
    ['cnfgen', '-q', 'php', '3', '2', '-T', 'xor', '2', '3'],
    ['cnfgen', '-q', 'php', '3', '2', '-T', 'nosuch', '2'],
    ['cnfgen', '-q', 'php', '3', '2', '-T', 'xor', '2', '-T', 'or', '2'],
    ['cnfgen', '-q', 'php', '3', '2', '-T', 'xor', '2', '-T'],
    ['cnfgen', '-q', 'php', '3', '2', '-T', '-T', 'xor', '2'],
    ['cnfgen', '-q', 'php', '3', '2', '-T', 'none', '-T', 'flip', '-T', 'eq', '2'],
    ['cnfgen', '-q', '-S', '7', 'php', '3', '2', '-T', 'shuffle'],
    ['cnfgen', '-q', '-S', '7', 'php', '3', '2', '-T', 'shuffle', '-T', 'shuffle'],
    ['cnfgen', '-S', '7', 'randkcnf', '3', '6', '5', '-T', 'shuffle', '-T', 'lift', '2'],
    ['cnfgen', '-q', 'php', '3', '2', '-T', 'xor', '-h'],
    ['cnfgen', '-q', 'php', '3', '2', '-T', '-h'],
    ['cnfgen', '-q', 'php', '-h', '-T', 'xor', '2'],
    ['cnfgen', '-q', 'php', '3', '-T', 'xor', '2'],
    ['cnfgen', '-q', 'php', '3', '2', '1', '0', '-T', 'xor', '2'],
    ['cnfgen', '-q', 'php', '-3', '2', '-T', 'xor', '2'],
    ['cnfgen', '-q', 'nosuch', '3', '2', '-T', 'xor', '2'],
    ['cnfgen', '-q', '--nosuch', 'php', '3', '2'],
    ['cnfgen', '-q', '-of', 'opb', 'php', '3', '2', '-T', 'maj', '3'],
    ['cnfgen', '-q', '-of', 'latex', 'op', '3', '-T', 'or', '2'],
    ['cnfgen', '-of', 'latex', 'op', '3', '-T'],
    ['cnfgen', '-of', 'opb', 'op', '3', '-T', 'xor', 'x'],
    ['cnfgen', '-of', 'nosuch', 'op', '3', '-T', 'xor', '2'],
    ['cnfgen', '-q', 'op', 3, '-T', 'xor', 2],
    ['cnfgen', '-q', 'dimacs', good, '-T', 'xor', '2'],
    ['cnfgen', '-l', 'dimacs', good, '-T', 'flip'],
    ['cnfgen', '-q', 'dimacs', 'missing.cnf', '-T', 'flip'],
    ['cnfgen', '-q', 'kclique', '2', 'gnp', '4', '.5', '-T', 'xor', '2'],
    ['cnfgen', '-q', '-S', '3', 'kclique', '2', 'gnp', '4', '.5', '-T', 'xor', '2'],
    ['cnfgen', '-q', 'kclique', '2', 'gnp', '4', '1.5', '-T', 'xor', '2'],
    ['cnfgen', '-q', 'kclique', '2', 'gnp', '4', '.5', '-T'],
    ['cnfgen', '-q', 'php', '3', '2', '-T', 'exact', '3', '1', '-T', 'atleast', '2', '1'],
    ['cnfgen', '-q', 'php', '3', '2', '-T', 'exact', '3', '9'],
    ['cnfgen', '-q', 'php', '3', '2', '-T', 'xorcomp', '3', '2', '-S', '1'],
    ['cnfgen', '-q', '-S', '1', 'php', '3', '2', '-T', 'xorcomp', '3', '2'],
    ['cnfgen', '-q', '-S', '1', 'php', '3', '2', '-T', 'majcomp', '3', '7'],
]
for c in cmds:
    run_main(c)
for c in cmds[:30]:
    run_cli(c, 'string')
for c in cmds[4:22]:
    run_cli(c, 'formula')

text = "\n".join(out)
assert tmpdir not in text
# the version comes from `git describe`: keep it out of the digest
text = text.replace('CNFgen ({})'.format(info['version']), 'CNFgen (<VER>)')
import shutil
os.chdir(startdir)
shutil.rmtree(tmpdir, ignore_errors=True)
if os.environ.get("EQUIV_DUMP"):
    sys.stderr.write(text)
print(hashlib.sha256(text.encode('utf-8')).hexdigest())
