"""Equivalence harness for ShuffleCmd (the '-T shuffle' command line helper)
in cnfgen/clihelpers/transformation_helpers.py.

Run as: cd <checkout> && /venv/bin/python equiv.py
Prints one SHA256 digest of everything observable.
"""
import sys, os, io, hashlib, random, importlib, itertools, warnings, argparse
warnings.simplefilter('ignore')
sys.path.insert(0, os.getcwd())

from cnfgen.formula.cnf import CNF
th = importlib.import_module("cnfgen.clihelpers.transformation_helpers")
cg = importlib.import_module("cnfgen.clitools.cnfgen")
from cnfgen.clitools.cmdline import CLIParser, CLIError
import cnfgen.clitools.msg as m

ShuffleCmd = th.ShuffleCmd
LOG = []


def rec(*items):
    LOG.append(repr(items))


def dump(F):
    return (type(F).__name__, F.number_of_variables(), F.number_of_clauses(),
            [tuple(c) for c in F], sorted((str(k), str(v)) for k, v in F.header.items()))


def make_formulas():
    rnd = random.Random(2024)
    res = [CNF(), CNF([[]]), CNF([[1]]), CNF([[1], [-1]]), CNF([[], [], [2, -2]]),
           CNF([[1, 2, -3], [-2, 4], [3], [-1, -4, 2, 3]]),
           CNF([[1, 1, -1], [5]])]
    F = CNF([[1, -2]])
    F.update_variable_number(7)
    res.append(F)
    G = CNF([[3, -1], [2]], description='named formula')
    G.header['transformation 1'] = 'something'
    G.header['transformation 2'] = 'something else'
    res.append(G)
    H = CNF([[1, 2]])
    del H.header['description']
    res.append(H)
    for _ in range(12):
        n = rnd.randint(1, 9)
        mm = rnd.randint(0, 12)
        cls = []
        for _ in range(mm):
            w = rnd.randint(0, min(n, 5))
            vs = rnd.sample(range(1, n + 1), w)
            cls.append([v * rnd.choice([-1, 1]) for v in vs])
        K = CNF(cls)
        K.update_variable_number(n)
        res.append(K)
    return res


FORMULAS = make_formulas()

# ------------------------------------------------------------ 1. transform_cnf directly
BOOLS = list(itertools.product([False, True], repeat=3))
ODD = [(0, 1, 2), ('', 'x', None), ([], [0], ()), (None, None, None), (1.0, 0.0, -1)]
for k, F in enumerate(FORMULAS):
    before = dump(F)
    for (p, v, c) in BOOLS + ODD:
        for seed in (0, 1, 'abc', 99):
            random.seed(seed)
            ns = argparse.Namespace(no_polarity_flips=p,
                                    no_variables_permutation=v,
                                    no_clauses_permutation=c)
            try:
                G = ShuffleCmd.transform_cnf(F, ns)
                out = ('ok', dump(G), G is F)
            except Exception as e:
                out = ('exc', type(e).__name__, str(e))
            rec('direct', k, (p, v, c), seed, out, random.random(), random.getrandbits(64))
    rec('untouched', k, dump(F) == before)

# missing attributes: which one is complained about first
class Spy:
    def __init__(self, **kw):
        object.__setattr__(self, '_kw', kw)
        object.__setattr__(self, 'log', [])

    def __getattr__(self, name):
        self.log.append(name)
        try:
            return self._kw[name]
        except KeyError:
            raise AttributeError("Spy has no " + name)


NAMES = ['no_polarity_flips', 'no_variables_permutation', 'no_clauses_permutation']
for r in range(4):
    for present in itertools.combinations(NAMES, r):
        for val in (False, True):
            spy = Spy(**{n: val for n in present})
            random.seed(5)
            try:
                G = ShuffleCmd.transform_cnf(FORMULAS[5], spy)
                out = ('ok', dump(G))
            except Exception as e:
                out = ('exc', type(e).__name__, str(e))
            rec('spy', present, val, out, spy.log, random.random())

# a non CNF argument
for bad in (None, 3, 'formula', [[1, 2]]):
    random.seed(1)
    try:
        out = ('ok', dump(ShuffleCmd.transform_cnf(bad, argparse.Namespace(
            no_polarity_flips=True, no_variables_permutation=False, no_clauses_permutation=True))))
    except Exception as e:
        out = ('exc', type(e).__name__, str(e))
    rec('badF', repr(bad), out, random.random())

# ------------------------------------------------------------ 2. parser set up by the helper
rec('name', ShuffleCmd.name, ShuffleCmd.__doc__, issubclass(ShuffleCmd, th.TransformationHelper))
parser = CLIParser(prog='cnfgen <formula> <args> -T shuffle')
ShuffleCmd.setup_command_line(parser)
rec('usage', parser.usage, parser.description, parser.format_help(), parser.format_usage())
for cmd in [[], ['-p'], ['-v'], ['-c'], ['-pvc'], ['-p', '-p'], ['--no-polarity-flips'],
            ['--no-variables-permutation', '-c'], ['--no-clauses-permutation'],
            ['--no-p'], ['--no'], ['-x'], ['extra'], ['-p', '3']]:
    try:
        ns = parser.parse_args(cmd)
        random.seed(11)
        out = ('ok', sorted(vars(ns).items()), dump(ShuffleCmd.transform_cnf(FORMULAS[5], ns)))
    except SystemExit as e:
        out = ('SystemExit', e.code)
    except Exception as e:
        out = ('exc', type(e).__name__, str(e))
    rec('parse', cmd, out)

# ------------------------------------------------------------ 3. through cnfgen -T shuffle
def run_cli(argv, mode='string'):
    old = (sys.stdout, sys.stderr, sys.stdin)
    sys.stdout, sys.stderr, sys.stdin = io.StringIO(), io.StringIO(), io.StringIO('')
    try:
        try:
            r = cg.cli(argv, mode=mode)
            if mode == 'formula':
                r = dump(r)
            out = ('ok', r)
        except SystemExit as e:
            out = ('SystemExit', e.code)
        except Exception as e:
            out = ('exc', type(e).__name__, str(e))
        so, se = sys.stdout.getvalue(), sys.stderr.getvalue()
    finally:
        sys.stdout, sys.stderr, sys.stdin = old
    rec('cli', argv, mode, out, so, se)
    m._prefix = ''


SW = [[], ['-p'], ['-v'], ['-c'], ['-p', '-v'], ['-p', '-c'], ['-v', '-c'], ['-p', '-v', '-c']]
for f in [['php', '3', '2'], ['and', '0', '0'], ['or', '0', '0'], ['op', '3'],
          ['randkcnf', '3', '5', '7']]:
    for sw in SW:
        for seed in (0, 3):
            run_cli(['cnfgen', '-S', seed] + f + ['-T', 'shuffle'] + sw, mode='formula')
    run_cli(['cnfgen', '-q', '-S', 8] + f + ['-T', 'shuffle', '-c', '-T', 'shuffle', '-p'])
    run_cli(['cnfgen'] + f + ['-T', 'shuffle', '-pvc'])
for argv in [['cnfgen', 'php', '3', '2', '-T', 'shuffle', '-h'],
             ['cnfgen', 'php', '3', '2', '-T', 'shuffle', '--bogus'],
             ['cnfgen', 'php', '3', '2', '-T', 'shuffle', '7']]:
    run_cli(argv)

h = hashlib.sha256()
for line in LOG:
    h.update(line.encode('utf-8', errors='backslashreplace'))
    h.update(b'\n')
print(h.hexdigest())
