"""Equivalence script for the refactoring of cnfgen.clitools.cnfshuffle.cli
(the cnfshuffle command line: read DIMACS, reshuffle, write DIMACS)."""
import sys, os, io, hashlib, random, tempfile, subprocess, itertools
sys.path.insert(0, os.getcwd())

from cnfgen.clitools.cnfshuffle import cli
from cnfgen.formula.cnf import CNF
from cnfgen.families.pigeonhole import PigeonholePrinciple
from cnfgen.families.ordering import OrderingPrinciple

out = []
TMP = [None]
def rec(*a):
    s = repr(a)
    if TMP[0]:
        s = s.replace(TMP[0], '<TMP>')
    out.append(s)

inputs = {}
inputs['empty'] = "p cnf 0 0\n"
inputs['unused'] = "c comment\np cnf 5 0\n"
inputs['emptycl'] = "p cnf 3 2\n0\n1 -3 0\n"
inputs['small'] = "c hi\np cnf 4 3\n1 -2 0\n2 3 -4 0\n-1 0\n"
inputs['multiline'] = "p cnf 4 2\n1\n-2\n0 3 4\n0\n"
F = PigeonholePrinciple(4, 3)
buf = io.StringIO(); F.to_file(buf, export_varnames=True); inputs['php'] = buf.getvalue()
F = OrderingPrinciple(4)
buf = io.StringIO(); F.to_file(buf, export_header=False); inputs['op'] = buf.getvalue()
# broken inputs
inputs['nospec'] = "1 2 0\n"
inputs['nothing'] = ""
inputs['twospec'] = "p cnf 2 1\np cnf 2 1\n1 2 0\n"
inputs['badspec'] = "p cnf x 1\n1 0\n"
inputs['negspec'] = "p cnf -1 1\n"
inputs['outofrange'] = "p cnf 2 1\n1 3 0\n"
inputs['badlit'] = "p cnf 2 1\n1 a 0\n"
inputs['truncated'] = "p cnf 3 2\n1 2 0\n-3 1"
inputs['toofew'] = "p cnf 3 3\n1 2 0\n-3 1 0\n"
inputs['toomany'] = "p cnf 3 1\n1 2 0\n-3 1 0\n"

tmpdir = tempfile.mkdtemp()
TMP[0] = tmpdir
paths = {}
for k, v in inputs.items():
    paths[k] = os.path.join(tmpdir, k + '.cnf')
    with open(paths[k], 'w', encoding='utf-8') as fh:
        fh.write(v)

flagsets = []
for r in range(4):
    for comb in itertools.combinations(['-p', '-v', '-c'], r):
        flagsets.append(list(comb))
flagsets.append(['--no-polarity-flips', '--no-clauses-permutation'])
flagsets.append(['--no-variables-permutation'])

def run(argv, mode, stdin_text=None, preseed=None):
    old_out, old_in = sys.stdout, sys.stdin
    sys.stdout = io.StringIO()
    if stdin_text is not None:
        sys.stdin = io.StringIO(stdin_text)
    if preseed is not None:
        random.seed(preseed)
    try:
        res = cli(argv, mode=mode)
        captured = sys.stdout.getvalue()
        if isinstance(res, CNF):
            res = ('CNF', res.number_of_variables(), list(res), list(res.header.items()))
        rec('ok', argv, mode, res, captured, random.random())
    except BaseException as e:
        rec('exc', argv, mode, type(e).__name__, str(e), sys.stdout.getvalue())
    finally:
        sys.stdout, sys.stdin = old_out, old_in

try:
    for name in inputs:
        for fl in flagsets:
            for seed in (['-S', '7'], ['--seed', 'abc'], ['-S', 12], []):
                for mode in ('string', 'formula', 'output'):
                    argv = ['cnfshuffle'] + seed + fl + ['-i', paths[name]]
                    run(argv, mode, preseed=99)
        # quiet flag, output to file, input from stdin
        run(['cnfshuffle', '-q', '-S', '1', '-i', paths[name]], 'output')
        run(['cnfshuffle', '-q', '-S', '1', '-i', paths[name]], 'string')
        opath = os.path.join(tmpdir, 'out_' + name)
        run(['cnfshuffle', '-S', '3', '-i', paths[name], '-o', opath], 'output')
        if os.path.exists(opath):
            with open(opath) as fh:
                rec('outfile', name, fh.read())
        run(['cnfshuffle', '-S', '5'], 'string', stdin_text=inputs[name])
        run(['/usr/local/bin/shuf', '-S', '5', '-i', '-'], 'output', stdin_text=inputs[name])
        run(['cnfshuffle'], 'anything-else', stdin_text=inputs[name], preseed=4)

    # command line errors
    run(['cnfshuffle', '--bogus'], 'string', stdin_text=inputs['small'])
    run(['cnfshuffle', '-i', os.path.join(tmpdir, 'missing.cnf')], 'string')
    run(['cnfshuffle', '-S'], 'string', stdin_text=inputs['small'])
    run(['cnfshuffle', 'extra'], 'string', stdin_text=inputs['small'])
    run(['cnfshuffle', '-h'], 'string', stdin_text=inputs['small'])
    run(['cnfshuffle', '-S', ''], 'string', stdin_text=inputs['small'])
    run(['cnfshuffle', '-S', '0'], 'string', stdin_text=inputs['small'])

    # the real entry point, in a subprocess: exit codes and streams
    code = "import sys; sys.argv[0]='cnfshuffle'; from cnfgen.clitools.cnfshuffle import main; main()"
    for name in ['small', 'emptycl', 'php', 'nospec', 'outofrange', 'truncated', 'toofew', 'nothing']:
        for extra in (['-S', '11'], ['-S', '11', '-q', '-p', '-v', '-c']):
            p = subprocess.run([sys.executable, '-W', 'ignore', '-c', code] + extra,
                               input=inputs[name], capture_output=True, text=True,
                               cwd=os.getcwd())
            rec('proc', name, extra, p.returncode, p.stdout, p.stderr)
    p = subprocess.run([sys.executable, '-W', 'ignore', '-c', code, '--nonsense'],
                       input='', capture_output=True, text=True, cwd=os.getcwd())
    rec('proc-cli', p.returncode, p.stdout, p.stderr)
    p = subprocess.run([sys.executable, '-W', 'ignore', '-c', code, '-i', os.path.join(tmpdir, 'nope')],
                       input='', capture_output=True, text=True, cwd=os.getcwd())
    rec('proc-io', p.returncode, p.stdout, p.stderr)
finally:
    for f in os.listdir(tmpdir):
        os.remove(os.path.join(tmpdir, f))
    os.rmdir(tmpdir)

print(hashlib.sha256("\n".join(out).encode('utf-8', 'backslashreplace')).hexdigest())
