"""Equivalence script for t19: parameter validation in Shuffle."""
import sys, os, io, random, hashlib, itertools, warnings
warnings.simplefilter('ignore')
sys.path.insert(0, os.getcwd())

from cnfgen.formula.cnf import CNF
from cnfgen.transformations.shuffle import Shuffle
from cnfgen.transformations.substitutions import XorSubstitution, FlipPolarity
from cnfgen.families.pigeonhole import PigeonholePrinciple
from cnfgen.clitools.cnfgen import cli as cnfgen_cli
from cnfgen.clitools.cnfshuffle import cli as shuffle_cli

out = []


def rec(*items):
    out.append(repr(items))


def snapshot(F):
    buf = io.StringIO()
    F.to_file(buf, fileformat='dimacs', export_header=True, export_varnames=True)
    return (list(F.header.items()), F.number_of_variables(),
            [list(c) for c in F], list(F.all_variable_labels()), buf.getvalue())


def formulas():
    yield 'empty', CNF()
    yield 'emptyclause', CNF([[]])
    yield 'unit', CNF([[1]])
    yield 'small', CNF([[1, -2], [2, 3], [-1, -3], []], description='small one')
    F = CNF([[1, 2, -3], [-2, 4], [3], [1, -4, 2]])
    F.update_variable_number(6)
    del F.header['description']
    F.header['transformation 1'] = 'fake'
    F.header['transformation 3'] = 'gap'
    yield 'nodesc', F
    yield 'php', PigeonholePrinciple(3, 2)
    yield 'xorphp', XorSubstitution(PigeonholePrinciple(2, 2), 2)


class Seq:
    """Sequence which is not a list"""
    def __init__(self, data):
        self.data = list(data)

    def __len__(self):
        return len(self.data)

    def __getitem__(self, i):
        return self.data[i]

    def __iter__(self):
        return iter(self.data)

    def __eq__(self, other):
        return False

    __hash__ = None


def try_shuffle(tag, F, *args, **kwargs):
    before = snapshot(F)
    random.seed(2024)
    try:
        G = Shuffle(F, *args, **kwargs)
        rec(tag, 'ok', snapshot(G), G is F)
    except BaseException as e:
        rec(tag, 'exc', type(e).__name__, str(e))
    rec(tag, 'input untouched', before == snapshot(F), random.random())


for name, F in formulas():
    N = F.number_of_variables()
    M = F.number_of_clauses()
    # string modes
    for p, v, c in itertools.product(['fixed', 'shuffle'], repeat=3):
        try_shuffle((name, p, v, c), F, p, v, c)
    try_shuffle((name, 'defaults'), F)
    try_shuffle((name, 'badstrings'), F, 'foo', 'fixed', 'fixed')
    try_shuffle((name, 'badstrings2'), F, 'fixed', 'bar', 'fixed')
    try_shuffle((name, 'badstrings3'), F, 'fixed', 'fixed', 'baz')
    try_shuffle((name, 'badstrN'), F, 'x' * N, 'y' * N, 'z' * M)
    try_shuffle((name, 'None'), F, None, None, None)
    try_shuffle((name, 'ints'), F, 1, 2, 3)

    rnd = random.Random(name)
    # polarity flips
    pols = [[1] * N, [-1] * N, [rnd.choice([-1, 1]) for _ in range(N)],
            tuple(rnd.choice([-1, 1]) for _ in range(N)),
            [1.0] * N, [-1.0, 1] * (N // 2) + [1] * (N % 2),
            [1] * (N + 1), [1] * max(N - 1, 0), [], [0] * N, [2] + [1] * max(N - 1, 0),
            [1] * max(N - 1, 0) + [-3], ['a'] * N, [None] * N,
            {i: 1 for i in range(N)}, {i + 1: 1 for i in range(N)},
            Seq([-1] * N), Seq([1] * N + [5]), [True] * N, [1j] * N]
    for k, pol in enumerate(pols):
        copy_pol = repr(pol) if not isinstance(pol, Seq) else repr(pol.data)
        try_shuffle((name, 'pol', k), F, pol, 'fixed', 'fixed')
        try_shuffle((name, 'pol-kw', k), F, polarity_flips=pol)
        rec('pol arg untouched', copy_pol == (repr(pol) if not isinstance(pol, Seq) else repr(pol.data)))
    # variable permutations
    ident = list(range(1, N + 1))
    perm = ident[:]
    rnd.shuffle(perm)
    vps = [ident, ident[::-1], perm, tuple(perm), range(1, N + 1), [float(x) for x in perm],
           list(range(N)), list(range(2, N + 2)), ident + [N + 1], ident[:-1], [],
           [1] * N, ident[:-1] + [N + 1] if N else [0], [-x for x in ident],
           ['a'] * N, [None] * N, ident[:-1] + ['z'] if N else ['z'],
           {i + 1: i + 1 for i in range(N)}, {i: i + 1 for i in range(N)},
           Seq(perm), Seq(perm + [1]), [x + 0.5 for x in ident]]
    for k, vp in enumerate(vps):
        copy_vp = repr(vp) if not isinstance(vp, Seq) else repr(vp.data)
        try_shuffle((name, 'vp', k), F, 'fixed', vp, 'fixed')
        try_shuffle((name, 'vp-kw', k), F, variables_permutation=vp)
        rec('vp arg untouched', copy_vp == (repr(vp) if not isinstance(vp, Seq) else repr(vp.data)))
    # clause permutations
    cident = list(range(M))
    cperm = cident[:]
    rnd.shuffle(cperm)
    cps = [cident, cident[::-1], cperm, tuple(cperm), range(M), [float(x) for x in cperm],
           list(range(1, M + 1)), cident + [M], cident[:-1], [], [0] * M,
           [-x for x in cident], ['a'] * M, [None] * M, cident[:-1] + ['z'] if M else ['z'],
           {i: i for i in range(M)}, Seq(cperm), Seq(cperm + [0]),
           [x + 0.5 for x in cident]]
    for k, cp in enumerate(cps):
        copy_cp = repr(cp) if not isinstance(cp, Seq) else repr(cp.data)
        try_shuffle((name, 'cp', k), F, 'fixed', 'fixed', cp)
        try_shuffle((name, 'cp-kw', k), F, clauses_permutation=cp)
        rec('cp arg untouched', copy_cp == (repr(cp) if not isinstance(cp, Seq) else repr(cp.data)))
    # everything explicit
    try_shuffle((name, 'all'), F, pols[2], perm, cperm)
    try_shuffle((name, 'all-seq'), F, Seq(pols[2]), Seq(perm), Seq(cperm))
    # first error wins
    try_shuffle((name, 'errs'), F, [0] * N, [0] * N, [-1] * M)
    try_shuffle((name, 'errs2'), F, [1] * N, [0] * N, [-1] * M)

# chains
F = PigeonholePrinciple(3, 2)
random.seed(5)
G = Shuffle(Shuffle(FlipPolarity(Shuffle(F)), 'fixed', 'shuffle', 'fixed'))
rec('chain', snapshot(G))

# command lines
for argv in [['php', 3, 2, '-T', 'shuffle'], ['php', 3, 2, '-T', 'shuffle', '-p'],
             ['php', 3, 2, '-T', 'shuffle', '-v', '-c'], ['php', 3, 2, '-T', 'shuffle', '-pvc'],
             ['--seed', 11, 'op', 3, '-T', 'shuffle', '-T', 'xor', 2, '-T', 'shuffle', '-c'],
             ['and', 0, 0, '-T', 'shuffle'], ['php', 3, 2, '-T', 'shuffle', 'extra']]:
    random.seed(77)
    try:
        rec('cnfgen', argv, snapshot(cnfgen_cli(['cnfgen'] + argv, mode='formula')))
    except BaseException as e:
        rec('cnfgen-exc', argv, type(e).__name__, str(e))

dimacs = "c comment\np cnf 5 4\n1 -2 0\n3 4 -5 0\n-1 0\n2 5 0\n"
import tempfile
with tempfile.TemporaryDirectory() as tmpdir:
    fname = os.path.join(tmpdir, 'input.cnf')
    with open(fname, 'w') as tf:
        tf.write(dimacs)

    def rec_nodir(*items):
        out.append(repr(items).replace(tmpdir, '<TMP>'))

    for opts in [[], ['-p'], ['-v'], ['-c'], ['-p', '-v', '-c'], ['-q'], ['-S', '42'], ['-S', 'abc', '-c']]:
        random.seed(31)
        try:
            rec_nodir('cnfshuffle', opts, shuffle_cli(['cnfshuffle', '-i', fname] + opts, mode='string'))
            random.seed(31)
            rec_nodir('cnfshuffle-f', opts,
                      snapshot(shuffle_cli(['cnfshuffle', '-i', fname] + opts, mode='formula')))
        except BaseException as e:
            rec_nodir('cnfshuffle-exc', opts, type(e).__name__, str(e))

print(hashlib.sha256("\n".join(out).encode('utf-8')).hexdigest())
