"""Equivalence check for BipartiteGraph.from_networkx (and the gml/dot bipartite readers built on it)."""
import hashlib
import io
import random
import sys
import warnings
import contextlib

warnings.simplefilter('ignore')
sys.path.insert(0, '.')
_real_stdout = sys.stdout
_captured = io.StringIO()
sys.stdout = _captured   # pydot prints parse errors on stdout: they are part of the digest
sys.stderr = _captured
import networkx

from cnfgen.graphs import BipartiteGraph, readGraph, writeGraph, has_dot_library
from cnfgen.graphs import bipartite_random, bipartite_random_left_regular

out = []


def rec(*items):
    out.append(repr(items))


def describe(B):
    return (type(B).__name__, B.left_order(), B.right_order(), B.number_of_vertices(),
            B.number_of_edges(), list(B.edges()), B.name,
            [B.right_neighbors(u) for u in range(1, B.left_order() + 1)],
            [B.left_neighbors(v) for v in range(1, B.right_order() + 1)])


def attempt(label, fn, *args, **kw):
    try:
        res = fn(*args, **kw)
        rec(label, 'OK', describe(res))
    except Exception as e:  # record everything observable
        rec(label, 'EXC', type(e).__name__, str(e))


rng = random.Random(140018)

# 1. hand made networkx graphs
def mk(nodes, edges, cls=networkx.Graph, name=None):
    G = cls()
    for v, attr in nodes:
        if attr is None:
            G.add_node(v)
        else:
            G.add_node(v, bipartite=attr)
    G.add_edges_from(edges)
    if name is not None:
        G.name = name
    return G


cases = []
cases.append(mk([], []))
cases.append(mk([(1, 0)], []))
cases.append(mk([(1, 1)], []))
cases.append(mk([(1, 0), (2, 1)], [(1, 2)]))
cases.append(mk([(1, 0), (2, 1)], [(2, 1)]))
cases.append(mk([(1, 1), (2, 0)], [(1, 2)]))
cases.append(mk([(1, '0'), (2, '1'), (3, '1')], [(1, 2), (3, 1)], name='strings'))
cases.append(mk([(1, True), (2, False), (3, 0.0), (4, 1.0)], [(1, 2), (3, 4), (1, 3)]))
cases.append(mk([(1, 0), (2, 0)], [(1, 2)]))
cases.append(mk([(1, 1), (2, 1)], [(1, 2)]))
cases.append(mk([(1, 0), (2, None)], [(1, 2)]))
cases.append(mk([(1, 0), (2, 2)], [(1, 2)]))
cases.append(mk([(1, 0), (2, 'x')], []))
cases.append(mk([(1, 0), (2, '2')], []))
cases.append(mk([(1, 0), (2, 1)], [(1, 1)]))
cases.append(mk([(1, 0), (2, 1)], [(2, 2)]))
cases.append(mk([('a', 0), ('b', 1), ('c', 0), ('d', 1)], [('a', 'b'), ('d', 'c'), ('a', 'd')], name='letters'))
cases.append(mk([(10, 0), (2, 1), (1, 0), (20, 1), (3, 1)], [(10, 2), (1, 20), (3, 10), (3, 1)]))
cases.append(mk([(1, 0), (2, 1)], [(1, 2)], cls=networkx.DiGraph))
cases.append(mk([(1, 0), (2, 1)], [(2, 1)], cls=networkx.DiGraph))
cases.append(mk([(1, 0), (2, 1)], [(1, 2), (1, 2)], cls=networkx.MultiGraph))
cases.append(mk([(1, 0), (2, 1), (3, 0)], [(1, 2), (1, 3)], cls=networkx.DiGraph))
# edge adds a node without attribute
G = mk([(1, 0), (2, 1)], [(1, 2)])
G.add_edge(2, 7)
cases.append(G)

for i, G in enumerate(cases):
    attempt(('hand', i, 'from_networkx'), BipartiteGraph.from_networkx, G)
    attempt(('hand', i, 'normalize'), BipartiteGraph.normalize, G)
    attempt(('hand', i, 'normalize-var'), BipartiteGraph.normalize, G, 'B')

for bad in [None, 3, 'graph', [1, 2], BipartiteGraph(2, 3)]:
    attempt(('bad', repr(type(bad))), BipartiteGraph.from_networkx, bad)
    attempt(('badnorm', repr(type(bad))), BipartiteGraph.normalize, bad)

# 2. random networkx graphs with shuffled node insertion order
for t in range(120):
    L = rng.randint(0, 13)
    R = rng.randint(0, 13)
    labels = list(range(1, L + R + 1))
    rng.shuffle(labels)
    left = labels[:L]
    right = labels[L:]
    nodes = [(v, rng.choice([0, '0'])) for v in left] + [(v, rng.choice([1, '1'])) for v in right]
    rng.shuffle(nodes)
    edges = []
    for u in left:
        for v in right:
            if rng.random() < 0.3:
                edges.append((u, v) if rng.random() < 0.5 else (v, u))
    rng.shuffle(edges)
    corrupt = rng.random()
    if corrupt < 0.15 and len(left) >= 2:
        edges.insert(rng.randrange(len(edges) + 1), (left[0], left[1]))
    elif corrupt < 0.3 and len(right) >= 2:
        edges.insert(rng.randrange(len(edges) + 1), (right[1], right[0]))
    elif corrupt < 0.4 and nodes:
        k = rng.randrange(len(nodes))
        nodes[k] = (nodes[k][0], rng.choice([None, 2, -1, 'left']))
    G = mk(nodes, edges, name='random %d' % t if t % 3 else None)
    attempt(('rand', t), BipartiteGraph.from_networkx, G)

# 3. to_networkx / from_networkx round trip and file round trips
formats = ['gml', 'kthlist', 'matrix'] + (['dot'] if has_dot_library() else [])
rec('formats', formats)
graphs = [BipartiteGraph(0, 0), BipartiteGraph(1, 0), BipartiteGraph(0, 1), BipartiteGraph(3, 4),
          BipartiteGraph(12, 11, name='isolated big')]
for t in range(25):
    graphs.append(bipartite_random(rng.randint(1, 12), rng.randint(1, 14), rng.random(), seed=t))
graphs.append(bipartite_random_left_regular(11, 13, 3, seed=5))
for i, B in enumerate(graphs):
    rec('orig', i, describe(B))
    attempt(('nx-roundtrip', i), BipartiteGraph.from_networkx, B.to_networkx())
    for fmt in formats:
        buf = io.StringIO()
        try:
            writeGraph(B, buf, 'bipartite', fmt)
            text = buf.getvalue()
            rec('written', i, fmt, text)
        except Exception as e:
            rec('write-exc', i, fmt, type(e).__name__, str(e))
            continue
        attempt(('read', i, fmt), readGraph, io.StringIO(text), 'bipartite', fmt)
        # corrupted/truncated text
        if fmt in ('gml', 'dot'):
            lines = text.split('\n')
            for cut in (len(lines) // 2, max(0, len(lines) - 3)):
                attempt(('read-trunc', i, fmt, cut), readGraph,
                        io.StringIO('\n'.join(lines[:cut])), 'bipartite', fmt)
            attempt(('read-nobip', i, fmt), readGraph,
                    io.StringIO(text.replace('bipartite', 'colour')), 'bipartite', fmt)
            attempt(('read-bip2', i, fmt), readGraph,
                    io.StringIO(text.replace('bipartite 1', 'bipartite 2').replace('bipartite=1', 'bipartite=2')),
                    'bipartite', fmt)
            attempt(('read-allleft', i, fmt), readGraph,
                    io.StringIO(text.replace('bipartite 1', 'bipartite 0').replace('bipartite=1', 'bipartite=0')),
                    'bipartite', fmt)

# 4. gml texts written by hand
gml_texts = [
    'graph [\n node [ id 1 bipartite 0 ]\n node [ id 2 bipartite 1 ]\n edge [ source 1 target 2 ]\n]\n',
    'graph [\n node [ id 1 bipartite 0 ]\n node [ id 2 bipartite 0 ]\n edge [ source 1 target 2 ]\n]\n',
    'graph [\n node [ id 1 bipartite "0" ]\n node [ id 2 bipartite "1" ]\n edge [ source 2 target 1 ]\n]\n',
    'graph [\n node [ id 1 ]\n node [ id 2 bipartite 1 ]\n]\n',
    'graph [\n directed 1\n node [ id 1 bipartite 0 ]\n node [ id 2 bipartite 1 ]\n edge [ source 1 target 2 ]\n]\n',
    'graph [\n node [ id 5 bipartite 1 ]\n node [ id 2 bipartite 0 ]\n node [ id 11 bipartite 0 ]\n edge [ source 5 target 11 ]\n]\n',
    'graph [\n name "named"\n node [ id 5 bipartite 1 ]\n]\n',
    'graph [',
    '',
    'garbage text\n',
]
for i, text in enumerate(gml_texts):
    attempt(('gmltext', i), readGraph, io.StringIO(text), 'bipartite', 'gml')

sys.stdout = _real_stdout
out.append(_captured.getvalue())
print(hashlib.sha256('\n'.join(out).encode('utf-8')).hexdigest())
