#!/usr/bin/env python
"""Equivalence probe for literal checking / variable counting when clauses,
parities and linear constraints are added to a CNF (by hand, by the formula
families, and by the DIMACS reader), plus the DIMACS round trip of the result.

Run as:  cd <checkout> && /venv/bin/python equiv.py
Prints one SHA256 digest of everything observed.
"""
import hashlib
import io
import os
import random
import sys

sys.path.insert(0, os.getcwd())

import cnfgen
from cnfgen import CNF
from cnfgen.formula.basecnf import BaseCNF
from cnfgen.formula.cnfio import CNFio
from cnfgen.formula.linear import CNFLinear
from cnfgen.clitools import cnfgen as cnfgen_cli

# the version string is taken from `git describe`: pin it, so that the digest
# does not depend on the commit the checkout happens to be at
from cnfgen.info import info as _info
_info['version'] = 'pinned-version'

LOG = []


def log(*items):
    LOG.append(repr(items))


def describe_exc(e):
    cause = e.__cause__
    ctx = e.__context__
    return (type(e).__name__, str(e),
            None if cause is None else (type(cause).__name__, str(cause)),
            None if ctx is None else (type(ctx).__name__, str(ctx)))


def state(F):
    return (F.number_of_variables(), F.number_of_clauses(), [list(c) for c in F])


def roundtrip(tag, F):
    try:
        text = F.to_dimacs() if hasattr(F, 'to_dimacs') else None
        if text is None:
            out = io.StringIO()
            from cnfgen.utils.parsedimacs import to_dimacs_file
            to_dimacs_file(F, out, export_header=True, export_varnames=True)
            text = out.getvalue()
        log(tag, 'dimacs', text)
        G = CNF.from_file(io.StringIO(text))
        log(tag, 'back', state(G), state(G) == state(F))
    except BaseException as e:
        log(tag, 'roundtrip-error', describe_exc(e))


class Lit(int):
    """an int subclass"""


def bad_and_good_clauses():
  return [
    [], (), [1], [-1], [1, -1], [5, 2, -9], (3, 4), [2, 2, 2],
    [0], [1, 0], [0, 0], [-0], [1, 2, 0, 4],
    ['a'], [1, 'a'], ['1'], [1, '2'], [None], [1, None], [1.5], [1.0, 2], [2, 1.0],
    [0.0], [True, 2], [False], [True, False],
    [[1, 2]], [(1,), 2], [1, [2]], [{}], [1j], [10 ** 30], [-10 ** 30],
    [Lit(3), Lit(-7)], [float('nan')], [float('inf'), 1], [b'x'], [1, b'x'],
    range(1, 4), range(0, 3), range(0), iter([4, -5]), (x for x in [6, -6]),
    (x for x in [1, 0]), {3: 'a', 4: 'b'}, {7}, frozenset([-8]), "12", "", "0",
    [1, 2, 3] * 50,
  ]


def probe_add_clause():
    for cls in (BaseCNF, CNFio, CNFLinear, CNF):
        for check in (True, False, None):
            F = cls()
            # (the list contains one-shot iterators: build it afresh every time)
            for i, c in enumerate(bad_and_good_clauses()):
                try:
                    if check is None:
                        F.add_clause(c)
                    else:
                        F.add_clause(c, check=check)
                    log(cls.__name__, check, i, 'ok', state(F)[:2], list(F)[-1])
                except BaseException as e:
                    log(cls.__name__, check, i, describe_exc(e), state(F)[:2])
            log(cls.__name__, check, 'final', F.number_of_variables(), len(F))
            try:
                log(cls.__name__, check, 'debug', F.debug())
            except BaseException as e:
                log(cls.__name__, check, 'debug', describe_exc(e))

    # constructor and add_clauses_from
    for clauses in ([[1, 2], [-3]], [[1, 2], [0]], [[1], ['x']], [[]], [],
                    None, [[2.5]], [[4, -4], [], [9]], ((1, 2), (3,)),
                    [range(1, 3)], [[1, 2], 3], 7):
        for cls in (BaseCNF, CNF):
            try:
                F = cls(clauses)
                log('ctor', cls.__name__, repr(clauses), state(F))
                roundtrip('ctor', F)
            except BaseException as e:
                log('ctor', cls.__name__, repr(clauses), describe_exc(e))
            for check in (True, False):
                F = cls()
                try:
                    F.add_clauses_from(clauses, check=check)
                    log('from', cls.__name__, check, repr(clauses), state(F))
                except BaseException as e:
                    log('from', cls.__name__, check, repr(clauses),
                        describe_exc(e), state(F))


LITS = [
    [], [1], [-1], [1, 2], [-1, 2, -3], [4, 4], [2, -2], [7, 3, 5, 1],
    [0], [1, 0, 2], ['a', 1], [1.5, 2], [None], (1, 2, 3), range(1, 4),
    [10, -20],
]


def probe_linear():
    for cls in (CNFLinear, CNF):
        for lits in LITS:
            for check in (True, False):
                for const in (0, 1, 2, -1):
                    F = cls()
                    F.update_variable_number(2)
                    try:
                        F.add_parity(lits, const, check=check)
                        log('parity', cls.__name__, repr(lits), check, const, state(F))
                    except BaseException as e:
                        log('parity', cls.__name__, repr(lits), check, const,
                            describe_exc(e), state(F))
                for op in ('<=', '>=', '<', '>', '==', '!=', '=', 'geq'):
                    for const in (-1, 0, 1, 2, 5):
                        F = cls()
                        try:
                            F.add_linear(lits, op, const, check=check)
                            log('linear', cls.__name__, repr(lits), op, const,
                                check, state(F))
                        except BaseException as e:
                            log('linear', cls.__name__, repr(lits), op, const,
                                check, describe_exc(e), state(F))
        # generators as literals
        F = cls()
        F.add_parity((x for x in [3, -4, 5]), 1)
        F.add_linear((x for x in [6, -7, 8]), '>=', 2)
        F.add_linear((x for x in [9, 10]), '!=', 1)
        try:
            F.add_parity((x for x in [3, 0]), 1)
        except ValueError as e:
            log('gen', describe_exc(e))
        try:
            F.add_linear((x for x in ['q']), '<', 1)
        except ValueError as e:
            log('gen', describe_exc(e))
        log('gen', cls.__name__, state(F))
        roundtrip('gen', F)
        for name in ('add_loose_majority', 'add_loose_minority',
                     'add_strict_majority', 'add_strict_minority',
                     'cardinality_geq', 'cardinality_leq', 'cardinality_eq'):
            if hasattr(F, name):
                G = cls()
                try:
                    if name.startswith('card'):
                        getattr(G, name)([1, -5, 3], 2)
                    else:
                        getattr(G, name)([1, -5, 3])
                    log(name, state(G))
                except BaseException as e:
                    log(name, describe_exc(e))


def probe_reader():
    texts = [
        "p cnf 0 0\n", "p cnf 4 0\n", "p cnf 4 2\n1 -2 0\n0\n",
        "p cnf 4 2\n1 -2 0\n4 0\n", "p cnf 3 1\n1 2 4 0\n", "p cnf 3 1\n1 x 0\n",
        "p cnf 3 1\n-0 0\n", "p cnf 3 3\n0 0 0\n", "p cnf 2 1\n1 2\n", "",
        "p cnf 5 2\n5 -5 5 0 1\n2 3 0\n",
    ]
    for t in texts:
        for cls in (CNF, CNFio):
            try:
                F = cls.from_file(io.StringIO(t))
                log('read', cls.__name__, t, state(F), F.to_dimacs())
            except BaseException as e:
                log('read', cls.__name__, t, describe_exc(e))


def probe_families():
    rng = random.Random(2006)
    random.seed(99)
    fams = [
        ('php', lambda: cnfgen.PigeonholePrinciple(4, 3)),
        ('fphp', lambda: cnfgen.PigeonholePrinciple(3, 4, functional=True)),
        ('bphp', lambda: cnfgen.BinaryPigeonholePrinciple(5, 4)),
        ('op', lambda: cnfgen.OrderingPrinciple(4)),
        ('count', lambda: cnfgen.CountingPrinciple(6, 3)),
        ('pm', lambda: cnfgen.PerfectMatchingPrinciple(cnfgen.Graph.complete_graph(4))),
        ('tseitin', lambda: cnfgen.TseitinFormula(cnfgen.Graph.complete_graph(4))),
        ('kcnf', lambda: cnfgen.RandomKCNF(3, 8, 10)),
        ('kxor', lambda: cnfgen.RandomKXOR(3, 6, 4)),
        ('subsetcard', lambda: cnfgen.SubsetCardinalityFormula(
            cnfgen.BipartiteGraph.from_networkx(
                __import__('networkx').complete_bipartite_graph(3, 3))
            if hasattr(cnfgen.BipartiteGraph, 'from_networkx') else None)),
        ('vdw', lambda: cnfgen.VanDerWaerden(5, 3, 3)),
        ('ptn', lambda: cnfgen.PythagoreanTriples(12)),
        ('xor', lambda: cnfgen.XorSubstitution(cnfgen.OrderingPrinciple(3), 2)),
        ('maj', lambda: cnfgen.MajoritySubstitution(cnfgen.PigeonholePrinciple(3, 2), 3)),
        ('exact1', lambda: cnfgen.ExactlyOneSubstitution(cnfgen.PigeonholePrinciple(3, 2), 2)),
        ('shuffle', lambda: cnfgen.Shuffle(cnfgen.PigeonholePrinciple(3, 2))),
    ]
    for tag, build in fams:
        try:
            F = build()
            log('family', tag, state(F))
            roundtrip('family-' + tag, F)
        except BaseException as e:
            log('family', tag, describe_exc(e))
    # random formulas built by hand, with unused variables and empty clauses
    for i in range(30):
        F = CNF()
        n = rng.randint(0, 9)
        for _ in range(rng.randint(0, 6)):
            w = rng.randint(0, 4) if n else 0
            lits = [rng.choice([1, -1]) * rng.randint(1, n) for _ in range(w)]
            kind = rng.randint(0, 3)
            try:
                if kind == 0:
                    F.add_clause(lits, check=rng.random() < 0.8)
                elif kind == 1:
                    F.add_parity(lits, rng.randint(0, 1))
                elif kind == 2:
                    F.add_linear(lits, rng.choice(['<=', '>=', '<', '>', '==', '!=']),
                                 rng.randint(-1, 4))
                else:
                    F.update_variable_number(rng.randint(0, 12))
            except BaseException as e:
                log('rnd', i, describe_exc(e))
        log('rnd', i, state(F))
        roundtrip('rnd%d' % i, F)


CLI = [
    ['cnfgen', '-q', 'php', '4', '3'],
    ['cnfgen', '-q', '--seed', '4', 'tseitin', 'randomodd', 'gnp', '6', '.5'],
    ['cnfgen', '-q', '--seed', '3', 'tseitin', 'randomodd', 'gnd', '6', '3'],
    ['cnfgen', '-q', 'parity', '5'],
    ['cnfgen', '-q', 'matching', 'complete', '4'],
    ['cnfgen', '-q', 'count', '5', '2'],
    ['cnfgen', '-q', '--seed', '5', 'subsetcard', 'glrd', '4', '4', '2'],
    ['cnfgen', '-q', '--seed', '17', 'randkcnf', '3', '7', '11', '-T', 'xor', '2'],
    ['cnfgen', '-q', '--seed', '1', 'op', '4', '-T', 'shuffle'],
    ['cnfgen', '-q', 'cliquecoloring', '5', '3', '2'],
]


def probe_cli():
    for argv in CLI:
        try:
            out = cnfgen_cli(list(argv), mode='string')
            log('cli', argv, out)
            G = CNF.from_file(io.StringIO(out))
            log('cli-back', argv, G.to_dimacs() == out)
        except SystemExit as e:
            log('cli', argv, 'SystemExit', e.code)
        except BaseException as e:
            log('cli', argv, type(e).__name__, str(e))


def main():
    probe_add_clause()
    probe_linear()
    probe_reader()
    probe_families()
    probe_cli()
    digest = hashlib.sha256("\n".join(LOG).encode('utf-8', 'backslashreplace'))
    print(digest.hexdigest())


if __name__ == '__main__':
    main()
