#!/usr/bin/env python
"""Equivalence digest for the 'shuffle' transformation of the command line
(cnfgen.clihelpers.transformation_helpers.ShuffleCmd.transform_cnf)."""
import contextlib
import hashlib
import io
import itertools
import os
import random
import sys
from types import SimpleNamespace

sys.path.insert(0, os.getcwd())

from cnfgen.clitools.cnfgen import cli
from cnfgen.clitools.kthlist2pebbling import cli as kth
from cnfgen.clihelpers.transformation_helpers import ShuffleCmd
from cnfgen.formula.cnf import CNF

H = hashlib.sha256()


def record(*items):
    for it in items:
        H.update(repr(it).encode('utf-8'))
        H.update(b'\x00')


def dump_formula(F):
    return (type(F).__name__, F.number_of_variables(), F.number_of_clauses(),
            list(F.clauses()), list(F.all_variable_labels()),
            sorted((k, str(v)) for k, v in F.header.items()))


def run(tool, argv, mode='string', stdin_text='', seed=31):
    random.seed(seed)
    out, err = io.StringIO(), io.StringIO()
    old = sys.stdin
    sys.stdin = io.StringIO(stdin_text)
    try:
        with contextlib.redirect_stdout(out), contextlib.redirect_stderr(err):
            res = tool(argv, mode=mode)
        if mode == 'formula':
            res = dump_formula(res)
        record('OK', argv, mode, res, out.getvalue(), err.getvalue(),
               random.random())
    except SystemExit as e:
        record('EXIT', argv, mode, e.code, out.getvalue(), err.getvalue())
    except BaseException as e:
        record('EXC', argv, mode, type(e).__name__, str(e), out.getvalue(),
               err.getvalue())
    finally:
        sys.stdin = old


SHORT = ['-p', '-v', '-c']
LONG = ['--no-polarity-flips', '--no-variables-permutation',
        '--no-clauses-permutation']
FLAGSETS = []
for r in range(4):
    for idx in itertools.combinations(range(3), r):
        FLAGSETS.append([SHORT[i] for i in idx])
        if r > 0:
            FLAGSETS.append([LONG[i] for i in idx])
FLAGSETS += [['-pv'], ['-pvc'], ['-c', '-p'], ['-p', '-p'],
             ['--no-polarity', '-c']]

FORMULAS = [
    ['php', '4', '3'],
    ['php', '1', '1'],
    ['op', '3'],
    ['and', '0', '0'],
    ['or', '0', '0'],
    ['and', '3', '2'],
    ['peb', 'pyramid', '2'],
    ['randkcnf', '3', '6', '10'],
    ['tseitin', 'first', 'complete', '4'],
]

# 1. every flag subset on every formula
for f in FORMULAS:
    for flags in FLAGSETS:
        run(cli, ['cnfgen', '-q', '-S', '8'] + f + ['-T', 'shuffle'] + flags)
    for flags in FLAGSETS[:8]:
        run(cli, ['cnfgen', '-S', '8'] + f + ['-T', 'shuffle'] + flags,
            'formula')
        run(cli, ['cnfgen', '-S', '8', '--output-format', 'opb'] + f +
            ['-T', 'shuffle'] + flags)

# 2. different seeds, chains with other transformations, repeated shuffles
for seed in ('0', '1', '2', '12345'):
    for flags in ([], ['-p'], ['-v'], ['-c'], ['-p', '-v', '-c']):
        run(cli, ['cnfgen', '-q', '-S', seed, 'php', '3', '2', '-T',
                  'shuffle'] + flags)
        run(cli, ['cnfgen', '-q', '-S', seed, 'randkcnf', '2', '5', '6',
                  '-T', 'shuffle'] + flags + ['-T', 'xor', '2'])
        run(cli, ['cnfgen', '-q', '-S', seed, 'op', '3', '-T', 'or', '2',
                  '-T', 'shuffle'] + flags + ['-T', 'shuffle', '-c'],
            'formula')
        run(cli, ['cnfgen', '-q', '-S', seed, 'op', '3', '-T', 'shuffle',
                  '-T', 'flip', '-T', 'shuffle'] + flags)
# no --seed: the stream seeded by the caller is used
for flags in FLAGSETS[:8]:
    run(cli, ['cnfgen', '-q', 'php', '3', '2', '-T', 'shuffle'] + flags,
        seed=5)

# 3. through kthlist2pebbling
KTH = "6\n1 : 0\n2 : 0\n3 : 0\n4 : 1 2 0\n5 : 2 3 0\n6 : 4 5 0\n"
for flags in FLAGSETS:
    run(kth, ['kthlist2pebbling', '-q', 'shuffle'] + flags, 'string', KTH)
    run(kth, ['kthlist2pebbling', 'shuffle'] + flags, 'formula', KTH)

# 4. broken command lines
run(cli, ['cnfgen', '-q', 'php', '3', '2', '-T', 'shuffle', '-x'])
run(cli, ['cnfgen', '-q', 'php', '3', '2', '-T', 'shuffle', '3'])
run(cli, ['cnfgen', '-q', 'php', '3', '2', '-T', 'shuffle', '-p', 'yes'])
run(cli, ['cnfgen', '-q', 'php', '3', '2', '-T', 'shuffle', '-h'])

# 5. the helper called directly
def direct(F, **kw):
    random.seed(17)
    try:
        G = ShuffleCmd.transform_cnf(F, SimpleNamespace(**kw))
        record('DIRECT', sorted(kw.items()), dump_formula(G), G.to_dimacs(),
               random.random())
    except BaseException as e:
        record('DIRECTEXC', sorted(kw.items()), type(e).__name__, str(e))


def sample():
    F = CNF([[1, -2], [2, 3, -4], [-1], [4, 5], [-5, -3, 1], []],
            description='sample')
    return F


for p, v, c in itertools.product([False, True, 0, 1, None, 'yes', ''],
                                 repeat=3):
    direct(sample(), no_polarity_flips=p, no_variables_permutation=v,
           no_clauses_permutation=c)
direct(CNF(), no_polarity_flips=False, no_variables_permutation=False,
       no_clauses_permutation=False)
direct(sample(), no_polarity_flips=True, no_variables_permutation=True)
direct(sample(), no_polarity_flips=True, no_clauses_permutation=True)
direct(sample(), no_variables_permutation=True, no_clauses_permutation=True)
direct(sample())
direct(None, no_polarity_flips=False, no_variables_permutation=False,
       no_clauses_permutation=False)

print(H.hexdigest())
