#!/usr/bin/env python
"""Equivalence script for refactoring t10 (property C11).

Target: cnfgen/formula/variables.py  BinaryMappingVariables.to_index
(identifier -> (preimage, bit position)), together with everything around it
in the binary mapping group: identifier ranges, index enumeration, labels,
round trips for positive and negative literals, rejection of foreign
literals, `forbid`, the mapping axioms and the formula's variable names.

Run as:  cd <checkout> && /venv/bin/python equiv.py
Prints a single SHA256 digest of everything observed.
"""
import sys
import os
import hashlib
import random
import types
import itertools

sys.path.insert(0, os.getcwd())

from cnfgen.formula.cnf import CNF
from cnfgen.formula.basecnf import BaseCNF
from cnfgen.formula.variables import BinaryMappingVariables, VariablesManager

LOG = []


def emit(*items):
    LOG.append(" ".join(str(x) for x in items))


def materialise(value):
    if isinstance(value, (types.GeneratorType, itertools.product, range)):
        return [type(value).__name__, [materialise(x) for x in value]]
    if isinstance(value, (list, tuple)):
        return type(value)(materialise(x) for x in value)
    return value


def record(tag, fn, *args, **kwargs):
    try:
        res = materialise(fn(*args, **kwargs))
        emit(tag, 'OK', type(res).__name__, repr(res))
        return res
    except Exception as e:  # noqa
        emit(tag, 'EXC', type(e).__name__, str(e))
        return None


class Lit(int):
    """an int subclass: to_index must cope with any integral literal"""


def probe(tag, F, f):
    record(tag + ' len', len, f)
    record(tag + ' ids', lambda: (f.ids.start, f.ids.stop, f.id_offset))
    record(tag + ' bits', f.bits)
    record(tag + ' domain', f.domain)
    record(tag + ' range', f.range)
    record(tag + ' indices()', f.indices)
    record(tag + ' call()', f)
    record(tag + ' label()', f.label)
    ids = list(f)
    lo = ids[0] if ids else F.number_of_variables() + 1
    hi = ids[-1] if ids else F.number_of_variables()
    for lit in range(-(hi + 3), hi + 4):
        res = record(tag + ' to_index %d' % lit, f.to_index, lit)
        if res is not None:
            back = f(*res)
            emit(tag + ' back', lit, repr(res), back, f.label(*res),
                 type(res[0]).__name__, type(res[1]).__name__)
    for lit in [Lit(lo), Lit(-hi), True, False, lo + 0.0, float(hi),
                str(lo), None, (lo,), 10**30, -10**30]:
        record(tag + ' to_index odd ' + repr(lit), f.to_index, lit)
    # enumeration is in identifier order and round trips
    seq = [(t, f(*t), f.label(*t), f.to_index(f(*t)), f.to_index(-f(*t)))
           for t in f.indices()]
    emit(tag + ' roundtrip', repr(seq))
    emit(tag + ' contiguous', [x[1] for x in seq] == ids)
    emit(tag + ' inverse', all(tuple(x[0]) == tuple(x[3]) == tuple(x[4]) for x in seq))
    n, b = f.domain_size, f.bitlength
    for pat in [(None, None), (1, None), (None, 0), (n, None), (None, b - 1),
                (n + 1, None), (None, b), (0, None), (None, -1), (1, 0),
                (n, b - 1), (n, b), (n + 1, 0), (0, 0), (1,), (1, 0, 0),
                (2, 1), (None, 1)]:
        record(tag + ' indices' + repr(pat), f.indices, *pat)
        record(tag + ' call' + repr(pat), f, *pat)
        record(tag + ' label' + repr(pat), f.label, *pat)
    for i in [0, 1, n, n + 1]:
        for j in [0, 1, f.range_size - 1, f.range_size, 2**b - 1, 2**b, -1]:
            record(tag + ' forbid %d %d' % (i, j), f.forbid, i, j)


def main():
    rng = random.Random(77001)

    shapes = [(0, 0), (0, 1), (1, 0), (0, 5), (5, 0), (1, 1), (3, 1), (1, 2),
              (2, 2), (3, 3), (2, 4), (4, 5), (4, 6), (3, 8), (2, 9), (5, 12),
              (10, 13), (2, 16), (1, 17), (6, 33), (3, 64), (2, 65), (1, 1000)]
    for n, m in shapes:
        for pre in (0, 1, 10):
            tag = 'BM n=%d m=%d pre=%d' % (n, m, pre)
            F = CNF()
            if pre == 1:
                F.add_clause([1])
            elif pre:
                F.update_variable_number(pre)
            f = record(tag + ' new', lambda: type(
                F.new_binary_mapping(n, m, label='v[{},{}]')).__name__)
            f = F._groups[-1]
            probe(tag, F, f)
            emit(tag + ' labels', repr(list(F.all_variable_labels())))
            emit(tag + ' numvar', F.number_of_variables())

    # negative sizes, default label
    F = CNF()
    record('neg n', F.new_binary_mapping, -1, 3)
    record('neg m', F.new_binary_mapping, 3, -1)
    f = F.new_binary_mapping(3, 5)
    emit('default labels', repr(list(F.all_variable_labels())))
    record('default to_index', lambda: [f.to_index(x) for x in f])

    # directly built group on a BaseCNF, with offsets
    for off in (0, 3, 100):
        B = BaseCNF()
        B.update_variable_number(off)
        g = BinaryMappingVariables(B, 4, 6, labelfmt='g({},{})')
        probe('direct off=%d' % off, B, g)

    # interleaving of group creation, clauses and raises of variable count
    for trial in range(25):
        F = CNF()
        groups = []
        for step in range(rng.randrange(2, 9)):
            action = rng.randrange(5)
            if action == 0:
                F.update_variable_number(F.number_of_variables() + rng.randrange(0, 4))
            elif action == 1:
                top = F.number_of_variables() + rng.randrange(0, 3)
                if top > 0:
                    F.add_clause([rng.choice([-1, 1]) * rng.randrange(1, top + 1),
                                  -top])
            elif action == 2:
                F.new_variable('s%d' % step)
            elif action == 3:
                F.new_block(rng.randrange(0, 3), rng.randrange(0, 3),
                            label='b%d_{{{},{}}}' % step)
            else:
                n, m = rng.randrange(0, 5), rng.randrange(0, 12)
                groups.append(F.new_binary_mapping(n, m, label='w%d({},{})' % step))
        tag = 'mix %d' % trial
        emit(tag + ' numvar', F.number_of_variables())
        names = list(F.all_variable_labels())
        emit(tag + ' labels', repr(names))
        for gi, g in enumerate(groups):
            info = []
            for lit in range(-F.number_of_variables() - 1, F.number_of_variables() + 2):
                try:
                    t = g.to_index(lit)
                    info.append((lit, t, g(*t), g.label(*t),
                                 names[abs(lit) - 1] == g.label(*t)))
                except ValueError as ex:
                    info.append((lit, str(ex)))
            emit(tag + ' g%d' % gi, repr(info))
        for g in groups:
            try:
                F.force_complete_mapping(g)
                F.force_functional_mapping(g)
                F.force_injective_mapping(g)
                F.force_surjective_mapping(g)
                F.force_nondecreasing_mapping(g)
            except Exception as ex:  # noqa
                emit(tag + ' force EXC', type(ex).__name__, str(ex))
        emit(tag + ' clauses', repr(list(F)))
        emit(tag + ' dimacs', F.to_dimacs())

    # full formulas relying on binary mappings
    from cnfgen import BinaryPigeonholePrinciple
    for p, h in [(1, 1), (2, 1), (3, 2), (3, 4), (5, 3), (4, 8)]:
        F = BinaryPigeonholePrinciple(p, h)
        emit('bphp', p, h, F.to_dimacs())
        emit('bphp labels', repr(list(F.all_variable_labels())))
        g = F._groups[0]
        emit('bphp idx', repr([g.to_index(-x) for x in g]))

    data = "\n".join(LOG).encode('utf-8')
    print(hashlib.sha256(data).hexdigest())


if __name__ == '__main__':
    main()
