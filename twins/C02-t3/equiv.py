import sys, os, hashlib, random, itertools, warnings
warnings.simplefilter("ignore")
sys.path.insert(0, os.getcwd())
import networkx as nx
from cnfgen.graphs import Graph

_H = hashlib.sha256()


def emit(*items):
    for it in items:
        _H.update(repr(it).encode("utf-8"))
        _H.update(b"\x00")


def dump(tag, fn, *args, **kwargs):
    """Call fn and record everything observable about the outcome."""
    emit("CALL", tag)
    try:
        F = fn(*args, **kwargs)
    except Exception as exc:  # record the exception type and message
        emit("EXC", type(exc).__name__, str(exc))
        return None
    emit("HEADER", sorted((str(k), str(v)) for k, v in F.header.items()))
    emit("NVARS", F.number_of_variables(), "NCLS", F.number_of_clauses())
    emit("LABELS", list(F.all_variable_labels()))
    emit("CLAUSES", [list(c) for c in F.clauses()])
    emit("DIMACS", F.to_dimacs())
    return F


def mkgraph(n, edges, name=None):
    G = Graph(n, name=name) if name is not None else Graph(n)
    for u, v in edges:
        G.add_edge(u, v)
    return G


def all_graphs(maxn):
    """Every labelled simple graph with at most maxn vertices."""
    for n in range(0, maxn + 1):
        pairs = list(itertools.combinations(range(1, n + 1), 2))
        for mask in range(1 << len(pairs)):
            yield n, [p for i, p in enumerate(pairs) if (mask >> i) & 1]


def random_graphs(rng, count, nmin, nmax):
    for _ in range(count):
        n = rng.randint(nmin, nmax)
        p = rng.choice([0.0, 0.2, 0.5, 0.8, 1.0])
        pairs = itertools.combinations(range(1, n + 1), 2)
        yield n, [e for e in pairs if rng.random() < p]


def cli(argv, seed=4242):
    """Run the cnfgen command line tool in-process and record its outcome."""
    import io, contextlib
    from cnfgen.clitools import cnfgen as cnfgen_cli
    random.seed(seed)
    out, err = io.StringIO(), io.StringIO()
    code = None
    try:
        with contextlib.redirect_stdout(out), contextlib.redirect_stderr(err):
            cnfgen_cli(argv)
    except SystemExit as exc:
        code = exc.code
    except Exception as exc:
        emit("CLI-EXC", type(exc).__name__, str(exc))
    emit("CLI", argv, code, out.getvalue(), err.getvalue())


def finish():
    print(_H.hexdigest())

# ---- T3: non_edges, CliqueFormula, BinaryCliqueFormula ----
from cnfgen import CliqueFormula, BinaryCliqueFormula
from cnfgen.families.subgraph import non_edges

rng = random.Random(31337)

# the generator itself: order and content of the non-edges, laziness
for n, edges in all_graphs(5):
    G = mkgraph(n, edges)
    gen = non_edges(G)
    emit("NONEDGES-TYPE", type(gen).__name__, iter(gen) is gen)
    emit("NONEDGES", n, edges, list(gen))
for n, edges in random_graphs(rng, 40, 6, 14):
    emit("NONEDGES-RND", n, edges, list(non_edges(mkgraph(n, edges))))
for H in (nx.null_graph(), nx.empty_graph(1), nx.empty_graph(2), nx.complete_graph(6)):
    emit("NONEDGES-NX", list(non_edges(Graph.from_networkx(H))))
try:
    list(non_edges(nx.path_graph(3)))
except Exception as exc:
    emit("NONEDGES-EXC", type(exc).__name__, str(exc))
try:
    emit("NONEDGES-UNUSED", type(non_edges(None)).__name__)   # lazy: no error until consumed
    next(non_edges(None))
except Exception as exc:
    emit("NONEDGES-EXC", type(exc).__name__, str(exc))

for n, edges in all_graphs(4):
    G = mkgraph(n, edges)
    for k in range(0, n + 2):
        for sb in (True, False):
            dump(("kclique", n, edges, k, sb), CliqueFormula, G, k, symbreak=sb)
            dump(("kcliquebin", n, edges, k, sb), BinaryCliqueFormula, G, k, symbreak=sb)
    dump(("kclique-default", n, edges), CliqueFormula, G, 2)
    dump(("kcliquebin-default", n, edges), BinaryCliqueFormula, G, 2)

for n, edges in random_graphs(rng, 25, 5, 9):
    G = mkgraph(n, edges, name="rnd%d" % n)
    for k in (0, 1, 2, 3, rng.randint(2, n)):
        for sb in (True, False):
            dump(("kclique-rnd", n, edges, k, sb), CliqueFormula, G, k, symbreak=sb)
            dump(("kcliquebin-rnd", n, edges, k, sb), BinaryCliqueFormula, G, k, symbreak=sb)

G = mkgraph(4, [(1, 2), (2, 3), (1, 3)])
for fn in (CliqueFormula, BinaryCliqueFormula):
    for bad in (-1, 1.0, "3", None):
        dump(("bad-k", fn.__name__, bad), fn, G, bad)
    dump(("bad-G", fn.__name__), fn, [1, 2], 2)
    dump(("nx", fn.__name__), fn, nx.cycle_graph(5), 3)
    dump(("nx-null", fn.__name__), fn, nx.null_graph(), 2)

cli(["cnfgen", "-q", "kclique", "3", "gnp", "7", "0.5"])
cli(["cnfgen", "-q", "kclique", "--no-symmetry-breaking", "3", "gnp", "6", "0.5"])
cli(["cnfgen", "-q", "kclique", "4", "complete", "5"])
cli(["cnfgen", "-q", "kclique", "0", "grid", "2", "2"])
cli(["cnfgen", "-q", "kcliquebin", "3", "gnm", "7", "9"])
cli(["cnfgen", "-q", "kcliquebin", "2", "empty", "4"])
cli(["cnfgen", "-q", "-of", "latex", "kclique", "2", "path", "3"])
cli(["cnfgen", "-q", "kclique", "3", "gnp", "7", "0.5", "plantclique", "3"])

finish()
