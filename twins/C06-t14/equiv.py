#!/usr/bin/env python
"""Equivalence check for the cnfshuffle command line (cnfgen.clitools.cnfshuffle.cli
and main): reads DIMACS, shuffles, writes DIMACS.  Exercises all the modes, all
the flag combinations, seeds (random stream), good and corrupted inputs, stdin /
stdout / files, error messages and exit codes.  Prints one SHA256 digest."""
import os
import sys
import io
import random
import hashlib
import itertools
import subprocess
import tempfile

CHECKOUT = os.getcwd()
sys.path.insert(0, CHECKOUT)

# the version string comes from `git describe`: make it independent of the checkout
from cnfgen.info import info as _info
REAL_VERSION = str(_info['version'])
_info['version'] = 'VERSION'

from cnfgen.clitools.cnfshuffle import cli, main
from cnfgen.formula.cnf import CNF
from cnfgen.families.pigeonhole import PigeonholePrinciple
from cnfgen.families.randomformulas import RandomKCNF

LOG = []


def log(*items):
    LOG.append(" | ".join(repr(x) for x in items))


def describe(res):
    if res is None or isinstance(res, str):
        return res
    return (type(res).__name__, res.number_of_variables(), res.number_of_clauses(),
            [list(c) for c in res], list(res.header.items()))


def run_cli(tag, argv, mode, stdin_text=''):
    """Run cli() with captured standard streams"""
    old = sys.stdin, sys.stdout, sys.stderr
    sys.stdin, sys.stdout, sys.stderr = io.StringIO(stdin_text), io.StringIO(), io.StringIO()
    out = err = None
    try:
        try:
            res = cli(argv, mode=mode)
            outcome = ('OK', describe(res))
        except BaseException as e:
            outcome = ('EXC', type(e).__name__, str(e))
        out, err = sys.stdout.getvalue(), sys.stderr.getvalue()
    finally:
        sys.stdin, sys.stdout, sys.stderr = old
    # the random stream must be left in the same state
    log(tag, argv, mode, outcome, out, err, random.random())


def run_main(tag, argv, stdin_text=''):
    old = sys.stdin, sys.stdout, sys.stderr, sys.argv
    sys.stdin, sys.stdout, sys.stderr = io.StringIO(stdin_text), io.StringIO(), io.StringIO()
    fake_out, fake_err = sys.stdout, sys.stderr
    fake_err.close = lambda: None
    sys.argv = argv
    try:
        try:
            main()
            outcome = ('OK',)
        except BaseException as e:
            outcome = ('EXC', type(e).__name__, str(e), getattr(e, 'code', None))
        out, err = fake_out.getvalue(), fake_err.getvalue()
    finally:
        sys.stdin, sys.stdout, sys.stderr, sys.argv = old
    log(tag, argv, outcome, out, err)


random.seed(2024)
formulas = {
    'empty': CNF(),
    'emptyclause': CNF([[]]),
    'unused': CNF([[1, -2], [], [3]]),
    'php': PigeonholePrinciple(4, 3),
    'rnd': RandomKCNF(3, 7, 12),
    'single': CNF([[1]]),
}
formulas['unused'].update_variable_number(6)
formulas['php'].header['description'] = 'odd é description\nwith two lines {0} %s'

texts = {}
for k, F in formulas.items():
    for hdr, vn in itertools.product((True, False), repeat=2):
        buf = io.StringIO()
        F.to_file(buf, fileformat='dimacs', export_header=hdr, export_varnames=vn)
        texts[(k, hdr, vn)] = buf.getvalue()

bad_texts = {
    'nothing': '',
    'nospec': '1 2 0\n',
    'trunc': 'p cnf 3 2\n1 2 0\n-3',
    'count': 'p cnf 3 2\n1 2 0\n',
    'range': 'p cnf 3 1\n1 4 0\n',
    'junk': 'p cnf 3 1\n1 a 0\n',
    'twospec': 'p cnf 1 1\np cnf 1 1\n1 0\n',
    'negspec': 'p cnf -1 0\n',
}

flagsets = []
for r in range(4):
    for combo in itertools.combinations(['-p', '-v', '-c'], r):
        flagsets.append(list(combo))
flagsets += [['--no-polarity-flips', '--no-variables-permutation', '--no-clauses-permutation'],
             ['-q'], ['-q', '-p', '-v', '-c'], ['--quiet', '-c']]

with tempfile.TemporaryDirectory() as tmp:
    os.chdir(tmp)
    try:
        for key, text in texts.items():
            fname = 'in-%s-%d%d.cnf' % (key[0], key[1], key[2])
            with open(fname, 'w', encoding='utf-8') as f:
                f.write(text)
            for fi, flags in enumerate(flagsets):
                if not (key[1] and not key[2]) and fi % 3:
                    continue
                for seed in (['-S', '7'], ['--seed', 'abc'], []):
                    if not seed:
                        random.seed(99)
                    for mode in ('string', 'formula', 'output', 'other', None):
                        # from file
                        run_cli(('file', key), ['cnfshuffle', '-i', fname] + flags + seed, mode)
                    # from stdin
                    run_cli(('stdin', key), ['cnfshuffle'] + seed + flags, 'string', text)
                    run_cli(('stdin-out', key), ['cnfshuffle'] + flags + seed, 'output', text)
                    run_cli(('stdin-dash', key), ['cnfshuffle', '-i', '-', '-o', '-'] + flags + seed,
                            'output', text)
                    # to file
                    if os.path.exists('out.cnf'):
                        os.unlink('out.cnf')
                    run_cli(('tofile', key), ['cnfshuffle', '-i', fname, '-o', 'out.cnf'] + flags + seed,
                            'output')
                    # output file handle is owned by argparse: read what reached the disk
                    # after the garbage collector closed it
                    import gc
                    gc.collect()
                    with open('out.cnf', encoding='utf-8') as f:
                        outtext = f.read()
                    log('outfile', key, flags, seed, outtext)
                    if flags == ['-p', '-v', '-c'] or flags[:1] == ['--no-polarity-flips']:
                        G = CNF.from_file(io.StringIO(outtext))
                        F = formulas[key[0]]
                        log('identity', key, G.number_of_variables() == F.number_of_variables(),
                            list(G) == list(F))
            # non string arguments are tolerated
            run_cli(('nonstr', key), ['cnfshuffle', '-S', 5, '-i', fname], 'string')
            run_cli(('nonstr', key), ('cnfshuffle', '-S', 5.5, '-i', fname, '-p'), 'string')

        for key, text in bad_texts.items():
            fname = 'bad-%s.cnf' % key
            with open(fname, 'w', encoding='utf-8') as f:
                f.write(text)
            for mode in ('string', 'formula', 'output'):
                run_cli(('bad', key), ['cnfshuffle', '-i', fname, '-S', '1'], mode)
                run_cli(('bad-stdin', key), ['cnfshuffle', '-S', '1', '-c'], mode, text)
            run_main(('main-bad', key), ['cnfshuffle', '-i', fname])
            run_main(('main-bad-stdin', key), ['/usr/bin/cnfshuffle', '-p'], text)

        # command line errors
        for argv in [['cnfshuffle', '-i', 'missing.cnf'], ['cnfshuffle', '--bogus'],
                     ['cnfshuffle', '-h'], ['cnfshuffle', '-S'], ['cnfshuffle', 'extra'],
                     ['cnfshuffle', '-o', 'nodir/out.cnf', '-i', 'bad-count.cnf'],
                     ['prog name', '-x']]:
            run_cli('cmderr', argv, 'output', 'p cnf 1 1\n1 0\n')
            run_main('main-cmderr', argv, 'p cnf 1 1\n1 0\n')
        run_cli('emptyargv', [], 'string', 'p cnf 1 1\n1 0\n')

        # main() on good input
        good = texts[('php', True, True)]
        for flags in flagsets[:8]:
            run_main('main-good', ['cnfshuffle', '-S', '11'] + flags, good)
            run_main('main-good-file', ['cnfshuffle', '-S', '11', '-i', 'in-php-10.cnf'] + flags)

        # the real program, for exit codes
        env = dict(os.environ, PYTHONPATH=CHECKOUT, PYTHONWARNINGS='ignore', PYTHONHASHSEED='0')
        for argv, text in [(['-S', '3'], good), (['-S', '3', '-q', '-c'], good),
                           (['-S', '3', '-p', '-v', '-c'], texts[('unused', False, False)]),
                           ([], bad_texts['trunc']), (['-p'], bad_texts['range']),
                           (['-i', 'missing.cnf'], ''), (['--nope'], ''),
                           (['-i', 'in-rnd-11.cnf', '-o', 'sub.cnf', '-S', 'zz'], '')]:
            p = subprocess.run([sys.executable, '-m', 'cnfgen.clitools.cnfshuffle'] + argv,
                               input=text, capture_output=True, text=True, env=env, cwd=tmp)
            log('subprocess', argv, p.returncode,
                p.stdout.replace('(%s)' % REAL_VERSION, '(VERSION)'), p.stderr)
        with open('sub.cnf', encoding='utf-8') as f:
            log('subprocess-file', f.read().replace('(%s)' % REAL_VERSION, '(VERSION)'))
    finally:
        os.chdir(CHECKOUT)

data = "\n".join(LOG).encode('utf-8', errors='backslashreplace')
print(hashlib.sha256(data).hexdigest())
