#!/usr/bin/env python
"""Equivalence digest for C16 / t5: Graph.update_vertex_number.

Exercises simple graphs under random sequences of add_edge, remove_edge,
update_vertex_number and add_edges_from calls (valid and invalid
arguments), with a strong emphasis on vertex-count increases, and
records every observable view after each step.
"""
import sys
import os
import random
import hashlib

sys.path.insert(0, os.getcwd())

from cnfgen.graphs import Graph, DirectedGraph, BipartiteGraph  # noqa

OUT = []


def rec(*args):
    OUT.append(repr(args))


def attempt(label, fn, *args):
    try:
        res = fn(*args)
        rec(label, args, 'ok',
            res if isinstance(res, (int, list, tuple, str, type(None)))
            else type(res).__name__)
        return res
    except Exception as e:  # record the type and the message
        rec(label, args, 'EXC', type(e).__name__, str(e))
        return None


def snapshot_simple(G):
    n = G.number_of_vertices()
    rec('n', n, G.order(), len(G), list(G.vertices()))
    rec('m', G.number_of_edges(), len(G.edges()))
    rec('edges', list(G.edges()))
    rec('adjlist-len', len(G.adjlist))
    rec('adjlist', [list(x) for x in G.adjlist])
    rec('edgeset', sorted(G.edgeset))
    for u in range(-1, n + 3):
        try:
            rec('nb', u, list(G.neighbors(u)), G.degree(u))
        except Exception as e:
            rec('nb', u, 'EXC', type(e).__name__, str(e))
    member = []
    for u in range(0, n + 2):
        for v in range(0, n + 2):
            if G.has_edge(u, v):
                member.append((u, v))
            assert ((u, v) in G.edges()) == G.has_edge(u, v)
    rec('member', member)
    rec('flags', G.is_dag(), G.is_directed(), G.is_bipartite(),
        G.is_multigraph(), G.name)
    X = G.to_networkx()
    rec('nx', sorted(X.nodes()), sorted(tuple(sorted(e)) for e in X.edges()))
    H = Graph.from_networkx(X)
    rec('nx-back', H.number_of_vertices(), list(H.edges()))


WEIRD_SIZES = [0, 1, 2, -1, -7, 2.0, 3.5, '4', None, True, False, [3], (2,)]


def run_sequence(rng, n0, steps):
    G = attempt('Graph', Graph, n0)
    if G is None:
        return
    snapshot_simple(G)
    for _ in range(steps):
        n = G.number_of_vertices()
        op = rng.choice(['add', 'add', 'add', 'rem', 'upd', 'upd', 'upd',
                         'many', 'badupd'])
        if op == 'add':
            u = rng.randint(-1, n + 2)
            v = rng.randint(-1, n + 2)
            attempt('add_edge', G.add_edge, u, v)
        elif op == 'rem':
            if G.number_of_edges() and rng.random() < 0.7:
                u, v = rng.choice(list(G.edges()))
                if rng.random() < 0.5:
                    u, v = v, u
            else:
                u = rng.randint(-1, n + 2)
                v = rng.randint(-1, n + 2)
            attempt('remove_edge', G.remove_edge, u, v)
        elif op == 'upd':
            # smaller, equal, and larger values
            new = rng.choice([0, n - 3, n - 1, n, n + 1, n + 2, n + 5])
            if new < 0:
                new = 0
            attempt('update_vertex_number', G.update_vertex_number, new)
        elif op == 'badupd':
            attempt('update_vertex_number', G.update_vertex_number,
                    rng.choice(WEIRD_SIZES))
        else:
            k = rng.randint(0, 5)
            edges = [(rng.randint(0, n + 1), rng.randint(0, n + 1))
                     for _ in range(k)]
            attempt('add_edges_from', G.add_edges_from, edges)
        snapshot_simple(G)


def fixed_cases():
    # boundary: growing from nothing, growing by zero, shrinking requests
    G = Graph(0)
    snapshot_simple(G)
    for new in [0, 0, 1, 1, 0, 3, 2, 3, 10, 4]:
        attempt('upd', G.update_vertex_number, new)
        snapshot_simple(G)
    attempt('add', G.add_edge, 10, 1)
    attempt('add', G.add_edge, 11, 1)
    attempt('upd', G.update_vertex_number, 11)
    attempt('add', G.add_edge, 11, 1)
    attempt('add', G.add_edge, 1, 11)
    snapshot_simple(G)
    # every fresh list must be a distinct object
    rec('distinct', len(set(id(x) for x in G.adjlist)) == len(G.adjlist))
    for w in WEIRD_SIZES:
        attempt('upd-weird', G.update_vertex_number, w)
        snapshot_simple(G)
    for w in WEIRD_SIZES:
        attempt('Graph-weird', Graph, w)
    # bool sizes are Integral
    H = Graph(True)
    rec('bool-n', repr(H.n))
    H.update_vertex_number(True)
    rec('bool-n', repr(H.n))
    H.update_vertex_number(2)
    rec('bool-n', repr(H.n))
    H = Graph(0)
    H.update_vertex_number(True)
    rec('bool-n', repr(H.n), len(H.adjlist))
    H.update_vertex_number(False)
    rec('bool-n', repr(H.n), len(H.adjlist))
    # named graphs and the class constructors
    for n in range(0, 5):
        for K in (Graph.complete_graph(n), Graph.star_graph(n),
                  Graph.empty_graph(n)):
            K.update_vertex_number(n + 2)
            attempt('add', K.add_edge, 1, n + 2)
            attempt('add', K.add_edge, n + 2, n + 3)
            snapshot_simple(K)
    snapshot_simple(Graph.null_graph())


def main():
    fixed_cases()
    rng = random.Random(160005)
    for n0 in [0, 0, 1, 2, 3, 5, 8]:
        for rep in range(6):
            run_sequence(rng, n0, 30)
    data = '\n'.join(OUT).encode('utf-8')
    print(hashlib.sha256(data).hexdigest())


if __name__ == '__main__':
    main()
