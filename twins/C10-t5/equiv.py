#!/usr/bin/env python
"""Equivalence script for the refactoring of BipartiteEdgesVariables.__init__
(the computation of the table of first variable IDs per left vertex).

Run as:  cd <checkout> && /venv/bin/python equiv.py
Prints one SHA256 digest of everything observed.
"""
import os
import sys
import random
import hashlib

sys.path.insert(0, os.getcwd())

from cnfgen.formula.cnf import CNF
from cnfgen.formula.opb import OPB
from cnfgen.formula.basecnf import BaseCNF
from cnfgen.formula.variables import (VariablesManager,
                                      BipartiteEdgesVariables,
                                      GraphEdgesVariables,
                                      DiGraphEdgesVariables,
                                      UnaryMappingVariables)
from cnfgen.graphs import (Graph, DirectedGraph, BipartiteGraph,
                           CompleteBipartiteGraph, bipartite_random,
                           bipartite_random_left_regular)
import cnfgen

H = hashlib.sha256()


def rec(*items):
    line = ' '.join(repr(x) for x in items)
    H.update(line.encode('utf-8'))
    H.update(b'\n')


def attempt(tag, fn):
    try:
        res = fn()
        rec(tag, 'OK', res)
        return res
    except Exception as e:  # noqa
        rec(tag, 'EXC', type(e).__name__, str(e))
        return None


def dump_group(tag, F, g, B):
    rec(tag, 'type', type(g).__name__, 'len', len(g), 'ids', list(g))
    inner = g
    for attr in ('BG', 'VG'):
        if hasattr(g, attr):
            inner = getattr(g, attr)
    rec(tag, 'offset', list(inner.offset))
    rec(tag, 'numvar', F.number_of_variables())
    idx = list(g.indices())
    rec(tag, 'indices', idx)
    rec(tag, 'ids_by_index', [g(*t) for t in idx])
    rec(tag, 'all', list(g()))
    rec(tag, 'labels', list(g.label()))
    rec(tag, 'to_index', [g.to_index(v) for v in g])
    rec(tag, 'to_index_neg', [g.to_index(-v) for v in g])
    rec(tag, 'dict', sorted(g.to_dict().items()))
    if len(g):
        attempt(tag + ' below', lambda: g.to_index(g[0] - 1))
        attempt(tag + ' above', lambda: g.to_index(g[-1] + 1))
    attempt(tag + ' zero', lambda: g.to_index(0))
    if B is not None:
        for u in range(0, B.left_order() + 2):
            attempt(tag + ' row %d' % u, lambda: list(g(u, None)))
        for v in range(0, B.right_order() + 2):
            attempt(tag + ' col %d' % v, lambda: list(g(None, v)))
        attempt(tag + ' nonedge', lambda: g(1, 1) if not B.has_edge(1, 1) else g(10**6, 1))


def bip(L, R, p, rng):
    B = BipartiteGraph(L, R)
    for u in range(1, L + 1):
        for v in range(1, R + 1):
            if rng.random() < p:
                B.add_edge(u, v)
    return B


def main():
    rng = random.Random(20241)

    # 1. direct construction over several graphs and several initial numbers of variables
    graphs = [
        ('0x0', BipartiteGraph(0, 0)),
        ('0x4', BipartiteGraph(0, 4)),
        ('4x0', BipartiteGraph(4, 0)),
        ('3x3 noedges', BipartiteGraph(3, 3)),
        ('1x1 full', CompleteBipartiteGraph(1, 1)),
        ('5x7 full', CompleteBipartiteGraph(5, 7)),
        ('6x5 sparse', bip(6, 5, 0.3, rng)),
        ('9x4 half', bip(9, 4, 0.5, rng)),
        ('12x12 dense', bip(12, 12, 0.8, rng)),
        ('30x25 medium', bip(30, 25, 0.2, rng)),
        ('first rows empty', None),
        ('last rows empty', None),
    ]
    B = BipartiteGraph(6, 3)
    B.add_edge(4, 1); B.add_edge(4, 3); B.add_edge(6, 2)
    graphs[-2] = ('first rows empty', B)
    B = BipartiteGraph(6, 3)
    B.add_edge(1, 3); B.add_edge(1, 1); B.add_edge(2, 2)
    graphs[-1] = ('last rows empty', B)

    for name, B in graphs:
        for start in [0, 1, 17, 1000]:
            F = BaseCNF()
            F.update_variable_number(start)
            tag = 'direct %s start=%d' % (name, start)
            g = attempt(tag + ' build', lambda: len(BipartiteEdgesVariables(F, B, labelfmt='E[{},{}]')))
            g = BipartiteEdgesVariables(F, B, labelfmt='E[{},{}]')
            rec(tag, 'numvar unchanged', F.number_of_variables())
            dump_group(tag, F, g, B)
            m = UnaryMappingVariables(F, B, labelfmt='f({})={}')
            dump_group(tag + ' mapping', F, m, B)
            rec(tag, 'domain', list(m.domain()), 'range', list(m.range()))

    # 2. error paths of the constructor
    F = BaseCNF()
    attempt('notbipartite', lambda: BipartiteEdgesVariables(F, Graph(3)))
    attempt('notgraph', lambda: BipartiteEdgesVariables(F, [(1, 2)]))
    attempt('none', lambda: BipartiteEdgesVariables(F, None))
    attempt('badlabel3', lambda: BipartiteEdgesVariables(F, BipartiteGraph(2, 2), labelfmt='{}{}{}'))
    attempt('label1', lambda: len(BipartiteEdgesVariables(F, BipartiteGraph(2, 2), labelfmt='{}')))
    rec('after errors', F.number_of_variables())

    # 3. interleavings in the variable manager, for both formula classes
    for cls in (CNF, OPB):
        for rnd in range(6):
            F = cls()
            r = random.Random(rnd * 7 + 3)
            for step in range(14):
                tag = '%s run %d step %d' % (cls.__name__, rnd, step)
                choice = r.randrange(8)
                if choice == 0:
                    Bg = bip(r.randrange(0, 6), r.randrange(0, 6), r.random(), r)
                    g = F.new_bipartite_edges(Bg, label='b%d({},{})' % step)
                    dump_group(tag, F, g, Bg)
                elif choice == 1:
                    n = r.randrange(0, 7)
                    G = Graph(n)
                    for u in range(1, n + 1):
                        for v in range(u + 1, n + 1):
                            if r.random() < 0.5:
                                G.add_edge(u, v)
                    g = F.new_graph_edges(G, label='g%d({},{})' % step)
                    dump_group(tag, F, g, None)
                elif choice == 2:
                    n = r.randrange(0, 7)
                    D = DirectedGraph(n)
                    for u in range(1, n + 1):
                        for v in range(1, n + 1):
                            if u != v and r.random() < 0.3:
                                D.add_edge(u, v)
                    g = F.new_digraph_edges(D, label='d%d({},{})' % step,
                                            sortby=r.choice(['pred', 'succ']))
                    dump_group(tag, F, g, None)
                elif choice == 3:
                    g = F.new_mapping(r.randrange(0, 5), r.randrange(0, 5), label='m%d({})={{}}' % step)
                    dump_group(tag, F, g, g.G)
                elif choice == 4:
                    Bg = bip(r.randrange(1, 5), r.randrange(1, 5), 0.6, r)
                    g = F.new_sparse_mapping(Bg, label='s%d({})={{}}' % step)
                    dump_group(tag, F, g, Bg)
                elif choice == 5:
                    rec(tag, 'var', F.new_variable('x%d' % step))
                elif choice == 6:
                    n = F.number_of_variables()
                    if n > 0:
                        lits = [r.choice([-1, 1]) * r.randrange(1, n + 1) for _ in range(r.randrange(1, 5))]
                        F.add_clause(lits)
                else:
                    F.update_variable_number(F.number_of_variables() + r.randrange(0, 4))
                rec(tag, 'numvar', F.number_of_variables())
            rec(cls.__name__, rnd, 'labels', list(F.all_variable_labels()))
            rec(cls.__name__, rnd, 'content', [repr(c) for c in F])
            rec(cls.__name__, rnd, 'groups', [(type(g).__name__, list(g)) for g in F._groups])

    # 4. families which rely on edge variables, at realistic sizes
    def show(tag, F):
        rec(tag, F.number_of_variables(), len(F))
        rec(tag, 'labels', list(F.all_variable_labels()))
        rec(tag, 'clauses', [repr(c) for c in F])
        mx = 0
        for c in F:
            if isinstance(c, (list, tuple)) and c and isinstance(c[0], int):
                mx = max(mx, max(abs(l) for l in c))
        rec(tag, 'maxvar', mx)

    Bl = bipartite_random_left_regular(20, 14, 3, seed=11)
    Br = bipartite_random(15, 12, 0.3, seed=5)
    for fc in (CNF, OPB):
        n = fc.__name__
        show(n + ' gphp', cnfgen.GraphPigeonholePrinciple(Bl, formula_class=fc))
        show(n + ' gphp fun onto', cnfgen.GraphPigeonholePrinciple(Br, functional=True, onto=True, formula_class=fc))
        show(n + ' php', cnfgen.PigeonholePrinciple(9, 7, formula_class=fc))
        show(n + ' subsetcard', cnfgen.SubsetCardinalityFormula(Br, formula_class=fc))
    G = Graph(12)
    r = random.Random(99)
    for u in range(1, 13):
        for v in range(u + 1, 13):
            if r.random() < 0.35:
                G.add_edge(u, v)
    show('tseitin', cnfgen.TseitinFormula(G))
    show('coloring', cnfgen.GraphColoringFormula(G, 3))
    show('domset', cnfgen.DominatingSet(G, 4))
    show('clique', cnfgen.CliqueFormula(G, 3))
    show('gop', cnfgen.GraphOrderingPrinciple(G))

    print(H.hexdigest())


if __name__ == '__main__':
    main()
