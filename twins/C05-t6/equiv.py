#!/usr/bin/env python
"""Equivalence digest for the refactoring of the argument checkers
positive_int, any_int and one_of_values in cnfgen/localtypes.py, which
guard the arity / threshold / operator / function arguments of the
substitutions.

Run as:  cd <checkout> && /venv/bin/python equiv.py
Prints one SHA256 digest of every observable thing produced.
"""
import sys
import os
import random
import hashlib
import numbers
from fractions import Fraction
from decimal import Decimal

sys.path.insert(0, os.getcwd())

import cnfgen
from cnfgen import localtypes as LT
from cnfgen.formula.cnf import CNF
from cnfgen.graphs import BipartiteGraph, CompleteBipartiteGraph
from cnfgen.transformations import substitutions as S

H = hashlib.sha256()


def emit(*items):
    H.update((" ".join(repr(x) for x in items) + "\n").encode('utf-8'))


def attempt(tag, fn):
    try:
        res = fn()
    except Exception as e:  # record type, message and chaining
        emit(tag, 'EXC', type(e).__name__, str(e),
             type(e.__cause__).__name__, str(e.__cause__),
             type(e.__context__).__name__)
        return 'raised'
    return res


def dump(tag, F):
    if F is None or isinstance(F, str):
        return
    emit(tag, 'nvars', F.number_of_variables(), 'nclauses', len(F))
    emit(tag, 'clauses', [list(c) for c in F])
    emit(tag, 'header', sorted(F.header.items()))
    emit(tag, 'labels', list(F.all_variable_labels()))
    if len(F) <= 200:
        emit(tag, 'dimacs', F.to_dimacs())


class MyInt(int):
    """An integer subclass (is a numbers.Integral)"""
    def __repr__(self):
        return 'MyInt({})'.format(int(self))


class Weird(numbers.Integral):
    """A registered Integral that records which comparisons are made"""
    log = []

    def __init__(self, v):
        self.v = v

    def __repr__(self):
        return 'Weird({})'.format(self.v)

    def __lt__(self, other):
        Weird.log.append(('lt', self.v, other))
        return self.v < other

    def __le__(self, other):
        Weird.log.append(('le', self.v, other))
        return self.v <= other

    def __gt__(self, other):
        Weird.log.append(('gt', self.v, other))
        return self.v > other

    def __ge__(self, other):
        Weird.log.append(('ge', self.v, other))
        return self.v >= other

    def __eq__(self, other):
        Weird.log.append(('eq', self.v, other))
        return self.v == other

    def __hash__(self):
        return hash(self.v)

    def __int__(self):
        return self.v

    def _no(self, *a):
        raise NotImplementedError
    __abs__ = __add__ = __and__ = __ceil__ = __floor__ = __floordiv__ = _no
    __invert__ = __lshift__ = __mod__ = __mul__ = __neg__ = __or__ = _no
    __pos__ = __pow__ = __radd__ = __rand__ = __rfloordiv__ = __rlshift__ = _no
    __rmod__ = __rmul__ = __ror__ = __round__ = __rpow__ = __rrshift__ = _no
    __rshift__ = __rtruediv__ = __rxor__ = __truediv__ = __trunc__ = __xor__ = _no


class BadCmp(int):
    """Integral whose comparison fails"""
    def __lt__(self, other):
        raise RuntimeError('cannot compare {} < {}'.format(int(self), other))

    def __repr__(self):
        return 'BadCmp({})'.format(int(self))


class Choices:
    """A container that records the membership tests"""
    def __init__(self, data):
        self.data = data
        self.log = []

    def __contains__(self, x):
        self.log.append(x)
        return x in self.data

    def __repr__(self):
        return 'Choices({!r})'.format(self.data)

    def __str__(self):
        return 'choices<{}>'.format(",".join(str(x) for x in self.data))


class BadName:
    def __format__(self, spec):
        raise KeyError('unformattable name')


VALUES = [-10**30, -3, -1, 0, 1, 2, 3, 7, 10**30, True, False,
          MyInt(0), MyInt(1), MyInt(-4), MyInt(5),
          Weird(0), Weird(1), Weird(-2), Weird(9), BadCmp(3), BadCmp(0),
          0.0, 1.0, 1.5, -1.0, float('inf'), float('nan'),
          Fraction(1, 2), Fraction(3, 1), Decimal('2'), 1 + 0j,
          '1', 'a', '', b'1', None, [], [1], (1,), {1: 2}, {1}, object, int,
          len]
NAMES = ['k', 'N', 'C', '', 'a b', '{}', '{0}', 'ε', 3, None, ('t', 1)]


def checkers_section():
    funcs = ['positive_int', 'any_int', 'non_negative_int', 'probability_value',
             'positive_int_seq', 'non_negative_int_seq']
    for fname in funcs:
        f = getattr(LT, fname)
        for v in VALUES:
            for name in NAMES:
                Weird.log.clear()
                tag = '{}/{!r}/{!r}'.format(fname, v, name)
                res = attempt(tag, lambda: f(v, name))
                emit(tag, res, list(Weird.log))
        emit(fname, attempt(fname + '/badname', lambda: f(1, BadName())))
        emit(fname, attempt(fname + '/badname', lambda: f('x', BadName())))
        emit(fname, attempt(fname + '/noargs', lambda: f()))
        emit(fname, attempt(fname + '/onearg', lambda: f(1)))
        emit(fname, attempt(fname + '/kw', lambda: f(value=2, name='kw')))
        emit(fname, attempt(fname + '/kw', lambda: f(value='2', name='kw')))
    seqs = [[], [1, 2], [0, 1], [1, -1], [1, 'a'], 'abc', (3, 4), range(3),
            range(1, 3), None, 5, [1.0], [True], [MyInt(2), 3], {2, 3},
            [[1]], [None]]
    for fname in ['positive_int_seq', 'non_negative_int_seq']:
        f = getattr(LT, fname)
        for s in seqs:
            tag = '{}/{!r}'.format(fname, s)
            emit(tag, attempt(tag, lambda: f(s, 'seq')))
        emit(fname, 'gen', attempt(fname, lambda: f((i for i in [1, 2, 0]), 'g')))

    choicesets = [['xor', 'maj'], ('xor', 'maj'), {'xor'}, 'xormaj', '',
                  [], ['==', '<', '>', '<=', '>=', '!='], {'a': 1}, range(3),
                  [1, 2, 3], [None], None, 5, Choices(['xor', 'maj']),
                  Choices([1, 2]), frozenset([1, 2]), [[1], [2]], {1, 2}]
    values = ['xor', 'maj', 'and', 'x', '', '==', '=', '!=', 1, 2, 0, 1.0, True,
              None, [1], [3], (1,), Weird(2), Weird(5), MyInt(1), 'a', {1: 1}]
    for ch in choicesets:
        for v in values:
            for name in ['function', 'op', '', 7]:
                Weird.log.clear()
                if isinstance(ch, Choices):
                    ch.log.clear()
                tag = 'one_of_values/{!r}/{!r}/{!r}'.format(v, name, ch)
                res = attempt(tag, lambda: LT.one_of_values(v, name, ch))
                emit(tag, res, list(Weird.log),
                     list(ch.log) if isinstance(ch, Choices) else None)
    emit('oov', attempt('oov/badname',
                        lambda: LT.one_of_values('a', BadName(), ['a'])))
    emit('oov', attempt('oov/badname2',
                        lambda: LT.one_of_values('b', BadName(), ['a'])))
    emit('oov', attempt('oov/noargs', lambda: LT.one_of_values()))
    emit('oov', attempt('oov/kw', lambda: LT.one_of_values(
        value='a', name='n', choices=['a', 'b'])))
    emit('oov', attempt('oov/kw', lambda: LT.one_of_values(
        value='c', name='n', choices=['a', 'b'])))
    for fname in ['positive_int', 'any_int', 'one_of_values']:
        f = getattr(LT, fname)
        emit(fname, f.__name__, f.__doc__, f.__code__.co_varnames[:f.__code__.co_argcount])


def formulas():
    rng = random.Random(60606)
    out = []
    out.append(('empty', CNF()))
    out.append(('emptyclause', CNF([[]])))
    F = CNF([[1, -2], []])
    F.update_variable_number(4)
    out.append(('unused', F))
    out.append(('repeat', CNF([[1, 1, -2], [2, -2], [-1, -1]])))
    F = CNF()
    x = F.new_variable('x')
    y = F.new_block(2, label='y_{{{}}}')
    F.add_clause([x, -y(1)])
    F.add_clause([-x, y(2), y(1)])
    out.append(('named', F))
    for n in range(1, 4):
        m = rng.randint(1, 4)
        cls = []
        for _ in range(m):
            w = rng.randint(0, 3)
            cls.append([rng.choice([-1, 1]) * rng.randint(1, n)
                        for _ in range(w)])
        F = CNF(cls)
        F.update_variable_number(n)
        out.append(('rnd-{}'.format(n), F))
    return out


KFUNCS = ['XorSubstitution', 'OrSubstitution', 'AndSubstitution',
          'MajoritySubstitution', 'AllEqualSubstitution',
          'NotAllEqualSubstitution', 'ExactlyOneSubstitution',
          'FormulaLifting']
NKFUNCS = ['AtLeastKSubstitution', 'AtMostKSubstitution',
           'ExactlyKSubstitution', 'AnythingButKSubstitution']


def substitution_section():
    for name, F in formulas():
        for k in [1, 2, 3, True, MyInt(2)]:
            for fname in KFUNCS:
                tag = '{}/{}/{!r}'.format(name, fname, k)
                dump(tag, attempt(tag, lambda: getattr(S, fname)(F, k)))
            for c in [-1, 0, 1, 2, 4, True, MyInt(1)]:
                for fname in NKFUNCS:
                    tag = '{}/{}/{!r}/{!r}'.format(name, fname, k, c)
                    dump(tag, attempt(tag, lambda: getattr(S, fname)(F, k, c)))
        n = F.number_of_variables()
        for func in ['xor', 'maj']:
            tag = '{}/compress/{}'.format(name, func)
            dump(tag, attempt(tag, lambda: S.VariableCompression(
                F, CompleteBipartiteGraph(n, 3), func)))

    # bad arguments
    F = CNF([[1, -2], [2]])
    bad = [0, -1, -7, 'a', '2', 1.5, 2.0, None, [2], False, MyInt(0),
           Fraction(2, 1), BadCmp(2), 10**3 * 0]
    for k in bad:
        for fname in KFUNCS:
            tag = 'bad/{}/{!r}'.format(fname, k)
            dump(tag, attempt(tag, lambda: getattr(S, fname)(F, k)))
        for fname in NKFUNCS:
            tag = 'bad/{}/{!r}/1'.format(fname, k)
            dump(tag, attempt(tag, lambda: getattr(S, fname)(F, k, 1)))
            tag = 'bad/{}/2/{!r}'.format(fname, k)
            dump(tag, attempt(tag, lambda: getattr(S, fname)(F, 2, k)))
            tag = 'bad/{}/{!r}/{!r}'.format(fname, k, k)
            dump(tag, attempt(tag, lambda: getattr(S, fname)(F, k, k)))
    for op in ['=', '=<', '', None, 3, ['=='], '== ', 'eq']:
        for k in [2, 0, 'a']:
            for C in [1, 'x', 1.0]:
                tag = 'bad/linear/{!r}/{!r}/{!r}'.format(k, op, C)
                dump(tag, attempt(tag, lambda: S.LinearSubstitution(F, k, op, C)))
    for func in ['and', 'XOR', '', None, 3, ['xor'], 'xo', 'majority']:
        for B in [BipartiteGraph(2, 2), BipartiteGraph(3, 2), 'nograph', None]:
            tag = 'bad/compress/{!r}/{}'.format(func, type(B).__name__)
            dump(tag, attempt(tag, lambda: S.VariableCompression(F, B, func)))


def main():
    checkers_section()
    substitution_section()
    print(H.hexdigest())


if __name__ == '__main__':
    main()
