"""Equivalence harness for the refactoring of
cnfgen/graphs.py: BipartiteGraph.from_networkx (edge conversion loop).

This is the code through which a networkx bipartite graph (or a GML/DOT
file) reaches GraphPigeonholePrinciple and SubsetCardinalityFormula.
"""
import sys, os, hashlib, random, io
sys.path.insert(0, os.getcwd())

import networkx
from cnfgen.graphs import BipartiteGraph, CompleteBipartiteGraph, Graph, readGraph
from cnfgen.families.pigeonhole import GraphPigeonholePrinciple
from cnfgen.families.subsetcardinality import SubsetCardinalityFormula

out = []


def record(*items):
    out.append(repr(items))


def describe(B):
    L, R = B.parts()
    return (type(B).__name__, B.name, B.left_order(), B.right_order(),
            B.number_of_edges(), list(B.edges()),
            [(u, list(B.right_neighbors(u))) for u in L],
            [(v, list(B.left_neighbors(v))) for v in R],
            sorted(B.edgeset), sorted(B.ladj.items()), sorted(B.radj.items()))


def attempt(tag, fn):
    try:
        record(tag, 'OK', fn())
    except BaseException as e:
        record(tag, 'EXC', type(e).__name__, str(e),
               type(e.__cause__).__name__, type(e.__context__).__name__)


def dump_formula(F):
    return (F.header.get('description'), F.number_of_variables(),
            [list(c) for c in F.clauses()], list(F.all_variable_labels()),
            F.to_dimacs())


def all_uses(tag, G):
    attempt(tag + ('from_networkx',), lambda: describe(BipartiteGraph.from_networkx(G)))
    attempt(tag + ('normalize',), lambda: describe(BipartiteGraph.normalize(G, 'X')))
    for functional in (False, True):
        for onto in (False, True):
            attempt(tag + ('GPHP', functional, onto),
                    lambda: dump_formula(GraphPigeonholePrinciple(G, functional=functional, onto=onto)))
    for eq in (False, True):
        attempt(tag + ('SC', eq), lambda: dump_formula(SubsetCardinalityFormula(G, equalities=eq)))


def mk(left, right, edges, name=None, cls=networkx.Graph, lcol=0, rcol=1):
    G = cls()
    G.add_nodes_from(left, bipartite=lcol)
    G.add_nodes_from(right, bipartite=rcol)
    G.add_edges_from(edges)
    if name is not None:
        G.name = name
    return G


cases = []
# boundary sizes
cases.append(('null', mk([], [], [])))
cases.append(('only-left', mk([1, 2], [], [])))
cases.append(('only-right', mk([], [1, 2, 3], [])))
cases.append(('one-edge', mk(['a'], ['b'], [('a', 'b')], name='one edge')))
cases.append(('one-edge-rev', mk(['a'], ['b'], [('b', 'a')])))
# edges given in both orientations, repeated, in scrambled order
cases.append(('mixed-orient', mk([1, 2, 3], [4, 5, 6, 7],
                                 [(1, 4), (5, 1), (2, 7), (7, 3), (6, 2), (3, 4), (4, 3), (1, 4)],
                                 name='mixed')))
# nodes inserted right side first, interleaved
G = networkx.Graph()
for i, node in enumerate(['r1', 'l1', 'r2', 'l2', 'l3', 'r3', 'r4']):
    G.add_node(node, bipartite=1 if node[0] == 'r' else 0)
G.add_edges_from([('r1', 'l1'), ('l2', 'r1'), ('l3', 'r4'), ('r3', 'l3'), ('l1', 'r2'), ('r2', 'l2')])
cases.append(('interleaved', G))
# string colours, boolean colours, float colours
cases.append(('str-colours', mk([1, 2], [3, 4], [(1, 3), (4, 2), (2, 3)], lcol='0', rcol='1')))
cases.append(('bool-colours', mk([1, 2], [3, 4], [(1, 3), (4, 2)], lcol=False, rcol=True)))
cases.append(('float-colours', mk([1, 2], [3, 4], [(1, 3), (4, 2)], lcol=0.0, rcol=1.0)))
cases.append(('swapped-colours', mk([1, 2], [3, 4, 5], [(1, 3), (4, 2), (5, 1)], lcol=1, rcol=0)))
# networkx generators
cases.append(('nx-complete-3-4', networkx.bipartite.complete_bipartite_graph(3, 4)))
cases.append(('nx-complete-0-2', networkx.bipartite.complete_bipartite_graph(0, 2)))
cases.append(('nx-random', networkx.bipartite.random_graph(4, 5, 0.5, seed=11)))
cases.append(('nx-gnmk', networkx.bipartite.gnmk_random_graph(5, 4, 9, seed=12)))
# other networkx classes
cases.append(('digraph', mk([1, 2], [3, 4], [(1, 3), (4, 2), (3, 2)], cls=networkx.DiGraph)))
cases.append(('multigraph', mk([1, 2], [3, 4], [(1, 3), (1, 3), (4, 2), (3, 1)], cls=networkx.MultiGraph)))
# error cases
cases.append(('edge-in-left', mk([1, 2, 3], [4, 5], [(1, 4), (1, 2), (3, 5)])))
cases.append(('edge-in-right', mk([1, 2, 3], [4, 5], [(1, 4), (5, 4), (3, 5)])))
cases.append(('selfloop-left', mk([1, 2], [3], [(1, 3), (2, 2)])))
cases.append(('selfloop-right', mk([1, 2], [3], [(3, 3), (1, 3)])))
G = mk([1, 2], [3], [(1, 3)])
G.add_node(9)
cases.append(('unlabelled-node', G))
G = mk([1, 2], [3], [(1, 3)])
G.add_edge(2, 'new')          # node created by the edge, no label
cases.append(('unlabelled-via-edge', G))
cases.append(('colour-2', mk([1, 2], [3], [(1, 3)], rcol=2)))
cases.append(('colour-None', mk([1, 2], [3], [(1, 3)], lcol=None)))
cases.append(('colour-str-x', mk([1, 2], [3], [(1, 3)], lcol='x')))
cases.append(('path-no-labels', networkx.path_graph(4)))
# random labelled graphs, random node insertion order and random edge orientation
rnd = random.Random(99)
for t in range(40):
    L, R = rnd.randint(0, 5), rnd.randint(0, 5)
    nodes = [('L', i) for i in range(L)] + [('R', j) for j in range(R)]
    rnd.shuffle(nodes)
    G = networkx.Graph(name='random case {}'.format(t))
    for nd in nodes:
        G.add_node(nd, bipartite=0 if nd[0] == 'L' else 1)
    for i in range(L):
        for j in range(R):
            if rnd.random() < 0.5:
                e = (('L', i), ('R', j))
                G.add_edge(*(e if rnd.random() < 0.5 else e[::-1]))
    if t % 10 == 9 and L >= 2:
        G.add_edge(('L', 0), ('L', 1))
    cases.append((('rand', t), G))

for tag, G in cases:
    all_uses((tag,), G)

# non networkx arguments
for tag, obj in [('none', None), ('int', 3), ('list', [(1, 2)]), ('simple', Graph.complete_graph(3)),
                 ('cbg', CompleteBipartiteGraph(2, 3)), ('bg', BipartiteGraph(2, 2))]:
    attempt((tag, 'from_networkx'), lambda: describe(BipartiteGraph.from_networkx(obj)))
    attempt((tag, 'normalize'), lambda: describe(BipartiteGraph.normalize(obj, 'Y')))
    attempt((tag, 'GPHP'), lambda: dump_formula(GraphPigeonholePrinciple(obj)))

# subclass goes through cls(...)
class MyB(BipartiteGraph):
    pass
attempt(('subclass',), lambda: describe(MyB.from_networkx(cases[5][1])))

# files: GML and DOT go through from_networkx
gml = """graph [
  name "gml bip"
  node [ id 1 label "1" bipartite 0 ]
  node [ id 2 label "2" bipartite 0 ]
  node [ id 3 label "3" bipartite 1 ]
  node [ id 4 label "4" bipartite 1 ]
  node [ id 5 label "5" bipartite 1 ]
  edge [ source 1 target 3 ]
  edge [ source 4 target 1 ]
  edge [ source 2 target 5 ]
  edge [ source 5 target 1 ]
]
"""
gml_bad = gml.replace('edge [ source 2 target 5 ]', 'edge [ source 1 target 2 ]')
gml_nolabel = gml.replace('node [ id 5 label "5" bipartite 1 ]', 'node [ id 5 label "5" ]')
dot = """graph G {
 a [bipartite=0];
 b [bipartite=0];
 x [bipartite=1];
 y [bipartite=1];
 a -- x;
 y -- a;
 b -- y;
}
"""
dot_bad = dot.replace('b -- y;', 'b -- a;')
for tag, text, fmt in [('gml', gml, 'gml'), ('gml-bad', gml_bad, 'gml'), ('gml-nolabel', gml_nolabel, 'gml'),
                       ('dot', dot, 'dot'), ('dot-bad', dot_bad, 'dot')]:
    def read():
        B = readGraph(io.StringIO(text), 'bipartite', file_format=fmt)
        return describe(B), dump_formula(GraphPigeonholePrinciple(B, functional=True))
    attempt(('file', tag), read)

print(hashlib.sha256("\n".join(out).encode('utf-8')).hexdigest())
