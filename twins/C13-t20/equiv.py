"""Equivalence script for cnfgen/families/randomkxor.py (random k-XOR)."""
import sys, os, hashlib, random, itertools, warnings
warnings.simplefilter('ignore')
sys.path.insert(0, os.getcwd())

import cnfgen
from cnfgen import RandomKXOR
from cnfgen.formula.cnf import CNF
from cnfgen.formula.opb import OPB
from cnfgen.families import randomkxor as RX

H = hashlib.sha256()
NOUT = [0]


def emit(*items):
    text = ' '.join(str(x) for x in items)
    H.update(text.encode('utf-8'))
    H.update(b'\n')
    NOUT[0] += 1


def describe_exc(e):
    chain = []
    while e is not None and len(chain) < 4:
        chain.append((type(e).__name__, str(e)))
        e = e.__cause__ or e.__context__
    return chain


def rnd_state():
    return (random.random(), random.getrandbits(70))


def planted_sets(n, rng):
    """Various lists of planted assignments over n variables"""
    total = lambda: [rng.choice([-1, 1]) * v for v in range(1, n + 1)]
    res = [None, [], [total()], [total(), total()], [total(), total(), total()],
           [tuple(total())], [set(total())], [frozenset(total())] * 2,
           [list(range(1, n + 1)), [-v for v in range(1, n + 1)]]]
    if n >= 2:
        res.append([[1], [-2]])                    # partial assignments
        res.append([[rng.choice([-1, 1]) * v for v in range(1, n + 1, 2)]])
        res.append([[]])
        res.append([total(), []])
        res.append([total(), total(), [1]])
    return res


def max_parities(k, n, planted):
    try:
        return sum(1 for _ in RX.all_good_parities(k, n, planted or []))
    except ValueError:
        return 4


class Recorder(CNF):
    """Records the parities the generator asks for"""
    def __init__(self, clauses=None, description=None):
        CNF.__init__(self, clauses=clauses, description=description)
        self.parities = []

    def add_parity(self, lits, constant, check=True):
        self.parities.append((type(lits).__name__, list(lits), constant, check))
        CNF.add_parity(self, lits, constant, check=check)


rng = random.Random(20240614)

# 1. RandomKXOR on a grid of parameters, around the maximum too
for n in range(0, 7):
    for k in range(0, n + 3):
        for pi, planted in enumerate(planted_sets(n, rng)):
            top = max_parities(k, n, planted) if k <= n else 3
            ms = sorted(set([0, 1, 2, top // 20, top // 9, top // 2, top - 1, top,
                             top + 1, top + 5, 11 * top]))
            for m in ms:
                if m < 0:
                    continue
                seed = 7 * n + 3 * k + m + pi
                try:
                    F = RandomKXOR(k, n, m, seed=seed, planted_assignments=planted,
                                   formula_class=Recorder)
                    emit('OK', k, n, m, seed, planted, F.number_of_variables(),
                         len(F), F.parities, list(F.clauses()),
                         F.header['description'])
                    assert len(F.parities) == m
                    assert len(set((tuple(p[1]), p[2]) for p in F.parities)) == m
                except Exception as e:
                    emit('EXC', k, n, m, seed, planted, describe_exc(e))
                emit(rnd_state())

# 2. bigger instances, keyword / positional, other formula class, seeds
for (k, n, m) in [(3, 20, 80), (3, 12, 400), (3, 12, 440), (3, 12, 441),
                  (4, 9, 250), (2, 30, 860), (2, 30, 870), (2, 30, 871),
                  (5, 8, 112), (5, 8, 113), (3, 100, 420), (7, 50, 40),
                  (1, 40, 80), (1, 40, 81), (1, 40, 75), (6, 6, 2), (6, 6, 1),
                  (6, 6, 3)]:
    for seed in (None, 0, 1, 'hello', 3.5):
        if seed is None:
            random.seed(99)
        for fc in (CNF, OPB):
            try:
                F = RandomKXOR(k, n, m, seed, None, fc)
                emit('OK', k, n, m, seed, fc.__name__, type(F).__name__,
                     F.number_of_variables(), len(F),
                     F.to_dimacs() if fc is CNF else F.to_opb())
            except Exception as e:
                emit('EXC', k, n, m, seed, fc.__name__, describe_exc(e))
            emit(rnd_state())
    pl = [[rng.choice([-1, 1]) * v for v in range(1, n + 1)] for _ in range(2)]
    try:
        F = RandomKXOR(k, n, m // 5, seed=5, planted_assignments=pl,
                       formula_class=Recorder)
        emit('OK', k, n, m, pl, F.parities, len(F))
        for a in pl:
            assert all(any(l in a for l in c) for c in F.clauses())
    except Exception as e:
        emit('EXC', k, n, m, pl, describe_exc(e))
    emit(rnd_state())

# 3. bad arguments
for args in [(-1, 3, 2), (2, -3, 2), (2, 3, -2), (2.0, 3, 2), (2, '3', 2),
             (2, 3, None), (True, 3, 2), (2, 3, 2.5), (4, 3, 0), (1, 0, 0),
             (4, 3, -1), (None, None, None)]:
    try:
        F = RandomKXOR(*args, seed=1)
        emit('OK', args, list(F.clauses()))
    except Exception as e:
        emit('EXC', args, describe_exc(e))
    emit(rnd_state())

# 4. the module level sampling functions, directly
for n in range(0, 7):
    for k in range(0, n + 2):
        for pi, planted in enumerate(planted_sets(n, rng)):
            if planted is None:
                continue
            try:
                full = list(RX.all_good_parities(k, n, planted))
                emit('ALL', k, n, planted, full)
                top = len(full)
            except Exception as e:
                emit('ALLEXC', k, n, planted, describe_exc(e))
                top = 5
            for m in sorted(set([0, 1, top // 11, top // 3, top - 1, top, top + 1,
                                 2 * top + 3])):
                if m < 0:
                    continue
                random.seed(n * 1000 + k * 100 + m * 10 + pi)
                try:
                    res = RX.sample_parities(k, n, m, planted)
                    emit('SAMPLE', k, n, m, planted, type(res).__name__,
                         [(type(x).__name__, type(x[0]).__name__) for x in res],
                         res)
                except Exception as e:
                    emit('SAMPLEEXC', k, n, m, planted, describe_exc(e))
                emit(rnd_state())

# k > n reaches random.sample inside sample_parities
for (k, n, m) in [(3, 2, 1), (3, 2, 0), (1, 0, 1), (1, 0, 0)]:
    random.seed(4)
    try:
        emit('SAMPLE', k, n, m, RX.sample_parities(k, n, m, []))
    except Exception as e:
        emit('SAMPLEEXC', k, n, m, describe_exc(e))
    emit(rnd_state())

for X, b, assignments in [([], 0, []), ([], 1, [[1]]), ([1, 2], 1, [[1, 2], [-1, -2]]),
                          ([1, 2], 1, [[-1, 2]]), ((3,), 0, [{3}, {-3}]),
                          ([1, 2], 0, [[1], [2], [3]]), ([2, 2], 0, [[1, 2]]),
                          ([1, 2], 1, [[1, 2], [3]]), ([1, 2], 1, [[3], [1, 2]])]:
    try:
        emit('SAT', X, b, assignments, RX.parity_satisfied(X, b, assignments))
    except Exception as e:
        emit('SATEXC', X, b, assignments, describe_exc(e))

emit(RX.sample_parities.__doc__, RX.RandomKXOR.__doc__, RX.all_good_parities.__doc__,
     RX.parity_satisfied.__doc__)

sys.stderr.write('%d records\n' % NOUT[0])
print(H.hexdigest())
