#!/usr/bin/env python
"""Equivalence script for the refactoring of VariableCompression
(cnfgen/transformations/substitutions.py).

Compresses many small CNFs (empty clauses, unused variables, repeated and
opposite literals) through explicit, random, complete, empty and networkx
bipartite graphs, with both gadgets, checks the error paths (wrong left side,
bad function name, bad graph, bad formula), brute forces the semantics on the
small cases and hashes every formula, header, text and exception."""
import sys, os, hashlib, random, itertools
sys.path.insert(0, os.getcwd())

import networkx
from cnfgen.formula.cnf import CNF
from cnfgen.graphs import BipartiteGraph, CompleteBipartiteGraph, Graph
from cnfgen.transformations.substitutions import (
    VariableCompression, XorSubstitution, FlipPolarity)

import time
T0 = time.time()
H = hashlib.sha256()


def emit(*items):
    H.update((" | ".join(repr(x) for x in items) + "\n").encode('utf8'))


def attempt(tag, fn):
    if os.environ.get('EQUIV_TRACE'): print(round(time.time()-T0,1), tag, file=sys.stderr, flush=True)
    try:
        emit(tag, 'ok', fn())
    except Exception as e:
        emit(tag, 'exc', type(e).__name__, str(e),
             type(e.__cause__).__name__ if e.__cause__ else None)


def state(F):
    return (F.number_of_variables(), [list(c) for c in F],
            list(F.all_variable_labels()), list(F.header.items()),
            F.to_dimacs(), F.to_latex())


def sat(clauses, assignment):
    return all(any((lit > 0) == assignment[abs(lit)] for lit in c) for c in clauses)


def semantics(F, B, G, function):
    """Truth table of G against F composed with the gadget"""
    L, R = B.left_order(), B.right_order()
    rows = []
    for bits in itertools.product([False, True], repeat=R):
        new = dict(enumerate(bits, start=1))
        old = {}
        for v in range(1, L + 1):
            nb = list(B.right_neighbors(v))
            ones = sum(new[w] for w in nb)
            old[v] = (ones % 2 == 1) if function == 'xor' else (2 * ones >= len(nb))
        a, b = sat(list(G), new), sat(list(F), old)
        rows.append((a, b))
    return (all(a == b for a, b in rows), rows)


rnd = random.Random(170517)


def random_cnf(n, m, w):
    F = CNF()
    F.update_variable_number(n)
    for _ in range(m):
        F.add_clause([rnd.choice([-1, 1]) * rnd.randint(1, n)
                      for _ in range(rnd.randint(0, w))])
    return F


def random_graph(n, r, p):
    B = BipartiteGraph(n, r)
    for a in range(1, n + 1):
        for b in range(1, r + 1):
            if rnd.random() < p:
                B.add_edge(a, b)
    return B


BASES = [CNF(), CNF([[]]), CNF([[1]]), CNF([[1, -1]]), CNF([[2, 2, -3]]),
         CNF([[1, 2], [-1], [], [3, -2, 1]]), CNF([[1, 2, 3], [-1, -2, -3]])]
u = CNF([[1, -2]], description='with {curly} braces')
u.update_variable_number(4)
BASES.append(u)
named = CNF()
named.new_variable('a')
named.new_block(2, label='b_{}')
named.add_clauses_from([[1, -2], [3], [-3, -1, 2]])
BASES.append(named)
for _ in range(8):
    BASES.append(random_cnf(rnd.randint(1, 4), rnd.randint(0, 5), 3))

FUNCTIONS = ['xor', 'maj']

for bi, F in enumerate(BASES):
    n = F.number_of_variables()
    graphs = []
    for r in (0, 1, 2, 3, 5):
        for p in (0.0, 0.4, 1.0):
            graphs.append(('rnd', r, p, random_graph(n, r, p)))
    graphs.append(('complete', 2, None, CompleteBipartiteGraph(n, 2)))
    graphs.append(('complete', 4, None, CompleteBipartiteGraph(n, 4)))
    for gi, (kind, r, p, B) in enumerate(graphs):
        for function in FUNCTIONS:
            def run():
                G = VariableCompression(F, B, function)
                ok, rows = semantics(F, B, G, function) if B.right_order() <= 5 else (None, None)
                return (state(G), ok, rows, B.number_of_edges(), state(F))
            attempt(('comp', bi, gi, kind, r, p, function), run)
    # wrong number of vertices on the left side
    for dn in (-1, 1, 3):
        if n + dn < 0:
            continue
        B = random_graph(n + dn, 3, 0.5)
        for function in FUNCTIONS + ['and']:
            attempt(('wrongleft', bi, dn, function),
                    lambda: state(VariableCompression(F, B, function)))
    # bad function names (checked before anything else)
    B = random_graph(n, 3, 0.5)
    for function in ('and', 'XOR', 'Maj', '', None, 3, ['xor'], ('xor', 'maj'), 'xo', 'major'):
        attempt(('badfunc', bi, function),
                lambda: state(VariableCompression(F, B, function)))
        attempt(('badfunc-badgraph', bi, function),
                lambda: state(VariableCompression(F, 'nograph', function)))
    # networkx bipartite graphs get normalized
    for r in (1, 3):
        X = networkx.Graph()
        X.add_nodes_from(range(1, n + 1), bipartite=0)
        X.add_nodes_from(range(n + 1, n + r + 1), bipartite=1)
        for a in range(1, n + 1):
            for b in range(n + 1, n + r + 1):
                if rnd.random() < 0.6:
                    X.add_edge(a, b)
        for function in FUNCTIONS:
            attempt(('networkx', bi, r, function),
                    lambda: state(VariableCompression(F, X, function)))
    # repeated application numbers the descriptions
    def chain():
        G = VariableCompression(F, random_graph(n, 2, 0.7), 'maj')
        G = FlipPolarity(G)
        G = VariableCompression(G, random_graph(2, 2, 0.7), 'xor')
        G = XorSubstitution(G, 1)
        G = VariableCompression(G, CompleteBipartiteGraph(2, 1), 'maj')
        return state(G)
    attempt(('chain', bi), chain)

# bad graphs and bad formulas
F = BASES[5]
for function in FUNCTIONS + ['nope']:
    for label, B in (('none', None), ('str', 'graph'), ('int', 3),
                     ('simple', Graph(3)), ('nxplain', networkx.path_graph(4)),
                     ('nxempty', networkx.Graph()), ('list', [[1], [2]])):
        attempt(('badgraph', label, function),
                lambda: state(VariableCompression(F, B, function)))
    for label, X in (('none', None), ('list', [[1, 2]]), ('int', 3), ('str', 'cnf')):
        attempt(('badformula', label, function),
                lambda: state(VariableCompression(X, random_graph(3, 2, 0.5), function)))
        attempt(('badformula0', label, function),
                lambda: state(VariableCompression(X, random_graph(0, 2, 0.5), function)))
attempt(('noargs',), lambda: VariableCompression(F))
attempt(('kw',), lambda: state(VariableCompression(F=F, B=CompleteBipartiteGraph(3, 2),
                                                   function='maj')))
attempt(('kwbad',), lambda: state(VariableCompression(F, CompleteBipartiteGraph(3, 2),
                                                      func='maj')))

print(H.hexdigest())
