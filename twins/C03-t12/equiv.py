#!/usr/bin/env python
"""Equivalence script for the refactoring of StoneCmdHelper.build_formula
(cnfgen/clihelpers/pebbling_helpers.py).  Prints one SHA256 digest."""
import sys, os, io, hashlib, random, argparse
sys.path.insert(0, os.getcwd())
from contextlib import redirect_stderr, redirect_stdout

from cnfgen.clitools.cnfgen import cli
from cnfgen.clihelpers.pebbling_helpers import StoneCmdHelper, PebblingCmdHelper
from cnfgen.formula.cnf import CNF
from cnfgen.graphs import DirectedGraph

H = hashlib.sha256()


def emit(*items):
    for it in items:
        H.update(repr(it).encode('utf-8'))
        H.update(b'\n')


def run_cli(argv):
    err = io.StringIO()
    out = io.StringIO()
    random.seed(12345)
    try:
        with redirect_stderr(err), redirect_stdout(out):
            res = cli(['cnfgen'] + argv, mode='string')
        emit('OK', argv, res)
    except SystemExit as e:
        emit('EXIT', argv, e.code)
    except BaseException as e:
        emit('EXC', argv, type(e).__name__, str(e))
    emit('stdout', out.getvalue(), 'stderr', err.getvalue())
    # state of the random stream after the command
    emit('rnd', random.random())


dags = [['pyramid', '0'], ['pyramid', '1'], ['pyramid', '3'], ['path', '1'],
        ['path', '4'], ['tree', '2']]
for dag in dags:
    run_cli(['-q', 'peb'] + dag)
    for s in ['1', '2', '4']:
        for seed in ['7']:
            run_cli(['-q', '--seed', seed, 'stone', s] + dag)
            run_cli(['--seed', seed, 'stone', s] + dag)
            for deg in ['1', '2', '3', '4', '6']:
                run_cli(['-q', '--seed', seed, 'stone', s] + dag + ['--sparse', deg])
                run_cli(['-q', '--seed', seed, 'stone', s, '--sparse', deg] + dag)
            run_cli(['-q', '--seed', seed, '-of', 'latex', 'stone', s] + dag + ['--sparse', '1'])

# error paths
run_cli(['-q', 'stone', '0', 'pyramid', '2'])
run_cli(['-q', 'stone', '-1', 'pyramid', '2'])
run_cli(['-q', 'stone', '2', 'pyramid', '2', '--sparse', '0'])
run_cli(['-q', 'stone', '2', 'pyramid', '2', '--sparse', 'x'])
run_cli(['-q', 'stone', '2', 'pyramid', '2', '--sparse'])
run_cli(['-q', 'stone', '2'])
run_cli(['-q', 'stone'])
run_cli(['-q', 'stone', 'two', 'pyramid', '2'])

# direct calls of the helper, including namespaces with no 'sparse' attribute
def dag(n, edges):
    D = DirectedGraph(n)
    for u, v in edges:
        D.add_edge(u, v)
    return D

graphs = [dag(1, []), dag(2, [(1, 2)]), dag(3, [(1, 3), (2, 3)]),
          dag(4, [(1, 2), (1, 3), (2, 4), (3, 4)]), dag(3, [])]
for gi, D in enumerate(graphs):
    for s in [1, 2, 4]:
        namespaces = [argparse.Namespace(D=D, s=s),
                      argparse.Namespace(D=D, s=s, sparse=None)]
        for deg in [1, 2, 3, 4, 5]:
            namespaces.append(argparse.Namespace(D=D, s=s, sparse=deg))
        for ns in namespaces:
            random.seed(1000 + gi * 10 + s)
            label = (gi, s, getattr(ns, 'sparse', 'absent'))
            try:
                F = StoneCmdHelper.build_formula(ns, CNF)
                emit('direct', label, type(F).__name__, F.to_dimacs(),
                     list(F.all_variable_labels()), F.header.get('description'))
            except Exception as e:
                emit('direct-exc', label, type(e).__name__, str(e))
            emit('rnd', random.random())
    F = PebblingCmdHelper.build_formula(argparse.Namespace(D=D), CNF)
    emit('peb', gi, F.to_dimacs())

print(H.hexdigest())
