#!/usr/bin/env python
"""Equivalence digest for the refactoring of VariableCompression
(cnfgen/transformations/substitutions.py).

Run as:  cd <checkout> && /venv/bin/python equiv.py
Prints one SHA256 digest of every observable thing produced.
"""
import sys
import os
import io
import random
import hashlib
from itertools import product
from contextlib import redirect_stdout, redirect_stderr

sys.path.insert(0, os.getcwd())

import networkx
import cnfgen
from cnfgen.formula.cnf import CNF
from cnfgen.graphs import BipartiteGraph, CompleteBipartiteGraph, Graph
from cnfgen.transformations import substitutions as S
from cnfgen.clitools.cnfgen import cli

H = hashlib.sha256()


def emit(*items):
    H.update((" ".join(repr(x) for x in items) + "\n").encode('utf-8'))


def attempt(tag, fn):
    try:
        res = fn()
    except Exception as e:  # record type and message
        emit(tag, 'EXC', type(e).__name__, str(e),
             type(e.__cause__).__name__, type(e.__context__).__name__)
        return None
    return res


def dump(tag, F):
    if F is None:
        return
    emit(tag, 'type', type(F).__name__)
    emit(tag, 'nvars', F.number_of_variables(), 'nclauses', len(F))
    emit(tag, 'clauses', [list(c) for c in F])
    emit(tag, 'header', sorted(F.header.items()))
    emit(tag, 'labels', list(F.all_variable_labels()))
    if len(F) <= 300:
        emit(tag, 'dimacs', F.to_dimacs())
        emit(tag, 'latex', F.to_latex())


def satisfied(clauses, assignment):
    """assignment: tuple of booleans, variable i is assignment[i-1]"""
    for cls in clauses:
        if not any((assignment[abs(l) - 1] == (l > 0)) for l in cls):
            return False
    return True


def semantics(tag, F, B, func, G):
    """Truth table of the compressed formula against the composition"""
    if G is None:
        return
    R = G.number_of_variables()
    if R > 7:
        return
    L = F.number_of_variables()
    Fcl = [list(c) for c in F]
    Gcl = [list(c) for c in G]
    table = []
    agree = True
    for a in product([False, True], repeat=R):
        induced = []
        for u in range(1, L + 1):
            nb = list(B.right_neighbors(u))
            ones = sum(1 for v in nb if a[v - 1])
            if func == 'xor':
                induced.append(ones % 2 == 1)
            else:
                induced.append(2 * ones >= len(nb))
        s1 = satisfied(Gcl, a)
        s2 = satisfied(Fcl, tuple(induced))
        table.append(s1)
        agree = agree and (s1 == s2)
    emit(tag, 'truth', table, 'agree', agree)


def formulas():
    rng = random.Random(80808)
    out = []
    out.append(('empty', CNF()))
    out.append(('emptyclause', CNF([[]])))
    F = CNF()
    F.update_variable_number(3)
    out.append(('novar-clauses', F))
    F = CNF([[1, -2], []])
    F.update_variable_number(4)
    out.append(('unused', F))
    out.append(('repeat', CNF([[1, 1, -2], [2, -2], [-1, -1]])))
    out.append(('unit', CNF([[1], [-1]])))
    F = CNF()
    x = F.new_variable('x')
    y = F.new_block(2, label='y_{{{}}}')
    F.add_clause([x, -y(1)])
    F.add_clause([-x, y(2), y(1)])
    F.header['note'] = 'a {curly} header'
    out.append(('named', F))
    F = S.XorSubstitution(CNF([[1, -2], [2]]), 2)
    out.append(('already-transformed', F))
    for n in range(1, 6):
        for t in range(2):
            m = rng.randint(0, 4)
            cls = []
            for _ in range(m):
                w = rng.randint(0, 3)
                cls.append([rng.choice([-1, 1]) * rng.randint(1, n)
                            for _ in range(w)])
            F = CNF(cls)
            F.update_variable_number(n)
            out.append(('rnd-{}-{}'.format(n, t), F))
    return out


def graphs_for(n):
    rng = random.Random(877 + n)
    out = []
    out.append(('complete3', CompleteBipartiteGraph(n, 3)))
    out.append(('complete1', CompleteBipartiteGraph(n, 1)))
    out.append(('complete4', CompleteBipartiteGraph(n, 4)))
    for r, p in [(4, 0.5), (6, 0.4), (2, 0.9), (9, 0.3)]:
        B = BipartiteGraph(n, r)
        for u in range(1, n + 1):
            for v in range(1, r + 1):
                if rng.random() < p:
                    B.add_edge(u, v)
        out.append(('rnd{}'.format(r), B))
    out.append(('edgeless', BipartiteGraph(n, 2)))
    out.append(('noright', BipartiteGraph(n, 0)))
    B = BipartiteGraph(n, max(n, 1))
    for u in range(1, n + 1):
        B.add_edge(u, u)
    out.append(('matching', B))
    # wrong sizes
    out.append(('toobig', CompleteBipartiteGraph(n + 1, 2)))
    if n > 0:
        out.append(('toosmall', CompleteBipartiteGraph(n - 1, 2)))
    # networkx graphs
    G = networkx.Graph()
    for u in range(n):
        G.add_node('l{}'.format(u), bipartite=0)
    for v in range(3):
        G.add_node('r{}'.format(v), bipartite=1)
    for u in range(n):
        for v in range(3):
            if (u + v) % 2 == 0:
                G.add_edge('l{}'.format(u), 'r{}'.format(v))
    out.append(('nx', G))
    G = networkx.Graph()
    G.add_nodes_from(range(n + 2))
    out.append(('nx-nolabels', G))
    G = networkx.bipartite.complete_bipartite_graph(n, 2)
    out.append(('nx-complete', G))
    return out


class Str(str):
    """A str subclass"""


def main():
    for name, F in formulas():
        n = F.number_of_variables()
        before = (n, [list(c) for c in F], sorted(F.header.items()))
        for gname, B in graphs_for(n):
            for func in ['xor', 'maj']:
                tag = '{}/compress/{}/{}'.format(name, gname, func)
                G = attempt(tag, lambda: S.VariableCompression(F, B, func))
                dump(tag, G)
                if isinstance(B, BipartiteGraph):
                    semantics(tag, F, B, func, G)
                if G is not None:
                    emit(tag, 'fresh', G is not F, G.header is not F.header)
        after = (n, [list(c) for c in F], sorted(F.header.items()))
        emit(name, 'orig-untouched', before == after)

    # bad arguments
    F = CNF([[1, -2], [2]])
    good = CompleteBipartiteGraph(2, 3)
    for func in ['and', 'XOR', 'Maj', '', None, 3, ['xor'], 'xo', 'majority',
                 Str('xor'), Str('maj'), Str('or'), b'xor', ('xor',), True]:
        for bname, B in [('good', good), ('wrong', BipartiteGraph(3, 2)),
                         ('str', 'nograph'), ('none', None)]:
            tag = 'bad/compress/{!r}/{}'.format(func, bname)
            dump(tag, attempt(tag, lambda: S.VariableCompression(F, B, func)))
    for B in ['nograph', None, 5, [(1, 1)], Graph(4), networkx.DiGraph(),
              networkx.path_graph(4), BipartiteGraph(0, 0), BipartiteGraph(2, 0)]:
        for func in ['xor', 'maj', 'bad']:
            tag = 'bad/graph/{}/{}'.format(type(B).__name__, func)
            dump(tag, attempt(tag, lambda: S.VariableCompression(F, B, func)))
    for notF in [None, 'formula', [[1, 2]], 7]:
        for func in ['xor', 'bad']:
            tag = 'bad/formula/{!r}/{}'.format(notF, func)
            dump(tag, attempt(tag, lambda: S.VariableCompression(notF, good, func)))
    dump('kw', attempt('kw', lambda: S.VariableCompression(F=F, B=good, function='maj')))
    dump('kw', attempt('kw', lambda: S.VariableCompression(F, good, function='xor')))
    dump('noargs', attempt('noargs', lambda: S.VariableCompression(F, good)))
    emit('doc', S.VariableCompression.__doc__, S.VariableCompression.__name__)
    emit('public', cnfgen.VariableCompression is S.VariableCompression)

    # composition (header numbering)
    G = S.VariableCompression(S.VariableCompression(F, good, 'xor'),
                              CompleteBipartiteGraph(3, 2), 'maj')
    dump('compose', G)
    G = S.FlipPolarity(S.VariableCompression(S.OrSubstitution(F, 2),
                                             CompleteBipartiteGraph(4, 2), 'maj'))
    dump('compose2', G)

    # through the command line
    for cmd in ['xorcomp', 'majcomp']:
        for tail in [[5, 2], [4], ['complete', 6, 2], ['complete', 5, 2],
                     ['glrd', 6, 4, 3], ['empty', 6, 2]]:
            argv = ['cnfgen', '--seed', 17, 'php', 3, 2, '-T', cmd] + tail
            tag = " ".join(str(a) for a in argv)
            out, err = io.StringIO(), io.StringIO()
            try:
                with redirect_stdout(out), redirect_stderr(err):
                    res = cli(argv, mode='string')
                emit(tag, res)
            except BaseException as e:
                emit(tag, 'EXC', type(e).__name__, str(e))
            emit(tag, out.getvalue(), err.getvalue())

    print(H.hexdigest())


if __name__ == '__main__':
    main()
