import hashlib, io, os, random, sys, tempfile, itertools, contextlib
sys.path.insert(0, os.getcwd())
from cnfgen.formula.cnf import CNF
from cnfgen.formula.basecnf import BaseCNF, ClausesView
from cnfgen.transformations.shuffle import Shuffle
from cnfgen.clitools.cnfshuffle import cli as shufflecli
from cnfgen.clitools.cnfgen import cli as cnfgencli

H = hashlib.sha256()
TMPD = [None]
LOG = []
def rec(*xs):
    for x in xs:
        r = repr(x)
        if TMPD[0]:
            r = r.replace(TMPD[0], '<TMP>')
        if os.environ.get('EQUIV_LOG'):
            LOG.append(r)
        H.update(r.encode()); H.update(b'\n')

def attempt(label, f):
    try:
        r = f()
        rec(label, 'ok', r)
        return r
    except SystemExit as e:
        rec(label, 'exit', e.code)
    except Exception as e:
        rec(label, 'exc', type(e).__name__, str(e))

def formulas():
    rng = random.Random(1234)
    yield CNF()
    yield CNF([[]])
    yield CNF([[1]])
    yield CNF([[1, -2], [2, -3], [3, -1], [1, 2, 3], []])
    F = CNF([[1, 2]]); F.update_variable_number(6); yield F
    for n, m in [(1, 3), (3, 5), (5, 12), (8, 20), (12, 7)]:
        cls = []
        for _ in range(m):
            w = rng.randint(0, min(n, 4))
            vs = rng.sample(range(1, n + 1), w)
            cls.append([v * rng.choice([-1, 1]) for v in vs])
        yield CNF(cls, description='rnd {} {}'.format(n, m))

def dump(F):
    return (F.number_of_variables(), F.number_of_clauses(), list(F), list(F.header.items()),
            str(F), len(F), F.to_dimacs())

FS = list(formulas())
for idx, F in enumerate(FS):
    N, M = F.number_of_variables(), F.number_of_clauses()
    rec('F', idx, dump(F))
    cv = F.clauses()
    rec(len(cv), list(cv), str(cv), repr(cv), cv == F, cv == F.clauses(), cv == list(F), cv[0:2])
    if M:
        rec(cv[0], cv[M - 1], F[0], F[-1])
    attempt('cvidx', lambda: cv['a'])
    attempt('debug', lambda: F.debug())
    attempt('debug2', lambda: F.debug(allow_opposite=True, allow_repetition=True))
    for seed in [0, 1, 'abc', 42]:
        for modes in itertools.product(['fixed', 'shuffle'], repeat=3):
            random.seed(seed)
            G = attempt(('sh', idx, seed, modes), lambda: dump(Shuffle(F, *modes)))
        rec(random.random())
    rng = random.Random(idx)
    # explicit valid
    for t in range(4):
        pf = [rng.choice([-1, 1]) for _ in range(N)]
        vp = list(range(1, N + 1)); rng.shuffle(vp)
        cp = list(range(M)); rng.shuffle(cp)
        random.seed(t)
        attempt(('ex', idx, t), lambda: dump(Shuffle(F, pf, vp, cp)))
        attempt(('ext', idx, t), lambda: dump(Shuffle(F, tuple(pf), tuple(vp), tuple(cp))))
        attempt(('exm', idx, t), lambda: dump(Shuffle(F, pf, 'fixed', cp)))
        attempt(('exm2', idx, t), lambda: dump(Shuffle(F, 'shuffle', vp, 'fixed')))
    # invalid
    bad_pf = [[1] * (N + 1), [1] * max(N - 1, 0) + [0] if N else [1], [2] * N if N else [1, 1], [1] * (N - 1) + [-2] if N else [-1],
              [0.5] * N if N else [3]]
    bad_vp = [list(range(N)), list(range(1, N + 2)), [1] * N if N > 1 else [2], list(range(2, N + 2)), list(range(1, N)) + [N + 1] if N else [0],
              list(range(1, N)) + [0] if N else [5]]
    bad_cp = [list(range(1, M + 1)), list(range(M + 1)), [0] * M if M > 1 else [1], list(range(M - 1)) + [M] if M else [0],
              list(range(M - 1)) + [-1] if M else [7]]
    for b in bad_pf:
        random.seed(5); attempt(('bpf', idx, b), lambda: dump(Shuffle(F, polarity_flips=b)))
    for b in bad_vp:
        random.seed(5); attempt(('bvp', idx, b), lambda: dump(Shuffle(F, variables_permutation=b)))
    for b in bad_cp:
        random.seed(5); attempt(('bcp', idx, b), lambda: dump(Shuffle(F, clauses_permutation=b)))
    attempt(('bstr', idx), lambda: dump(Shuffle(F, 'nope', 'fixed', 'fixed')))
    attempt(('bstr2', idx), lambda: dump(Shuffle(F, 'fixed', 'nope', 'fixed')))
    attempt(('bstr3', idx), lambda: dump(Shuffle(F, 'fixed', 'fixed', 'nope')))
    # double shuffle headers
    random.seed(9)
    attempt(('dbl', idx), lambda: dump(Shuffle(Shuffle(F))))

# cnfshuffle tool
tmpd = tempfile.mkdtemp()
TMPD[0] = tmpd
def run(label, f):
    out, err = io.StringIO(), io.StringIO()
    with contextlib.redirect_stdout(out), contextlib.redirect_stderr(err):
        r = attempt(label, f)
    rec(label, out.getvalue(), err.getvalue())
    return r

switches = [[], ['-p'], ['-v'], ['-c'], ['-p', '-v'], ['-p', '-c'], ['-v', '-c'], ['-p', '-v', '-c'],
            ['--no-polarity-flips', '--no-variables-permutation', '--no-clauses-permutation'], ['-q'], ['-q', '-c']]
for idx, F in enumerate(FS):
    path = os.path.join(tmpd, 'f{}.cnf'.format(idx))
    with open(path, 'w') as fh:
        fh.write(F.to_dimacs())
    for sw in switches:
        for seed in ['7', 'x']:
            run(('cli-s', idx, sw, seed), lambda: shufflecli(['cnfshuffle', '-S', seed, '-i', path] + sw, mode='string'))
        run(('cli-f', idx, sw), lambda: dump(shufflecli(['cnfshuffle', '-S', 3, '-i', path] + sw, mode='formula')))
    opath = os.path.join(tmpd, 'o{}.cnf'.format(idx))
    run(('cli-o', idx), lambda: shufflecli(['cnfshuffle', '-S', '1', '-i', path, '-o', opath]))
    rec(open(opath).read() if os.path.exists(opath) else None)
bad = os.path.join(tmpd, 'bad.cnf')
open(bad, 'w').write('p cnf 2 1\n1 3 0\n')
run('cli-bad', lambda: shufflecli(['cnfshuffle', '-i', bad], mode='string'))
open(bad, 'w').write('p cnf x\n')
run('cli-bad2', lambda: shufflecli(['cnfshuffle', '-i', bad], mode='string'))
run('cli-badopt', lambda: shufflecli(['cnfshuffle', '--nope'], mode='string'))
run('cli-help', lambda: shufflecli(['cnfshuffle', '-h'], mode='string'))

# cnfgen -T shuffle
for fam in [['php', 4, 3], ['op', 3], ['and', 2, 2], ['parity', 4], ['randkcnf', 3, 6, 10]]:
    for sw in switches[:9]:
        for seed in ['5', '17']:
            run(('T', fam, sw, seed), lambda: cnfgencli(['cnfgen', '-q', '--seed', seed] + fam + ['-T', 'shuffle'] + sw, mode='string'))
    run(('T2', fam), lambda: cnfgencli(['cnfgen', '--seed', '11'] + fam + ['-T', 'shuffle', '-T', 'shuffle', '-p'], mode='string'))
    run(('Tf', fam), lambda: dump(cnfgencli(['cnfgen', '--seed', '11'] + fam + ['-T', 'shuffle', '-c'], mode='formula')))
run('T-help', lambda: cnfgencli(['cnfgen', 'php', 3, 2, '-T', 'shuffle', '-h'], mode='string'))
run('T-bad', lambda: cnfgencli(['cnfgen', 'php', 3, 2, '-T', 'shuffle', '--zzz'], mode='string'))
run('T-bad2', lambda: cnfgencli(['cnfgen', 'php', 3, 2, '-T', 'shuffle', 'extra'], mode='string'))

import shutil
shutil.rmtree(tmpd, ignore_errors=True)
if os.environ.get('EQUIV_LOG'):
    open(os.environ['EQUIV_LOG'], 'w').write('\n'.join(LOG))
print(H.hexdigest())
