"""Equivalence script for t20: cnfgen.clitools.cnfgen.cli (formula generation
followed by the chain of -T transformations, header, output modes).
Run as: cd <checkout> && /venv/bin/python equiv.py
"""
import sys, os, hashlib, random, io, tempfile, contextlib, subprocess
sys.path.insert(0, os.getcwd())

from cnfgen.info import info
from cnfgen.clitools.cnfgen import cli as cnfgen_cli
from cnfgen.clitools.cmdline import CLIError
from cnfgen.clitools.msg import InternalBug
from cnfgen.clitools import msg as msgmod
from cnfgen.families.pigeonhole import PigeonholePrinciple
from cnfgen.families.pebbling import PebblingFormula, StoneFormula
from cnfgen.families.ordering import OrderingPrinciple
from cnfgen.families.coloring import GraphColoringFormula
from cnfgen.transformations.substitutions import (
    XorSubstitution, OrSubstitution, FlipPolarity, FormulaLifting,
    MajoritySubstitution, IfThenElseSubstitution, ExactlyOneSubstitution)
from cnfgen.transformations.shuffle import Shuffle
from cnfgen.graphs import readGraph, dag_pyramid
import cnfgen.clihelpers.php_helpers as php_helpers
import cnfgen.clihelpers.transformation_helpers as tr_helpers

H = hashlib.sha256()
VERSION = str(info['version'])


def norm(x):
    if isinstance(x, str):
        return x.replace(VERSION, '<VERSION>')
    return x


def rec(*items):
    for it in items:
        H.update(repr(norm(it)).encode('utf-8'))
        H.update(b'\x00')


def fsig(F):
    return (type(F).__name__, F.number_of_variables(),
            list(F.all_variable_labels()), list(F.clauses()),
            sorted((k, norm(v)) for k, v in F.header.items()))


def attempt(label, f):
    err = io.StringIO()
    out = io.StringIO()
    try:
        with contextlib.redirect_stderr(err), contextlib.redirect_stdout(out):
            res = f()
        rec(label, 'OK', res, norm(out.getvalue()), norm(err.getvalue()))
    except SystemExit as e:
        rec(label, 'EXIT', e.code, norm(out.getvalue()), norm(err.getvalue()))
    except BaseException as e:
        rec(label, 'EXC', type(e).__name__, norm(str(e)),
            type(e.__cause__).__name__, norm(out.getvalue()),
            norm(err.getvalue()))
    rec('prefix', msgmod._prefix)
    msgmod._prefix = ''


def same(F, L):
    return (list(F.clauses()) == list(L.clauses()),
            F.number_of_variables() == L.number_of_variables(),
            list(F.all_variable_labels()) == list(L.all_variable_labels()))


tmp = tempfile.mkdtemp()
old = os.getcwd()
os.chdir(tmp)
try:
    attempt('mk-g', lambda: cnfgen_cli(
        ['cnfgen', '-q', '-S', 1, 'kcolor', 2, 'gnm', 6, 8, 'save', 'g.gml'],
        mode='string'))
    attempt('mk-d', lambda: cnfgen_cli(
        ['cnfgen', '-q', 'peb', 'pyramid', 2, 'save', 'd.kthlist'],
        mode='string'))

    formulas = [['php', 3, 2], ['php', 3, 2, '--functional', '--onto'],
                ['op', 4], ['op', 3, '--total'], ['peb', 'pyramid', 2],
                ['peb', 'd.kthlist'], ['stone', 2, 'd.kthlist'],
                ['kcolor', 3, 'g.gml'], ['tseitin', 'first', 'g.gml'],
                ['tseitin', 6, 3], ['randkcnf', 3, 6, 5], ['and', 2, 2],
                ['or', 0, 0], ['true'], ['false'], ['parity', 4],
                ['count', 4, 3], ['ram', 3, 3, 5], ['bphp', 3, 2]]
    chains = [[], ['-T', 'none'], ['-T', 'flip'], ['-T', 'xor', 2],
              ['-T', 'or', 2, '-T', 'flip'], ['-T', 'flip', '-T', 'or', 2],
              ['-T', 'shuffle'], ['-T', 'shuffle', '-T', 'xor', 2, '-T',
                                  'shuffle', '-c'],
              ['-T', 'lift', 2, '-T', 'ite'], ['-T', 'maj', 3, '-T', 'one', 2],
              ['-T', 'eq', 2, '-T', 'neq', 2, '-T', 'none'],
              ['-T', 'xorcomp', 4, 2], ['-T', 'majcomp', 5, 3, '-T', 'flip'],
              ['-T', 'exact', 3, 2], ['-T', 'atleast', 2, 5],
              ['-T', 'anybut', 2, 1, '-T', 'atmost', 2, 1]]
    for fi, fo in enumerate(formulas):
        for ci, ch in enumerate(chains):
            if fi >= 2 and (fi + ci) % 4 != 0:
                continue
            cmd = ['cnfgen', '-S', 10 + ci] + fo + ch
            attempt(('formula', cmd),
                    lambda: fsig(cnfgen_cli(cmd, mode='formula')))
            if ci % 4 == 0 or fi < 2:
                attempt(('string', cmd), lambda: cnfgen_cli(cmd,
                                                            mode='string'))

    # output formats, verbosity, varnames, in 'string' and 'output' modes
    base = ['php', 3, 2, '-T', 'or', 2, '-T', 'flip']
    optsets = [[], ['-q'], ['-v'], ['--varnames'], ['-q', '--varnames'],
               ['-of', 'dimacs'], ['-of', 'opb'], ['-of', 'latex'], ['-l'],
               ['-l', '-q'], ['-of', 'opb', '-q'], ['-S', 42],
               ['-S', 42, '-q', '-of', 'opb', '--varnames'],
               ['-of', 'bogus'], ['-l', '-of', 'opb'], ['-q', '-v']]
    for k, opts in enumerate(optsets):
        cmd = ['cnfgen'] + opts + base
        attempt(('string', cmd), lambda: cnfgen_cli(cmd, mode='string'))
        attempt(('output', cmd), lambda: cnfgen_cli(cmd, mode='output'))
        attempt(('default-mode', cmd), lambda: cnfgen_cli(cmd))
        for ext in ['cnf', 'opb', 'tex', 'txt']:
            fn = 'out%d.%s' % (k, ext)
            cmd2 = ['cnfgen'] + opts + ['-o', fn] + base
            attempt(('file', cmd2), lambda: cnfgen_cli(cmd2, mode='output'))
            if os.path.exists(fn):
                with open(fn) as f:
                    rec('content', fn, f.read())
    # input files are described in latex output
    for cmd in [['cnfgen', '-l', 'peb', 'd.kthlist', '-T', 'xorcomp', 3, 2],
                ['cnfgen', '-l', 'kcolor', 2, 'g.gml']]:
        attempt(('output', cmd), lambda: cnfgen_cli(cmd, mode='output'))

    # error paths
    bad = [['cnfgen'], ['cnfgen', '-q'], ['cnfgen', '-T', 'flip'],
           ['cnfgen', 'php', 3, 2, '-T'], ['cnfgen', 'php', 3, 2, '-T', '-T'],
           ['cnfgen', 'php', 3, 2, '-T', 'flip', '-T'],
           ['cnfgen', 'php', 3, 2, '-T', 'bogus'], ['cnfgen', 'bogus'],
           ['cnfgen', 'php'], ['cnfgen', 'php', 'x', 2],
           ['cnfgen', 'php', 3, 2, '-T', 'xor'],
           ['cnfgen', 'php', 3, 2, '-T', 'xor', 0],
           ['cnfgen', 'php', 3, 2, '-T', 'xorcomp', 3, 5],
           ['cnfgen', 'php', 3, 2, '-T', 'flip', '-T', 'majcomp', 2, 9, '-T',
            'bogus'],
           ['cnfgen', 'tseitin', 3, 5], ['cnfgen', 'tseitin', 5, 3],
           ['cnfgen', 'stone', 2, 'pyramid', 2, '--sparse', 5],
           ['cnfgen', 'op', 5, 3], ['cnfgen', 'peb', 'nonexistent.kthlist'],
           ['cnfgen', 'kcolor', 2, 'd.kthlist'],
           ['cnfgen', 'php', 3, 2, '-T', 'xorcomp', 'nonexistent.matrix'],
           ['cnfgen', '-S', 'x', 'php', 3, 2], ['cnfgen', 'php', 3, 2, '-q'],
           ['cnfgen', 'ram', 3, 3, 0], ['cnfgen', 'count', 3, 0],
           ['cnfgen', 'randkcnf', 5, 3, 2], ['cnfgen', 'randkcnf', 2, 3, 100]]
    for cmd in bad:
        for mode in ['formula', 'string', 'output']:
            attempt((mode, cmd), lambda: (lambda r: fsig(r) if mode == 'formula'
                                          else r)(cnfgen_cli(cmd, mode=mode)))
    attempt('badmode', lambda: cnfgen_cli(['cnfgen', 'php', 2, 1],
                                         mode='whatever'))

    # exceptions raised inside helpers (patched in): CLIError, ValueError,
    # RuntimeError, and one which is not handled
    def raiser(exc):
        def f(*a, **k):
            raise exc
        return staticmethod(f)

    excs = [CLIError('cli problem\nsecond line'), ValueError('value problem'),
            RuntimeError('runtime problem'), KeyError('other'),
            InternalBug('nested')]
    orig_b = php_helpers.PHPCmdHelper.__dict__['build_formula']
    orig_t = tr_helpers.FlipCmd.__dict__['transform_cnf']
    for exc in excs:
        php_helpers.PHPCmdHelper.build_formula = raiser(exc)
        for cmd in [['cnfgen', 'php', 3, 2], ['cnfgen', 'php', 3, 2, '-T',
                                               'flip']]:
            attempt(('patched-build', repr(exc), cmd),
                    lambda: cnfgen_cli(cmd, mode='string'))
        php_helpers.PHPCmdHelper.build_formula = orig_b
        tr_helpers.FlipCmd.transform_cnf = raiser(exc)
        for cmd in [['cnfgen', 'php', 3, 2, '-T', 'flip'],
                    ['cnfgen', 'php', 3, 2, '-T', 'or', 2, '-T', 'flip', '-T',
                     'bogus2'],
                    ['cnfgen', 'php', 3, 2, '-T', 'or', 2]]:
            attempt(('patched-transform', repr(exc), cmd),
                    lambda: cnfgen_cli(cmd, mode='string'))
        tr_helpers.FlipCmd.transform_cnf = orig_t

    # comparison with library calls, chain applied left to right
    P = PigeonholePrinciple(3, 2)
    F = cnfgen_cli(['cnfgen', 'php', 3, 2, '-T', 'xor', 2, '-T', 'flip', '-T',
                    'or', 2], mode='formula')
    rec('lib1', same(F, OrSubstitution(FlipPolarity(XorSubstitution(P, 2)), 2)))
    F = cnfgen_cli(['cnfgen', 'php', 3, 2, '-T', 'or', 2, '-T', 'xor', 2],
                   mode='formula')
    rec('lib2', same(F, XorSubstitution(OrSubstitution(P, 2), 2)),
        same(F, OrSubstitution(XorSubstitution(P, 2), 2)))
    F = cnfgen_cli(['cnfgen', 'peb', 'd.kthlist', '-T', 'lift', 2, '-T', 'ite'],
                   mode='formula')
    with open('d.kthlist') as f:
        D = readGraph(f, 'dag', 'kthlist')
    rec('lib3', same(F, IfThenElseSubstitution(
        FormulaLifting(PebblingFormula(D), 2))))
    F = cnfgen_cli(['cnfgen', '-S', 77, 'op', 4, '-T', 'shuffle', '-T', 'maj',
                    3], mode='formula')
    random.seed(77)
    rec('lib4', same(F, MajoritySubstitution(
        Shuffle(OrderingPrinciple(4, False, False, False, None)), 3)))
    F = cnfgen_cli(['cnfgen', 'stone', 2, 'pyramid', 2, '-T', 'one', 2],
                   mode='formula')
    rec('lib5', same(F, ExactlyOneSubstitution(
        StoneFormula(dag_pyramid(2), 2), 2)))
finally:
    os.chdir(old)

# the real entry point: exit codes, stdout and stderr
env = dict(os.environ)
env['PYTHONPATH'] = os.getcwd()
env['PYTHONWARNINGS'] = 'ignore'
for args in [['-q', 'php', '3', '2', '-T', 'xor', '2', '-T', 'flip'],
             ['-S', '4', 'randkcnf', '3', '5', '4', '-T', 'shuffle'],
             ['php', '3', '2', '-T'], [], ['tseitin', '3', '5'],
             ['php', '3', '2', '-T', 'xorcomp', '3', '5'],
             ['-l', '-q', 'and', '1', '1']]:
    p = subprocess.run([sys.executable, '-m', 'cnfgen.clitools.cnfgen'] + args,
                       cwd=tmp, env=env, stdin=subprocess.DEVNULL,
                       capture_output=True, text=True)
    err = '\n'.join(l for l in p.stderr.splitlines()
                    if 'Warning' not in l and not l.startswith('  """'))
    rec('main', args, p.returncode, norm(p.stdout), norm(err))

print(H.hexdigest())
