import warnings; warnings.simplefilter('ignore')
import sys, os, io, hashlib, random, tempfile, contextlib
sys.path.insert(0, os.getcwd())
from cnfgen.formula.cnf import CNF
from cnfgen.formula.opb import OPB
from cnfgen.formula.cnfio import CNFio, guess_output_format
from cnfgen.formula.opbio import OPBio
from cnfgen.formula.basecnf import BaseCNF
from cnfgen.formula.baseopb import BaseOPB
from cnfgen.utils.latexoutput import to_latex_string, to_latex_document, _print_latex
from cnfgen.utils.opb import to_opb_file
from cnfgen.utils.parsedimacs import to_dimacs_file

H = hashlib.sha256()
TMPS = []
def rec(*xs):
    for x in xs:
        r = repr(x)
        for t in TMPS:
            r = r.replace(t, '<TMP>')
        H.update(r.encode('utf-8', 'replace')); H.update(b'\0')

def attempt(tag, f, *a, **k):
    try:
        rec(tag, 'ok', f(*a, **k))
    except BaseException as e:
        rec(tag, 'exc', type(e).__name__, str(e))

rng = random.Random(20261003)

def rand_cnf(cls, n, m, maxw):
    F = cls()
    for _ in range(m):
        w = rng.randint(0, maxw)
        vs = rng.sample(range(1, n + 1), min(w, n))
        F.add_clause([v if rng.random() < .5 else -v for v in vs], check=False)
    return F

def rand_opb(cls, n, m, maxw):
    F = cls()
    for _ in range(m):
        w = rng.randint(0, maxw)
        vs = rng.sample(range(1, n + 1), min(w, n))
        terms = [(rng.randint(1, 5), v if rng.random() < .5 else -v) for v in vs]
        F.add_constraint(terms + [rng.choice(['>=', '==']), rng.randint(-2, 7)], check=False)
    return F

formulas = []
for cls in (CNF, CNFio):
    formulas += [cls(), cls([[]]), cls([[], [1], []]), cls([[1, -2, 3], [-1], [2, -3]])]
    for (n, m, w) in [(1, 1, 1), (5, 7, 4), (9, 36, 3), (12, 71, 5), (6, 35, 3), (6, 70, 2), (4, 106, 3)]:
        formulas.append(rand_cnf(cls, n, m, w))
for cls in (OPB, OPBio):
    formulas.append(cls())
    for (n, m, w) in [(1, 1, 1), (5, 7, 4), (9, 36, 3), (12, 71, 5), (6, 35, 3), (6, 70, 2), (3, 2, 0)]:
        formulas.append(rand_opb(cls, n, m, w))
    G = cls()
    G.cardinality_geq([1, 2, -3], 2); G.cardinality_leq([1, 4, 2], 2); G.cardinality_eq([3, -4], 1)
    G.add_clause([1, -5]); G.add_parity([1, 2, 3], 1)
    formulas.append(G)

# named variables
N = CNF(description='named\nmulti line éè desc_ription')
x = N.new_variable('x'); Y = N.new_block(2, 3, label='y_{{{},{}}}'); Z = N.new_block(2, label='z^{}')
w = N.new_variable('w\nbroken'); 
N.add_clause([x, -Y(1, 2), Z(2)]); N.add_clause([-x, -Z(1), -w]); N.add_clause([]); N.add_clause([Y(2, 3)])
N.header['extra'] = 'line1\nline2\n'
N.header['empty'] = ''
formulas.append(N)
P = OPB(description='pb_named ∀')
a = P.new_variable('a'); B = P.new_block(3, label='b_{}')
P.add_constraint([(2, a), (1, -B(1)), (3, B(3)), '>=', 3]); P.add_constraint([(1, -a), '==', 0]); P.add_constraint(['>=', 0])
P.header['note'] = 'x\n\ny'
formulas.append(P)

for i, F in enumerate(formulas):
    rec('F', i, type(F).__name__, len(F), F.number_of_variables())
    attempt('opb', F.to_opb)
    attempt('latex', F.to_latex)
    attempt('latexs', to_latex_string, F)
    if hasattr(F, 'to_dimacs'):
        attempt('dimacs', F.to_dimacs)
    for se in (-1, 0, 1, 2, 35):
        for compact in (True, False):
            o = io.StringIO()
            attempt(('pl', se, compact), _print_latex, F, o, split_every=se, compact=compact)
            rec(o.getvalue())
    for eh in (True, False):
        for ev in (True, False):
            o = io.StringIO(); attempt(('opbf', eh, ev), to_opb_file, F, o, export_header=eh, export_varnames=ev); rec(o.getvalue())
            if isinstance(F, BaseCNF):
                o = io.StringIO(); attempt(('dimf', eh, ev), to_dimacs_file, F, o, export_header=eh, export_varnames=ev); rec(o.getvalue())
            for ff in (None, 'opb', 'latex', 'dimacs', 'tex', 'bogus', 3):
                o = io.StringIO()
                attempt(('tofile', eh, ev, ff), F.to_file, o, fileformat=ff, export_header=eh, export_varnames=ev, extra_text='EXTRA %d\n' % i)
                rec(o.getvalue())
        o = io.StringIO(); attempt(('doc', eh), to_latex_document, F, o, export_header=eh, extra_text='some text\n'); rec(o.getvalue())

# file names and stdout
with tempfile.TemporaryDirectory() as d:
    TMPS.append(d)
    for i, F in enumerate(formulas[::5]):
        for name in ('a.opb', 'a.tex', 'a.cnf', 'a', 'a.b.opb', '.opb', 'a.OPB'):
            for ff in (None, 'opb', 'latex'):
                p = os.path.join(d, name)
                if os.path.exists(p): os.unlink(p)
                attempt(('fn', i, name, ff), F.to_file, p, fileformat=ff, export_varnames=True)
                if os.path.exists(p):
                    rec(open(p, encoding='utf-8').read())
        for ff in (None, 'opb', 'latex'):
            o = io.StringIO()
            with contextlib.redirect_stdout(o):
                attempt(('stdout', i, ff), F.to_file, None, fileformat=ff)
            rec(o.getvalue())
    for fn in (to_opb_file, to_dimacs_file):
        p = os.path.join(d, 'direct.txt')
        attempt('direct', fn, formulas[3], p, export_header=True, export_varnames=True); rec(open(p).read())
        o = io.StringIO()
        with contextlib.redirect_stdout(o):
            attempt('directstd', fn, formulas[3])
        rec(o.getvalue())
    attempt('nodir', formulas[3].to_file, os.path.join(d, 'no', 'such', 'x.opb'))
    o = io.StringIO()
    with contextlib.redirect_stdout(o):
        attempt('docstd', to_latex_document, formulas[3], None)
    rec(o.getvalue())

class Named:
    def __init__(self, name): self.name = name
for fo in ('x.tex', 'x.opb', 'x.cnf', '', 'noext', Named('q.tex'), Named('q.opb'), Named(7), Named(None), io.StringIO(), None, 5, b'x.tex'):
    for req in (None, 'latex', 'dimacs', 'opb', 'tex', '', 0):
        attempt(('guess', repr(type(fo)), getattr(fo, 'name', fo) if not isinstance(fo, io.StringIO) else 'sio', req), guess_output_format, fo, req)

# objects that are neither CNF nor OPB
class Fake:
    header = {'description': 'fake_thing'}
    def number_of_variables(self): return 2
    def __len__(self): return 1
    def __iter__(self): return iter([[1, -2]])
    def __getitem__(self, i): return [[1, -2]][i]
    def all_variable_labels(self, default_label_format='x{}'): return ['p', 'q']
o = io.StringIO(); attempt('fakeopb', to_opb_file, Fake(), o, export_varnames=True); rec(o.getvalue())
o = io.StringIO(); attempt('fakelatex', _print_latex, Fake(), o); rec(o.getvalue())
o = io.StringIO(); attempt('fakedoc', to_latex_document, Fake(), o); rec(o.getvalue())

# class structure that users may rely on
for cls in (CNF, OPB, CNFio, OPBio):
    for meth in ('to_opb', 'to_latex', 'to_file'):
        rec(cls.__name__, meth, getattr(cls, meth).__doc__, getattr(cls, meth).__qualname__)

# command line
import importlib
cnfgen_cli = importlib.import_module('cnfgen.clitools.cnfgen'); pbgen_cli = importlib.import_module('cnfgen.clitools.pbgen')
def run(fn, argv):
    o, e = io.StringIO(), io.StringIO()
    with contextlib.redirect_stdout(o), contextlib.redirect_stderr(e):
        try:
            fn(argv); rc = 0
        except SystemExit as x:
            rc = x.code
        except BaseException as x:
            rc = (type(x).__name__, str(x))
    rec(argv, rc, o.getvalue(), e.getvalue())
for fmt in ('opb', 'latex', 'dimacs'):
    for extra in ([], ['-q'], ['-v'], ['--varnames']):
        run(cnfgen_cli.cli, ['cnfgen', '-of', fmt] + extra + ['php', '3', '2'])
        run(cnfgen_cli.cli, ['cnfgen', '-of', fmt] + extra + ['op', '8'])
    run(cnfgen_cli.cli, ['cnfgen', '-of', fmt, 'and', '0', '0'])
    run(cnfgen_cli.cli, ['cnfgen', '-of', fmt, 'or', '0', '0'])
for fmt in ('opb', 'latex'):
    for extra in ([], ['-q'], ['--varnames']):
        run(pbgen_cli.cli, ['pbgen', '-of', fmt] + extra + ['php', '3', '2'])
with tempfile.TemporaryDirectory() as d:
    TMPS.append(d)
    for name in ('o.opb', 'o.tex', 'o.cnf'):
        p = os.path.join(d, name)
        o, e = io.StringIO(), io.StringIO()
        with contextlib.redirect_stdout(o), contextlib.redirect_stderr(e):
            try: cnfgen_cli.cli(['cnfgen', '-o', p, 'php', '4', '3']); rc = 0
            except SystemExit as x: rc = x.code
        rec(name, rc, o.getvalue(), e.getvalue(), open(p).read() if os.path.exists(p) else None)

print(H.hexdigest())
