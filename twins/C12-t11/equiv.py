#!/usr/bin/env python
"""Equivalence harness for VariablesManager.all_variable_labels (cnfgen/formula/variables.py)
and the OPB / LaTeX / DIMACS writers that print variable names through it.

Run as:  cd <checkout> && /venv/bin/python equiv.py
Prints one SHA256 digest of everything observable.
"""
import sys, os, io, hashlib, random, itertools, contextlib
sys.path.insert(0, os.getcwd())

from cnfgen.formula.cnf import CNF
from cnfgen.formula.opb import OPB
from cnfgen.formula.basecnf import BaseCNF
from cnfgen.formula.baseopb import BaseOPB
from cnfgen.formula.variables import VariablesManager
from cnfgen.graphs import Graph, DirectedGraph, BipartiteGraph
from cnfgen.utils.latexoutput import to_latex_document, to_latex_string
from cnfgen.utils.opb import to_opb_file
from cnfgen.utils.parsedimacs import to_dimacs_file

LOG = []


def rec(*items):
    LOG.append(repr(items))


def attempt(tag, fn, *args, **kwargs):
    try:
        res = fn(*args, **kwargs)
        rec(tag, 'ok', type(res).__name__, res)
        return res
    except BaseException as e:  # noqa
        cause = e.__cause__
        rec(tag, 'exc', type(e).__name__, str(e),
            None if cause is None else (type(cause).__name__, str(cause)))
        return None


def drain(gen):
    """Consume a generator keeping what it produced before a possible failure"""
    got = []
    try:
        for x in gen:
            got.append(x)
    except BaseException as e:  # noqa
        got.append(('EXC', type(e).__name__, str(e)))
    return got


def labels_report(tag, F):
    rec(tag, 'n', F.number_of_variables(), 'm', len(F))
    rec(tag, 'default', drain(F.all_variable_labels()))
    for fmt in ['x_{}', 'v{}', '{}', 'const', '{0}-{0}', 'y_{{{}}}', '', '{:03d}']:
        rec(tag, 'fmt', fmt, drain(F.all_variable_labels(default_label_format=fmt)))
    rec(tag, 'positional', drain(F.all_variable_labels('w{}')))
    rec(tag, 'badfmt', drain(F.all_variable_labels('{}{}')))
    rec(tag, 'badfmt2', drain(F.all_variable_labels('{name}')))
    rec(tag, 'badfmt3', drain(F.all_variable_labels(None)))
    rec(tag, 'badfmt4', drain(F.all_variable_labels(5)))
    # prefixes of the stream
    for k in (0, 1, 2, 5):
        rec(tag, 'prefix', k, drain(itertools.islice(F.all_variable_labels(), k)))


def writers_report(tag, F):
    for hdr in (True, False):
        for vn in (True, False):
            out = io.StringIO()
            attempt((tag, 'opbfile', hdr, vn), to_opb_file, F, out,
                    export_header=hdr, export_varnames=vn)
            rec(tag, 'opb', hdr, vn, out.getvalue())
            if isinstance(F, BaseCNF):
                out = io.StringIO()
                attempt((tag, 'dimacsfile', hdr, vn), to_dimacs_file, F, out,
                        export_header=hdr, export_varnames=vn)
                rec(tag, 'dimacs', hdr, vn, out.getvalue())
        out = io.StringIO()
        attempt((tag, 'latexdoc', hdr), to_latex_document, F, out,
                export_header=hdr, extra_text='text\n')
        rec(tag, 'latexdoc', hdr, out.getvalue())
    attempt((tag, 'latex'), to_latex_string, F)
    if hasattr(F, 'to_opb'):
        attempt((tag, 'to_opb'), F.to_opb)
        attempt((tag, 'to_latex'), F.to_latex)
    if hasattr(F, 'to_dimacs'):
        attempt((tag, 'to_dimacs'), F.to_dimacs)
    for fmt in ('opb', 'latex'):
        buf = io.StringIO()
        with contextlib.redirect_stdout(buf):
            attempt((tag, 'to_file', fmt), F.to_file, None, fileformat=fmt,
                    export_header=True, export_varnames=True)
        rec(tag, 'stdout', fmt, buf.getvalue())


def add_row(F, lits):
    """Add one row mentioning the given literals, whatever the formula type"""
    if isinstance(F, BaseOPB):
        F.add_constraint([(abs(l) % 3 + 1, l) for l in lits] + ['>=', len(lits) // 2])
    else:
        F.add_clause(lits)


def build(cls, recipe):
    F = cls(description='recipe_' + recipe)
    if recipe == 'empty':
        pass
    elif recipe == 'anonymous':
        add_row(F, [1, -3, 5])
        add_row(F, [])
    elif recipe == 'onlyupdate':
        F.update_variable_number(4)
    elif recipe == 'single':
        x = F.new_variable('X')
        add_row(F, [-x])
    elif recipe == 'singles':
        for name in ['X', 'Y_1', 'z^2', 'w_a^b', '_u', '^t', 'a b', 'multi\nline', 'é_1', '']:
            add_row(F, [F.new_variable(name)])
    elif recipe == 'nolabel':
        a = F.new_variable()
        b = F.new_block(2, 2)
        add_row(F, [a, -b(1, 1), b(2, 2)])
    elif recipe == 'gap-front':
        F.update_variable_number(3)
        x = F.new_variable('X')
        add_row(F, [1, -x])
    elif recipe == 'gap-middle':
        x = F.new_variable('X')
        F.update_variable_number(4)
        y = F.new_variable('Y')
        add_row(F, [x, -y, 3])
    elif recipe == 'gap-end':
        x = F.new_variable('X')
        b = F.new_block(2, label='b_{}')
        add_row(F, [x, b(1), -b(2), 7])
    elif recipe == 'gaps-everywhere':
        add_row(F, [2])
        p = F.new_block(2, 3, label='p_{{{},{}}}')
        add_row(F, [F.number_of_variables() + 2])
        q = F.new_variable('Q')
        F.update_variable_number(F.number_of_variables() + 1)
        r = F.new_block(1, 1, 2, label='r({},{},{})')
        add_row(F, [-p(2, 3), q, -r(1, 1, 2), F.number_of_variables() + 3])
    elif recipe == 'emptygroups':
        e1 = F.new_block(0, label='e_{}')
        x = F.new_variable('X')
        e2 = F.new_block(3, 0, label='e_{},{}')
        F.update_variable_number(3)
        e3 = F.new_combinations(2, 3)
        y = F.new_block(2, label='y_{}')
        e4 = F.new_block(0, 0)
        add_row(F, [x, -y(2)])
        rec('emptygroups', len(e1), len(e2), len(e3), len(e4))
    elif recipe == 'manykinds':
        F.update_variable_number(1)
        c = F.new_combinations(4, 2)
        cr = F.new_combinations_with_replacement(2, 2, label='cr_{{{}}}')
        pm = F.new_permutations(3, label='pi_{{{}}}')
        pk = F.new_permutations(3, 2)
        w = F.new_words(2, 2, label='w_{{{}}}')
        F.update_variable_number(F.number_of_variables() + 2)
        G = Graph(4)
        G.add_edge(1, 2)
        G.add_edge(2, 3)
        G.add_edge(1, 4)
        e = F.new_graph_edges(G)
        D = DirectedGraph(3)
        D.add_edge(1, 2)
        D.add_edge(3, 2)
        D.add_edge(1, 3)
        d1 = F.new_digraph_edges(D, label='d({},{})')
        d2 = F.new_digraph_edges(D, label='s({},{})', sortby='succ')
        B = BipartiteGraph(2, 3)
        B.add_edge(1, 2)
        B.add_edge(2, 1)
        B.add_edge(2, 3)
        be = F.new_bipartite_edges(B)
        m = F.new_mapping(2, 3)
        sm = F.new_sparse_mapping(B, label='g({})={}')
        F.update_variable_number(F.number_of_variables() + 1)
        bm = F.new_binary_mapping(3, 5)
        z = F.new_variable('Z_{last}')
        add_row(F, [c(1, 2), -cr(2, 2), pm(3, 1, 2), -w(2, 1), e(2, 3), -d1(1, 3), z])
        add_row(F, [1, -z])
        add_row(F, [F.number_of_variables() + 2, -m(2, 3)])
    elif recipe == 'pagesplit':
        b = F.new_block(6, 7, label='b_{{{},{}}}')
        for i in range(1, 7):
            for j in range(1, 8):
                add_row(F, [b(i, j), -(i + 50)])
    elif recipe.startswith('random'):
        rnd = random.Random(int(recipe[6:]))
        for step in range(rnd.randint(1, 9)):
            what = rnd.randrange(6)
            if what == 0:
                F.update_variable_number(F.number_of_variables() + rnd.randint(0, 3))
            elif what == 1:
                F.new_variable('S{}'.format(step))
            elif what == 2:
                F.new_block(rnd.randint(0, 3), rnd.randint(0, 2), label='B%d_{{{},{}}}' % step)
            elif what == 3:
                F.new_mapping(rnd.randint(1, 2), rnd.randint(1, 3), label='m%d({})={}' % step)
            elif what == 4:
                F.new_words(rnd.randint(1, 2), rnd.randint(1, 2), label='w%d_{{{}}}' % step)
            else:
                n = F.number_of_variables() + 2
                add_row(F, [rnd.choice([-1, 1]) * rnd.randint(1, n)
                            for _ in range(rnd.randint(0, 4))])
    else:
        raise RuntimeError(recipe)
    return F


RECIPES = ['empty', 'anonymous', 'onlyupdate', 'single', 'singles', 'nolabel', 'gap-front',
           'gap-middle', 'gap-end', 'gaps-everywhere', 'emptygroups', 'manykinds', 'pagesplit']
RECIPES += ['random{}'.format(i) for i in range(40)]

for cls in (CNF, OPB):
    for recipe in RECIPES:
        tag = (cls.__name__, recipe)
        try:
            F = build(cls, recipe)
        except BaseException as e:  # noqa
            rec(tag, 'build-exc', type(e).__name__, str(e))
            continue
        labels_report(tag, F)
        writers_report(tag, F)

# A manager attached to a bare formula
for base in (BaseCNF, BaseOPB):
    F = base()
    V = VariablesManager(F)
    F.update_variable_number(2)
    V.new_variable('A')
    V.new_block(2, 2, label='B_{},{}')
    F.update_variable_number(9)
    rec('bare', base.__name__, drain(V.all_variable_labels()), drain(F.all_variable_labels()),
        drain(V.all_variable_labels('q{}')))

# The stream is lazy: changes made while it is being consumed
for cls in (CNF, OPB):
    F = cls()
    F.update_variable_number(2)
    F.new_variable('X')
    gen = F.all_variable_labels()
    got = [next(gen)]
    F.new_block(2, label='late_{}')
    F.update_variable_number(F.number_of_variables() + 2)
    got.append(next(gen))
    got.extend(drain(gen))
    rec('lazy', cls.__name__, got, drain(F.all_variable_labels()))

    F = cls()
    gen = F.all_variable_labels()
    F.update_variable_number(3)
    F.new_variable('late')
    rec('lazy-start', cls.__name__, drain(gen))

# Inconsistent internal state (groups tampered with): stream content and final assertion
for cls in (CNF, OPB):
    for tamper in ('reverse', 'duplicate', 'shrink', 'dropfirst', 'swap'):
        F = cls()
        F.new_variable('X')
        F.update_variable_number(3)
        F.new_block(2, 2, label='b_{},{}')
        F.new_variable('Y')
        F.update_variable_number(10)
        if tamper == 'reverse':
            F._groups.reverse()
        elif tamper == 'duplicate':
            F._groups.extend(list(F._groups))
        elif tamper == 'shrink':
            F._numvar = 5
        elif tamper == 'dropfirst':
            del F._groups[0]
        elif tamper == 'swap':
            F._groups[0], F._groups[1] = F._groups[1], F._groups[0]
        rec('tamper', cls.__name__, tamper, drain(F.all_variable_labels()))
        rec('tamper', cls.__name__, tamper, 'fmt', drain(F.all_variable_labels('t_{}')))
        out = io.StringIO()
        attempt(('tamper-opb', cls.__name__, tamper), to_opb_file, F, out, export_varnames=True)
        rec('tamper-opb-out', out.getvalue())
        attempt(('tamper-latex', cls.__name__, tamper), to_latex_string, F)

# command line tools printing variable names
from cnfgen.clitools.cnfgen import cli as cnfgen_cli
from cnfgen.clitools.pbgen import cli as pbgen_cli
for cli, argv in [
        (cnfgen_cli, ['cnfgen', '-q', '--varnames', '-of', 'opb', 'php', 3, 2]),
        (cnfgen_cli, ['cnfgen', '-q', '--varnames', 'op', 3]),
        (cnfgen_cli, ['cnfgen', '-q', '-of', 'latex', 'php', 3, 2]),
        (cnfgen_cli, ['cnfgen', '-q', '--varnames', '-of', 'opb', 'parity', 4]),
        (cnfgen_cli, ['cnfgen', '-q', '--varnames', '-of', 'opb', 'php', 3, 2, '-T', 'xor', 2]),
        (pbgen_cli, ['pbgen', '-q', '--varnames', 'php', 3, 2]),
        (pbgen_cli, ['pbgen', '-q', '-of', 'latex', 'php', 3, 2]),
]:
    out, err = io.StringIO(), io.StringIO()
    with contextlib.redirect_stdout(out), contextlib.redirect_stderr(err):
        attempt(('cli', argv), cli, list(argv), mode='output')
    rec('cli-out', out.getvalue(), err.getvalue())

blob = "\n".join(LOG).encode('utf-8', errors='backslashreplace')
print(hashlib.sha256(blob).hexdigest())
