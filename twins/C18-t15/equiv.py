#!/usr/bin/env python
"""Equivalence harness for the refactoring of the token consumers
(`consumenumbers`, `consumesaveinfo`) inside
cnfgen.clitools.graph_args.parse_graph_argument.

Run as:  cd <checkout> && /venv/bin/python equiv.py
Prints one SHA256 digest of everything observed.
"""
import sys
import os
import io
import hashlib
import itertools
import random
import tempfile
import warnings

warnings.simplefilter('ignore')
sys.path.insert(0, os.getcwd())

from cnfgen.clitools.graph_args import parse_graph_argument
from cnfgen.clitools.graph_args import make_graph_from_spec
from cnfgen.clitools.cmdline import CLIError
from cnfgen.clitools.msg import InternalBug
import importlib
from cnfgen.info import info
# the version string comes from `git describe`: pin it
info['version'] = 'equiv'
# (cnfgen.clitools.cnfgen the attribute is the `cli` function)
cnfgen_tool = importlib.import_module('cnfgen.clitools.cnfgen')
pbgen_tool = importlib.import_module('cnfgen.clitools.pbgen')
msg_module = importlib.import_module('cnfgen.clitools.msg')

H = hashlib.sha256()
COUNT = 0


def record(*items):
    global COUNT
    COUNT += 1
    for it in items:
        H.update(repr(it).encode('utf-8'))
        H.update(b'\x00')
    H.update(b'\x01')


def outcome(fn, *args):
    try:
        return ('ok', fn(*args))
    except BaseException as e:  # everything observable, SystemExit included
        return ('exc', type(e).__name__, str(e))


class Sink(io.StringIO):
    """StringIO that survives the `sys.stderr.close()` of the launchers"""
    def close(self):
        pass


def run_main(tool, argv, stdin_text=''):
    """Run the real entry point `main()` in process, capture everything"""
    old = sys.argv, sys.stdout, sys.stderr, sys.stdin
    # a fresh process starts with no message prefix (the prefix is not
    # restored when an error escapes a `msg_prefix` block)
    msg_module._prefix = ''
    # command lines without '--seed' would use the clock
    random.seed(20241003)
    out, err = Sink(), Sink()
    sys.argv, sys.stdout, sys.stderr = list(argv), out, err
    sys.stdin = io.StringIO(stdin_text)
    code = 0
    try:
        try:
            tool.main()
        except SystemExit as e:
            code = e.code
        except BaseException as e:
            code = ('UNHANDLED', type(e).__name__, str(e))
    finally:
        sys.argv, sys.stdout, sys.stderr, sys.stdin = old
    return code, out.getvalue(), err.getvalue()


# ---------------------------------------------------------------
# 1. the parser of graph specifications, directly
# ---------------------------------------------------------------
numbers = ['0', '1', '-1', '3', '10', '.5', '0.0', '1.0', '1e2', '-0',
           'nan', 'inf', '-inf', '+4', ' 7 ', '1_0', '0x10', '١٢', '']
words = ['save', 'addedges', 'plantclique', 'plantbiclique', 'splitedges',
         'gnp', 'glrp', 'tree', 'kthlist', 'gml', 'dot', 'matrix',
         'dimacs', 'g.gml', 'out.dot', 'noext', '-v', '--quiet', '-',
         'simple', 'bipartite', 'dag', 'digraph']
heads = {
    'simple': ['gnp', 'gnm', 'gnd', 'grid', 'torus', 'complete', 'empty',
               'gml', 'dot', 'kthlist', 'dimacs', 'matrix', 'glrp', 'tree',
               'file.gml', 'whatever'],
    'bipartite': ['glrp', 'glrm', 'glrd', 'regular', 'shift', 'complete',
                  'empty', 'matrix', 'gml', 'dot', 'kthlist', 'dimacs',
                  'gnp', 'path', 'file.matrix', 'whatever'],
    'dag': ['path', 'tree', 'pyramid', 'kthlist', 'gml', 'dot', 'dimacs',
            'matrix', 'gnp', 'glrd', 'file.kthlist', 'whatever'],
    'digraph': ['path', 'tree', 'pyramid', 'kthlist', 'gml', 'dot',
                'gnp', 'file.dot', 'whatever'],
}

for gtype in sorted(heads):
    record('empty', gtype, outcome(parse_graph_argument, gtype, []))
    record('emptystr', gtype, outcome(parse_graph_argument, gtype, ''))
    record('blank', gtype, outcome(parse_graph_argument, gtype, '   '))
    for head in heads[gtype]:
        record(gtype, head, outcome(parse_graph_argument, gtype, [head]))
        # every tail of length one and two out of numbers + words
        for tail in itertools.chain(
                ([x] for x in numbers + words),
                itertools.product(numbers[:8] + words[:12], repeat=2)):
            spec = [head] + list(tail)
            record(gtype, spec, outcome(parse_graph_argument, gtype, spec))

# save at, just before, and beyond the end of the specification
save_tails = [
    ['save'], ['save', 'x.gml'], ['save', 'gml'], ['save', 'gml', 'x'],
    ['save', 'gml', 'x', 'y'], ['save', 'x', 'gml'], ['save', 'save'],
    ['save', 'gml', 'save'], ['save', 'a.dot', 'save', 'b.dot'],
    ['save', 'matrix'], ['save', 'matrix', 'm'], ['save', 'kthlist', 'k'],
    ['save', '3'], ['save', 'gml', '3'], ['save', 'addedges'],
    ['save', 'dot', 'addedges'], ['save', 'dot', 'addedges', '2'],
    ['addedges', '2', 'save'], ['addedges', '2', 'save', 'dot'],
    ['addedges', '2', 'save', 'dot', 'o'], ['addedges', 'save', 'o.gml'],
    ['addedges', '1', '2', '3', 'save', 'o.gml', 'plantclique'],
    ['addedges', '1', 'addedges', '2'], ['plantclique', '2', '-3', '1e1'],
    ['splitedges', 'nan', 'inf'], ['plantbiclique', '1', '1', 'save', 'dimacs'],
]
for gtype in sorted(heads):
    for head in (heads[gtype][0], heads[gtype][-2], 'gml'):
        for nums in ([], ['4'], ['4', '.5'], ['4', '3', '2', '1']):
            for tail in save_tails:
                spec = [head] + nums + tail
                record(gtype, spec,
                       outcome(parse_graph_argument, gtype, spec))
                record(gtype, ' '.join(spec),
                       outcome(parse_graph_argument, gtype, ' '.join(spec)))

# specifications given as tuples, with numbers that are not strings
for gtype, spec in [('simple', ('gnp', 5, .5, 'addedges', 2)),
                    ('simple', ('gnd', 6, 3)),
                    ('simple', ('grid', 2, 3, 'save', 'gml', 'f')),
                    ('simple', ('grid', 2, 3, 'save', 'f.gml')),
                    ('simple', ('grid', 2, 3, 'save', 'gml')),
                    ('bipartite', ('glrd', 4, 3, 2, 'plantbiclique', 1, 1)),
                    ('dag', ('tree', 3)),
                    ('dag', ('tree', None)),
                    ('dag', ('tree', 'save', None)),
                    ('dag', ('tree',)),
                    ('dag', ())]:
    record(gtype, spec, outcome(parse_graph_argument, gtype, spec))
    record(gtype, spec, outcome(parse_graph_argument, gtype, list(spec)))

# random token soups (seeded)
rng = random.Random(20180618)
alltokens = numbers + words + ['gnm', 'grid', 'complete', 'shift', 'path']
for i in range(4000):
    gtype = rng.choice(sorted(heads))
    spec = [rng.choice(alltokens) for _ in range(rng.randint(1, 7))]
    record(gtype, spec, outcome(parse_graph_argument, gtype, spec))

# ---------------------------------------------------------------
# 2. building graphs (with save) from specifications
# ---------------------------------------------------------------
tmp = tempfile.mkdtemp(prefix='equiv_c18_t15_')
cwd = os.getcwd()
os.chdir(tmp)
try:
    def graphdump(gtype, spec):
        random.seed(42)
        G = make_graph_from_spec(gtype, spec)
        try:
            edges = sorted(G.edges())
        except TypeError:
            edges = list(G.edges())
        return (type(G).__name__, G.name, G.number_of_vertices(), edges)

    build_specs = [
        ('simple', 'gnp 6 .5 save g1.gml'),
        ('simple', 'gnp 6 .5 save gml g2'),
        ('simple', 'gnp 6 .5 addedges 2 save kthlist g3'),
        ('simple', 'gnp 6 .5 save dot'),
        ('simple', 'gnp 6 .5 save'),
        ('simple', 'gnp 6 .5 save noext'),
        ('simple', 'gnp 6 .5 save g4.matrix'),
        ('simple', 'grid 2 3 plantclique 3 save dimacs g5'),
        ('simple', 'gml g2'),
        ('simple', 'g1.gml addedges 1'),
        ('simple', 'kthlist g3 save g6.gml'),
        ('simple', 'complete 4 splitedges 2'),
        ('simple', 'gnm 5 4 3'),
        ('simple', 'gnm 5 nan'),
        ('simple', 'gnd 6 3 addedges'),
        ('bipartite', 'glrp 3 4 .5 save b1.matrix'),
        ('bipartite', 'glrd 3 4 2 plantbiclique 2 2 save matrix b2'),
        ('bipartite', 'matrix b2 addedges 1'),
        ('bipartite', 'b1.matrix'),
        ('bipartite', 'shift 4 4 0 1 save gml'),
        ('bipartite', 'complete 2 2 save gml b3 b4'),
        ('dag', 'pyramid 2 save d1.kthlist'),
        ('dag', 'tree 2 save kthlist d2'),
        ('dag', 'kthlist d2'),
        ('dag', 'd1.kthlist save gml d3'),
        ('dag', 'path 3 save'),
        ('dag', 'path 3 4 save dot d4'),
        ('digraph', 'path 3 save dot d5'),
        ('simple', 'missing.gml'),
        ('simple', 'gml missing'),
    ]
    for gtype, spec in build_specs:
        record('build', gtype, spec, outcome(graphdump, gtype, spec))
        record('buildlist', gtype, spec,
               outcome(graphdump, gtype, spec.split()))
    for name in sorted(os.listdir('.')):
        with open(name) as f:
            record('file', name, f.read())

    # -----------------------------------------------------------
    # 3. whole command lines through the real entry points
    # -----------------------------------------------------------
    cmdlines = [
        (cnfgen_tool, 'cnfgen -S 1 kcolor 3 gnp 6 .5'),
        (cnfgen_tool, 'cnfgen -S 1 kcolor 3 gnp 6 .5 save c1.gml'),
        (cnfgen_tool, 'cnfgen -S 1 kcolor 3 gnp 6 .5 save gml'),
        (cnfgen_tool, 'cnfgen -S 1 kcolor 3 gnp 6 .5 save'),
        (cnfgen_tool, 'cnfgen -S 1 kcolor 3 gnp 6 .5 addedges 1 2'),
        (cnfgen_tool, 'cnfgen -S 1 kcolor 3 gnp 6 .5 addedges -v'),
        (cnfgen_tool, 'cnfgen -S 1 kcolor 3 gnp 6 nan'),
        (cnfgen_tool, 'cnfgen -S 1 kcolor 3 gnp 6 .5 gnp'),
        (cnfgen_tool, 'cnfgen -q -S 1 kclique 3 gnm 6 9 plantclique 3'),
        (cnfgen_tool, 'cnfgen -q -S 1 kclique 3 gnm 6 9 plantclique 7'),
        (cnfgen_tool, 'cnfgen -of latex -S 1 kcolor 2 grid 2 2 bogus'),
        (cnfgen_tool, 'cnfgen -of opb -S 1 kcolor 2 c1.gml bogus'),
        (cnfgen_tool, 'cnfgen -S 3 php glrd 4 3 2 save matrix'),
        (cnfgen_tool, 'cnfgen -S 3 php glrd 4 3 2 save matrix c2'),
        (cnfgen_tool, 'cnfgen -S 3 php matrix c2'),
        (cnfgen_tool, 'cnfgen -S 3 peb pyramid 2 save c3.kthlist'),
        (cnfgen_tool, 'cnfgen -S 3 peb c3.kthlist -T xor 2'),
        (cnfgen_tool, 'cnfgen -S 3 peb kthlist'),
        (cnfgen_tool, 'cnfgen -S 3 peb gnp 3 .5'),
        (cnfgen_tool, 'cnfgen -S 3 peb matrix c2'),
        (cnfgen_tool, 'cnfgen -S 3 peb nosuchfile'),
        (cnfgen_tool, 'cnfgen -S 3 op 3 -T xorcomp glrd 6 4 2 save'),
        (cnfgen_tool, 'cnfgen -S 3 op 3 -T xorcomp glrd 6 4 2 save matrix'),
        (cnfgen_tool, 'cnfgen -S 3 op 3 -T xorcomp glrd 6 4 2 save c4.matrix'),
        (cnfgen_tool, 'cnfgen -S 3 op 3 -T xorcomp c4.matrix addedges'),
        (pbgen_tool, 'pbgen -S 1 kcolor 3 gnp 6 .5 save'),
        (pbgen_tool, 'pbgen -S 1 kcolor 3 gnp 6 .5 save p1.gml'),
        (pbgen_tool, 'pbgen -l -S 1 kcolor 3 gnp 6 .5 save gml'),
    ]
    for tool, line in cmdlines:
        record('main', line, run_main(tool, line.split()))
    for name in sorted(os.listdir('.')):
        with open(name) as f:
            record('file2', name, f.read())
finally:
    os.chdir(cwd)
    for name in os.listdir(tmp):
        os.unlink(os.path.join(tmp, name))
    os.rmdir(tmp)

record('count', COUNT)
print(H.hexdigest())
