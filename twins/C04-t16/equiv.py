#!/usr/bin/env python3
"""Equivalence script for refactoring t16 (property C04).

Exercises BaseOPB.cardinality_neq (pseudo-Boolean "different from"
constraint) on many literal lists / containers / constants, together
with the sibling cardinality builders of OPB and the CNF counterpart
(for reference).  Prints one SHA256 digest of everything observed.
"""
import hashlib
import io
import itertools
import random
import sys

sys.path.insert(0, '.')

from cnfgen.formula.opb import OPB
from cnfgen.formula.baseopb import BaseOPB
from cnfgen.formula.cnf import CNF

LOG = []


def rec(*items):
    LOG.append(repr(items))


def snapshot(F):
    out = io.StringIO()
    try:
        F.to_file(out)
        text = out.getvalue()
    except Exception as e:  # noqa
        text = 'EXC ' + type(e).__name__ + ' ' + str(e)
    return (F.number_of_variables(), len(F), [list(c) for c in F], text)


def snapshot_base(F):
    return (F.number_of_variables(), len(F), [list(c) for c in F])


def attempt(tag, F, fn, snap):
    try:
        res = fn()
        rec(tag, 'ok', res, snap(F))
    except Exception as e:  # noqa
        rec(tag, 'exc', type(e).__name__, str(e), snap(F))


def holds(constraint, bits):
    total = 0
    for coeff, lit in constraint[:-2]:
        if bits[abs(lit) - 1] == (lit > 0):
            total += coeff
    if constraint[-2] == '>=':
        return total >= constraint[-1]
    return total == constraint[-1]


def models(F, nvars):
    res = []
    cons = [list(c) for c in F]
    for bits in itertools.product([False, True], repeat=nvars):
        if all(holds(c, bits) for c in cons):
            res.append(bits)
    return res


rng = random.Random(20241004)

literal_lists = [[], [1], [-1], [1, 2], [-1, 2], [3, -1, 2], [1, 2, 3, 4],
                 [-4, -2, 7, 5], [1, 1], [1, -1], [2, 2, -2], [5, 3, 5, -3, 1]]
for n in range(5, 8):
    vs = rng.sample(range(1, 12), n)
    literal_lists.append([v * rng.choice([1, -1]) for v in vs])


def containers(lits):
    yield 'list', lambda: list(lits)
    yield 'tuple', lambda: tuple(lits)
    yield 'gen', lambda: (l for l in lits)
    yield 'iter', lambda: iter(list(lits))


# 1. cardinality_neq on OPB and BaseOPB, every container, many constants
for cls, snap in ((OPB, snapshot), (BaseOPB, snapshot_base)):
    for lits in literal_lists:
        n = len(lits)
        for value in range(-2, n + 3):
            for cname, make in containers(lits):
                for check in (True, False):
                    F = cls()
                    arg = make()
                    attempt(('neq', cls.__name__, lits, value, cname, check),
                            F, lambda: F.cardinality_neq(arg, value, check=check), snap)
                    if cname == 'list':
                        rec('arg-unchanged', arg == lits, arg)

# ranges as literal containers
for r in (range(1, 1), range(1, 4), range(2, 7), range(-3, 0), range(-2, 3), range(0, 3)):
    for value in range(-1, len(r) + 2):
        for check in (True, False):
            F = OPB()
            attempt(('neq-range', (r.start, r.stop), value, check),
                    F, lambda: F.cardinality_neq(r, value, check=check), snapshot)

# 2. invalid input (error paths)
bad_inputs = [
    ([1, 0, 2], 1), ([0], 0), ([1, 'a'], 1), (['a', 'b'], 1), (['a', 'b'], 0),
    ([1.0, 2.0], 1), ([1.5, -2.5, 3], 2), ([None, 1], 1), ([[1], [2]], 1),
    ([True, False], 1), ([1, 2, 3], 1.0), ([1, 2, 3], 1.5), ([1, 2, 3], '2'),
    ([1, 2, 3], None), ([1, 2, 3], True), (None, 1), (5, 1), ('abc', 1),
    ('abc', 0), ([(1, 2)], 1), ([(1, 2), (3, 4)], 1),
]
for lits, value in bad_inputs:
    for check in (True, False):
        F = OPB()
        attempt(('neq-bad', repr(lits), repr(value), check),
                F, lambda: F.cardinality_neq(lits, value, check=check), snapshot_base)

# 3. several constraints accumulated in one formula, with variable groups
F = OPB()
x = F.new_block(3, 3, label='x_{{{},{}}}')
y = F.new_variable('y')
F.cardinality_neq(x(1, None), 2)
F.cardinality_neq([-v for v in x(None, 2)], 0)
F.cardinality_neq(list(x(3, None)) + [-y], 4)
F.cardinality_neq(x(), 9, check=False)
F.cardinality_eq(x(2, None), 1)
F.cardinality_leq(x(None, 1), 1)
F.cardinality_geq(x(None, 3), 2)
F.cardinality_neq([y, 20], 1)
rec('accumulated', snapshot(F), list(F.all_variable_labels()))

# 4. semantics: the models are exactly the assignments with sum != value
for lits in literal_lists:
    nv = max([abs(l) for l in lits] + [0])
    if nv > 8:
        continue
    for value in range(-1, len(lits) + 2):
        F = OPB()
        F.cardinality_neq(lits, value)
        F.update_variable_number(nv)
        got = models(F, nv)
        want = [bits for bits in itertools.product([False, True], repeat=nv)
                if sum(1 for l in lits if bits[abs(l) - 1] == (l > 0)) != value]
        rec('semantics', lits, value, got == want, got)

# 5. siblings, and CNF reference
for lits in literal_lists[:9]:
    for value in range(-1, len(lits) + 2):
        F = OPB()
        F.cardinality_neq(lits, value)
        F.cardinality_eq(lits, value)
        F.cardinality_leq(lits, value)
        F.cardinality_geq(lits, value)
        rec('siblings', snapshot(F))
        C = CNF()
        C.cardinality_neq(lits, value)
        rec('cnf', C.number_of_variables(), [list(c) for c in C])

print(hashlib.sha256('\n'.join(LOG).encode('utf-8')).hexdigest())
