"""Equivalence script for refactoring t9 (property C04).

Exercises BipartiteEdgesVariables.__init__ (offset table of the edge
variables) through unary and sparse mappings, bipartite edge variables
and the mapping constraint builders, for CNF and OPB formulas.
"""
import hashlib
import random
import sys

sys.path.insert(0, '.')

from cnfgen.formula.cnf import CNF
from cnfgen.formula.opb import OPB
from cnfgen.formula.basecnf import BaseCNF
from cnfgen.formula.variables import (BipartiteEdgesVariables,
                                      UnaryMappingVariables)
from cnfgen.graphs import BipartiteGraph, CompleteBipartiteGraph

out = []


def rec(*args):
    out.append(repr(args))


def attempt(tag, fn):
    try:
        res = fn()
        rec(tag, 'ok', res)
    except Exception as e:  # noqa
        rec(tag, 'exc', type(e).__name__, str(e))


def random_bipartite(rng, L, R, p):
    B = BipartiteGraph(L, R)
    for u in range(1, L + 1):
        for v in range(1, R + 1):
            if rng.random() < p:
                B.add_edge(u, v)
    return B


def dump_group(tag, f, F):
    rec(tag, 'offset', f.offset)
    rec(tag, 'ids', list(f.ids), len(f))
    rec(tag, 'dict', sorted(f.to_dict().items()))
    rec(tag, 'all', list(f()))
    rec(tag, 'labels', list(f.label()))
    rec(tag, 'numvar', F.number_of_variables())
    L = f.G.left_order()
    R = f.G.right_order()
    for u in range(0, L + 2):
        attempt((tag, 'row', u), lambda: list(f(u, None)))
    for v in range(0, R + 2):
        attempt((tag, 'col', v), lambda: list(f(None, v)))
    for u in range(0, L + 2):
        for v in range(0, R + 2):
            attempt((tag, 'cell', u, v), lambda: f(u, v))
    for lit in list(f.ids) + [-x for x in f.ids]:
        attempt((tag, 'to_index', lit), lambda: f.to_index(lit))
    first = f.ids[0] if len(f) else F.number_of_variables() + 1
    for lit in [first - 1, first + len(f), 0]:
        attempt((tag, 'to_index-out', lit), lambda: f.to_index(lit))


def constrain(tag, mk_formula, mk_mapping):
    for name in ['force_complete_mapping', 'force_functional_mapping',
                 'force_surjective_mapping', 'force_injective_mapping',
                 'force_nondecreasing_mapping']:
        F = mk_formula()
        f = mk_mapping(F)
        attempt((tag, name), lambda: getattr(F, name)(f))
        rec(tag, name, 'content', list(F), F.number_of_variables())
        if isinstance(F, CNF):
            rec(tag, name, 'dimacs', F.to_dimacs())
        else:
            rec(tag, name, 'opb', F.to_opb())
    # all together
    F = mk_formula()
    f = mk_mapping(F)
    F.force_complete_mapping(f)
    F.force_functional_mapping(f)
    F.force_injective_mapping(f)
    F.force_surjective_mapping(f)
    F.force_nondecreasing_mapping(f)
    rec(tag, 'all constraints', list(F), F.number_of_variables())
    rec(tag, 'labels', list(F.all_variable_labels()))


rng = random.Random(20240404)

shapes = [(0, 0), (0, 3), (3, 0), (1, 1), (1, 4), (4, 1), (2, 3), (3, 3),
          (5, 4), (6, 7)]

# dense unary mappings
for (n, m) in shapes:
    for prev in [0, 3]:
        for cls in (CNF, OPB):
            tag = ('dense', n, m, prev, cls.__name__)

            def mk_formula(cls=cls, prev=prev):
                F = cls()
                F.update_variable_number(prev)
                return F

            def mk_mapping(F, n=n, m=m):
                return F.new_mapping(n, m)

            F = mk_formula()
            attempt((tag, 'create'), lambda: dump_group(tag, mk_mapping(F), F))
            attempt((tag, 'constrain'),
                    lambda: constrain(tag, mk_formula, mk_mapping))

# sparse unary mappings, including graphs with isolated left vertices
for (n, m) in shapes:
    for p in [0.0, 0.3, 0.7, 1.0]:
        B = random_bipartite(rng, n, m, p)
        for prev in [0, 5]:
            for cls in (CNF, OPB):
                tag = ('sparse', n, m, p, prev, cls.__name__)

                def mk_formula(cls=cls, prev=prev):
                    F = cls()
                    F.update_variable_number(prev)
                    return F

                def mk_mapping(F, B=B):
                    return F.new_sparse_mapping(B, label='g({})={}')

                F = mk_formula()
                attempt((tag, 'create'),
                        lambda: dump_group(tag, mk_mapping(F), F))
                attempt((tag, 'constrain'),
                        lambda: constrain(tag, mk_formula, mk_mapping))

# several groups in the same formula: offsets must chain correctly
F = CNF()
x = F.new_variable('x')
f1 = F.new_mapping(3, 2)
blk = F.new_block(2, 2)
B = random_bipartite(rng, 4, 5, 0.5)
f2 = F.new_sparse_mapping(B)
e = F.new_bipartite_edges(random_bipartite(rng, 3, 3, 0.6))
f3 = F.new_mapping(0, 4)
f4 = F.new_sparse_mapping(CompleteBipartiteGraph(2, 3))
for i, g in enumerate([f1, f2, e, f3, f4]):
    dump_group(('multi', i), g, F)
rec('multi labels', list(F.all_variable_labels()))

# direct construction and error paths
G = random_bipartite(rng, 3, 4, 0.5)
attempt('bad graph', lambda: BipartiteEdgesVariables(BaseCNF(), "nograph"))
attempt('bad graph 2', lambda: BipartiteEdgesVariables(BaseCNF(), None))
attempt('bad label', lambda: BipartiteEdgesVariables(BaseCNF(), G, labelfmt='{}{}{}'))
attempt('one-arg label', lambda: BipartiteEdgesVariables(BaseCNF(), G, labelfmt='{}').offset)
attempt('default label', lambda: list(BipartiteEdgesVariables(BaseCNF(), G).label()))
attempt('unary direct', lambda: UnaryMappingVariables(BaseCNF(), G, 'h{}{}').offset)
attempt('negative map', lambda: CNF().new_mapping(-1, 3))
attempt('negative map 2', lambda: CNF().new_mapping(3, -1))
attempt('non bipartite', lambda: CNF().new_sparse_mapping(3))
F1, F2 = CNF(), CNF()
g = F1.new_mapping(2, 2)
attempt('wrong formula', lambda: F2.force_complete_mapping(g))
attempt('wrong type', lambda: F1.force_complete_mapping(F1.new_block(2, 2)))

digest = hashlib.sha256("\n".join(out).encode('utf-8')).hexdigest()
print(digest)
