#!/usr/bin/env python
"""Equivalence script for CNFLinear.add_linear (all operators, in particular the reductions of < and >)
and for the substitutions built on it (anything-but-k, exactly-k, exactly-one,
at-least, at-most, majority).  Prints one SHA256 digest of everything observed.
"""
import sys
import os
import random
import hashlib
from itertools import product

sys.path.insert(0, os.getcwd())

from cnfgen import CNF
from cnfgen.formula.linear import CNFLinear
from cnfgen.transformations.substitutions import (
    LinearSubstitution, AnythingButKSubstitution, ExactlyKSubstitution,
    ExactlyOneSubstitution, AtLeastKSubstitution, AtMostKSubstitution,
    MajoritySubstitution, VariableCompression)
from cnfgen.graphs import BipartiteGraph

OUT = []


def rec(*items):
    OUT.append(repr(items))


def describe(F):
    return (F.number_of_variables(), F.number_of_clauses(),
            [list(c) for c in F.clauses()],
            [type(x).__name__ for c in F.clauses() for x in c][:50])


def attempt(tag, fn):
    try:
        rec(tag, 'ok', fn())
    except BaseException as e:   # noqa
        rec(tag, type(e).__name__, str(e))


OPS = ['<=', '>=', '<', '>', '==', '!=']

rng = random.Random(20240519)
LITSETS = [[], [1], [-1], [1, 2], [-2, 1], [3, -1, 2], [1, 2, 3, 4], [-4, -3, -2, -1],
           [1, 1, 2], [1, -1, 2], [5, 5, 5, 5], [2, 4, 6, 8, 10], [1, 2, 3, 4, 5, 6],
           [7, -3, 12, -9, 1, 4, -2]]
for _ in range(10):
    n = rng.randint(1, 7)
    LITSETS.append([rng.choice([-1, 1]) * rng.randint(1, 9) for _ in range(n)])


def run_linear(lits, op, c, check, kind):
    F = CNFLinear()
    original = list(lits)
    if kind == 'list':
        arg = list(lits)
    elif kind == 'tuple':
        arg = tuple(lits)
    elif kind == 'gen':
        arg = (x for x in lits)
    elif kind == 'iter':
        arg = iter(list(lits))
    elif kind == 'range':
        arg = range(1, len(lits) + 1)
    res = F.add_linear(arg, op, c, check=check)
    after = list(arg) if kind in ('list', 'tuple', 'range') else None
    return (res, describe(F), after, original)


# 1. add_linear on a grid
for lits in LITSETS:
    n = len(lits)
    for op in OPS:
        for c in range(-2, n + 3):
            for check in (True, False):
                for kind in ('list', 'tuple', 'gen', 'range'):
                    attempt(('lin', lits, op, c, check, kind),
                            lambda: run_linear(lits, op, c, check, kind))
    for c in (0, 1, n):
        attempt(('lin-iter', lits, c), lambda: run_linear(lits, '!=', c, False, 'iter'))
        attempt(('lin-iter-chk', lits, c), lambda: run_linear(lits, '!=', c, True, 'iter'))

# 2. accumulation in the same formula, cardinality_* front ends
F = CNFLinear()
for lits in LITSETS[:10]:
    for c in range(0, len(lits) + 1):
        F.cardinality_neq(lits, c)
        F.cardinality_eq(lits, c)
        F.cardinality_geq(lits, c)
        F.cardinality_leq(lits, c)
rec('accum', describe(F))

# 3. odd arguments and error paths
for op in OPS + ['=', '=>', '', None, 'neq']:
    for c in [1.5, 2.0, True, False, None, 'a', [1], 10**6, -10**6]:
        for lits in ([1, 2, 3], [], [0, 1], [1.0, 2], ['a', 2], [True, 2, 3], None, 5, 'xy'):
            for check in (True, False):
                attempt(('odd', op, c, lits, check),
                        lambda: (lambda G: (G.add_linear(lits, op, c, check=check), describe(G)))(CNFLinear()))

# 4. the substitutions which go through add_linear
BASES = {
    'empty': CNF(),
    'emptyclause': CNF([[]]),
    'unit': CNF([[-1]]),
    'small': CNF([[1, -2], [2, 3], [-1, -3], []]),
    'repeated': CNF([[1, 1, -1], [2, -2], [-3, -3]]),
}
unused = CNF([[2, -4]])
unused.update_variable_number(5)
BASES['unused'] = unused


def describe_full(F):
    return (describe(F), list(F.all_variable_labels()),
            sorted((str(k), str(v)) for k, v in F.header.items() if str(k).lower() not in ('version', 'generator')))


for name, B in BASES.items():
    for k in range(1, 5):
        for C in range(-1, k + 2):
            for op in ['==', '<', '>', '<=', '>=', '!=']:
                attempt(('LS', name, k, op, C), lambda: describe_full(LinearSubstitution(B, k, op, C)))
            attempt(('anybut', name, k, C), lambda: describe_full(AnythingButKSubstitution(B, k, C)))
            attempt(('exact', name, k, C), lambda: describe_full(ExactlyKSubstitution(B, k, C)))
            attempt(('atleast', name, k, C), lambda: describe_full(AtLeastKSubstitution(B, k, C)))
            attempt(('atmost', name, k, C), lambda: describe_full(AtMostKSubstitution(B, k, C)))
        attempt(('one', name, k), lambda: describe_full(ExactlyOneSubstitution(B, k)))
        attempt(('maj', name, k), lambda: describe_full(MajoritySubstitution(B, k)))
    for bad in [(0, '!=', 1), (2, '<>', 1), (2, '!=', 1.5), ('2', '!=', 1), (2, '!=', None)]:
        attempt(('LS-bad', name, bad), lambda: describe_full(LinearSubstitution(B, *bad)))

# semantic check of anything-but-k
base = CNF([[1, -2], [2]])
for k in range(1, 4):
    for C in range(0, k + 1):
        G = AnythingButKSubstitution(base, k, C)
        sat = []
        for bits in product([False, True], repeat=G.number_of_variables()):
            ok = all(any((bits[abs(l) - 1] if l > 0 else not bits[abs(l) - 1]) for l in cl)
                     for cl in G.clauses())
            sat.append(ok)
        rec('sem', k, C, sat)

print(hashlib.sha256('\n'.join(OUT).encode('utf-8')).hexdigest())
