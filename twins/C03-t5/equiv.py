"""Equivalence check for StoneCmdHelper.build_formula (cnfgen/clihelpers/pebbling_helpers.py).

Exercises the `stone` sub-command of cnfgen (dense and --sparse variants, error
paths, several seeds) and the helper directly, and prints one SHA256 digest.
"""
import sys, os, hashlib, random, io, contextlib
sys.path.insert(0, os.getcwd())

from types import SimpleNamespace
from cnfgen.clitools import cnfgen, CLIError
from cnfgen.clihelpers.pebbling_helpers import StoneCmdHelper, PebblingCmdHelper
from cnfgen.formula.cnf import CNF
from cnfgen.graphs import DirectedGraph, dag_pyramid, dag_path, dag_complete_binary_tree

H = hashlib.sha256()


def rec(*items):
    for it in items:
        H.update(repr(it).encode('utf-8'))
        H.update(b'\x00')


def run_cli(argv):
    out = io.StringIO()
    err = io.StringIO()
    try:
        with contextlib.redirect_stdout(out), contextlib.redirect_stderr(err):
            res = cnfgen(argv, mode='string')
        rec('OK', argv, res, out.getvalue(), err.getvalue())
    except CLIError as e:
        rec('CLIError', argv, str(e), out.getvalue(), err.getvalue())
    except SystemExit as e:
        rec('SystemExit', argv, e.code, out.getvalue(), err.getvalue())
    except Exception as e:  # pragma: no cover
        rec('EXC', argv, type(e).__name__, str(e))


dags = [['pyramid', 0], ['pyramid', 3], ['tree', 2], ['path', 0], ['path', 4]]

for seed in [0, 42, 2311]:
    for dag in dags:
        for s in [1, 2, 3, 5]:
            run_cli(['cnfgen', '-q', '--seed', str(seed), 'stone', s] + dag)
            for deg in [1, 2, 3, 5]:
                run_cli(['cnfgen', '-q', '--seed', str(seed), 'stone', s] + dag + ['--sparse', deg])
                if deg == 2:
                    run_cli(['cnfgen', '-q', '--seed', str(seed), 'stone', '--sparse', deg, s] + dag)

# with header (contains description), other output formats
for fmt in [[], ['-of', 'latex'], ['-v']]:
    run_cli(['cnfgen', '--seed', '7'] + fmt + ['stone', 3, 'pyramid', 2])
    run_cli(['cnfgen', '--seed', '7'] + fmt + ['stone', 3, 'pyramid', 2, '--sparse', 2])

# command line error paths
run_cli(['cnfgen', '-q', 'stone', 0, 'pyramid', 2])
run_cli(['cnfgen', '-q', 'stone', -1, 'pyramid', 2])
run_cli(['cnfgen', '-q', 'stone', 3, 'pyramid', 2, '--sparse', 0])
run_cli(['cnfgen', '-q', 'stone', 3, 'pyramid', 2, '--sparse', 'x'])
run_cli(['cnfgen', '-q', 'stone', 3, 'pyramid', 2, '--sparse', 4])
run_cli(['cnfgen', '-q', 'stone', 3])
run_cli(['cnfgen', '-q', 'stone', 'pyramid', 2])

# Direct calls to the helper, with hand made namespaces
def direct(ns, seed):
    random.seed(seed)
    try:
        F = StoneCmdHelper.build_formula(ns, CNF)
        rec('OK', F.header.get('description'), F.number_of_variables(),
            list(F.clauses()), list(F.all_variable_labels()))
    except Exception as e:
        rec('EXC', type(e).__name__, str(e))
    rec(random.random())   # state of the random stream afterwards


def mkdag(n, edges):
    D = DirectedGraph(n, name='dag{}'.format(n))
    for u, v in edges:
        D.add_edge(u, v)
    return D


graphs = [dag_pyramid(0), dag_pyramid(2), dag_path(3), dag_complete_binary_tree(2),
          mkdag(1, []), mkdag(4, [(1, 3), (2, 3), (1, 4), (3, 4)]),
          mkdag(5, [(1, 2), (1, 3), (2, 5), (3, 5)]),
          mkdag(3, [(2, 1)]), mkdag(0, [])]

for seed in [3, 99]:
    for D in graphs:
        for s in [1, 2, 4]:
            direct(SimpleNamespace(D=D, s=s), seed)                 # no attribute 'sparse'
            direct(SimpleNamespace(D=D, s=s, sparse=None), seed)
            for deg in [0, 1, 2, 4, 5]:
                direct(SimpleNamespace(D=D, s=s, sparse=deg), seed)

print(H.hexdigest())
