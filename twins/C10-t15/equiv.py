#!/usr/bin/env python
"""Equivalence check for cnfgen.utils.parsedimacs.parse_dimacs
(and its users from_dimacs_file, CNF.from_file, `cnfshuffle`, `cnfgen dimacs`).
Prints one SHA256 digest of everything observed."""
import sys, os, io, hashlib, random, itertools
sys.path.insert(0, os.getcwd())

from cnfgen.utils.parsedimacs import parse_dimacs, from_dimacs_file
from cnfgen.formula.cnf import CNF
from cnfgen.formula.basecnf import BaseCNF
from cnfgen.clitools import cnfshuffle, cnfgen as cnfgencli

H = hashlib.sha256()
def rec(*items):
    for it in items:
        H.update(repr(it).encode('utf-8'))
        H.update(b'\x00')

def excinfo(e):
    out = [type(e).__name__, str(e)]
    c = e.__cause__
    out.append(None if c is None else (type(c).__name__, str(c)))
    c = e.__context__
    out.append(None if c is None else (type(c).__name__, str(c)))
    return out

TEXTS = [
    "",
    "\n\n",
    "c only comments\nc another\n",
    "p cnf 0 0\n",
    "p cnf 0 0",
    "p cnf 3 0\n",
    "p cnf 3 2\n1 -2 0\n3 0\n",
    "p cnf 3 2\n1 -2 0\n3 0",
    "c head\n\np cnf 3 2\n1 -2 0\n\nc mid\n3 0\n",
    "c head\n   \np cnf 3 2\n  1 -2 0  \n \t \n   c indented comment\n3 0\n",
    "p cnf 4 3\n1 2\n3 0 4\n0 -1 -2 -3 -4 0\n",
    "p cnf 4 3\n1 2 0 3 4 0 -1 0\n",
    "p cnf 4 2\n0 0\n",
    "p cnf 4 1\n0\n",
    "p cnf 3 2\n1 -2 0\n3 0\np cnf 3 2\n",
    "p cnf 3 2\np cnf 3 2\n1 0\n",
    "p cnf 3\n1 0\n",
    "p cnf 3 2 1\n1 0\n",
    "p cnf\n",
    "p\n",
    "p cnf -3 2\n1 0\n",
    "p cnf 3 -2\n1 0\n",
    "p cnf x 2\n1 0\n",
    "p cnf 3 y\n1 0\n",
    "p cnf 3.0 2\n1 0\n",
    "p dnf 3 1\n1 0\n",
    "pcnf 3 1\n1 0\n",
    "p  cnf   3    1  \n1 0\n",
    "1 2 0\np cnf 3 1\n",
    "c c\n\n-1 0\n",
    "x\n",
    "p cnf 3 2\n1 -2 0\n4 0\n",
    "p cnf 3 2\n1 -2 0\n-4 0\n",
    "p cnf 3 2\n1 -2 0 3 0 4 0\n",
    "p cnf 3 2\n1 -2 0 3 0 x 0\n",
    "p cnf 3 2\n1 -2 0\n3 a 0\n",
    "p cnf 3 2\n1 -2 0\n3 1.5 0\n",
    "p cnf 3 2\n1 -2 0\n3 +2 0\n",
    "p cnf 3 2\n1 -2 0\n3 -0 \n",
    "p cnf 3 2\n1 -2 0\n3 00 \n",
    "p cnf 3 2\n1 -2 0\n3 1_0 0\n",
    "p cnf 3 2\n1 -2 0\n3\n",
    "p cnf 3 2\n1 -2 0\n3 0 1\n",
    "p cnf 3 2\n1 -2 0\n",
    "p cnf 3 1\n1 -2 0\n3 0\n",
    "p cnf 3 3\n1 -2 0\n3 0\n",
    "p cnf 0 1\n0\n",
    "p cnf 0 1\n1 0\n",
    "p cnf 1 1\n1 1 1 -1 0\n",
    "p cnf 5 2\n1 2 0\n%\n0\n",
    "p cnf 5 2\n1 2 0\ncomment-like line 0\n-5 0\n",
    "p cnf 5 2\n1 2 0\nc 9 9 9 0\n-5 0\n",
    "p cnf 5 2\r\n1 2 0\r\n-5 0\r\n",
    "﻿p cnf 2 1\n1 0\n",
    "p cnf 2 1\n١ 0\n",
    "c x\np cnf 10 4\n1 2 3 4 5 6 7 8 9 10 0\n-10 0 -9 0\n-1\n-2\n-3\n0\n",
]

# a bunch of random well formed and damaged files
rnd = random.Random(2024)
def random_dimacs(n, m, damage):
    lines = []
    if rnd.random() < 0.5:
        lines.append("c random formula")
    lines.append("p cnf {} {}".format(n, m))
    for _ in range(m):
        w = rnd.randint(0, 5)
        lits = [rnd.choice([-1, 1]) * rnd.randint(1, max(1, n)) for _ in range(w)] if n > 0 else []
        toks = [str(l) for l in lits] + ['0']
        # random line breaks
        cur = []
        for t in toks:
            cur.append(t)
            if rnd.random() < 0.2:
                lines.append(" ".join(cur)); cur = []
                if rnd.random() < 0.3:
                    lines.append(rnd.choice(["", "c blah 0", "   "]))
        if cur:
            lines.append(" ".join(cur))
    if damage and lines:
        k = rnd.randrange(len(lines))
        how = rnd.randrange(6)
        if how == 0:
            del lines[k]
        elif how == 1:
            lines[k] = lines[k] + " " + str(n + rnd.randint(1, 3))
        elif how == 2:
            lines[k] = lines[k] + " zz"
        elif how == 3:
            lines.insert(k, "p cnf {} {}".format(n, m))
        elif how == 4:
            lines[k] = lines[k].replace('0', '', 1)
        else:
            lines.insert(k, "7 -7")
    return "\n".join(lines) + ("\n" if rnd.random() < 0.8 else "")

for i in range(120):
    n = rnd.choice([0, 1, 2, 5, 30, 200])
    m = rnd.choice([0, 1, 3, 10, 40])
    TEXTS.append(random_dimacs(n, m, damage=(i % 3 != 0)))

class Named(io.StringIO):
    name = 'thefile.cnf'

for idx, text in enumerate(TEXTS):
    rec('TEXT', idx, text)
    # 1. raw generator, step by step
    g = parse_dimacs(io.StringIO(text))
    try:
        while True:
            rec('yield', next(g))
    except StopIteration:
        rec('stop')
    except Exception as e:
        rec('exc', excinfo(e))
    # generator is finished afterwards
    rec('after', list(g))

    # 2. formula objects
    for cls in (CNF, BaseCNF):
        for mk in (io.StringIO, Named):
            try:
                F = from_dimacs_file(cls, mk(text))
                rec('F', type(F).__name__, F.number_of_variables(), F.number_of_clauses(),
                    list(F), dict(F.header).get('description'))
                if cls is CNF:
                    rec(F.to_dimacs())
                    rec(F.debug(allow_opposite=True, allow_repetition=True))
            except Exception as e:
                rec('Fexc', excinfo(e))
    try:
        F = CNF.from_file(io.StringIO(text))
        rec('from_file', F.number_of_variables(), list(F))
    except Exception as e:
        rec('from_file exc', excinfo(e))

    # 3. command line tools (input through standard input)
    old_stdin = sys.stdin
    try:
        for argv in (['cnfshuffle', '-S', '7', '-q'],
                     ['cnfshuffle', '-S', '7', '-p', '-v', '-c'],
                     ['cnfshuffle', '-S', '7', '-i', '-']):
            sys.stdin = io.StringIO(text)
            try:
                rec('shuffle', cnfshuffle(list(argv), mode='string'))
            except SystemExit as e:
                rec('shuffle exit', e.code)
            except Exception as e:
                rec('shuffle exc', excinfo(e))
        for tail in ([], ['-T', 'xor', '2'], ['-T', 'shuffle']):
            sys.stdin = io.StringIO(text)
            try:
                out = cnfgencli(['cnfgen', '-q', '--seed', '11', 'dimacs'] + tail, mode='string')
                rec('cnfgen', tail, out)
            except SystemExit as e:
                rec('cnfgen exit', e.code)
            except Exception as e:
                rec('cnfgen exc', excinfo(e))
    finally:
        sys.stdin = old_stdin

# file name and stdin variants
old = sys.stdin
try:
    sys.stdin = io.StringIO("p cnf 2 1\n-2 0\n")
    F = from_dimacs_file(CNF)
    rec(F.number_of_variables(), list(F), F.header['description'])
    sys.stdin = io.StringIO("p cnf 2 1\n-3 0\n")
    try:
        from_dimacs_file(CNF)
    except Exception as e:
        rec(excinfo(e))
finally:
    sys.stdin = old

print(H.hexdigest())
