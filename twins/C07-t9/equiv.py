#!/usr/bin/env python
"""Equivalence check for the Tseitin command line helper
(cnfgen/clihelpers/counting_helpers.py, TseitinCmdHelper.build_formula).

Prints one SHA256 digest of everything observable."""
import sys
import os
import io
import hashlib
import random
import contextlib
import re

sys.path.insert(0, os.getcwd())

from cnfgen.clitools.cnfgen import cli as cnfgen_cli
from cnfgen.clitools.pbgen import cli as pbgen_cli
from cnfgen.clitools.cmdline import CLIError

H = hashlib.sha256()


def record(*items):
    for it in items:
        # the version string comes from `git describe`: not under test
        it = re.sub(r'CNFgen \([^)]*\)', 'CNFgen (V)', repr(it))
        H.update(it.encode('utf-8'))
        H.update(b'\x00')


def run(tool, argv, mode='string'):
    err = io.StringIO()
    out = io.StringIO()
    try:
        with contextlib.redirect_stderr(err), contextlib.redirect_stdout(out):
            res = tool(argv, mode=mode)
        if mode == 'formula':
            res = (res.number_of_variables(), list(res.clauses())
                   if hasattr(res, 'clauses') else None, dict(res.header))
        record('OK', argv, res, out.getvalue(), err.getvalue())
    except SystemExit as e:
        record('EXIT', argv, e.code, out.getvalue(), err.getvalue())
    except BaseException as e:  # noqa
        record('EXC', argv, type(e).__name__, str(e), out.getvalue(),
               err.getvalue())
    # state of the random stream after the call is observable too
    record(random.random())


charges = ['first', 'random', 'randomodd', 'randomeven', 'zero', 'one']
graphs = [
    ['gnd', 8, 3],
    ['gnp', 7, 0.5],
    ['gnm', 6, 7],
    ['complete', 5],
    ['complete', 1],
    ['empty', 1],
    ['empty', 4],
    ['grid', 3, 3],
    ['torus', 3, 2],
    ['gnp', 6, 0.4, 'addedges', 3],
    ['gnp', 9, 0.3, 'plantclique', 4],
    ['gnm', 6, 5, 'splitedges', 2],
]

for seed in [0, 1, 7, -3, 123456789]:
    # shortcut forms: N and N d
    for shortcut in [[4], [5], [6], [10], [7, 2], [8, 3], [6, 5], [12, 4],
                     [1], [2], [3], [4, 4], [4, 5], [5, 3], [7, 3], [0],
                     [-1], [3, 0], ['a'], [3, 'b'], [3, 2, 1]]:
        run(cnfgen_cli, ['cnfgen', '--seed', seed, 'tseitin'] + shortcut)
    for charge in charges:
        for g in graphs:
            run(cnfgen_cli,
                ['cnfgen', '--seed', seed, 'tseitin', charge] + g)
    # bad charge specifications and bad graphs
    run(cnfgen_cli, ['cnfgen', '--seed', seed, 'tseitin', 'bogus', 'gnd', 8, 3])
    run(cnfgen_cli, ['cnfgen', '--seed', seed, 'tseitin', 'random'])
    run(cnfgen_cli, ['cnfgen', '--seed', seed, 'tseitin', 'random', 'gnd', 5, 3])
    run(cnfgen_cli, ['cnfgen', '--seed', seed, 'tseitin'])
    # quiet / other formats / transformations after the random charge
    run(cnfgen_cli, ['cnfgen', '-q', '--seed', seed, 'tseitin', 9, 4])
    run(cnfgen_cli, ['cnfgen', '--seed', seed, '-of', 'latex', 'tseitin',
                     'randomodd', 'gnd', 6, 3])
    run(cnfgen_cli, ['cnfgen', '--seed', seed, '-of', 'opb', 'tseitin',
                     'randomeven', 'gnm', 6, 8])
    run(cnfgen_cli, ['cnfgen', '--seed', seed, 'tseitin', 'random', 'gnd', 8,
                     3, '-T', 'shuffle'])
    run(cnfgen_cli, ['cnfgen', '--seed', seed, 'tseitin', 8, 3, '-T',
                     'shuffle', '-T', 'xor', 2])
    run(cnfgen_cli, ['cnfgen', '--seed', seed, 'tseitin', 10, 4],
        mode='formula')
    # full output with the comment header
    run(cnfgen_cli, ['cnfgen', '--seed', seed, 'tseitin', 8, 3], mode='output')
    run(cnfgen_cli, ['cnfgen', '--seed', seed, 'tseitin', 'random', 'gnp', 6,
                     0.5, 'addedges', 2], mode='output')
    run(pbgen_cli, ['pbgen', '--seed', seed, 'tseitin', 'randomeven', 'gnd',
                    6, 3], mode='output')
    # pbgen uses the same helper
    run(pbgen_cli, ['pbgen', '--seed', seed, 'tseitin', 8, 3])
    run(pbgen_cli, ['pbgen', '--seed', seed, 'tseitin', 5, 3])
    for charge in charges:
        run(pbgen_cli, ['pbgen', '--seed', seed, 'tseitin', charge, 'gnp', 6,
                        0.5])

# no seed option at all: seed the generator by hand
for s in range(5):
    random.seed(s)
    run(cnfgen_cli, ['cnfgen', 'tseitin', 8, 4])
    random.seed(s)
    run(cnfgen_cli, ['cnfgen', 'tseitin', 'random', 'complete', 6])

print(H.hexdigest())
