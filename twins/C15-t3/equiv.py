"""Equivalence check for parse_graph_argument / consumesaveinfo (cnfgen/clitools/graph_args.py)."""
import warnings
warnings.simplefilter("ignore")
import hashlib
import io
import os
import random
import sys
import tempfile
import contextlib

sys.path.insert(0, os.getcwd())

from cnfgen.clitools.graph_args import make_graph_from_spec, parse_graph_argument
from cnfgen.clitools.cnfgen import cli

H = hashlib.sha256()
DEBUG = False


def emit(*items):
    for x in items:
        H.update(repr(x).encode('utf-8'))
        H.update(b'\n')
        if DEBUG:
            print(repr(x)[:150])


def dump(G):
    emit(type(G).__name__, G.name, G.number_of_vertices(), G.number_of_edges())
    emit(sorted(G.edges()))


def files():
    """Content of every file in the current (scratch) directory, then clean it"""
    for fname in sorted(os.listdir('.')):
        with open(fname, 'rb') as f:
            emit('FILE', fname, f.read())
        os.unlink(fname)


def try_parse(graphtype, spec):
    emit('PARSE', graphtype, spec)
    try:
        res = parse_graph_argument(graphtype, spec)
    except BaseException as e:
        emit('EXC', type(e).__name__, str(e))
    else:
        emit(sorted(res.items(), key=lambda kv: kv[0]))
    if not isinstance(spec, str):
        # the specification must not be altered by the parser
        emit(spec)


def try_build(graphtype, spec, seed=3):
    emit('BUILD', graphtype, spec)
    random.seed(seed)
    try:
        G = make_graph_from_spec(graphtype, spec)
    except BaseException as e:
        emit('EXC', type(e).__name__, str(e))
    else:
        dump(G)
    emit(random.random())
    files()


heads = {
    'simple': ['gnm 6 7', 'grid 2 3', 'complete 4', 'gnp 5 0.5', 'gnd 6 3', 'empty 3', 'torus 3 3'],
    'bipartite': ['glrm 3 4 5', 'glrd 4 4 2', 'regular 4 4 2', 'shift 4 4 0 1', 'complete 2 3',
                  'empty 2 2', 'glrp 3 3 0.5'],
    'dag': ['path 4', 'tree 2', 'pyramid 2'],
    'digraph': ['path 3', 'tree 1', 'pyramid 3'],
}
middles = {
    'simple': ['', 'plantclique 3', 'addedges 2', 'splitedges 1', 'plantclique 2 addedges 1 splitedges 2'],
    'bipartite': ['', 'plantbiclique 2 2', 'addedges 1', 'plantbiclique 1 2 addedges 2'],
    'dag': [''],
    'digraph': [''],
}
saves = [
    'save', 'save out.kthlist', 'save kthlist', 'save kthlist out.txt', 'save gml out.gml',
    'save out.gml', 'save dot out.dot', 'save out.dot', 'save dimacs out.dimacs', 'save out.dimacs',
    'save matrix out.matrix', 'save out.matrix', 'save matrix', 'save dimacs', 'save gml', 'save dot',
    'save out.txt', 'save out', 'save kthlist kthlist', 'save kthlist dimacs', 'save dimacs out.kthlist',
    'save out.kthlist out2.kthlist', 'save kthlist out.kthlist out2.kthlist',
    'save out.kthlist save out2.kthlist', 'save kthlist out.kthlist save dimacs out.dimacs',
    'save out.kthlist addedges 1', 'save kthlist out.kthlist addedges 1', 'save kthlist addedges 1',
    'save addedges 1', 'save 5', 'save kthlist 5', 'save save', 'save kthlist save',
    'save unknownformat out.kthlist', 'save nodir/out.kthlist', 'save kthlist nodir/out.kthlist',
    'save -', 'save KTHLIST out.kthlist', 'save .kthlist', 'save gnm', 'save gnm 3',
]

scratch = tempfile.mkdtemp(prefix='c15t3')
os.chdir(scratch)
try:
    # parsing alone: all combinations, as strings and as lists
    for graphtype in heads:
        for head in heads[graphtype]:
            for mid in middles[graphtype]:
                for save in saves:
                    spec = ' '.join(x for x in (head, mid, save) if x)
                    try_parse(graphtype, spec)
                    try_parse(graphtype, spec.split())
                    # save option before the other options
                    spec = ' '.join(x for x in (head, save, mid) if x)
                    try_parse(graphtype, spec)
    # input from file with a save option
    for graphtype in heads:
        for save in saves:
            try_parse(graphtype, 'kthlist in.kthlist ' + save)
            try_parse(graphtype, 'in.kthlist ' + save)
            try_parse(graphtype, save)
    for graphtype in heads:
        for spec in ([], '', ['save'], ['save', 'save'], ['kthlist'], ['kthlist', 'save'],
                     ['dimacs', 'kthlist', 'save', 'kthlist'], ('gnm', '3', '2', 'save', 'kthlist', 'x'),
                     ['matrix', 'f', 'save', 'matrix', 'g'], ['matrix', 'f', 'save', 'matrix']):
            try_parse(graphtype, spec)

    # building, with the files that get written
    for graphtype in heads:
        for i, head in enumerate(heads[graphtype]):
            mid = middles[graphtype][i % len(middles[graphtype])]
            for save in saves:
                spec = ' '.join(x for x in (head, mid, save) if x)
                try_build(graphtype, spec)

    # save and reload
    for graphtype, spec in (('simple', 'gnm 7 9 save kthlist g.txt'), ('simple', 'gnd 8 3 save g.gml'),
                            ('simple', 'grid 3 3 plantclique 4 save dimacs g.graph'),
                            ('bipartite', 'glrm 4 5 7 save matrix g.txt'),
                            ('bipartite', 'regular 4 4 3 save g.kthlist'),
                            ('dag', 'pyramid 3 save g.kthlist'), ('dag', 'tree 2 save gml g.x'),
                            ('digraph', 'path 5 save g.dot')):
        emit('RELOAD', graphtype, spec)
        random.seed(17)
        try:
            G = make_graph_from_spec(graphtype, spec)
            dump(G)
            parsed = parse_graph_argument(graphtype, spec)
            fmt, name = parsed['save']
            if fmt == 'autodetect':
                G2 = make_graph_from_spec(graphtype, name)
            else:
                G2 = make_graph_from_spec(graphtype, [fmt, name])
            dump(G2)
        except BaseException as e:
            emit('EXC', type(e).__name__, str(e))
        files()

    # through the command line
    cmdlines = [
        ['cnfgen', '-q', '--seed', '5', 'kcolor', '3', 'gnm', '6', '8', 'save', 'g.kthlist'],
        ['cnfgen', '-q', '--seed', '5', 'kcolor', '3', 'gnm', '6', '8', 'save', 'dimacs', 'g.txt'],
        ['cnfgen', '-q', '--seed', '5', 'kcolor', '3', 'gnm', '6', '8', 'save', 'dimacs'],
        ['cnfgen', '-q', '--seed', '5', 'kcolor', '3', 'gnm', '6', '8', 'save'],
        ['cnfgen', '-q', '--seed', '5', 'kcolor', '3', 'gnm', '6', '8', 'save', 'g.txt'],
        ['cnfgen', '-q', '--seed', '5', 'php', 'glrd', '5', '4', '2', 'save', 'matrix', 'b.txt'],
        ['cnfgen', '-q', '--seed', '5', 'php', 'glrd', '5', '4', '2', 'save', 'b.matrix', 'addedges', '2'],
        ['cnfgen', '-q', '--seed', '5', 'php', 'glrd', '5', '4', '2', 'save', 'matrix'],
        ['cnfgen', '-q', '--seed', '5', 'peb', 'pyramid', '3', 'save', 'kthlist', 'd.txt'],
        ['cnfgen', '-q', '--seed', '5', 'peb', 'pyramid', '3', 'save', 'd.gml'],
        ['cnfgen', '-q', '--seed', '5', 'peb', 'tree', '2', 'save', 'gml'],
        ['cnfgen', '-q', '--seed', '5', 'peb', 'tree', '2', 'save', 'nodir/d.gml'],
    ]
    for argv in cmdlines:
        out, err = io.StringIO(), io.StringIO()
        emit('CLI', argv)
        try:
            with contextlib.redirect_stdout(out), contextlib.redirect_stderr(err):
                cli(argv)
        except SystemExit as e:
            emit('EXIT', e.code)
        except BaseException as e:
            emit('EXC', type(e).__name__, str(e))
        emit(out.getvalue(), err.getvalue())
        files()
finally:
    os.chdir('/')
    for fname in os.listdir(scratch):
        os.unlink(os.path.join(scratch, fname))
    os.rmdir(scratch)

print(H.hexdigest())
