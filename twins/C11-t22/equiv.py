#!/usr/bin/env python
"""Equivalence script for property C11 (variable groups: index <-> id, names).

Run as: cd <checkout> && /venv/bin/python equiv.py
Prints a single SHA256 digest of everything observed.
"""
import sys
import os
import hashlib
import itertools
import random

sys.path.insert(0, os.getcwd())

from cnfgen.formula.cnf import CNF
from cnfgen.formula.basecnf import BaseCNF
from cnfgen.formula.variables import (
    VariablesManager, BaseVariableGroup, SingletonVariableGroup,
    BlockOfVariables, WordOfIndicesVariables, BipartiteEdgesVariables,
    DiGraphEdgesVariables, GraphEdgesVariables, UnaryMappingVariables,
    BinaryMappingVariables)
from cnfgen.graphs import (Graph, DirectedGraph, BipartiteGraph,
                           CompleteBipartiteGraph)

OUT = []


def rec(*items):
    OUT.append(' '.join(repr(x) for x in items))


def norm(value):
    """Materialise generators / ranges in a printable way"""
    if isinstance(value, (int, str, type(None))):
        return value
    if isinstance(value, (tuple, list)):
        return (type(value).__name__, [norm(v) for v in value])
    try:
        return ('iter', [norm(v) for v in value])
    except TypeError:
        return ('obj', type(value).__name__)


def attempt(tag, thunk):
    try:
        res = norm(thunk())
        rec(tag, 'OK', res)
    except Exception as e:  # noqa
        ctx = type(e.__context__).__name__ if e.__context__ is not None else None
        cause = type(e.__cause__).__name__ if e.__cause__ is not None else None
        rec(tag, 'EXC', type(e).__name__, str(e), ctx, cause)


def probe_group(tag, F, g, patterns):
    """Everything observable about a variable group"""
    attempt(tag + ':len', lambda: len(g))
    attempt(tag + ':ids', lambda: list(g))
    attempt(tag + ':indices', lambda: g.indices())
    attempt(tag + ':call', lambda: g())
    attempt(tag + ':label', lambda: g.label())
    attempt(tag + ':parent', lambda: g.parent_formula() is F)
    if not isinstance(g, SingletonVariableGroup):
        attempt(tag + ':todict', lambda: sorted(g.to_dict().items()))
    ids = list(g)
    lo = (ids[0] if ids else F.number_of_variables() + 1)
    hi = (ids[-1] if ids else F.number_of_variables())
    for lit in list(range(lo - 2, hi + 3)):
        for s in (1, -1):
            attempt(tag + ':to_index', lambda: g.to_index(s * lit))
            attempt(tag + ':contains', lambda: (s * lit) in g)
    attempt(tag + ':to_index:str', lambda: g.to_index('a'))
    attempt(tag + ':to_index:none', lambda: g.to_index(None))
    attempt(tag + ':to_index:big', lambda: g.to_index(10**9))
    # roundtrip
    try:
        idxs = [tuple(t) for t in g.indices()]
    except Exception as e:
        idxs = []
    for pos, t in enumerate(idxs):
        attempt(tag + ':rt', lambda: (t, g(*t), g.to_index(g(*t)),
                                       g.to_index(-g(*t)), g.label(*t)))
    for p in patterns:
        attempt(tag + ':pat:indices', lambda: g.indices(*p))
        attempt(tag + ':pat:call', lambda: g(*p))
        attempt(tag + ':pat:label', lambda: g.label(*p))
    for sl in (0, -1, slice(None), slice(1, 3), 1000):
        attempt(tag + ':getitem', lambda: g[sl])


def names(tag, F):
    attempt(tag + ':names', lambda: list(F.all_variable_labels()))
    attempt(tag + ':names:y', lambda: list(F.all_variable_labels('y_{{{}}}')))
    attempt(tag + ':names:kw',
            lambda: list(F.all_variable_labels(default_label_format='<{0}{0}>')))
    attempt(tag + ':names:bad',
            lambda: list(F.all_variable_labels(default_label_format='{}{}')))
    attempt(tag + ':names:none',
            lambda: list(F.all_variable_labels(default_label_format=None)))
    attempt(tag + ':nvars', lambda: F.number_of_variables())
    if hasattr(F, 'to_dimacs'):
        attempt(tag + ':dimacs', lambda: F.to_dimacs(export_header=False)
                if 'export_header' in F.to_dimacs.__code__.co_varnames
                else F.to_dimacs())
    if hasattr(F, 'to_latex'):
        attempt(tag + ':latex', lambda: F.to_latex())


def pats(arity, top):
    vals = [None, 0, 1, 2, top, top + 1, -1]
    res = [()]
    if arity >= 1:
        res += [(v,) for v in vals]
    if arity >= 2:
        res += list(itertools.product(vals, repeat=2))
    if arity >= 3:
        res += [(1, None, 2), (None, None, None), (1, 1, 1), (2, top, 1),
                (top + 1, 1, 1), (None, 0, None), (1, 2), (1, 2, 3, 4)]
    return res


def graphs_bipartite():
    res = []
    B = BipartiteGraph(0, 0)
    res.append(('b00', B))
    B = BipartiteGraph(3, 0)
    res.append(('b30', B))
    B = BipartiteGraph(0, 2)
    res.append(('b02', B))
    B = BipartiteGraph(3, 4)
    res.append(('b34empty', B))
    B = BipartiteGraph(2, 3)
    B.add_edge(2, 1)
    B.add_edge(1, 3)
    B.add_edge(2, 2)
    res.append(('b23', B))
    B = BipartiteGraph(5, 3)
    for e in [(2, 1), (1, 3), (2, 2), (3, 3), (4, 3), (4, 2), (5, 1)]:
        B.add_edge(*e)
    res.append(('b53', B))
    rnd = random.Random(11)
    B = BipartiteGraph(6, 5)
    for u in range(1, 7):
        for v in range(1, 6):
            if rnd.random() < 0.4:
                B.add_edge(u, v)
    res.append(('brnd', B))
    res.append(('k32', CompleteBipartiteGraph(3, 2)))
    res.append(('k03', CompleteBipartiteGraph(0, 3)))
    res.append(('k20', CompleteBipartiteGraph(2, 0)))
    return res


def graphs_simple():
    res = [('g0', Graph(0)), ('g3empty', Graph(3))]
    G = Graph(4)
    for e in [(2, 1), (3, 2), (1, 3), (4, 2)]:
        G.add_edge(*e)
    res.append(('g4', G))
    G = Graph(6)
    for e in [(2, 1), (1, 3), (2, 6), (2, 3), (4, 3), (4, 2)]:
        G.add_edge(*e)
    res.append(('g6', G))
    res.append(('k5', Graph.complete_graph(5)))
    res.append(('star', Graph.star_graph(4)))
    return res


def graphs_directed():
    res = [('d0', DirectedGraph(0)), ('d3empty', DirectedGraph(3))]
    D = DirectedGraph(5)
    for e in [(1, 2), (2, 3), (3, 4), (4, 5), (5, 1)]:
        D.add_edge(*e)
    res.append(('dcycle', D))
    D = DirectedGraph(5)
    for e in [(1, 2), (1, 3), (2, 3), (2, 4), (5, 1)]:
        D.add_edge(*e)
    res.append(('dh', D))
    D = DirectedGraph(6)
    for e in [(2, 1), (1, 3), (2, 6), (2, 3), (4, 3), (4, 2), (3, 3)]:
        try:
            D.add_edge(*e)
        except Exception as ex:
            rec('dloop', type(ex).__name__, str(ex))
    res.append(('d6', D))
    return res


def new_formula(kind, pre):
    F = CNF() if kind == 'cnf' else BaseCNF()
    if pre:
        F.update_variable_number(pre)
    return F


# ---------------------------------------------------------------- direct groups
def part_direct():
    for pre in (0, 7):
        # singleton
        F = new_formula('base', pre)
        for name in ('X', '', None, 'y_{1}'):
            attempt('single:new', lambda: SingletonVariableGroup(F, name) and None)
            g = SingletonVariableGroup(F, name)
            probe_group('single[%r,%d]' % (name, pre), F, g, [(), (1,), (None,)])

        # blocks
        for ranges in ([2, 3], [1], [0], [3, 0, 2], [0, 0], [3, 5, 4, 3], (2, 2, 2),
                       [4], [1, 1, 1]):
            for fmt in (None, 'G[{},{}]', 'q({})', 'c', '{}-{}-{}-{}', '{0}{0}', '{3}',
                        '{a}', '{'):
                F = new_formula('base', pre)
                try:
                    g = BlockOfVariables(F, ranges, fmt)
                except Exception as e:
                    ctx = type(e.__context__).__name__ if e.__context__ is not None else None
                    rec('block:new', ranges, fmt, type(e).__name__, str(e), ctx)
                    continue
                top = max(ranges) if len(ranges) else 1
                probe_group('block[%r,%r,%d]' % (ranges, fmt, pre), F, g,
                            pats(min(len(ranges), 3), top))
        for ranges in ([], [2, -1], [2, 'a'], [2.0, 3], [None], [True, 2], (), [[2]]):
            for fmt in (None, 'z{}', '{}{}{}'):
                F = new_formula('base', pre)
                attempt('block:bad[%r,%r]' % (ranges, fmt),
                        lambda: len(BlockOfVariables(F, ranges, fmt)))
        attempt('block:badfmt', lambda: BlockOfVariables(new_formula('base', 0), [2], 5))
        # label format checks: odd label objects and odd argument lists
        class Fmt:
            def __init__(self, exc):
                self.exc = exc
            def format(self, *args):
                rec('Fmt.format', args)
                if self.exc is not None:
                    raise self.exc('from format %r' % (args,))
                return 'fmt'
        for exc in (None, IndexError, KeyError, ValueError, LookupError, TypeError):
            F = new_formula('base', pre)
            attempt('fmtobj:block', lambda: len(BlockOfVariables(F, [2, 1], Fmt(exc))))
            attempt('fmtobj:block:empty', lambda: len(BlockOfVariables(F, [], Fmt(exc))))
            attempt('fmtobj:word', lambda: len(WordOfIndicesVariables(F, 3, 2, Fmt(exc))))
            attempt('fmtobj:word:badn', lambda: len(WordOfIndicesVariables(F, -3, 2, Fmt(exc))))
            attempt('fmtobj:bip', lambda: len(BipartiteEdgesVariables(
                F, CompleteBipartiteGraph(2, 2), Fmt(exc))))
            attempt('fmtobj:bip:badgraph', lambda: len(BipartiteEdgesVariables(F, None, Fmt(exc))))
            attempt('fmtobj:graph', lambda: len(GraphEdgesVariables(
                F, Graph.complete_graph(3), Fmt(exc))))
            attempt('fmtobj:digraph', lambda: len(DiGraphEdgesVariables(
                F, DirectedGraph(2), Fmt(exc))))
            attempt('fmtobj:digraph:sortby', lambda: len(DiGraphEdgesVariables(
                F, DirectedGraph(2), Fmt(exc), sortby='none')))
            attempt('fmtobj:unary', lambda: len(UnaryMappingVariables(
                F, CompleteBipartiteGraph(2, 2), Fmt(exc))))
        for fmt in (5, b'{}', ['{}'], '{}', '{0}{1}', '{:d}', '{:s}', '{!r:>4}', '{0[0]}', '{0.real}',
                    '}', '{{}}', '{}{0}'):
            for ranges in (5, None, 'ab', [2, 2], iter([2, 2]), {2: 1}, range(3)):
                F = new_formula('base', pre)
                attempt('oddfmt:block[%r]' % (fmt,), lambda: list(BlockOfVariables(F, ranges, fmt).label()))
            F = new_formula('base', pre)
            attempt('oddfmt:word[%r]' % (fmt,),
                    lambda: list(WordOfIndicesVariables(F, 3, 2, fmt).label()))
            attempt('oddfmt:bip[%r]' % (fmt,),
                    lambda: list(BipartiteEdgesVariables(F, CompleteBipartiteGraph(1, 2), fmt).label()))
            attempt('oddfmt:graph[%r]' % (fmt,),
                    lambda: list(GraphEdgesVariables(F, Graph.complete_graph(3), fmt).label()))
            D = DirectedGraph(3)
            D.add_edge(1, 3)
            D.add_edge(3, 2)
            attempt('oddfmt:digraph[%r]' % (fmt,),
                    lambda: list(DiGraphEdgesVariables(F, D, fmt, 'succ').label()))
            C = CNF()
            attempt('oddfmt:cnf:block[%r]' % (fmt,), lambda: len(C.new_block(2, 2, label=fmt)))
            attempt('oddfmt:cnf:comb[%r]' % (fmt,), lambda: len(C.new_combinations(3, 2, label=fmt)))
            attempt('oddfmt:cnf:bip[%r]' % (fmt,),
                    lambda: len(C.new_bipartite_edges(CompleteBipartiteGraph(1, 2), label=fmt)))
            attempt('oddfmt:cnf:digraph[%r]' % (fmt,), lambda: len(C.new_digraph_edges(D, label=fmt)))
            attempt('oddfmt:cnf:map[%r]' % (fmt,), lambda: len(C.new_mapping(2, 2, label=fmt)))
            attempt('oddfmt:cnf:names[%r]' % (fmt,), lambda: list(C.all_variable_labels()))

        # words
        for wt in ('combinations', 'combinations_with_replacement',
                   'permutations', 'words', 'subsets', None, '', 'Words'):
            for (n, k) in ((4, 2), (3, 3), (3, 0), (0, 0), (0, 2), (2, 3), (1, 1), (5, 3)):
                for fmt in (None, '[{}]', 'w', '{}{}', '{1}'):
                    F = new_formula('base', pre)
                    try:
                        g = WordOfIndicesVariables(F, n, k, fmt, wordtype=wt) \
                            if fmt is not None else \
                            WordOfIndicesVariables(F, n, k, wordtype=wt)
                    except Exception as e:
                        ctx = type(e.__context__).__name__ if e.__context__ is not None else None
                        rec('word:new', wt, n, k, fmt, type(e).__name__, str(e), ctx)
                        continue
                    if fmt in ('w', '{1}') and (n, k) != (4, 2):
                        attempt('word:short', lambda: (len(g), list(g), list(g.label())))
                        continue
                    probe_group('word[%r,%d,%d,%r,%d]' % (wt, n, k, fmt, pre), F, g,
                                pats(min(k, 3), n))
        for (n, k) in ((-1, 2), (2, -1), ('a', 1), (2, None), (2.0, 1), (True, 1)):
            for wt in ('combinations', 'bogus'):
                F = new_formula('base', pre)
                attempt('word:bad[%r,%r,%r]' % (n, k, wt),
                        lambda: len(WordOfIndicesVariables(F, n, k, wordtype=wt)))
        F = new_formula('base', pre)
        g = WordOfIndicesVariables(F, 4, 2)
        attempt('word:default', lambda: (list(g.label()), g(1, 2), g.to_index(-3)))

        # bipartite
        for gname, B in graphs_bipartite():
            for fmt in ('E[{},{}]', 'e', '{}', '{}{}{}', '{2}'):
                F = new_formula('base', pre)
                try:
                    g = BipartiteEdgesVariables(F, B, labelfmt=fmt)
                except Exception as e:
                    ctx = type(e.__context__).__name__ if e.__context__ is not None else None
                    rec('bip:new', gname, fmt, type(e).__name__, str(e), ctx)
                    continue
                if fmt != 'E[{},{}]' and gname not in ('b23', 'b00'):
                    attempt('bip:short', lambda: (len(g), list(g.label())))
                    continue
                probe_group('bip[%s,%r,%d]' % (gname, fmt, pre), F, g,
                            pats(2, max(B.left_order(), B.right_order())))
            F = new_formula('base', pre)
            g = BipartiteEdgesVariables(F, B)
            attempt('bip:default', lambda: list(g.label()))
            # unary mapping
            F = new_formula('base', pre)
            g = UnaryMappingVariables(F, B, 'f({})={}')
            probe_group('unary[%s,%d]' % (gname, pre), F, g,
                        pats(2, max(B.left_order(), B.right_order())))
            attempt('unary:domain', lambda: g.domain())
            attempt('unary:range', lambda: g.range())
            for w in (0, 1, 2, 9):
                attempt('unary:domain(v)', lambda: g.domain(w))
                attempt('unary:range(u)', lambda: g.range(w))
        for bad in (None, Graph(3), DirectedGraph(2), 'graph', 3):
            F = new_formula('base', pre)
            attempt('bip:badgraph', lambda: BipartiteEdgesVariables(F, bad))
            attempt('bip:badgraph:fmt', lambda: BipartiteEdgesVariables(F, bad, labelfmt='{}{}{}'))
            attempt('graph:badgraph', lambda: GraphEdgesVariables(F, bad))
            attempt('digraph:badgraph', lambda: DiGraphEdgesVariables(F, bad))
            attempt('digraph:badgraph:fmt',
                    lambda: DiGraphEdgesVariables(F, bad, labelfmt='{}{}{}', sortby='x'))

        # simple graphs
        for gname, G in graphs_simple():
            for fmt in ('E[{},{}]', 'e', '{}{}{}'):
                F = new_formula('base', pre)
                try:
                    g = GraphEdgesVariables(F, G, labelfmt=fmt)
                except Exception as e:
                    ctx = type(e.__context__).__name__ if e.__context__ is not None else None
                    rec('graph:new', gname, fmt, type(e).__name__, str(e), ctx)
                    continue
                probe_group('graph[%s,%r,%d]' % (gname, fmt, pre), F, g,
                            pats(2, G.number_of_vertices()))
            F = new_formula('base', pre)
            g = GraphEdgesVariables(F, G)
            attempt('graph:default', lambda: list(g.label()))

        # directed graphs
        for gname, D in graphs_directed():
            for sortby in ('pred', 'succ', 'other', None):
                for fmt in ('a({},{})', 'e', '{}{}{}'):
                    F = new_formula('base', pre)
                    try:
                        g = DiGraphEdgesVariables(F, D, labelfmt=fmt, sortby=sortby)
                    except Exception as e:
                        ctx = type(e.__context__).__name__ if e.__context__ is not None else None
                        rec('digraph:new', gname, fmt, sortby, type(e).__name__, str(e), ctx)
                        continue
                    probe_group('digraph[%s,%r,%r,%d]' % (gname, fmt, sortby, pre), F, g,
                                pats(2, D.number_of_vertices()))
            F = new_formula('base', pre)
            g = DiGraphEdgesVariables(F, D)
            attempt('digraph:default', lambda: list(g.label()))

        # binary mappings
        for (n, m) in ((4, 6), (0, 0), (0, 5), (3, 0), (3, 1), (2, 2), (5, 12),
                       (10, 13), (1, 16), (2, 17)):
            for fmt in ('f({},{})', 'b', '{}'):
                F = new_formula('base', pre)
                try:
                    g = BinaryMappingVariables(F, n, m, labelfmt=fmt)
                except Exception as e:
                    rec('binary:new', n, m, fmt, type(e).__name__, str(e))
                    continue
                probe_group('binary[%d,%d,%r,%d]' % (n, m, fmt, pre), F, g,
                            pats(2, max(n, g.bits())))
                attempt('binary:misc', lambda: (g.domain(), g.range(), g.bits()))
                for i in (0, 1, n, n + 1):
                    for j in (0, 1, m - 1, m, 2 ** g.bits() - 1, 2 ** g.bits()):
                        attempt('binary:forbid', lambda: g.forbid(i, j))
        for (n, m) in ((-1, 2), (2, -1), (-1, -1)):
            F = new_formula('base', pre)
            attempt('binary:bad', lambda: BinaryMappingVariables(F, n, m))


# ---------------------------------------------------------------- via manager
def build_ops(F, V, ops, tag):
    groups = []
    for step, op in enumerate(ops):
        kind = op[0]
        try:
            if kind == 'var':
                r = V.new_variable(label=op[1])
                rec(tag, step, 'var', r)
            elif kind == 'var0':
                r = V.new_variable()
                rec(tag, step, 'var0', r)
            elif kind == 'block':
                g = V.new_block(*op[1], label=op[2])
                groups.append(g)
            elif kind == 'comb':
                groups.append(V.new_combinations(op[1], op[2], label=op[3]))
            elif kind == 'combr':
                groups.append(V.new_combinations_with_replacement(op[1], op[2]))
            elif kind == 'perm':
                groups.append(V.new_permutations(op[1], op[2]))
            elif kind == 'words':
                groups.append(V.new_words(op[1], op[2], label=op[3]))
            elif kind == 'bip':
                groups.append(V.new_bipartite_edges(op[1], label=op[2]))
            elif kind == 'graph':
                groups.append(V.new_graph_edges(op[1], label=op[2]))
            elif kind == 'digraph':
                groups.append(V.new_digraph_edges(op[1], label=op[2], sortby=op[3]))
            elif kind == 'map':
                groups.append(V.new_mapping(op[1], op[2]))
            elif kind == 'smap':
                groups.append(V.new_sparse_mapping(op[1]))
            elif kind == 'bmap':
                groups.append(V.new_binary_mapping(op[1], op[2]))
            elif kind == 'clause':
                F.add_clause(op[1])
            elif kind == 'clause_nocheck':
                F.add_clause(op[1], check=False)
            elif kind == 'raise':
                F.update_variable_number(op[1])
            elif kind == 'stale':
                # a group created but added late (must be rejected if overlapping)
                g = BlockOfVariables(F, [2, 2], 's({},{})')
                F.update_variable_number(F.number_of_variables() + op[1])
                V._add_variable_group(g)
                groups.append(g)
            else:
                raise RuntimeError(kind)
        except Exception as e:
            ctx = type(e.__context__).__name__ if e.__context__ is not None else None
            rec(tag, step, kind, 'EXC', type(e).__name__, str(e), ctx)
        rec(tag, step, kind, F.number_of_variables(), len(groups))
        attempt(tag + ':step-names', lambda: list(F.all_variable_labels())
                if F is V else list(V.all_variable_labels()))
    return groups


def part_manager():
    Bs = dict(graphs_bipartite())
    Gs = dict(graphs_simple())
    Ds = dict(graphs_directed())
    scripts = [
        [('var', 'X'), ('var', 'Y'), ('block', (2, 3), 'z_{{{},{}}}')],
        [],
        [('raise', 0)],
        [('raise', 4)],
        [('clause', [1, -5, 3]), ('var', 'a'), ('clause', [-9]), ('block', (2,), None),
         ('raise', 3), ('raise', 15), ('var0',), ('clause', [])],
        [('block', (0,), 'e{}'), ('var', 'X'), ('block', (2, 0), None), ('comb', 3, 4, 'p_{{{}}}'),
         ('raise', 3), ('words', 0, 2, 'w{}'), ('var', 'Y'), ('bmap', 3, 1), ('bmap', 0, 9),
         ('map', 0, 3), ('map', 3, 0), ('var', 'Z')],
        [('comb', 4, 2, 'p_{{{}}}'), ('clause', [7, 8]), ('combr', 3, 2), ('perm', 3, None),
         ('perm', 3, 2), ('words', 2, 3, 'w[{}]'), ('raise', 60), ('words', 2, 0, 'nil{}')],
        [('bip', Bs['b23'], 'e({},{})'), ('raise', 5), ('bip', Bs['b00'], 'e({},{})'),
         ('bip', Bs['b53'], 'X[{},{}]'), ('bip', Bs['k32'], 'k({},{})'),
         ('bip', Bs['b34empty'], 'k({},{})'), ('clause', [30, -1])],
        [('var', 'X'), ('var', 'Y'), ('graph', Gs['g6'], 'e({},{})'), ('var', 'Y'),
         ('graph', Gs['g0'], 'e({},{})'), ('graph', Gs['g3empty'], 'e({},{})'),
         ('graph', Gs['k5'], 'k_{{{},{}}}'), ('clause', [-40])],
        [('var', 'X'), ('var', 'Y'), ('digraph', Ds['d6'], 'e({},{})', 'succ'), ('var', 'Y'),
         ('digraph', Ds['d6'], 'a({},{})', 'pred'), ('digraph', Ds['d0'], 'e({},{})', 'pred'),
         ('digraph', Ds['dh'], 'b({},{})', 'succ'), ('digraph', Ds['dh'], 'b({},{})', 'bad'),
         ('raise', 40), ('digraph', Ds['d3empty'], 'b({},{})', 'succ')],
        [('map', 4, 10), ('clause', [41]), ('smap', Bs['b53']), ('bmap', 4, 14), ('raise', 70),
         ('bmap', 2, 4), ('smap', Bs['brnd']), ('map', -1, 2), ('bmap', 2, -2),
         ('smap', Gs['g4'])],
        [('var', 'X'), ('stale', 0), ('stale', 1), ('var', 'Y'), ('block', (), None),
         ('block', (2, -1), None), ('block', (2, 2), '{}{}{}'), ('comb', 2, 1, '{}{}'),
         ('bip', Gs['g4'], 'e({},{})'), ('graph', Bs['b23'], 'e'), ('graph', 'nograph', 'e'),
         ('digraph', Gs['g4'], 'e({},{})', 'pred'), ('raise', -1), ('raise', 'a'),
         ('clause', [0]), ('clause', ['x']), ('clause_nocheck', [99]), ('var', 'Z')],
    ]
    rnd = random.Random(2011)
    menu = [('var', 'r'), ('var0',), ('block', (2, 2), None), ('block', (3,), 'q{}'),
            ('block', (0, 2), None), ('comb', 3, 2, 'c{}'), ('perm', 2, None),
            ('words', 2, 2, 'w{}'), ('combr', 2, 2), ('bip', Bs['b23'], 'e({},{})'),
            ('bip', Bs['b00'], 'e({},{})'), ('graph', Gs['g4'], 'g({},{})'),
            ('graph', Gs['g0'], 'g({},{})'), ('digraph', Ds['dh'], 'd({},{})', 'succ'),
            ('digraph', Ds['dh'], 'd({},{})', 'pred'), ('map', 2, 3), ('smap', Bs['b23']),
            ('bmap', 2, 5), ('bmap', 2, 1), ('clause', None), ('raise', None), ('stale', 0),
            ('stale', 2)]
    for _ in range(25):
        script = []
        for _ in range(rnd.randint(1, 9)):
            op = rnd.choice(menu)
            if op[0] == 'clause':
                op = ('clause', [rnd.choice([1, -1]) * rnd.randint(1, 40)
                                 for _ in range(rnd.randint(0, 3))])
            elif op[0] == 'raise':
                op = ('raise', rnd.randint(0, 45))
            script.append(op)
        scripts.append(script)

    for sid, script in enumerate(scripts):
        for kind in ('cnf', 'manager'):
            tag = 'script%d:%s' % (sid, kind)
            if kind == 'cnf':
                F = CNF()
                V = F
            else:
                F = BaseCNF()
                V = VariablesManager(F)
            groups = build_ops(F, V, script, tag)
            if kind == 'cnf':
                names(tag, F)
            else:
                attempt(tag + ':names', lambda: list(V.all_variable_labels()))
                attempt(tag + ':names:fmt', lambda: list(V.all_variable_labels('v<{}>')))
                attempt(tag + ':names:bad', lambda: list(V.all_variable_labels('{}{}')))
            # lazy consumption of the names
            it = V.all_variable_labels()
            attempt(tag + ':first3', lambda: list(itertools.islice(it, 3)))
            F.update_variable_number(F.number_of_variables() + 2)
            attempt(tag + ':rest', lambda: list(it))
            attempt(tag + ':after-raise', lambda: list(V.all_variable_labels()))
            # each group vs the names of the formula
            allnames = list(V.all_variable_labels())
            for gi, g in enumerate(groups):
                gt = '%s:g%d' % (tag, gi)
                attempt(gt + ':ids', lambda: list(g))
                attempt(gt + ':idx', lambda: g.indices())
                attempt(gt + ':aligned',
                        lambda: [(i, t, g(*t), g.to_index(i), g.to_index(-i),
                                  g.label(*t), allnames[i - 1])
                                 for i, t in zip(list(g), [tuple(x) for x in g.indices()])])
                ids = list(g)
                if ids:
                    attempt(gt + ':below', lambda: g.to_index(ids[0] - 1))
                    attempt(gt + ':above', lambda: g.to_index(-(ids[-1] + 1)))
                attempt(gt + ':zero', lambda: g.to_index(0))

    # mapping constraints (use index->id conversion extensively)
    for (n, m) in ((3, 2), (0, 2), (2, 0), (4, 3)):
        for which in ('map', 'bmap', 'smap'):
            for force in ('force_complete_mapping', 'force_functional_mapping',
                          'force_surjective_mapping', 'force_injective_mapping',
                          'force_nondecreasing_mapping'):
                F = CNF()
                F.new_variable('pad')
                try:
                    if which == 'map':
                        f = F.new_mapping(n, m)
                    elif which == 'bmap':
                        f = F.new_binary_mapping(n, m + 1)
                    else:
                        f = F.new_sparse_mapping(dict(graphs_bipartite())['brnd'])
                    getattr(F, force)(f)
                    rec('force', which, force, n, m, list(F), list(F.all_variable_labels()))
                except Exception as e:
                    rec('force', which, force, n, m, 'EXC', type(e).__name__, str(e))
    F = CNF()
    G = CNF()
    f = F.new_mapping(2, 2)
    attempt('force:foreign', lambda: G.force_complete_mapping(f))
    attempt('force:notmap', lambda: F.force_complete_mapping(F.new_block(2, 2)))


def main():
    part_direct()
    part_manager()
    h = hashlib.sha256()
    for line in OUT:
        h.update(line.encode('utf-8'))
        h.update(b'\n')
    if os.environ.get('EQUIV_DUMP'):
        with open(os.environ['EQUIV_DUMP'], 'w') as f:
            f.write('\n'.join(OUT))
    print(h.hexdigest())


if __name__ == '__main__':
    main()
