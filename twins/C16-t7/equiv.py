#!/usr/bin/env python
"""Equivalence digest for C16 / t7: BipartiteGraph.add_edge.

Exercises bipartite graphs under random sequences of add_edge and
add_edges_from calls (valid, duplicate and invalid arguments;
remove_edge and update_vertex_number are attempted too and their
outcome recorded), and records every observable view after each step,
including the internal adjacency dictionaries, so that a refused or
duplicate insertion leaving any trace would show up.
"""
import sys
import os
import random
import hashlib
from fractions import Fraction

sys.path.insert(0, os.getcwd())

import networkx  # noqa
from cnfgen.graphs import BipartiteGraph, CompleteBipartiteGraph  # noqa
from cnfgen.graphs import bipartite_random_left_regular  # noqa
from cnfgen.graphs import bipartite_random_m_edges, bipartite_random  # noqa
from cnfgen.graphs import bipartite_shift, bipartite_random_regular  # noqa

OUT = []
PLAIN = (int, float, list, tuple, str, bool, type(None), Fraction)


def rec(*args):
    OUT.append(repr(args))


def plain(x):
    return x if isinstance(x, PLAIN) else type(x).__name__


def attempt(label, fn, *args):
    shown = tuple(plain(a) for a in args)
    try:
        res = fn(*args)
        rec(label, shown, 'ok', plain(res))
        return res
    except Exception as e:  # record the type and the message
        rec(label, shown, 'EXC', type(e).__name__, str(e))
        return None


def snapshot(B):
    L, R = B.left_order(), B.right_order()
    rec('orders', L, R, B.number_of_vertices(), B.order(), len(B),
        list(B.vertices()), [list(p) for p in B.parts()])
    E = B.edges()
    edges = list(E)
    rec('m', B.number_of_edges(), len(E))
    rec('edges', edges, edges == sorted(edges), len(set(edges)) == len(edges))
    rec('edgeset', sorted(B.edgeset, key=repr))
    rec('ladj', [(repr(k), list(x)) for k, x in B.ladj.items()])
    rec('radj', [(repr(k), list(x)) for k, x in B.radj.items()])
    for u in range(-1, L + 3):
        try:
            nb = B.right_neighbors(u)
            rec('right_neighbors', u, list(nb), B.right_degree(u))
        except Exception as e:
            rec('right_neighbors', u, 'EXC', type(e).__name__, str(e))
    for v in range(-1, R + 3):
        try:
            nb = B.left_neighbors(v)
            rec('left_neighbors', v, list(nb), B.left_degree(v))
        except Exception as e:
            rec('left_neighbors', v, 'EXC', type(e).__name__, str(e))
    member = []
    for u in range(0, L + 2):
        for v in range(0, R + 2):
            if B.has_edge(u, v):
                member.append((u, v))
            assert ((u, v) in E) == B.has_edge(u, v)
    rec('member', member, (1, 1, 1) in E)
    rec('flags', B.is_bipartite(), B.is_multigraph(), B.name)
    for name in ('is_dag', 'is_directed'):
        attempt(name, getattr(B, name))
    X = B.to_networkx()
    rec('nx', list(X.nodes(data=True)), sorted(X.edges()), X.name)
    # (non integral vertices accepted by add_edge make this step fail)
    H = attempt('from_networkx', BipartiteGraph.from_networkx, X)
    if H is not None:
        rec('nx-back', H.left_order(), H.right_order(), list(H.edges()),
            H.name)


WEIRD = [0, -1, 2.0, 1.0, 1.5, '1', None, True, False, (1, 2), [1],
         Fraction(2, 1), Fraction(3, 2)]


def run_sequence(rng, L, R, steps):
    B = attempt('BipartiteGraph', BipartiteGraph, L, R)
    if B is None:
        return
    snapshot(B)
    for _ in range(steps):
        op = rng.choice(['add', 'add', 'add', 'add', 'dup', 'many', 'weird',
                         'rem', 'upd'])
        if op == 'add':
            u = rng.randint(-1, L + 2)
            v = rng.randint(-1, R + 2)
            attempt('add_edge', B.add_edge, u, v)
        elif op == 'dup':
            if B.number_of_edges():
                u, v = rng.choice(list(B.edges()))
                attempt('add_edge', B.add_edge, u, v)
        elif op == 'many':
            k = rng.randint(0, 5)
            edges = [(rng.randint(0, L + 1), rng.randint(0, R + 1))
                     for _ in range(k)]
            attempt('add_edges_from', B.add_edges_from, edges)
        elif op == 'weird':
            attempt('add_edge', B.add_edge, rng.choice(WEIRD),
                    rng.choice(WEIRD))
        elif op == 'rem':
            attempt('remove_edge',
                    lambda a, b: B.remove_edge(a, b), 1, 1)
        else:
            attempt('update_vertex_number',
                    lambda k: B.update_vertex_number(k), L + R + 1)
        snapshot(B)


def fixed_cases():
    for L in range(0, 3):
        for R in range(0, 3):
            snapshot(BipartiteGraph(L, R))
    # the doc test of add_edge
    G = BipartiteGraph(3, 5)
    G.add_edge(2, 3)
    G.add_edge(2, 2)
    G.add_edge(2, 3)
    rec('doc', G.right_neighbors(2))
    snapshot(G)
    # insertion in decreasing, increasing and mixed order keeps lists sorted
    for order in ([5, 4, 3, 2, 1], [1, 2, 3, 4, 5], [3, 1, 5, 2, 4, 3, 1]):
        G = BipartiteGraph(5, 5, name='ordered')
        for u in order:
            for v in order:
                G.add_edge(u, v)
                G.add_edge(u, v)
        snapshot(G)
    # the lists given out are copies
    G = BipartiteGraph(2, 2)
    G.add_edge(1, 2)
    nb = G.right_neighbors(1)
    nb.append(99)
    nb2 = G.left_neighbors(2)
    nb2.clear()
    snapshot(G)
    # every weird pair, on a graph with some edges already there
    G = BipartiteGraph(3, 3)
    G.add_edge(1, 1)
    G.add_edge(2, 3)
    for a in WEIRD + [1, 2, 3, 4]:
        for b in WEIRD + [1, 2, 3, 4]:
            attempt('add_edge', G.add_edge, a, b)
        snapshot(G)
    for bad in ([(1, 2, 3)], [(1,)], [1], None, [(1, 1), (9, 9), (2, 2)]):
        attempt('add_edges_from', G.add_edges_from, bad)
        snapshot(G)
    for w in WEIRD:
        attempt('BipartiteGraph', BipartiteGraph, w, 2)
        attempt('BipartiteGraph', BipartiteGraph, 2, w)
    # subclasses and generators built on add_edge
    C = CompleteBipartiteGraph(2, 3)
    attempt('add_edge', C.add_edge, 7, 7)
    rec('complete', C.number_of_edges(), list(C.edges()), C.name,
        C.has_edge(2, 3), C.has_edge(3, 3), list(C.left_neighbors(1)))
    snapshot(bipartite_random_left_regular(5, 6, 3, seed=11))
    snapshot(bipartite_random_m_edges(4, 5, 9, seed=12))
    snapshot(bipartite_random(4, 6, 0.4, seed=13))
    snapshot(bipartite_shift(5, 7, [1, 2, 4]))
    snapshot(bipartite_random_regular(6, 4, 2, seed=14))


def main():
    fixed_cases()
    rng = random.Random(160007)
    for (L, R) in [(0, 0), (0, 3), (3, 0), (1, 1), (2, 5), (5, 2), (4, 4),
                   (-1, 2)]:
        for rep in range(4):
            run_sequence(rng, L, R, 30)
    data = '\n'.join(OUT).encode('utf-8')
    print(hashlib.sha256(data).hexdigest())


if __name__ == '__main__':
    main()
