#!/usr/bin/env python
"""Equivalence script for the refactoring of the '>=' tail of CNFLinear.add_linear.

Exercises add_linear (all operators, boundary constants, empty / repeated /
opposite literals, generators, tuples, iterators without len, check on/off) and
the substitutions that are built on top of it (linear, exactly-one, majority,
lifting, maj-compression).  Prints one SHA256 digest."""
import sys, os, hashlib, itertools, random
sys.path.insert(0, os.getcwd())

from cnfgen.formula.cnf import CNF
from cnfgen.formula.linear import CNFLinear
from cnfgen.graphs import BipartiteGraph
from cnfgen.transformations.substitutions import (
    LinearSubstitution, ExactlyOneSubstitution, MajoritySubstitution,
    FormulaLifting, VariableCompression, AtLeastKSubstitution,
    AtMostKSubstitution, ExactlyKSubstitution, AnythingButKSubstitution)

H = hashlib.sha256()


def emit(*items):
    H.update((" | ".join(repr(x) for x in items) + "\n").encode('utf8'))


def attempt(tag, fn):
    try:
        res = fn()
        emit(tag, 'ok', res)
    except Exception as e:  # record type, message and cause
        emit(tag, 'exc', type(e).__name__, str(e),
             type(e.__cause__).__name__ if e.__cause__ else None)


def state(F):
    return (F.number_of_variables(), [list(c) for c in F])


OPS = ['<=', '>=', '<', '>', '==', '!=']
LITSETS = [
    [], [1], [-1], [1, 2], [-1, 2], [3, -3], [2, 2], [1, 2, 3], [-1, 2, -3],
    [5, 1, -7, 2], [1, 2, 3, 4, 5], [-6, 5, -4, 3, -2, 1], [9, 9, -9, 4],
]

# 1. direct calls, every operator and constant around the boundaries
for cls in (CNFLinear, CNF):
    for lits in LITSETS:
        for op in OPS:
            for c in range(-2, len(lits) + 3):
                for check in (True, False):
                    def run(lits=lits, op=op, c=c, check=check):
                        F = cls()
                        orig = list(lits)
                        r = F.add_linear(orig, op, c, check=check)
                        return (r, orig, state(F))
                    attempt(('direct', cls.__name__, lits, op, c, check), run)

# 2. different container kinds for the literals
def gen(lits):
    for x in lits:
        yield x

for lits in LITSETS:
    for op in OPS:
        for c in (-1, 0, 1, 2, len(lits), len(lits) + 1):
            for kind in ('tuple', 'gen', 'range', 'iter', 'map'):
                for check in (True, False):
                    def run(lits=lits, op=op, c=c, kind=kind, check=check):
                        if kind == 'tuple':
                            data = tuple(lits)
                        elif kind == 'gen':
                            data = gen(lits)
                        elif kind == 'range':
                            data = range(1, len(lits) + 1)
                        elif kind == 'iter':
                            data = iter(lits)
                        else:
                            data = map(int, lits)
                        F = CNFLinear()
                        r = F.add_linear(data, op, c, check=check)
                        return (r, state(F))
                    attempt(('kind', lits, op, c, kind, check), run)

# 3. bad inputs / error paths
for bad in ([0, 1], [1, 'a'], [1.5, 2], [None], 'abc', 7, None, [True, 2], [[1], [2]]):
    for op in OPS + ['=', '=>', None]:
        for c in (0, 1, 2, 1.5, 'x', None):
            for check in (True, False):
                def run(bad=bad, op=op, c=c, check=check):
                    F = CNFLinear()
                    r = F.add_linear(bad, op, c, check=check)
                    return (r, state(F))
                attempt(('bad', bad, op, c, check), run)

# 4. the cardinality / majority wrappers
for lits in LITSETS:
    for name in ('add_loose_majority', 'add_loose_minority',
                 'add_strict_majority', 'add_strict_minority'):
        for check in (True, False):
            def run(lits=lits, name=name, check=check):
                F = CNFLinear()
                r = getattr(F, name)(list(lits), check=check)
                r2 = getattr(F, name)(gen(lits), check=check)
                return (r, r2, state(F))
            attempt(('maj', lits, name, check), run)
    for name in ('cardinality_geq', 'cardinality_leq', 'cardinality_eq', 'cardinality_neq'):
        for v in range(-1, len(lits) + 2):
            def run(lits=lits, name=name, v=v):
                F = CNFLinear()
                r = getattr(F, name)(list(lits), v)
                return (r, state(F))
            attempt(('card', lits, name, v), run)

# 5. substitutions built on add_linear
random.seed(20260503)


def random_cnf(n, m, w):
    F = CNF()
    F.update_variable_number(n)
    for _ in range(m):
        width = random.randint(0, w)
        F.add_clause([random.choice([-1, 1]) * random.randint(1, n)
                      for _ in range(width)])
    return F


BASES = [CNF(), CNF([[]]), CNF([[1, -1]]), CNF([[2, 2, -3]]),
         CNF([[1, 2], [-1], [], [3, -2, 1]])]
u = CNF([[1, -2]])
u.update_variable_number(4)
BASES.append(u)
for _ in range(6):
    BASES.append(random_cnf(random.randint(1, 4), random.randint(0, 4), 3))

for bi, F in enumerate(BASES):
    for k in range(1, 5):
        attempt(('one', bi, k), lambda: (state(ExactlyOneSubstitution(F, k))))
        attempt(('majs', bi, k), lambda: (state(MajoritySubstitution(F, k))))
        attempt(('lift', bi, k), lambda: (state(FormulaLifting(F, k)),
                                          FormulaLifting(F, k).to_dimacs()))
        for C in range(-1, k + 2):
            for op in OPS:
                attempt(('lin', bi, k, op, C),
                        lambda: state(LinearSubstitution(F, k, op, C)))
            for sub in (AtLeastKSubstitution, AtMostKSubstitution,
                        ExactlyKSubstitution, AnythingButKSubstitution):
                attempt(('linw', bi, k, sub.__name__, C),
                        lambda: sub(F, k, C).to_dimacs())
    n = F.number_of_variables()
    for R in (1, 2, 3, 5):
        B = BipartiteGraph(n, R)
        for uu in range(1, n + 1):
            for vv in range(1, R + 1):
                if random.random() < 0.6:
                    B.add_edge(uu, vv)
        attempt(('majcomp', bi, R), lambda: state(VariableCompression(F, B, 'maj')))

for badk in (0, -1, 1.5, '2', None):
    attempt(('badk', badk), lambda: state(LinearSubstitution(BASES[4], badk, '>=', 1)))
    attempt(('badk1', badk), lambda: state(ExactlyOneSubstitution(BASES[4], badk)))
    attempt(('badkl', badk), lambda: state(FormulaLifting(BASES[4], badk)))
    attempt(('badC', badk), lambda: state(LinearSubstitution(BASES[4], 2, '>=', badk)))
attempt(('badop',), lambda: state(LinearSubstitution(BASES[4], 2, '=>', 1)))

print(H.hexdigest())
