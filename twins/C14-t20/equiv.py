"""Equivalence check for cnfgen.clitools.graph_fileinput.read_graph_from_input
(the command line helper that reads graph files / stdin)."""
import hashlib
import io
import os
import random
import shutil
import sys
import tempfile
import warnings

warnings.simplefilter('ignore')
sys.path.insert(0, os.getcwd())
_real_stdout = sys.stdout
_real_stderr = sys.stderr
_real_stdin = sys.stdin
_captured = io.StringIO()
sys.stdout = _captured
sys.stderr = _captured

from cnfgen.graphs import Graph, DirectedGraph, BipartiteGraph, writeGraph, has_dot_library
from cnfgen.graphs import bipartite_random, dag_pyramid
from cnfgen.clitools.graph_fileinput import read_graph_from_input, open_input
from cnfgen.clitools.graph_args import make_graph_from_spec
from cnfgen.clitools.cnfgen import cli

out = []


def rec(*items):
    out.append(repr(items))


def describe(G):
    d = [type(G).__name__, G.number_of_vertices(), G.number_of_edges(), list(G.edges()), G.name]
    if G.is_bipartite():
        d.append((G.left_order(), G.right_order()))
    else:
        d.append((G.is_directed(), G.is_dag()))
    return d


def attempt(label, fn, *args, **kw):
    mark = len(_captured.getvalue())
    try:
        res = fn(*args, **kw)
        if isinstance(res, str):
            rec(label, 'OK', res)
        else:
            rec(label, 'OK', describe(res))
    except BaseException as e:
        rec(label, 'EXC', type(e).__name__, str(e))
    rec(label, 'printed', _captured.getvalue()[mark:])


class FakeTTY(io.StringIO):
    def isatty(self):
        return True


rng = random.Random(140020)
tmpdir = tempfile.mkdtemp(prefix='c14t20_')
os.chdir(tmpdir)
try:
    # build graphs
    G = Graph(11, 'simple eleven')
    D = DirectedGraph(11, 'digraph eleven')
    A = DirectedGraph(11, 'dag eleven')
    for u in range(1, 12):
        for v in range(u + 1, 12):
            if rng.random() < 0.3:
                G.add_edge(u, v)
            if rng.random() < 0.3:
                A.add_edge(u, v)
            if rng.random() < 0.2:
                D.add_edge(v, u)
            if rng.random() < 0.2:
                D.add_edge(u, v)
    B = bipartite_random(4, 10, 0.4, seed=3)
    graphs = {'simple': G, 'digraph': D, 'dag': A, 'bipartite': B}
    fmts = {'simple': ['kthlist', 'gml', 'dimacs'], 'digraph': ['kthlist', 'gml', 'dimacs'],
            'dag': ['kthlist', 'gml', 'dimacs'], 'bipartite': ['kthlist', 'gml', 'matrix']}
    if has_dot_library():
        for k in fmts:
            fmts[k].append('dot')
    texts = {}
    for gt, gr in graphs.items():
        for fmt in fmts[gt]:
            buf = io.StringIO()
            writeGraph(gr, buf, gt, fmt)
            texts[(gt, fmt)] = buf.getvalue()
            for name in ['{}.{}'.format(gt, fmt), '{}_{}_noext'.format(gt, fmt), '{}_{}.txt'.format(gt, fmt),
                         '{}.{}.bak'.format(gt, fmt)]:
                with open(name, 'w') as f:
                    f.write(texts[(gt, fmt)])
    with open('empty.gml', 'w') as f:
        pass
    with open('empty.kthlist', 'w') as f:
        pass
    with open('garbage.dimacs', 'w') as f:
        f.write('this is not a graph\n')
    with open('garbage.matrix', 'w') as f:
        f.write('2 2\n1 0\n1\n')
    with open('cyclic.kthlist', 'w') as f:
        f.write('c cyclic\n3\n1 : 3 0\n2 : 1 0\n3 : 2 0\n')
    with open('.gml', 'w') as f:
        f.write(texts[('simple', 'gml')])
    os.mkdir('adir.gml')

    allfmts = ['autodetect', 'kthlist', 'gml', 'dimacs', 'matrix', 'dot', 'nonsense', '', None]
    for gt in ['simple', 'digraph', 'dag', 'bipartite']:
        files = []
        for fmt in fmts[gt]:
            files += ['{}.{}'.format(gt, fmt), '{}_{}_noext'.format(gt, fmt), '{}_{}.txt'.format(gt, fmt),
                      '{}.{}.bak'.format(gt, fmt), './{}.{}'.format(gt, fmt)]
        files += ['empty.gml', 'empty.kthlist', 'garbage.dimacs', 'garbage.matrix', 'cyclic.kthlist',
                  'missing.gml', 'missing', 'missing.xyz', '.gml', 'adir.gml', '', '.', 'simple.kthlist',
                  'bipartite.matrix', 'dag.dimacs']
        for fn in files:
            for ff in allfmts:
                if ff not in ('autodetect', None, '', 'nonsense') and not (
                        fn.startswith(gt) or fn.startswith('./' + gt) or rng.random() < 0.35):
                    continue
                attempt(('file', gt, fn, ff), read_graph_from_input, gt, fn, ff)
        # strange file names
        for fn in [None, 5, ['a.gml'], b'simple.gml']:
            for ff in ['autodetect', 'gml']:
                attempt(('oddname', gt, repr(fn), ff), read_graph_from_input, gt, fn, ff)
        # stdin, not a tty and a tty
        for fmt in fmts[gt] + ['autodetect', 'nonsense']:
            text = texts.get((gt, fmt), texts[(gt, 'kthlist')])
            for ttycls in (io.StringIO, FakeTTY):
                sys.stdin = ttycls(text)
                attempt(('stdin', gt, fmt, ttycls.__name__), read_graph_from_input, gt, '-', fmt)
                sys.stdin = ttycls(text[:len(text) // 2])
                attempt(('stdin-trunc', gt, fmt, ttycls.__name__), read_graph_from_input, gt, '-', fmt)
        sys.stdin = _real_stdin

    # unknown graph type
    for gt in ['multi', 'directed', None, '']:
        attempt(('badtype', gt), read_graph_from_input, gt, 'simple.gml', 'autodetect')
        attempt(('badtype', gt, 'gml'), read_graph_from_input, gt, 'simple.gml', 'gml')

    # through the graph specification parser
    specs = [('simple', 'simple.gml'), ('simple', 'gml simple.gml'), ('simple', 'kthlist simple.gml'),
             ('simple', 'simple_gml_noext'), ('simple', 'simple_gml.txt'), ('simple', 'missing.gml'),
             ('simple', 'dimacs simple_dimacs_noext'), ('simple', 'simple.kthlist plantclique 3'),
             ('simple', 'simple.kthlist addedges 2'), ('simple', 'simple.dimacs save gml saved.gml'),
             ('simple', 'saved.gml'), ('simple', 'matrix simple.gml'),
             ('dag', 'dag.kthlist'), ('dag', 'cyclic.kthlist'), ('dag', 'kthlist cyclic.kthlist'),
             ('digraph', 'cyclic.kthlist'), ('dag', 'dag_kthlist_noext'), ('dag', 'dag.kthlist.bak'),
             ('bipartite', 'bipartite.matrix'), ('bipartite', 'matrix bipartite_matrix_noext'),
             ('bipartite', 'bipartite.gml'), ('bipartite', 'bipartite_matrix.txt'),
             ('bipartite', 'garbage.matrix'), ('bipartite', 'dimacs garbage.dimacs'),
             ('bipartite', 'bipartite.kthlist save matrix saved.matrix'), ('bipartite', 'saved.matrix')]
    for gt, spec in specs:
        random.seed(11)
        attempt(('spec', gt, spec), make_graph_from_spec, gt, spec)

    # through the whole command line
    cmds = [['cnfgen', '-q', 'peb', 'dag.kthlist'],
            ['cnfgen', 'peb', 'kthlist', 'dag_kthlist_noext'],
            ['cnfgen', '-q', 'peb', 'dag_kthlist_noext'],
            ['cnfgen', '-q', 'peb', 'dag_kthlist.txt'],
            ['cnfgen', '-q', 'peb', 'cyclic.kthlist'],
            ['cnfgen', '-q', 'peb', 'missing.kthlist'],
            ['cnfgen', 'tseitin', 'first', 'simple.gml'],
            ['cnfgen', '-q', 'tseitin', 'first', 'simple_gml_noext'],
            ['cnfgen', '-q', 'kclique', '3', 'dimacs', 'simple.dimacs'],
            ['cnfgen', '-q', 'kclique', '3', 'garbage.dimacs'],
            ['cnfgen', 'matching', 'bipartite.matrix'],
            ['cnfgen', '-q', 'matching', 'bipartite_matrix.txt'],
            ['cnfgen', '-q', 'matching', 'garbage.matrix']]
    for cmd in cmds:
        attempt(('cli', tuple(cmd)), cli, cmd, 'string')
        sys.stdin = io.StringIO(texts[('dag', 'kthlist')])
    sys.stdin = FakeTTY(texts[('dag', 'kthlist')])
    attempt(('cli-stdin-tty',), cli, ['cnfgen', '-q', 'peb', 'kthlist', '-'], 'string')
    sys.stdin = io.StringIO(texts[('dag', 'kthlist')])
    attempt(('cli-stdin',), cli, ['cnfgen', '-q', 'peb', 'kthlist', '-'], 'string')
    sys.stdin = io.StringIO(texts[('dag', 'kthlist')])
    attempt(('cli-stdin-auto',), cli, ['cnfgen', '-q', 'peb', '-'], 'string')
finally:
    sys.stdin = _real_stdin
    os.chdir('/')
    shutil.rmtree(tmpdir, ignore_errors=True)

sys.stdout = _real_stdout
sys.stderr = _real_stderr
out.append(_captured.getvalue())
digest = hashlib.sha256('\n'.join(out).replace(tmpdir, '<TMP>').encode('utf-8')).hexdigest()
print(digest)
