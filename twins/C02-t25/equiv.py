import hashlib, random, itertools, sys
sys.path.insert(0, '.')
import networkx as nx
from cnfgen.graphs import Graph
import cnfgen.families.subgraph as subgraph_module
from cnfgen.families.subgraph import (non_edges, SubgraphFormula, CliqueFormula,
                                      BinaryCliqueFormula, RamseyWitnessFormula)
from cnfgen.clitools.cnfgen import cli

H = hashlib.sha256()
def out(*a):
    H.update((' '.join(repr(x) for x in a) + '\n').encode())

def dump(tag, F):
    out(tag, F.number_of_variables(), len(F), list(F.clauses()),
        sorted(F.header.items()), list(F.all_variable_labels()))

def attempt(tag, fn):
    try:
        fn()
        out(tag, 'ok')
    except Exception as e:
        out(tag, type(e).__name__, str(e))

def graphs():
    rnd = random.Random(2513)
    yield Graph(0)
    for n in range(1, 7):
        yield Graph.empty_graph(n)
        yield Graph.complete_graph(n)
        yield Graph.star_graph(n)
        for p in (0.2, 0.5, 0.8):
            G = Graph(n)
            for u, v in itertools.combinations(range(1, n+1), 2):
                if rnd.random() < p:
                    G.add_edge(u, v)
            yield G
    yield Graph.from_networkx(nx.cycle_graph(7))
    yield Graph.from_networkx(nx.path_graph(6))
    yield Graph.from_networkx(nx.disjoint_union(nx.complete_graph(3), nx.complete_graph(3)))

GS = list(graphs())
out('same function', subgraph_module.non_edges is non_edges)
for i, G in enumerate(GS):
    it = non_edges(G)
    out('ne-type', i, type(it).__name__, iter(it) is it)
    ne = list(it)
    out('ne', i, G.order(), G.number_of_edges(), ne)
    out('ne-count', i, len(ne) + G.number_of_edges() == G.order()*(G.order()-1)//2)
    # laziness: modifications before the consumption are seen
    if G.order() >= 2 and not G.has_edge(1, 2):
        G2 = Graph(G.order())
        for e in G.edges():
            G2.add_edge(*e)
        gen = non_edges(G2)
        G2.add_edge(1, 2)
        out('ne-lazy', i, list(gen))
    for k in range(0, 5):
        for sb in (True, False):
            attempt(('kc', i, k, sb), lambda: dump(('kc', i, k, sb), CliqueFormula(G, k, symbreak=sb)))
            attempt(('bkc', i, k, sb), lambda: dump(('bkc', i, k, sb), BinaryCliqueFormula(G, k, symbreak=sb)))
    attempt(('rw', i), lambda: dump(('rw', i), RamseyWitnessFormula(G, 3, 2)))
    attempt(('sub', i), lambda: dump(('sub', i), SubgraphFormula(G, Graph.complete_graph(3))))

# networkx input and bad input
attempt('nx', lambda: dump('nx', CliqueFormula(nx.petersen_graph(), 3)))
attempt('nxb', lambda: dump('nxb', BinaryCliqueFormula(nx.petersen_graph(), 3, symbreak=False)))
for bad in (None, 3, 'G', nx.DiGraph([(0, 1)]), [1, 2]):
    attempt(('badG', type(bad).__name__), lambda: CliqueFormula(bad, 2))
    attempt(('badGb', type(bad).__name__), lambda: BinaryCliqueFormula(bad, 2))
    attempt(('badne', type(bad).__name__), lambda: list(non_edges(bad)))
for badk in (-1, 1.5, None, '2'):
    attempt(('badk', repr(badk)), lambda: CliqueFormula(GS[5], badk))
    attempt(('badkb', repr(badk)), lambda: BinaryCliqueFormula(GS[5], badk))

# command line
for argv in (['cnfgen', '-q', 'kclique', '3', 'gnp', '6', '.5'],
             ['cnfgen', '-q', '--seed', '7', 'kclique', '3', 'gnp', '7', '.5'],
             ['cnfgen', '-q', '--seed', '7', 'kclique', '3', 'gnp', '7', '.5', '--no-symmetry-breaking'],
             ['cnfgen', '-q', '--seed', '8', 'kcliquebin', '3', 'gnm', '7', '10'],
             ['cnfgen', '-q', '--seed', '9', 'kclique', '4', 'gnd', '8', '3', 'plantclique', '4'],
             ['cnfgen', '-q', 'kclique', '2', 'complete', '5'],
             ['cnfgen', '-q', 'kcliquebin', '2', 'empty', '4'],
             ['cnfgen', '-q', '--seed', '3', 'ramlb', '3', '3', 'gnp', '6', '.5'],
             ['cnfgen', '-q', 'kclique', '-1', 'complete', '5']):
    try:
        random.seed(4242)
        out('cli', argv, cli(argv, mode='string'))
    except SystemExit as e:
        out('cli', argv, 'SystemExit', e.code)
    except Exception as e:
        out('cli', argv, type(e).__name__, str(e))

print(H.hexdigest())
