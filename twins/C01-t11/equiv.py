#!/usr/bin/env python
"""Equivalence oracle for the refactoring of
cnfgen.graphs.BipartiteGraph.from_networkx

Run as:  cd <checkout> && /venv/bin/python equiv.py
Prints a single SHA256 digest of everything observed.
"""
import hashlib
import io
import os
import random
import sys

sys.path.insert(0, os.getcwd())

import networkx

from cnfgen.graphs import BipartiteGraph, CompleteBipartiteGraph, readGraph
from cnfgen.families.pigeonhole import GraphPigeonholePrinciple
from cnfgen.families.subsetcardinality import SubsetCardinalityFormula

H = hashlib.sha256()


def rec(*items):
    for it in items:
        H.update(repr(it).encode('utf-8'))
        H.update(b'\x00')
    H.update(b'\n')


def describe(B):
    L, R = B.parts()
    return (type(B).__name__, B.name, B.left_order(), B.right_order(),
            B.number_of_edges(), list(B.edges()),
            [list(B.right_neighbors(u)) for u in L],
            [list(B.left_neighbors(v)) for v in R])


def attempt(tag, fn):
    try:
        rec(tag, 'OK', fn())
    except BaseException as e:  # noqa
        rec(tag, 'EXC', type(e).__name__, str(e),
            type(e.__cause__).__name__, type(e.__context__).__name__)


def formulas(G):
    out = []
    for functional in (False, True):
        for onto in (False, True):
            F = GraphPigeonholePrinciple(G, functional=functional, onto=onto)
            out.append((dict(F.header), list(F.clauses()),
                        list(F.all_variable_labels()), F.to_dimacs()))
    for eq in (False, True):
        F = SubsetCardinalityFormula(G, equalities=eq)
        out.append((dict(F.header), list(F.clauses()),
                    list(F.all_variable_labels())))
    return out


def make(nodes, edges, cls=networkx.Graph, name=None):
    """nodes: list of (label, attribute dict)"""
    G = cls()
    for lbl, attrs in nodes:
        G.add_node(lbl, **attrs)
    G.add_edges_from(edges)
    if name is not None:
        G.name = name
    return G


CASES = {}

# well formed graphs
CASES['null'] = make([], [])
CASES['left-only'] = make([(i, {'bipartite': 0}) for i in range(3)], [])
CASES['right-only'] = make([(i, {'bipartite': 1}) for i in range(3)], [])
CASES['single-edge'] = make([('a', {'bipartite': 0}), ('b', {'bipartite': 1})],
                            [('a', 'b')], name='one edge')
CASES['single-edge-rev'] = make([('a', {'bipartite': 0}), ('b', {'bipartite': 1})],
                                [('b', 'a')])
for n, m in [(1, 1), (2, 3), (3, 2), (4, 4), (0, 3), (3, 0)]:
    CASES['complete-%d-%d' % (n, m)] = networkx.bipartite.complete_bipartite_graph(n, m)

# interleaved sides, string colours, boolean colours, edges given right-to-left
CASES['interleaved'] = make(
    [(1, {'bipartite': 1}), (2, {'bipartite': 0}), (3, {'bipartite': '1'}),
     (4, {'bipartite': '0'}), (5, {'bipartite': True}), (6, {'bipartite': False}),
     (7, {'bipartite': 0})],
    [(1, 2), (2, 3), (3, 4), (5, 4), (6, 5), (1, 6), (3, 6), (7, 1), (5, 7)],
    name='interleaved sides')
CASES['right-first'] = make(
    [('r1', {'bipartite': 1}), ('r2', {'bipartite': 1}), ('l1', {'bipartite': 0}),
     ('l2', {'bipartite': 0}), ('l3', {'bipartite': 0})],
    [('r1', 'l1'), ('r2', 'l1'), ('l2', 'r2'), ('r1', 'l3'), ('l3', 'r2')])
CASES['mixed-labels'] = make(
    [((1, 2), {'bipartite': 0}), ('x', {'bipartite': 1}), (3.5, {'bipartite': 0}),
     ('zz', {'bipartite': 1})],
    [((1, 2), 'x'), ('zz', 3.5), ((1, 2), 'zz')])

# directed / multi graphs are subclasses of networkx.Graph (or not)
CASES['digraph'] = make(
    [(1, {'bipartite': 0}), (2, {'bipartite': 1}), (3, {'bipartite': 0}),
     (4, {'bipartite': 1})],
    [(2, 1), (1, 4), (4, 3), (3, 2)], cls=networkx.DiGraph)
CASES['multigraph'] = make(
    [(1, {'bipartite': 0}), (2, {'bipartite': 1}), (3, {'bipartite': 0})],
    [(1, 2), (1, 2), (2, 3), (3, 2)], cls=networkx.MultiGraph)
CASES['digraph-both-directions'] = make(
    [(1, {'bipartite': 0}), (2, {'bipartite': 1})],
    [(1, 2), (2, 1)], cls=networkx.DiGraph)

# ill formed graphs: error paths
CASES['no-attr'] = make([(1, {}), (2, {'bipartite': 1})], [(1, 2)])
CASES['no-attr-second'] = make([(1, {'bipartite': 0}), (2, {})], [(1, 2)])
CASES['bad-colour-2'] = make([(1, {'bipartite': 0}), (2, {'bipartite': 2})], [(1, 2)])
CASES['bad-colour-str'] = make([(1, {'bipartite': 'left'}), (2, {'bipartite': 1})], [])
CASES['bad-colour-none'] = make([(1, {'bipartite': None})], [])
CASES['bad-colour-float'] = make([(1, {'bipartite': 0.0}), (2, {'bipartite': 1.0})],
                                 [(1, 2)])
CASES['bad-colour-list'] = make([(1, {'bipartite': [0]})], [])
CASES['edge-left-left'] = make(
    [(1, {'bipartite': 0}), (2, {'bipartite': 0}), (3, {'bipartite': 1})],
    [(1, 3), (1, 2)])
CASES['edge-right-right'] = make(
    [(1, {'bipartite': 0}), (2, {'bipartite': 1}), (3, {'bipartite': 1})],
    [(1, 3), (3, 2)])
CASES['edge-right-right-first'] = make(
    [(1, {'bipartite': 0}), (2, {'bipartite': 1}), (3, {'bipartite': 1})],
    [(2, 3), (1, 2)])
CASES['loop-left'] = make([(1, {'bipartite': 0}), (2, {'bipartite': 1})],
                          [(1, 2), (1, 1)])
CASES['loop-right'] = make([(1, {'bipartite': 0}), (2, {'bipartite': 1})],
                           [(2, 2)])

# random bipartite graphs with shuffled node insertion order and edge direction
rnd = random.Random(20260101)
for t in range(40):
    n, m = rnd.randint(0, 5), rnd.randint(0, 5)
    nodes = [('L%d' % i, {'bipartite': rnd.choice([0, '0', False])}) for i in range(n)]
    nodes += [('R%d' % j, {'bipartite': rnd.choice([1, '1', True])}) for j in range(m)]
    rnd.shuffle(nodes)
    edges = []
    for i in range(n):
        for j in range(m):
            if rnd.random() < 0.5:
                e = ('L%d' % i, 'R%d' % j)
                edges.append(e if rnd.random() < 0.5 else e[::-1])
    rnd.shuffle(edges)
    if t % 10 == 9 and n >= 2:
        edges.insert(rnd.randint(0, len(edges)), ('L0', 'L1'))
    if t % 10 == 8 and m >= 2:
        edges.insert(rnd.randint(0, len(edges)), ('R1', 'R0'))
    cls = rnd.choice([networkx.Graph, networkx.Graph, networkx.DiGraph,
                      networkx.MultiGraph])
    CASES['random-%02d' % t] = make(nodes, edges, cls=cls,
                                    name='random %d' % t if t % 3 else None)

for tag in CASES:
    G = CASES[tag]
    attempt(('from_networkx', tag), lambda: describe(BipartiteGraph.from_networkx(G)))
    attempt(('normalize', tag), lambda: describe(BipartiteGraph.normalize(G, 'Bvar')))
    attempt(('formulas', tag), lambda: formulas(G))
    attempt(('roundtrip', tag),
            lambda: describe(BipartiteGraph.from_networkx(
                BipartiteGraph.from_networkx(G).to_networkx())))

# a subclass goes through cls(...)
attempt('subclass-complete',
        lambda: describe(CompleteBipartiteGraph.from_networkx(CASES['complete-2-3'])))
attempt('subclass-complete-bad',
        lambda: describe(CompleteBipartiteGraph.from_networkx(CASES['edge-left-left'])))

# non networkx arguments
for tag, obj in [('none', None), ('int', 3), ('list', [(1, 2)]), ('dict', {1: [2]}),
                 ('cnfgen-bipartite', BipartiteGraph(2, 2)), ('str', 'graph')]:
    attempt(('from_networkx-nonnx', tag), lambda: describe(BipartiteGraph.from_networkx(obj)))
    attempt(('normalize-nonnx', tag), lambda: describe(BipartiteGraph.normalize(obj, 'X')))
    attempt(('gphp-nonnx', tag), lambda: GraphPigeonholePrinciple(obj).to_dimacs())

# graph name missing: networkx graph whose `name` raises AttributeError
class NoName(networkx.Graph):
    @property
    def name(self):
        raise AttributeError('no name')

    @name.setter
    def name(self, s):
        pass


G = NoName()
G.add_node(1, bipartite=0)
G.add_node(2, bipartite=1)
G.add_edge(2, 1)
attempt('noname', lambda: describe(BipartiteGraph.from_networkx(G)))
attempt('noname-normalize', lambda: describe(BipartiteGraph.normalize(G)))

# reading from gml / dot files goes through from_networkx
GML = """graph [
  name "gmltest"
  node [ id 0 label "a" bipartite 0 ]
  node [ id 1 label "b" bipartite 1 ]
  node [ id 2 label "c" bipartite 0 ]
  node [ id 3 label "d" bipartite 1 ]
  edge [ source 0 target 1 ]
  edge [ source 3 target 2 ]
  edge [ source 1 target 2 ]
]
"""
GML_BAD = GML.replace('node [ id 3 label "d" bipartite 1 ]',
                      'node [ id 3 label "d" bipartite 0 ]')
GML_NOATTR = GML.replace(' bipartite 1 ]', ' ]')
DOT = """graph G {
 a [bipartite=0]; b [bipartite=1]; c [bipartite=0]; d [bipartite=1];
 a -- b; d -- c; b -- c;
}
"""
for tag, text, fmt in [('gml', GML, 'gml'), ('gml-bad', GML_BAD, 'gml'),
                       ('gml-noattr', GML_NOATTR, 'gml'), ('dot', DOT, 'dot')]:
    attempt(('readGraph', tag),
            lambda: describe(readGraph(io.StringIO(text), 'bipartite', fmt)))
    attempt(('readGraph-gphp', tag),
            lambda: GraphPigeonholePrinciple(
                readGraph(io.StringIO(text), 'bipartite', fmt)).to_dimacs())

print(H.hexdigest())
