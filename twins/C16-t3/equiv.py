#!/usr/bin/env python
"""Equivalence digest for the graph objects of cnfgen.graphs (property C16).

Drives Graph, DirectedGraph, BipartiteGraph (and CompleteBipartiteGraph)
through seeded random sequences of add_edge / remove_edge /
update_vertex_number / add_edges_from with valid and invalid arguments and
records every observable view (and the internal containers) after each
step, plus the exceptions raised.  Prints one SHA256 digest.
"""
import sys
import os
import hashlib
import random

sys.path.insert(0, os.getcwd())

import networkx
from cnfgen.graphs import (Graph, DirectedGraph, BipartiteGraph,
                           CompleteBipartiteGraph, split_random_edges,
                           add_random_missing_edges)

H = hashlib.sha256()


def rec(*items):
    H.update((' | '.join(repr(x) for x in items) + '\n').encode('utf-8'))


def attempt(label, f, *args):
    try:
        res = f(*args)
        rec(label, args, 'ok', res)
        return res
    except Exception as e:  # noqa
        rec(label, args, 'EXC', type(e).__name__, str(e))
        return None


def safe(f, *args):
    try:
        r = f(*args)
        if not isinstance(r, (int, bool, str, type(None))):
            r = list(r)
        return ('ok', r)
    except Exception as e:  # noqa
        return ('EXC', type(e).__name__, str(e))


WEIRD = [0, -1, 1.5, 2.0, True, None, 'a', (1, 2)]


def dump_simple(G):
    n = G.number_of_vertices()
    rec('S', n, G.order(), len(G), G.number_of_edges(), G.name,
        G.is_dag(), G.is_directed(), G.is_bipartite(), G.is_multigraph())
    E = G.edges()
    rec('S.edges', len(E), list(E), list(E))
    rec('S.vertices', list(G.vertices()))
    rec('S.adjlist', G.adjlist, sorted(G.edgeset, key=repr), G.n, G.m)
    for u in list(range(-1, n + 3)) + WEIRD:
        rec('S.nb', u, safe(G.neighbors, u), safe(G.degree, u))
    for u in range(0, n + 2):
        for v in range(0, n + 2):
            rec('S.has', u, v, G.has_edge(u, v), (u, v) in E)
    rec('S.in', safe(E.__contains__, (1,)), safe(E.__contains__, (1, 2, 3)))
    def conv():
        X = G.to_networkx()
        rec('S.nx', list(X.nodes()), list(X.edges()))
        B = Graph.from_networkx(X)
        return (B.n, B.m, B.adjlist, list(B.edges()), B.name)
    rec('S.back', safe(conv))


def dump_directed(D):
    n = D.number_of_vertices()
    rec('D', n, D.order(), len(D), D.number_of_edges(), D.name,
        D.is_dag(), D.is_directed(), D.is_bipartite(), D.is_multigraph())
    E = D.edges()
    F = D.edges_ordered_by_successors()
    rec('D.edges', len(E), list(E), list(E), len(F), list(F), list(F))
    rec('D.vertices', list(D.vertices()))
    rec('D.int', D.pred, D.succ, sorted(D.edgeset, key=repr), D.n, D.m,
        D.still_a_dag)
    for u in list(range(-1, n + 3)) + WEIRD:
        rec('D.nb', u, safe(D.predecessors, u), safe(D.successors, u),
            safe(D.in_degree, u), safe(D.out_degree, u))
    for u in range(0, n + 2):
        for v in range(0, n + 2):
            rec('D.has', u, v, D.has_edge(u, v), (u, v) in E, (u, v) in F)
    rec('D.in', safe(E.__contains__, (1,)), safe(F.__contains__, (1, 2, 3)))
    def conv():
        X = D.to_networkx()
        rec('D.nx', list(X.nodes()), list(X.edges()))
        B = DirectedGraph.from_networkx(X)
        return (B.n, B.m, B.pred, B.succ, list(B.edges()), B.is_dag(),
                B.name)
    rec('D.back', safe(conv))


def dump_bipartite(B):
    L, R = B.left_order(), B.right_order()
    rec('B', L, R, B.number_of_vertices(), B.order(), len(B),
        B.number_of_edges(), B.name, safe(B.is_dag), safe(B.is_directed),
        B.is_bipartite(), B.is_multigraph(), [list(p) for p in B.parts()])
    E = B.edges()
    rec('B.edges', len(E), list(E), list(E))
    rec('B.int', list(B.ladj.items()), list(B.radj.items()),
        sorted(B.edgeset, key=repr), B.lorder, B.rorder)
    for u in list(range(-1, max(L, R) + 3)) + WEIRD:
        rec('B.nb', u, safe(B.right_neighbors, u), safe(B.left_neighbors, u),
            safe(B.right_degree, u), safe(B.left_degree, u))
    for u in range(0, L + 2):
        for v in range(0, R + 2):
            rec('B.has', u, v, B.has_edge(u, v), (u, v) in E)
    def conv():
        X = B.to_networkx()
        rec('B.nx', list(X.nodes(data=True)), list(X.edges()), X.name)
        C = BipartiteGraph.from_networkx(X)
        return (C.lorder, C.rorder, list(C.ladj.items()),
                list(C.radj.items()), list(C.edges()), C.name)
    rec('B.back', safe(conv))


def rand_vertex(rng, n):
    r = rng.random()
    if r < 0.80:
        return rng.randint(1, max(n, 1))
    if r < 0.92:
        return rng.choice([0, -1, n + 1, n + 2, -n])
    return rng.choice([1.5, 2.0, True, None, 'a', (1, 2), [1], 2.5])


def rand_edges(rng, n, k):
    return [(rand_vertex(rng, n), rand_vertex(rng, n)) for _ in range(k)]


def run_simple(seed, n, steps):
    rng = random.Random(seed)
    rec('run_simple', seed, n, steps)
    G = Graph(n)
    dump_simple(G)
    for _ in range(steps):
        r = rng.random()
        nn = G.number_of_vertices()
        if r < 0.50:
            attempt('add', G.add_edge, rand_vertex(rng, nn), rand_vertex(rng, nn))
        elif r < 0.70:
            attempt('rem', G.remove_edge, rand_vertex(rng, nn), rand_vertex(rng, nn))
        elif r < 0.80:
            if list(G.edges()):
                u, v = rng.choice(list(G.edges()))
                if rng.random() < 0.5:
                    u, v = v, u
                attempt('rem!', G.remove_edge, u, v)
        elif r < 0.90:
            attempt('upd', G.update_vertex_number,
                    rng.choice([nn, nn + 1, nn + 3, nn - 1, 0, -1, 1.5, 'x',
                                None, True, nn + 2]))
        else:
            attempt('addmany', G.add_edges_from,
                    rand_edges(rng, nn, rng.randint(0, 5)))
        dump_simple(G)
    return G


def run_directed(seed, n, steps, forward_only=False):
    rng = random.Random(seed)
    rec('run_directed', seed, n, steps, forward_only)
    D = DirectedGraph(n)
    dump_directed(D)
    for _ in range(steps):
        r = rng.random()
        if forward_only:
            u, v = sorted([rng.randint(1, max(n, 1)), rng.randint(1, max(n, 1))])
            if u == v:
                v = u + 1
            attempt('add', D.add_edge, u, v)
        elif r < 0.8:
            attempt('add', D.add_edge, rand_vertex(rng, n), rand_vertex(rng, n))
        elif r < 0.9:
            attempt('addmany', D.add_edges_from,
                    rand_edges(rng, n, rng.randint(0, 5)))
        else:
            attempt('upd', lambda: D.update_vertex_number(n + 1))
            attempt('rem', lambda: D.remove_edge(1, 2))
        dump_directed(D)
    return D


def run_bipartite(seed, L, R, steps):
    rng = random.Random(seed)
    rec('run_bipartite', seed, L, R, steps)
    B = BipartiteGraph(L, R)
    dump_bipartite(B)
    for _ in range(steps):
        r = rng.random()
        if r < 0.8:
            attempt('add', B.add_edge, rand_vertex(rng, L), rand_vertex(rng, R))
        elif r < 0.9:
            attempt('addmany', B.add_edges_from,
                    [(rand_vertex(rng, L), rand_vertex(rng, R))
                     for _ in range(rng.randint(0, 5))])
        else:
            attempt('upd', lambda: B.update_vertex_number(L + 1))
            attempt('rem', lambda: B.remove_edge(1, 1))
        dump_bipartite(B)
    return B


# ---- constructors with boundary / invalid sizes
for arg in [0, 1, 2, -1, 1.5, 'a', None, True]:
    attempt('Graph()', lambda a=arg: Graph(a).adjlist)
    attempt('DirectedGraph()', lambda a=arg: (DirectedGraph(a).pred,
                                             DirectedGraph(a).name))
    attempt('DirectedGraph(None)', lambda a=arg: DirectedGraph(a, None).name)
    attempt('BipartiteGraph()', lambda a=arg: BipartiteGraph(a, 2).name)
    attempt('BipartiteGraph()', lambda a=arg: BipartiteGraph(2, a).name)

# ---- random update sequences
for seed, n, steps in [(1, 0, 6), (2, 1, 8), (3, 2, 15), (4, 3, 30),
                       (5, 5, 60), (6, 8, 80), (7, 12, 60)]:
    run_simple(seed, n, steps)
for seed, n, steps in [(11, 0, 5), (12, 1, 8), (13, 2, 15), (14, 3, 30),
                       (15, 5, 60), (16, 8, 60), (17, 12, 40)]:
    run_directed(seed, n, steps)
for seed, n, steps in [(21, 2, 5), (22, 5, 30), (23, 9, 50)]:
    run_directed(seed, n, steps, forward_only=True)
for seed, L, R, steps in [(31, 0, 0, 4), (32, 1, 1, 6), (33, 0, 3, 6),
                          (34, 3, 0, 6), (35, 2, 3, 25), (36, 5, 4, 60),
                          (37, 7, 9, 60)]:
    run_bipartite(seed, L, R, steps)

# ---- deterministic corner cases
G = Graph(4)
for e in [(1, 2), (2, 1), (1, 2), (3, 3), (4, 1), (0, 1), (1, 5), (3, 4)]:
    attempt('add', G.add_edge, *e)
    dump_simple(G)
for x in [4, 3, 6, 6, 0, 10]:
    attempt('upd', G.update_vertex_number, x)
    dump_simple(G)
attempt('add', G.add_edge, 10, 1)
attempt('add', G.add_edge, 11, 1)
for e in [(1, 2), (1, 2), (4, 3), (10, 1), (7, 8), (20, 30)]:
    attempt('rem', G.remove_edge, *e)
    dump_simple(G)

D = DirectedGraph(4)
for e in [(1, 2), (1, 2), (2, 3), (3, 4)]:
    attempt('add', D.add_edge, *e)
dump_directed(D)
attempt('add', D.add_edge, 2, 2)
dump_directed(D)
D = DirectedGraph(4)
attempt('add', D.add_edge, 4, 1)
attempt('add', D.add_edge, 0, 1)
attempt('add', D.add_edge, 1, 5)
dump_directed(D)
attempt('addmany', D.add_edges_from, [(1, 2), (1, 2, 3)])
attempt('addmany', D.add_edges_from, [(2, 3), 5])
dump_directed(D)

C = CompleteBipartiteGraph(3, 2)
attempt('add', C.add_edge, 1, 1)
attempt('add', C.add_edge, 9, 9)
rec('C', C.number_of_edges(), list(C.edges()), len(C.edges()),
    [C.has_edge(u, v) for u in range(0, 5) for v in range(0, 4)],
    list(C.right_neighbors(1)), list(C.left_neighbors(1)),
    C.right_degree(1), C.left_degree(2), C.name)
X = C.to_networkx()
rec('C.nx', list(X.nodes(data=True)), list(X.edges()))

# ---- classmethod constructors and networkx conversions
for n in range(0, 6):
    dump_simple(Graph.complete_graph(n))
    dump_simple(Graph.star_graph(n))
    dump_simple(Graph.empty_graph(n))
dump_simple(Graph.null_graph())

rng = random.Random(99)
for n in [0, 1, 4, 9]:
    for p in [0.0, 0.3, 1.0]:
        X = networkx.gnp_random_graph(n, p, seed=rng.randint(0, 10**6))
        X.name = 'gnp {} {}'.format(n, p)
        dump_simple(Graph.from_networkx(X))
        dump_simple(Graph.normalize(X))
        Y = networkx.gnp_random_graph(n, p, seed=rng.randint(0, 10**6),
                                      directed=True)
        dump_directed(DirectedGraph.from_networkx(Y))
        dump_directed(DirectedGraph.normalize(Y))
        Z = networkx.DiGraph()
        Z.add_nodes_from(Y.nodes())
        Z.add_edges_from((u, v) for (u, v) in Y.edges() if u < v)
        dump_directed(DirectedGraph.from_networkx(Z))
X = networkx.Graph()
X.add_edges_from([('b', 'a'), ('10', '9'), ('9', 'a'), (3, 'b')])
dump_simple(Graph.from_networkx(X))
X = networkx.Graph()
X.add_edges_from([(1, 1), (1, 2)])
attempt('selfloop', lambda: Graph.from_networkx(X).adjlist)
attempt('wrongtype', lambda: Graph.from_networkx(networkx.DiGraph()).adjlist)
attempt('wrongtype', lambda: DirectedGraph.from_networkx(networkx.Graph()).pred)
attempt('wrongtype', lambda: BipartiteGraph.from_networkx([1]))
attempt('wrongtype', lambda: Graph.normalize([1], 'X'))
attempt('wrongtype', lambda: DirectedGraph.normalize([1], 'X'))
attempt('wrongtype', lambda: BipartiteGraph.normalize([1], 'X'))
for a, b in [(0, 0), (1, 1), (3, 4), (5, 2)]:
    X = networkx.bipartite.complete_bipartite_graph(a, b)
    dump_bipartite(BipartiteGraph.from_networkx(X))
    X = networkx.bipartite.random_graph(a, b, 0.5, seed=a * 10 + b)
    dump_bipartite(BipartiteGraph.normalize(X))
X = networkx.Graph()
X.add_node(1, bipartite=0)
X.add_node(2, bipartite=0)
X.add_edge(1, 2)
attempt('bad bip', lambda: BipartiteGraph.from_networkx(X))
X.add_node(3)
attempt('bad bip', lambda: BipartiteGraph.from_networkx(X))

# ---- graph transformations built on the update operations
for seed in range(5):
    G = run_simple(100 + seed, 6, 25)
    k = min(3, G.number_of_edges())
    attempt('split', lambda: split_random_edges(G, k, seed))
    dump_simple(G)
    attempt('split too many', lambda: split_random_edges(G, 1000, seed))
    attempt('addrnd', lambda: add_random_missing_edges(G, 4, seed))
    dump_simple(G)
    B = run_bipartite(200 + seed, 4, 5, 15)
    attempt('addrnd', lambda: add_random_missing_edges(B, 3, seed))
    dump_bipartite(B)
    attempt('addrnd', lambda: add_random_missing_edges(B, 100, seed))

print(H.hexdigest())
