"""Equivalence script for parity_satisfied and all_good_parities in
cnfgen/families/randomkxor.py (the planted-assignment filter of RandomKXOR
and the dense enumeration used when m is close to / above the maximum).

Covers total, partial, empty, contradictory and duplicated planted
assignments, the 'Xor value undefined' error path, boundary values of
k, n, m (0, exact maximum, maximum + 1), and the resulting formulas, error
messages and random stream.  Prints one SHA256 digest.
"""
import sys
import os
import hashlib
import random
import warnings
import itertools

warnings.simplefilter('ignore')
sys.path.insert(0, os.getcwd())

from cnfgen import RandomKXOR
from cnfgen.families.randomkxor import (parity_satisfied, all_good_parities,
                                        sample_parities)
from cnfgen.clitools import cnfgen as cnfgen_cli

H = hashlib.sha256()


def rec(*items):
    for it in items:
        H.update(repr(it).encode('utf-8'))
        H.update(b'\x00')


def run(tag, fn):
    try:
        rec(tag, 'ok', fn())
    except Exception as e:
        rec(tag, 'exc', type(e).__name__, str(e),
            type(e.__cause__).__name__, type(e.__context__).__name__,
            str(e.__context__))


# 1. parity_satisfied
assignments = [[], [1, 2, 3, 4], [-1, -2, -3, -4], [1, -2, 3, -4], [1, 2],
               [-3], [1, -1, 2, -2, 3, 4], [4, 3, 2, 1], (1, -2, -3, 4),
               {1, 2, -3, -4}, frozenset([-1, 2, 3, -4])]
Xs = [[], [1], [4], [1, 2], [2, 4], [2, 2], [1, 2, 3], [1, 2, 3, 4], (3, 4),
      [5], [1, 5], [-1], [-1, 2], [0]]
for X in Xs:
    for b in (0, 1, 2, -1, True, False):
        run(('ps-empty', X, b), lambda: parity_satisfied(X, b, []))
        for a in assignments:
            run(('ps1', X, b, sorted(a, key=lambda z: (abs(z), z))),
                lambda: parity_satisfied(X, b, [a]))
        for a1, a2 in itertools.product(assignments[:7], repeat=2):
            run(('ps2', X, b, a1, a2), lambda: parity_satisfied(X, b, [a1, a2]))
            run(('ps2t', X, b, a1, a2), lambda: parity_satisfied(X, b, (a1, a2)))

# 2. all_good_parities
random.seed(77)
planted_sets = [[], [[1, 2, 3, 4, 5, 6]], [[-1, -2, -3, -4, -5, -6]],
                [[1, -2, 3, -4, 5, -6]],
                [[1, 2, 3, 4, 5, 6], [-1, 2, 3, 4, 5, 6]],
                [[1, 2, 3, 4, 5, 6], [-1, -2, 3, 4, 5, 6], [1, 2, -3, -4, 5, 6]],
                [[1, 2, 3, 4, 5, 6], [1, 2, 3, 4, 5, 6]],
                [[1, 2, 3]], [[1, -1, 2, -2, 3, -3, 4, -4, 5, -5, 6, -6]], [[]]]
for _ in range(6):
    planted_sets.append([[v * random.choice([1, -1]) for v in range(1, 7)]
                         for _ in range(random.randint(1, 3))])
for k in range(0, 6):
    for n in range(0, 7):
        for pi, planted in enumerate(planted_sets):
            run(('agp', k, n, pi), lambda: list(all_good_parities(k, n, planted)))
            run(('agp-tuple', k, n, pi),
                lambda: list(all_good_parities(k, n, tuple(map(tuple, planted)))))

# laziness of the generator is observable too
g = all_good_parities(2, 4, [[1, 2, 3, 4]])
rec(type(g).__name__, next(g), next(g))
g = all_good_parities(2, 4, [[1, 2]])
run(('agp-lazy-err',), lambda: [next(g) for _ in range(10)])

# 3. sample_parities and RandomKXOR, including exact maxima
for k in range(0, 5):
    for n in range(0, 7):
        for pi, planted in enumerate(planted_sets):
            try:
                maxm = len(list(all_good_parities(k, n, planted)))
            except ValueError:
                maxm = 3
            for m in sorted({0, 1, 2, maxm // 2, maxm - 1, maxm, maxm + 1, 2 * maxm + 3}):
                if m < 0:
                    continue
                for seed in (1, 99):
                    def call_s():
                        random.seed(seed)
                        return (sample_parities(k, n, m, planted), random.random())
                    run(('sp', k, n, m, pi, seed), call_s)

                    def call_f():
                        F = RandomKXOR(k, n, m, seed=seed, planted_assignments=planted)
                        return (F.number_of_variables(), len(F), list(F.clauses()),
                                dict(F.header), random.random())
                    run(('kxor', k, n, m, pi, seed), call_f)

# 4. command line
for cl in (['--seed', '3', 'randkxor', '3', '7', '12', '-p'],
           ['--seed', '4', 'randkxor', '2', '4', '6', '-p'],
           ['--seed', '4', 'randkxor', '2', '4', '7', '-p'],
           ['--seed', '4', 'randkxor', '2', '4', '12'],
           ['--seed', '4', 'randkxor', '2', '4', '13'],
           ['--seed', '9', 'randkxor', '1', '1', '1', '--plant'],
           ['--seed', '9', 'randkxor', '1', '1', '2', '--plant']):
    run(('cli', cl), lambda: cnfgen_cli(['cnfgen'] + cl, mode='string'))

print(H.hexdigest())
