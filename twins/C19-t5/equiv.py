#!/usr/bin/env python
"""Equivalence check for cnfgen.clitools.cnfgen.parse_command_line
(splitting of the command line around '-T' and the resulting chain of
transformations, as visible in formulas, headers and error messages)."""
import os
import sys
import io
import hashlib
import random
import contextlib

sys.path.insert(0, os.getcwd())

from cnfgen.clitools.cnfgen import cli, parse_command_line
from cnfgen.clitools.cnfgen import setup_command_line_parsers
from cnfgen.clitools.cmdline import get_formula_helpers
from cnfgen.clitools.cmdline import get_transformation_helpers
from cnfgen.clitools.cmdline import CLIError

out = []


def record(*items):
    out.append(repr(items))


def formula_snapshot(F):
    return (F.number_of_variables(), F.number_of_clauses(),
            list(F.all_variable_labels()), [tuple(c) for c in F],
            list(F.header.items()))


CMDLINES = [
    ['cnfgen', 'php', 3, 2],
    ['cnfgen', 'php', 3, 2, '-T', 'xor', 2],
    ['cnfgen', 'php', 3, 2, '-T', 'or', 2, '-T', 'flip'],
    ['cnfgen', 'php', 3, 2, '-T', 'flip', '-T', 'or', 2],
    ['cnfgen', '-q', 'php', 3, 2, '-T', 'xor', 2],
    ['cnfgen', '--seed', 7, 'php', 3, 2, '-T', 'shuffle'],
    ['cnfgen', '-S', 7, 'php', 3, 2, '-T', 'shuffle', '-p', '-T', 'shuffle', '-c', '-v'],
    ['cnfgen', '--seed', 11, 'op', 3, '-T', 'xorcomp', 5, 2, '-T', 'ite'],
    ['cnfgen', '--seed', 12, 'op', 3, '-T', 'majcomp', 6, '-T', 'none', '-T', 'lift', 2],
    ['cnfgen', 'and', 2, 1, '-T', 'eq', 3, '-T', 'neq', 2, '-T', 'one', 2],
    ['cnfgen', 'or', 2, 2, '-T', 'atleast', 3, 2, '-T', 'atmost', 2, 1],
    ['cnfgen', 'or', 1, 1, '-T', 'exact', 3, 2, '-T', 'anybut', 2, 1],
    ['cnfgen', 'or', 1, 1, '-T', 'maj', 3, '-T', 'or', 1],
    ['cnfgen', 'or', 1, 0, '-T', 'none'],
    ['cnfgen', 'and', 0, 0, '-T', 'flip', '-T', 'flip', '-T', 'flip'],
    ['cnfgen', '-of', 'opb', 'php', 2, 1, '-T', 'or', 2],
    ['cnfgen', '-of', 'latex', 'php', 2, 1, '-T', 'xor', 2, '-T', 'flip'],
    ['cnfgen', '--varnames', 'php', 2, 1, '-T', 'lift', 2],
    # error paths
    ['cnfgen'],
    ['cnfgen', '-T'],
    ['cnfgen', '-T', 'xor', 2],
    ['cnfgen', 'php', 3, 2, '-T'],
    ['cnfgen', 'php', 3, 2, '-T', '-T', 'flip'],
    ['cnfgen', 'php', 3, 2, '-T', 'flip', '-T'],
    ['cnfgen', 'php', 3, 2, '-T', 'nonexistent', 2],
    ['cnfgen', 'php', 3, 2, '-T', 'xor'],
    ['cnfgen', 'php', 3, 2, '-T', 'xor', 0],
    ['cnfgen', 'php', 3, 2, '-T', 'xor', 2, 3],
    ['cnfgen', 'php', 3, '-T', 'xor', 2],
    ['cnfgen', 'php', 3, 2, '-t', 'xor', 2],
    ['cnfgen', 'php', 3, 2, '-T', 'xorcomp'],
    ['cnfgen', 'php', 3, 2, '-TT', 'flip'],
    ['-T', 'php', 3, 2],
    ['-T'],
    [],
]

for mode in ['string', 'formula']:
    for cmdline in CMDLINES:
        random.seed(1234)
        original = list(cmdline)
        stdout = io.StringIO()
        stderr = io.StringIO()
        try:
            with contextlib.redirect_stdout(stdout), contextlib.redirect_stderr(stderr):
                res = cli(cmdline, mode=mode)
            if mode == 'formula':
                res = formula_snapshot(res)
            record('ok', mode, cmdline, res)
        except SystemExit as e:
            record('exit', mode, cmdline, e.code)
        except BaseException as e:
            record('exc', mode, cmdline, type(e).__name__, str(e))
        record('io', stdout.getvalue(), stderr.getvalue())
        # the argument list itself must not be modified
        record('argv unchanged', cmdline == original)

# direct calls to parse_command_line
parser, t_parser = setup_command_line_parsers('cnfgen', get_formula_helpers(),
                                              get_transformation_helpers())
for cmdline in CMDLINES:
    argv = [str(x) for x in cmdline]
    before = list(argv)
    random.seed(99)
    try:
        with contextlib.redirect_stdout(io.StringIO()), contextlib.redirect_stderr(io.StringIO()):
            fargs, targs = parse_command_line(argv, parser, t_parser)
        fdict = {k: (v if isinstance(v, (int, str, bool, type(None))) else type(v).__name__)
                 for k, v in sorted(vars(fargs).items())}
        tdicts = []
        for t in targs:
            tdicts.append({k: (v if isinstance(v, (int, str, bool, type(None))) else
                               getattr(v, 'name', type(v).__name__))
                           for k, v in sorted(vars(t).items())})
        record('parsed', argv, type(targs).__name__, len(targs), fdict, tdicts)
    except SystemExit as e:
        record('parse exit', argv, e.code)
    except BaseException as e:
        record('parse exc', argv, type(e).__name__, str(e))
    record('argv unchanged', argv == before)

print(hashlib.sha256("\n".join(out).encode('utf-8')).hexdigest())
