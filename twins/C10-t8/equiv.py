#!/usr/bin/env python
"""Equivalence script for the refactoring of parse_command_line in
cnfgen/clitools/cnfgen.py (splitting of the command line into the formula
part and the chain of '-T' transformations).

Run as:  cd <checkout> && /venv/bin/python equiv.py
Prints one SHA256 digest of everything observed.
"""
import os
import io
import sys
import random
import hashlib
import contextlib

sys.path.insert(0, os.getcwd())

import cnfgen
from cnfgen.formula.basecnf import BaseCNF
from cnfgen.clitools import cnfgen as cnfgen_cli
from cnfgen.clitools import get_formula_helpers, get_transformation_helpers
import cnfgen.clitools.cnfgen  # noqa  (make sure the sub-module is loaded)

climod = sys.modules['cnfgen.clitools.cnfgen']

H = hashlib.sha256()
from cnfgen.info import info as _info
GENERATOR = "{project} ({version})".format(**_info)
VERSION = str(_info['version'])


def rec(*items):
    line = ' '.join(repr(x) for x in items)
    # the output quotes `git describe` of the checkout: mask it
    line = line.replace(GENERATOR, 'CNFgen (<version>)')
    line = line.replace(VERSION, '<version>')
    H.update(line.encode('utf-8'))
    H.update(b'\n')


def describe(ns):
    """printable content of an argparse namespace"""
    out = []
    for k, v in sorted(vars(ns).items()):
        if isinstance(v, (str, int, float, bool, type(None), list, tuple)):
            out.append((k, repr(v)))
        elif isinstance(v, type):
            out.append((k, 'class ' + v.__name__))
        else:
            out.append((k, 'object ' + type(v).__name__ + ' ' + str(getattr(v, 'name', ''))))
    return out


def captured(fn):
    out, err = io.StringIO(), io.StringIO()
    old_stdin = sys.stdin
    sys.stdin = io.StringIO('')
    try:
        with contextlib.redirect_stdout(out), contextlib.redirect_stderr(err):
            try:
                res = ('OK', fn())
            except BaseException as e:  # noqa  (SystemExit included)
                res = ('EXC', type(e).__name__, str(e))
    finally:
        sys.stdin = old_stdin
    return res, out.getvalue(), err.getvalue()


def show_formula(tag, F):
    n = F.number_of_variables()
    rec(tag, 'n', n, 'len', len(F))
    rec(tag, 'header', list((k, str(v)) for k, v in F.header.items()))
    rec(tag, 'labels', list(F.all_variable_labels()))
    content = [repr(c) for c in F]
    rec(tag, 'content', content)
    if isinstance(F, BaseCNF):
        rec(tag, 'in range', all(isinstance(l, int) and l != 0 and 1 <= abs(l) <= n
                                 for c in F for l in c))


CHAINS = [
    # degenerate command lines
    [],
    ['-T'],
    ['-T', '-T'],
    ['-T', 'shuffle'],
    ['-T', 'xor', '2', 'php', '3', '2'],
    ['-h'],
    ['--help'],
    ['-V'],
    ['php', '-h'],
    ['php', '3', '2', '-T', '-h'],
    ['php', '3', '2', '-T', 'xor', '-h'],
    ['--tutorial'],
    # no transformation
    ['php', '5', '4'],
    ['-q', 'php', '5', '4'],
    ['--seed', '4', 'randkcnf', '3', '20', '60'],
    ['op', '6'],
    ['and', '0', '0'],
    ['and', '3', '2'],
    # single transformations
    ['php', '5', '4', '-T', 'none'],
    ['php', '5', '4', '-T', 'xor', '2'],
    ['php', '5', '4', '-T', 'or', '3'],
    ['php', '4', '3', '-T', 'maj', '3'],
    ['php', '4', '3', '-T', 'lift', '2'],
    ['php', '4', '3', '-T', 'ite'],
    ['php', '4', '3', '-T', 'flip'],
    ['php', '4', '3', '-T', 'eq', '2'],
    ['php', '4', '3', '-T', 'neq', '2'],
    ['php', '4', '3', '-T', 'one', '3'],
    ['php', '4', '3', '-T', 'exact', '3', '2'],
    ['php', '4', '3', '-T', 'atleast', '3', '2'],
    ['php', '4', '3', '-T', 'atmost', '3', '1'],
    ['php', '4', '3', '-T', 'anybut', '3', '1'],
    ['--seed', '2', 'php', '4', '3', '-T', 'shuffle'],
    ['--seed', '2', 'php', '4', '3', '-T', 'xorcomp', 'glrd', '12', '9', '3'],
    ['--seed', '2', 'php', '4', '3', '-T', 'majcomp', 'glrd', '12', '9', '3'],
    # chains
    ['op', '4', '-T', 'xor', '2', '-T', 'or', '2'],
    ['op', '4', '-T', 'or', '2', '-T', 'xor', '2'],
    ['--seed', '7', 'op', '4', '-T', 'shuffle', '-T', 'lift', '2', '-T', 'shuffle', '-c'],
    ['php', '3', '2', '-T', 'none', '-T', 'none', '-T', 'none', '-T', 'flip', '-T', 'flip'],
    ['--seed', '11', 'randkcnf', '3', '12', '30', '-T', 'ite', '-T', 'eq', '2', '-T', 'shuffle', '-p'],
    ['--seed', '5', 'tseitin', 'randomodd', 'gnd', '10', '3', '-T', 'xor', '2', '-T', 'shuffle'],
    ['peb', 'pyramid', '4', '-T', 'xor', '2', '-T', 'flip'],
    ['php', '3', '2', '-T', 'or', '2', '-T', 'or', '2', '-T', 'or', '2', '-T', 'or', '2'],
    # output formats
    ['-of', 'opb', 'php', '4', '3', '-T', 'xor', '2'],
    ['-of', 'latex', 'php', '3', '2', '-T', 'or', '2'],
    ['-of', 'dimacs', '-v', 'php', '3', '2', '-T', 'or', '2'],
    ['--varnames', 'php', '3', '2', '-T', 'lift', '2', '-T', 'flip'],
    # '-T' in odd places and repeated
    ['php', '5', '4', '-T'],
    ['php', '5', '4', '-T', '-T', 'xor', '2'],
    ['php', '5', '4', '-T', 'xor', '2', '-T'],
    ['-T', 'php', '5', '4'],
    ['php', '-T', '5', '4'],
    ['php', '5', '-T', 'xor', '2', '4'],
    ['--seed', '-T', 'php', '3', '2'],
    ['php', '5', '4', '-t', 'xor', '2'],
    ['php', '5', '4', '-TT', 'xor', '2'],
    ['php', '5', '4', '-T xor 2'],
    ['php', '5', '4', '--T', 'xor', '2'],
    # errors in the formula, in the transformations, in both
    ['nonexistent', '3'],
    ['php', '5'],
    ['php', 'five', '4'],
    ['php', '5', '4', '-T', 'nonexistent'],
    ['php', '5', '4', '-T', 'xor'],
    ['php', '5', '4', '-T', 'xor', 'two'],
    ['php', '5', '4', '-T', 'xor', '0'],
    ['php', '5', '4', '-T', 'xor', '2', '3'],
    ['php', '5', '4', '-T', 'xor', '2', '-T', 'or'],
    ['php', '5', '4', '-T', 'or', '-T', 'xor', '2'],
    ['php', '5', '-T', 'xor'],
    ['php', '5', '4', '-T', 'xor', 'two', '-T', 'or', 'three'],
    ['php', '4', '3', '-T', 'exact', '3', '7'],
    ['php', '4', '3', '-T', 'xorcomp', 'glrd', '11', '9', '3'],
    ['php', '-5', '4', '-T', 'xor', '2'],
    # non string tokens are accepted
    ['php', 5, 4, '-T', 'xor', 2],
]


def main():
    fparser, tparser = climod.setup_command_line_parsers(
        'cnfgen', get_formula_helpers(), get_transformation_helpers())

    for chain in CHAINS:
        argv = ['cnfgen'] + [str(x) for x in chain]
        tag = 'chain %r' % (chain,)

        # 1. the splitting function itself
        random.seed(1234)

        def parse():
            fargs, targs = climod.parse_command_line(argv, fparser, tparser)
            return describe(fargs), [describe(t) for t in targs]
        rec(tag, 'parse', captured(parse))
        rec(tag, 'rnd after parse', random.random())

        # 2. the whole command line tool, all modes
        for mode in ('string', 'formula', 'output'):
            random.seed(1234)
            res, out, err = captured(lambda: cnfgen_cli(['cnfgen'] + chain, mode=mode))
            if res[0] == 'OK' and hasattr(res[1], 'number_of_variables'):
                show_formula(tag + ' ' + mode, res[1])
                rec(tag, mode, 'streams', out, err)
            else:
                rec(tag, mode, res, out, err)
            rec(tag, mode, 'rnd after', random.random())

    # 3. argv without program name, argv as tuple, argv=None taken from sys.argv
    def parse_empty():
        fargs, targs = climod.parse_command_line([], fparser, tparser)
        return describe(fargs), [describe(t) for t in targs]
    rec('no progname', captured(parse_empty))
    rec('tuple', captured(lambda: cnfgen_cli(('cnfgen', 'php', '3', '2', '-T', 'or', '2'), mode='string')))
    old_argv = sys.argv
    try:
        sys.argv = ['whatever', 'op', '3', '-T', 'xor', '2', '-T', 'flip']
        rec('sys.argv', captured(lambda: cnfgen_cli(mode='string')))
        sys.argv = ['whatever', '-T']
        rec('sys.argv -T', captured(lambda: cnfgen_cli(mode='string')))
    finally:
        sys.argv = old_argv

    print(H.hexdigest())


if __name__ == '__main__':
    main()
