#!/usr/bin/env python
"""Equivalence script for the refactoring of
cnfgen.formula.variables.VariablesManager.all_variable_labels"""
import hashlib
import io
import os
import sys
import random
import itertools

sys.path.insert(0, os.getcwd())

import cnfgen.info
# the version is derived from `git describe`: pin it, so that the digest
# does not depend on the commit that is checked out
cnfgen.info.info['version'] = 'VERSION'

from cnfgen.formula.cnf import CNF
from cnfgen.formula.opb import OPB
from cnfgen.formula.basecnf import BaseCNF
from cnfgen.formula.baseopb import BaseOPB
from cnfgen.formula.variables import VariablesManager
from cnfgen.formula.variables import SingletonVariableGroup, BlockOfVariables
from cnfgen.graphs import Graph, DirectedGraph, BipartiteGraph
from cnfgen.utils.latexoutput import to_latex_document
import cnfgen

LOG = []


def rec(*items):
    LOG.append(repr(items))


def attempt(tag, fn, *args, **kwargs):
    try:
        res = fn(*args, **kwargs)
        rec(tag, 'OK', res)
    except BaseException as e:  # noqa
        rec(tag, 'EXC', type(e).__name__, str(e))


def drain(gen):
    """Consume a generator, keeping what was produced before any exception"""
    got = []
    try:
        for x in gen:
            got.append(x)
    except BaseException as e:  # noqa
        got.append(('EXC', type(e).__name__, str(e)))
    return got


def render(tag, F):
    for fmt in ['x{}', 'x_{}', 'y', '{}{}', '{0}-{0}', '']:
        rec(tag, 'labels', fmt,
            drain(F.all_variable_labels(default_label_format=fmt)))
    rec(tag, 'labels-default', drain(F.all_variable_labels()))
    rec(tag, 'nvars', F.number_of_variables(), len(F))
    attempt((tag, 'latex'), F.to_latex)
    attempt((tag, 'opb'), F.to_opb)
    for fmt in ['opb', 'latex', 'dimacs']:
        if fmt == 'dimacs' and isinstance(F, BaseOPB):
            continue
        for hdr in [False, True]:
            for vn in [False, True]:
                out = io.StringIO()
                try:
                    F.to_file(out, fileformat=fmt, export_header=hdr,
                              export_varnames=vn, extra_text='extra text\n')
                    rec(tag, fmt, hdr, vn, 'OK', out.getvalue())
                except BaseException as e:  # noqa
                    rec(tag, fmt, hdr, vn, 'EXC', type(e).__name__, str(e),
                        out.getvalue())


def some_constraints(F, rng):
    n = F.number_of_variables()
    if n == 0:
        return
    for _ in range(rng.randint(1, 4)):
        k = rng.randint(0, min(n, 4))
        lits = [v * rng.choice([1, -1])
                for v in rng.sample(range(1, n + 1), k)]
        if isinstance(F, BaseOPB):
            kind = rng.randint(0, 2)
            if kind == 0:
                F.add_clause(lits)
            elif kind == 1:
                F.add_constraint([(rng.randint(1, 5), l) for l in lits] +
                                 [rng.choice(['>=', '==', '<=', '<', '>']),
                                  rng.randint(-2, 6)])
            else:
                F.cardinality_eq(lits, rng.randint(0, 3))
        else:
            F.add_clause(lits)


def grow(F, step, rng):
    """One step of construction of the set of variables"""
    if step == 'unnamed1':
        F.update_variable_number(F.number_of_variables() + 1)
    elif step == 'unnamed3':
        F.update_variable_number(F.number_of_variables() + 3)
    elif step == 'clause':
        n = F.number_of_variables()
        F.add_clause([n + 2, -(n + 1)])
    elif step == 'var':
        F.new_variable(label='V_{}'.format(F.number_of_variables()))
    elif step == 'var-nolabel':
        F.new_variable()
    elif step == 'var-multiline':
        F.new_variable(label='two\nlines^a_b')
    elif step == 'var-hat':
        F.new_variable(label='w^{2}')
    elif step == 'block':
        F.new_block(2, 2, label='z_{{{},{}}}')
    elif step == 'block-nolabel':
        F.new_block(3)
    elif step == 'block-empty':
        F.new_block(0, 2, label='q({},{})')
    elif step == 'block0':
        F.new_block(0)
    elif step == 'comb':
        F.new_combinations(3, 2)
    elif step == 'comb-empty':
        F.new_combinations(2, 3)
    elif step == 'perm':
        F.new_permutations(3, 2, label='s^{{{}}}')
    elif step == 'words':
        F.new_words(2, 2)
    elif step == 'mapping':
        F.new_mapping(2, 3)
    elif step == 'mapping-empty':
        F.new_mapping(0, 3)
    elif step == 'binmap':
        F.new_binary_mapping(3, 4)
    elif step == 'graph':
        G = Graph(4)
        G.add_edges_from([(1, 2), (2, 3), (1, 4)])
        F.new_graph_edges(G)
    elif step == 'graph-empty':
        F.new_graph_edges(Graph(3))
    elif step == 'digraph':
        D = DirectedGraph(3)
        D.add_edges_from([(1, 2), (1, 3), (3, 2)])
        F.new_digraph_edges(D)
    elif step == 'bip':
        B = BipartiteGraph(2, 3)
        B.add_edges_from([(1, 1), (1, 3), (2, 2)])
        F.new_bipartite_edges(B)
    elif step == 'sparse':
        B = BipartiteGraph(2, 2)
        B.add_edges_from([(1, 2), (2, 1), (2, 2)])
        F.new_sparse_mapping(B)
    else:
        raise RuntimeError(step)


STEPS = ['unnamed1', 'unnamed3', 'clause', 'var', 'var-nolabel',
         'var-multiline', 'var-hat', 'block', 'block-nolabel', 'block-empty',
         'block0', 'comb', 'comb-empty', 'perm', 'words', 'mapping',
         'mapping-empty', 'binmap', 'graph', 'graph-empty', 'digraph', 'bip',
         'sparse']

rng = random.Random(20240612)

# empty formulas
for cls in [CNF, OPB]:
    render((cls.__name__, 'empty'), cls())

# every single step, and every single step surrounded by unnamed variables
for cls in [CNF, OPB]:
    for step in STEPS:
        for prefix, suffix in [((), ()), (('unnamed3', ), ()),
                               ((), ('unnamed1', )),
                               (('clause', ), ('unnamed3', ))]:
            F = cls()
            plan = prefix + (step, ) + suffix
            try:
                for s in plan:
                    grow(F, s, rng)
                some_constraints(F, rng)
            except BaseException as e:  # noqa
                rec(cls.__name__, plan, 'BUILD-EXC', type(e).__name__, str(e))
            render((cls.__name__, plan), F)

# all the pairs of steps
for cls in [CNF, OPB]:
    for plan in itertools.product(STEPS, repeat=2):
        F = cls()
        for s in plan:
            grow(F, s, rng)
        rec(cls.__name__, plan, drain(F.all_variable_labels()),
            drain(F.all_variable_labels(default_label_format='u_{}')))

# random longer plans
for trial in range(120):
    cls = rng.choice([CNF, OPB])
    plan = tuple(rng.choice(STEPS) for _ in range(rng.randint(3, 9)))
    F = cls()
    for s in plan:
        grow(F, s, rng)
    some_constraints(F, rng)
    if trial % 4 == 0:
        render((cls.__name__, 'random', trial, plan), F)
    else:
        rec(cls.__name__, 'random', trial, plan,
            drain(F.all_variable_labels()))
        attempt((cls.__name__, 'random', trial, 'opb'), F.to_opb)
        attempt((cls.__name__, 'random', trial, 'latex'), F.to_latex)

# Laziness: the generator is consumed while the formula keeps growing
for cls in [CNF, OPB]:
    F = cls()
    F.update_variable_number(2)
    F.new_variable(label='A')
    gen = F.all_variable_labels()
    rec(cls.__name__, 'lazy0', 'created')
    F.update_variable_number(5)      # before the first next(): counted
    got = [next(gen)]
    F.new_block(2, label='late_{}')  # group added while iterating
    F.update_variable_number(9)      # after the first next()
    got.extend(drain(gen))
    rec(cls.__name__, 'lazy1', got, drain(F.all_variable_labels()))

    F = cls()
    F.new_block(2, label='b_{}')
    gen = F.all_variable_labels(default_label_format='d{}')
    got = [next(gen), next(gen)]
    F.update_variable_number(4)
    got.extend(drain(gen))
    rec(cls.__name__, 'lazy2', got, drain(F.all_variable_labels()))

    F = cls()
    gen = F.all_variable_labels()
    F.new_variable(label='only')
    rec(cls.__name__, 'lazy3', drain(gen), drain(gen))

    F = cls()
    F.update_variable_number(3)
    gen = F.all_variable_labels()
    got = [next(gen)]
    gen.close()
    rec(cls.__name__, 'lazy4', got, drain(gen))

# Standalone variable managers on top of the base formulas, and
# inconsistent internal state (groups tampered with by hand)
for base in [BaseCNF, BaseOPB]:
    F = base()
    V = VariablesManager(F)
    rec(base.__name__, 'vm-empty', drain(V.all_variable_labels()))
    F.update_variable_number(2)
    V.new_variable(label='X')
    V.new_block(2, 2, label='m_{{{},{}}}')
    F.update_variable_number(9)
    rec(base.__name__, 'vm', drain(V.all_variable_labels()),
        drain(V.all_variable_labels(default_label_format='<{}>')))

    # groups out of order
    F = base()
    V = VariablesManager(F)
    V.new_variable(label='P')
    V.new_block(3, label='r_{}')
    V.new_variable(label='Q')
    V._groups.reverse()
    rec(base.__name__, 'vm-reversed', drain(V.all_variable_labels()))

    # the same group twice
    F = base()
    V = VariablesManager(F)
    F.update_variable_number(1)
    V.new_block(2, label='t_{}')
    V._groups.append(V._groups[0])
    rec(base.__name__, 'vm-twice', drain(V.all_variable_labels()))

    # group beyond the number of variables
    F = base()
    V = VariablesManager(F)
    F.update_variable_number(6)
    g = SingletonVariableGroup(F, 'beyond')
    V._groups.append(g)
    rec(base.__name__, 'vm-beyond', drain(V.all_variable_labels()))
    F2 = base()
    F2.update_variable_number(2)
    V._formula = F2
    rec(base.__name__, 'vm-beyond2', drain(V.all_variable_labels()))

    # a group that ends exactly at the last variable / one before it
    for extra in [0, 1, 2]:
        F = base()
        V = VariablesManager(F)
        F.update_variable_number(2)
        V.new_block(2, label='k_{}')
        F.update_variable_number(4 + extra)
        rec(base.__name__, 'vm-tail', extra, drain(V.all_variable_labels()))

# Formula families from the library
for name, args in [('PigeonholePrinciple', (3, 2)),
                   ('OrderingPrinciple', (3, )),
                   ('CountingPrinciple', (4, 2)),
                   ('PebblingFormula', None),
                   ('RamseyNumber', (3, 3, 4)),
                   ('TseitinFormula', 'graph'),
                   ('GraphColoringFormula', 'graph3')]:
    try:
        fam = getattr(cnfgen, name)
        if args is None:
            D = DirectedGraph(4)
            D.add_edges_from([(1, 3), (2, 3), (3, 4)])
            F = fam(D)
        elif args in ('graph', 'graph3'):
            G = Graph(4)
            G.add_edges_from([(1, 2), (2, 3), (3, 4), (1, 4), (1, 3)])
            F = fam(G) if args == 'graph' else fam(G, 3)
        else:
            F = fam(*args)
        F.update_variable_number(F.number_of_variables() + 2)
        F.new_variable(label='extra_{1}')
        render(('family', name), F)
    except BaseException as e:  # noqa
        rec('family', name, 'EXC', type(e).__name__, str(e))

digest = hashlib.sha256("\n".join(LOG).encode('utf-8', 'replace')).hexdigest()
print(digest)
