#!/usr/bin/env python
"""Equivalence script for the refactoring of
cnfgen.clitools.cnfgen.parse_command_line (splitting of the command
line around '-T' and parsing of the chain of transformations)."""
import hashlib
import io
import sys
import random
import warnings
import contextlib

warnings.simplefilter('ignore')
sys.path.insert(0, '.')

from cnfgen.clitools.cnfgen import cli, parse_command_line
from cnfgen.clitools.cnfgen import setup_command_line_parsers
from cnfgen.clitools.cmdline import get_formula_helpers
from cnfgen.clitools.cmdline import get_transformation_helpers

OUT = []


def rec(*items):
    OUT.append(repr(items))


def dump_formula(F):
    rec('header', list(F.header.items()))
    rec('nvars', F.number_of_variables(), 'nclauses', F.number_of_clauses())
    rec('labels', list(F.all_variable_labels()))
    rec('clauses', [tuple(c) for c in F.clauses()])
    buf = io.StringIO()
    F.to_file(buf, fileformat='dimacs', export_header=True)
    rec('dimacs', buf.getvalue())


def run_cli(argv, mode='formula'):
    rec('ARGV', argv, mode)
    random.seed(12345)
    err = io.StringIO()
    out = io.StringIO()
    try:
        with contextlib.redirect_stderr(err), contextlib.redirect_stdout(out):
            res = cli(list(argv), mode=mode)
        if mode == 'formula':
            dump_formula(res)
        else:
            rec('result', res)
    except SystemExit as e:
        rec('SystemExit', e.code)
    except BaseException as e:
        rec('EXC', type(e).__name__, str(e))
    rec('stdout', out.getvalue())
    rec('stderr', err.getvalue())


CHAINS = [
    [],
    ['-T', 'none'],
    ['-T', 'flip'],
    ['-T', 'xor', '2'],
    ['-T', 'or', '2', '-T', 'flip'],
    ['-T', 'flip', '-T', 'or', '2'],
    ['-T', 'shuffle', '-T', 'xor', 2, '-T', 'shuffle', '-p'],
    ['-T', 'shuffle', '-c', '-v', '-T', 'lift', '2', '-T', 'ite'],
    ['-T', 'eq', '2', '-T', 'one', '2'],
    ['-T', 'neq', '2', '-T', 'eq', '1'],
    ['-T', 'maj', '3', '-T', 'none', '-T', 'flip'],
    ['-T', 'xorcomp', '5', '2', '-T', 'majcomp', '7', '-T', 'shuffle'],
    ['-T', 'atleast', '3', '2', '-T', 'atmost', '2', '1'],
    ['-T', 'exact', '2', '1', '-T', 'anybut', '2', '1'],
    ['-T', 'flip', '-T', 'flip', '-T', 'flip', '-T', 'flip', '-T', 'flip'],
    # error paths
    ['-T'],
    ['-T', '-T', 'flip'],
    ['-T', 'flip', '-T'],
    ['-T', 'flip', '-T', '-T', 'flip'],
    ['-T', 'nosuchthing'],
    ['-T', 'xor'],
    ['-T', 'xor', '0'],
    ['-T', 'xor', '2', '3'],
    ['-T', 'flip', 'extra'],
    ['-T', 'xorcomp', '1', '5'],
    ['-T', 'or', '2', '-T', 'xor', 'a'],
    ['-T', 'flip', '-h'],
    ['-T', 'xor', '2', '-T', 'T'],
    ['-t', 'flip'],
    ['-T', 'flip', '--', '-T'],
]

FORMULAS = [
    ['php', '3', '2'],
    ['-S', '17', 'randkcnf', '3', '5', '8'],
    ['-q', 'op', '3'],
    ['-S', 'abc', 'tseitin', 'gnp', '5', '.6'],
    ['and', '0', '0'],
    ['or', '2', '1'],
]

for f in FORMULAS:
    for chain in CHAINS:
        run_cli(['cnfgen'] + f + chain)

# -T in odd places
for argv in [
        ['cnfgen'],
        ['cnfgen', '-T'],
        ['cnfgen', '-T', 'flip'],
        ['-T', 'php', '3', '2'],
        ['-T', '-T'],
        [],
        ['cnfgen', '-T', 'flip', 'php', '3', '2'],
        ['cnfgen', 'php', '-T', 'flip', '3', '2'],
        ['cnfgen', '-S', '4', '-T', 'shuffle', 'php', '3', '2'],
        ['cnfgen', '-of', 'latex', 'php', '3', '2', '-T', 'xor', '2', '-T', 'flip'],
        ['cnfgen', '--output-format', 'opb', 'php', 3, 2, '-T', 'or', 2],
]:
    for mode in ['formula', 'string']:
        run_cli(argv, mode)

# Direct calls to parse_command_line
fparser, tparser = setup_command_line_parsers('cnfgen',
                                              get_formula_helpers(),
                                              get_transformation_helpers())


def ns_dump(ns):
    d = {}
    for k, v in sorted(vars(ns).items()):
        if k in ('generator', 'transformation'):
            d[k] = v.name
        elif k == 'output':
            d[k] = getattr(v, 'name', type(v).__name__)
        else:
            d[k] = repr(v)
    return sorted(d.items())


for f in FORMULAS[:3]:
    for chain in CHAINS:
        argv = ['cnfgen'] + [str(x) for x in f + chain]
        orig = list(argv)
        random.seed(54321)
        err = io.StringIO()
        out = io.StringIO()
        try:
            with contextlib.redirect_stderr(err), contextlib.redirect_stdout(out):
                fargs, targs = parse_command_line(argv, fparser, tparser)
            rec('fargs', ns_dump(fargs))
            rec('targs', type(targs).__name__, len(targs),
                [ns_dump(t) for t in targs])
        except SystemExit as e:
            rec('SystemExit', e.code)
        except BaseException as e:
            rec('EXC', type(e).__name__, str(e))
        rec('argv untouched', argv == orig)
        rec('stdout', out.getvalue())
        rec('stderr', err.getvalue())

digest = hashlib.sha256('\n'.join(OUT).encode('utf-8')).hexdigest()
print(digest)
