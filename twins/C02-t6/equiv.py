import sys, os, hashlib, random, itertools, warnings, io, contextlib, argparse
warnings.simplefilter("ignore")
sys.path.insert(0, os.getcwd())
import networkx as nx
from cnfgen.graphs import Graph

_H = hashlib.sha256()


def emit(*items):
    for it in items:
        _H.update(repr(it).encode("utf-8"))
        _H.update(b"\x00")


def dump(tag, fn, *args, **kwargs):
    """Call fn and record everything observable about the outcome."""
    emit("CALL", tag)
    try:
        F = fn(*args, **kwargs)
    except Exception as exc:  # record the exception type and message
        emit("EXC", type(exc).__name__, str(exc))
        return None
    emit("HEADER", sorted((str(k), str(v)) for k, v in F.header.items()))
    emit("NVARS", F.number_of_variables(), "NCLS", F.number_of_clauses())
    emit("LABELS", list(F.all_variable_labels()))
    emit("CLAUSES", [list(c) for c in F.clauses()])
    emit("DIMACS", F.to_dimacs())
    return F


def mkgraph(n, edges, name=None):
    G = Graph(n, name=name) if name is not None else Graph(n)
    for u, v in edges:
        G.add_edge(u, v)
    return G


def run_cli(cli, argv, seed=4242):
    random.seed(seed)
    out, err = io.StringIO(), io.StringIO()
    code = None
    try:
        with contextlib.redirect_stdout(out), contextlib.redirect_stderr(err):
            cli(argv)
    except SystemExit as exc:
        code = exc.code
    except Exception as exc:
        emit("CLI-EXC", type(exc).__name__, str(exc))
    emit("CLI", argv, code, out.getvalue(), err.getvalue(), random.random())


# ---- T6: Graph.normalize (graph argument checking / conversion used by every graph family) ----
from cnfgen.graphs import BipartiteGraph, DirectedGraph
from cnfgen import (TseitinFormula, GraphColoringFormula, EvenColoringFormula,
                    DominatingSet, Tiling, GraphIsomorphism, GraphAutomorphism,
                    SubgraphFormula, CliqueFormula, BinaryCliqueFormula,
                    RamseyWitnessFormula)


class MyGraph(Graph):
    pass


class BrokenNodes(nx.Graph):
    """A networkx graph on which the conversion hits an AttributeError"""
    @property
    def nodes(self):
        raise AttributeError("no nodes here")


class BrokenEdges(nx.Graph):
    def edges(self, *a, **k):
        raise AttributeError("no edges here")


class BrokenOrder(nx.Graph):
    def order(self):
        raise KeyError("order")


def nxg(nodes, edges, name=None):
    G = nx.Graph()
    G.add_nodes_from(nodes)
    G.add_edges_from(edges)
    if name is not None:
        G.name = name
    return G


loop = nx.Graph([(1, 2), (2, 2)])
multi = nx.MultiGraph([(1, 2), (1, 2), (2, 3)])
inputs = [
    ("cnfgen-null", Graph(0)),
    ("cnfgen-one", Graph(1)),
    ("cnfgen-named", mkgraph(4, [(1, 2), (2, 3), (3, 4), (1, 4)], name="C4")),
    ("cnfgen-k4", Graph.complete_graph(4)),
    ("cnfgen-sub", MyGraph(3, name="sub")),
    ("nx-null", nx.null_graph()),
    ("nx-empty3", nx.empty_graph(3)),
    ("nx-path4", nx.path_graph(4)),
    ("nx-cycle5", nx.cycle_graph(5)),
    ("nx-k4", nx.complete_graph(4)),
    ("nx-grid", nx.grid_2d_graph(2, 3)),
    ("nx-str", nxg(["10", "9", "2", "-1"], [("10", "9"), ("2", "-1"), ("9", "2")], name="strings")),
    ("nx-mixed", nxg([3, "a", (1, 2), 2.5], [(3, "a"), ((1, 2), 2.5)], name="mixed")),
    ("nx-alpha", nxg(["b", "a", "c"], [("a", "c")])),
    ("nx-noname", nxg([1, 2, 3], [(1, 3)])),
    ("nx-loop", loop),
    ("nx-multi", multi),
    ("nx-digraph", nx.DiGraph([(1, 2), (2, 3), (3, 1)])),
    ("nx-broken-nodes", BrokenNodes([(1, 2)])),
    ("nx-broken-edges", BrokenEdges([(1, 2)])),
    ("nx-broken-order", BrokenOrder([(1, 2)])),
    ("bipartite", BipartiteGraph(2, 2)),
    ("directed", DirectedGraph(3)),
    ("none", None), ("int", 5), ("str", "complete 4"), ("list", [(1, 2)]),
    ("dict", {1: [2]}), ("type", Graph), ("tuple", (3, [(1, 2)])),
]


def describe(G):
    return (type(G).__name__, G.name, G.order(), G.number_of_edges(),
            list(G.edges()), [list(G.neighbors(v)) for v in G.vertices()])


# 1. direct calls of the class method
for tag, obj in inputs:
    for cls in (Graph, MyGraph):
        for varname in (None, '', 'G', 'H', 'the {} graph'):
            emit("NORM", tag, cls.__name__, varname)
            try:
                if varname is None:
                    R = cls.normalize(obj)
                else:
                    R = cls.normalize(obj, varname)
            except Exception as exc:
                ctx = exc.__context__
                emit("EXC", type(exc).__name__, str(exc),
                     type(ctx).__name__, str(ctx), exc.__suppress_context__)
            else:
                emit("OK", R is obj, describe(R))
dump("kw", lambda: TseitinFormula(Graph.normalize(G=nx.path_graph(3), varname='Z')))
emit("NOARG")
try:
    Graph.normalize()
except Exception as exc:
    emit("EXC", type(exc).__name__, str(exc))

# 2. every graph family of the property, through its own normalisation call
families = [
    ("tseitin", lambda G: TseitinFormula(G)),
    ("tseitin-ch", lambda G: TseitinFormula(G, [1, 0, 1])),
    ("kcolor", lambda G: GraphColoringFormula(G, 3)),
    ("kcolor-nf", lambda G: GraphColoringFormula(G, 2, functional=False)),
    ("ec", lambda G: EvenColoringFormula(G)),
    ("domset", lambda G: DominatingSet(G, 2)),
    ("domset-alt", lambda G: DominatingSet(G, 2, alternative=True)),
    ("tiling", lambda G: Tiling(G)),
    ("auto", lambda G: GraphAutomorphism(G)),
    ("iso-left", lambda G: GraphIsomorphism(G, Graph.complete_graph(3))),
    ("iso-right", lambda G: GraphIsomorphism(Graph.complete_graph(3), G)),
    ("iso-both", lambda G: GraphIsomorphism(G, G)),
    ("sub-G", lambda G: SubgraphFormula(G, Graph.complete_graph(2))),
    ("sub-H", lambda G: SubgraphFormula(Graph.complete_graph(4), G)),
    ("sub-ind", lambda G: SubgraphFormula(G, Graph.empty_graph(2), induced=True)),
    ("sub-sym", lambda G: SubgraphFormula(Graph.complete_graph(4), G, induced=True, symbreak=True)),
    ("kclique", lambda G: CliqueFormula(G, 3)),
    ("kclique-nosb", lambda G: CliqueFormula(G, 2, symbreak=False)),
    ("kcliquebin", lambda G: BinaryCliqueFormula(G, 2)),
    ("kcliquebin-nosb", lambda G: BinaryCliqueFormula(G, 3, symbreak=False)),
    ("ramlb", lambda G: RamseyWitnessFormula(G, 2, 2)),
    ("ramlb-nosb", lambda G: RamseyWitnessFormula(G, 3, 2, symbreak=False)),
]
for ftag, fam in families:
    for tag, obj in inputs:
        dump((ftag, tag), fam, obj)

# 3. command line: graphs read from files go through the same conversion
import tempfile
from cnfgen.clitools.cnfgen import cli as cnfgen_cli
tmp = tempfile.mkdtemp()
try:
    gml = os.path.join(tmp, "g.gml")
    nx.write_gml(nx.cycle_graph(4), gml)
    kth = os.path.join(tmp, "g.kthlist")
    with open(kth, "w") as f:
        f.write("c test\n4\n1 : 2 3 0\n2 : 1 0\n3 : 1 4 0\n4 : 3 0\n")
    dim = os.path.join(tmp, "g.dimacs")
    with open(dim, "w") as f:
        f.write("p edge 4 3\ne 1 2\ne 2 3\ne 3 4\n")
    os.chdir(tmp)
    for fam in (["tseitin", "first"], ["kcolor", "2"], ["ec"], ["domset", "2"],
                ["domset", "-a", "1"], ["tiling"], ["iso"], ["kclique", "2"],
                ["kcliquebin", "2"], ["ramlb", "2", "2"]):
        for gspec in (["g.gml"], ["g.kthlist"], ["g.dimacs"], ["missing.gml"],
                      ["grid", "2", "2"], ["complete", "0"]):
            run_cli(cnfgen_cli, ["cnfgen", "-q"] + fam + gspec)
    run_cli(cnfgen_cli, ["cnfgen", "-q", "iso", "g.gml", "-e", "g.kthlist"])
    run_cli(cnfgen_cli, ["cnfgen", "-q", "subgraph", "-G", "g.gml", "-H", "g.dimacs"])
finally:
    import shutil
    shutil.rmtree(tmp, ignore_errors=True)

print(_H.hexdigest())
