#!/usr/bin/env python
"""Equivalence script for t26: index loops in transformations.shuffle.Shuffle
replaced by any() / list comparisons / enumerate(zip(...))"""
import sys
import os
import io
import hashlib
import random
from contextlib import redirect_stderr

sys.path.insert(0, os.getcwd())

from cnfgen.formula.cnf import CNF
from cnfgen.transformations.shuffle import Shuffle
from cnfgen.clitools import cnfgen as cnfgen_cli
from cnfgen.clitools import cnfshuffle as cnfshuffle_cli
from cnfgen.clitools import CLIError
from cnfgen.clitools import redirect_stdin

out = []


def record(*items):
    out.append(repr(items))


def cnf_obs(F):
    return (F.number_of_variables(), F.number_of_clauses(),
            [tuple(c) for c in F.clauses()], sorted(F.header.items(), key=str),
            F.to_dimacs())


def make_formulas():
    res = []
    res.append(('empty', CNF()))
    F = CNF()
    F.update_variable_number(3)
    res.append(('novars-clauses', F))
    F = CNF([[]])
    res.append(('emptyclause', F))
    F = CNF([[1]])
    res.append(('unit', F))
    F = CNF([[1, -2], [2, -3], [3, -1], [1, 2, 3], [-1, -2, -3]])
    F.header['description'] = 'a small formula'
    res.append(('small', F))
    F = CNF([[1, -2], [1, -2], [], [4]])
    F.update_variable_number(6)
    F.header['transformation 1'] = 'something'
    F.header['transformation 2'] = 'something else'
    res.append(('dups', F))
    rnd = random.Random(2024)
    F = CNF()
    F.update_variable_number(12)
    for _ in range(30):
        k = rnd.randint(1, 5)
        vs = rnd.sample(range(1, 13), k)
        F.add_clause([v * rnd.choice([-1, 1]) for v in vs])
    res.append(('rand', F))
    return res


FORMULAS = make_formulas()


def try_shuffle(tag, F, *args, **kwargs):
    try:
        G = Shuffle(F, *args, **kwargs)
        record(tag, 'ok', cnf_obs(G), random.random())
    except Exception as e:
        record(tag, 'exc', type(e).__name__, str(e))


MODES = ['fixed', 'shuffle']
for name, F in FORMULAS:
    for seed in [0, 1, 31337]:
        random.seed(seed)
        try_shuffle(('default', name, seed), F)
        for pf in MODES:
            for vp in MODES:
                for cp in MODES:
                    random.seed(seed)
                    try_shuffle(('modes', name, seed, pf, vp, cp), F, pf, vp, cp)
    # shuffling does not alter the original
    record('orig', name, cnf_obs(F))

# explicit permutations
for name, F in FORMULAS:
    N = F.number_of_variables()
    M = F.number_of_clauses()
    rnd = random.Random(77)
    for rep in range(4):
        flips = [rnd.choice([-1, 1]) for _ in range(N)]
        vperm = list(range(1, N + 1))
        rnd.shuffle(vperm)
        cperm = list(range(M))
        rnd.shuffle(cperm)
        random.seed(5)
        try_shuffle(('explicit', name, rep), F, flips, vperm, cperm)
        try_shuffle(('explicit-tuples', name, rep), F, tuple(flips), tuple(vperm), tuple(cperm))
        try_shuffle(('explicit-kw', name, rep), F, polarity_flips=flips)
        try_shuffle(('explicit-kw2', name, rep), F, variables_permutation=vperm, clauses_permutation='fixed')
        try_shuffle(('explicit-kw3', name, rep), F, polarity_flips='fixed', clauses_permutation=cperm)
        try_shuffle(('explicit-range', name, rep), F, 'fixed', range(1, N + 1), range(M))
        try_shuffle(('explicit-floats', name, rep), F, [float(x) for x in flips], 'fixed', 'fixed')

# invalid arguments
name, F = FORMULAS[4]
N = F.number_of_variables()
M = F.number_of_clauses()
bad_flips = [[1] * (N - 1), [1] * (N + 1), [], [1, 1, 0], [1, -1, 2], [2, 1, 1], [1, 1, -3],
             [1, 'a', 1], ['a', 2, 1], [2, 'a', 1], [None, 1, 1], 'abc', 'fix', [1, 1, 1.5], (1, -1, 1), 5, None]
for bf in bad_flips:
    random.seed(1)
    try_shuffle(('badflips', repr(bf)), F, bf, 'shuffle', 'shuffle')
bad_vperm = [[1, 2], [1, 2, 3, 4], [], [1, 2, 2], [0, 1, 2], [2, 3, 4], [3, 2, 1], [1, 3, 3], [1, 2, 'a'],
             ['a', 'b', 'c'], [1.0, 2.0, 3.0], [1, 2, 3.5], [None, 1, 2], 'abc', 'other', (2, 3, 1), 7, None,
             [-1, -2, -3], [1, 1, 1]]
for bv in bad_vperm:
    random.seed(1)
    try_shuffle(('badvperm', repr(bv)), F, 'shuffle', bv, 'shuffle')
bad_cperm = [[0, 1, 2, 3], [0, 1, 2, 3, 4, 5], [], [0, 1, 2, 3, 3], [1, 2, 3, 4, 5], [4, 3, 2, 1, 0],
             [0, 0, 0, 0, 0], [0, 1, 2, 3, 'a'], [0.0, 1.0, 2.0, 3.0, 4.0], [0, 1, 2, 3, 4.5], 'abcde', 'other',
             (1, 0, 3, 2, 4), 9, None, [-1, 0, 1, 2, 3], [None] * 5]
for bc in bad_cperm:
    random.seed(1)
    try_shuffle(('badcperm', repr(bc)), F, 'shuffle', 'shuffle', bc)
# the first error reported when several arguments are wrong
try_shuffle(('bad-all',), F, [1], [1], [1])
try_shuffle(('bad-vc',), F, 'fixed', [1], [1])

# command line: cnfshuffle and cnfgen -T shuffle
dimacs_inputs = [F.to_dimacs() for _, F in FORMULAS] + ["p cnf 0 0\n", "c comment\np cnf 3 2\n1 -2 0\n3 0\n",
                                                         "p cnf 2 1\n1 2 3 0\n", "garbage\n"]
for text in dimacs_inputs:
    for argv in [['cnfshuffle', '--seed', '0'], ['cnfshuffle', '-S', '42'], ['cnfshuffle', '--seed', '42', '-q'],
                 ['cnfshuffle', '--seed', '42', '-p'], ['cnfshuffle', '--seed', '42', '-v'],
                 ['cnfshuffle', '--seed', '42', '-c'], ['cnfshuffle', '--seed', '42', '-p', '-v', '-c'],
                 ['cnfshuffle', '--seed', 'hello']]:
        for rep in range(2):
            err = io.StringIO()
            try:
                with redirect_stdin(io.StringIO(text)), redirect_stderr(err):
                    res = cnfshuffle_cli(argv, mode='string')
                record('cnfshuffle', argv, text, res, err.getvalue())
            except CLIError as e:
                record('cnfshuffle-clierr', argv, text, str(e))
            except SystemExit as e:
                record('cnfshuffle-exit', argv, text, e.code, err.getvalue())
            except Exception as e:
                record('cnfshuffle-exc', argv, text, type(e).__name__, str(e))

cmdlines = [
    ['cnfgen', '--seed', '0', 'php', '4', '3', '-T', 'shuffle'],
    ['cnfgen', '--seed', '9', 'randkcnf', '3', '8', '15', '-T', 'shuffle'],
    ['cnfgen', '--seed', '9', 'op', '4', '-T', 'shuffle', '-p'],
    ['cnfgen', '--seed', '9', 'op', '4', '-T', 'shuffle', '-v', '-c'],
    ['cnfgen', '--seed', '9', 'kclique', '3', 'gnp', '5', '.6', '-T', 'shuffle', '-T', 'xor', '2'],
    ['cnfgen', '--seed', '9', 'parity', '4', '-T', 'shuffle', '-T', 'shuffle'],
    ['cnfgen', '-q', '--seed', '9', 'tseitin', 'random', 'gnd', '6', '3', '-T', 'shuffle'],
]
for argv in cmdlines:
    for rep in range(2):
        err = io.StringIO()
        try:
            with redirect_stderr(err):
                text = cnfgen_cli(argv, mode='string')
            record('cli', argv, text, err.getvalue())
        except CLIError as e:
            record('cli-err', argv, str(e))
        except SystemExit as e:
            record('cli-exit', argv, e.code, err.getvalue())
        except Exception as e:
            record('cli-exc', argv, type(e).__name__, str(e))

blob = "\n".join(out)
if os.environ.get('EQUIV_DUMP'):
    open(os.environ['EQUIV_DUMP'], 'w').write(blob)
print(hashlib.sha256(blob.encode('utf-8')).hexdigest())
