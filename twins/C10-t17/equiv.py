#!/usr/bin/env python
"""Equivalence check for cnfgen.formula.baseopb.normalize_opb and everything that
funnels constraints through it (BaseOPB/OPB.add_constraint, cardinality helpers,
mapping constraints, families built with formula_class=OPB, `pbgen`).
Prints one SHA256 digest of everything observed."""
import sys, os, io, hashlib, random, copy
from fractions import Fraction
sys.path.insert(0, os.getcwd())

from cnfgen.formula.baseopb import normalize_opb, BaseOPB
from cnfgen.formula.opb import OPB
from cnfgen.families.pigeonhole import PigeonholePrinciple, RelativizedPigeonholePrinciple
from cnfgen.families.subsetcardinality import SubsetCardinalityFormula
from cnfgen.families.counting import CountingPrinciple, PerfectMatchingPrinciple
from cnfgen.families.coloring import EvenColoringFormula
from cnfgen.families.ramsey import VanDerWaerden
from cnfgen.families.dominatingset import DominatingSet
from cnfgen.graphs import Graph, BipartiteGraph
from cnfgen.clitools.pbgen import cli as pbgen

H = hashlib.sha256()
def rec(*items):
    for it in items:
        H.update(repr(it).encode('utf-8'))
        H.update(b'\x00')

def excinfo(e):
    out = [type(e).__name__, str(e)]
    c = e.__cause__
    out.append(None if c is None else (type(c).__name__, str(c)))
    return out

# ---------------------------------------------------------------- direct calls
OPS = ['>=', '<=', '==', '>', '<', '!=', '=', None, 7]
rnd = random.Random(31337)

def random_terms(n):
    return [(rnd.randint(-6, 6), rnd.choice([-1, 1]) * rnd.randint(1, 40)) for _ in range(n)]

CASES = []
for op in OPS:
    for value in (-3, 0, 1, 5):
        CASES.append([op, value])                       # no terms at all
        CASES.append([(1, 3), op, value])
        CASES.append([(-1, 3), op, value])
        CASES.append([(0, 3), op, value])
        CASES.append([(2, -3), (-2, 4), (0, -5), (7, 6), op, value])
        CASES.append([(-2, -3), (-2, -3), (-2, 3), op, value])
for _ in range(300):
    CASES.append(random_terms(rnd.randint(0, 12)) + [rnd.choice(OPS[:5]), rnd.randint(-10, 10)])
# big ones
for _ in range(5):
    CASES.append(random_terms(3000) + [rnd.choice(OPS[:5]), rnd.randint(-10, 10)])
# odd but accepted / rejected shapes
CASES += [
    [[1, 3], [-2, 4], '>=', 1],                         # pairs given as lists
    [[1, 3], [-2, 4], '<=', 1],
    [(1.5, 3), (-2.5, 4), '>=', 1],                     # float coefficients
    [(1.5, 3), (-2.5, 4), '<', 1.25],
    [(Fraction(-1, 2), 3), (Fraction(3, 2), -4), '<=', Fraction(1, 3)],
    [(float('nan'), 3), (-1, 2), '>=', 1],
    [(float('nan'), 3), (-1, 2), '<=', 1],
    [(True, 3), (False, 4), '<=', True],
    [(1, 0), (-1, 0), '>=', 0],                         # literal 0
    [(-1, 2.5), '>=', 0],
    [(-1, 'x'), '>=', 0],                               # literal that cannot be negated
    [('a', 1), '>=', 0],                                # coefficient that cannot be compared
    [('a', 1), '<=', 0],
    [(None, 1), '>=', 0],
    [(1, 2, 3), '>=', 0],                               # wrong arity
    [(1,), '>=', 0],
    [5, '>=', 0],
    [(1, 2), '>=', 'v'],
    [(-1, 2), '>=', 'v'],
    [(1, 2), '<', 'v'],
    [(-1, 'x'), '>=', 'v'],                             # two faults at once: which one is reported
    [(-1, 'x'), (-1, 2), '<=', 'v'],
    [(None, 'x'), '>=', 'v'],
    [(-1, 2), (-2, 'x'), '>', 3],
    [(1, 2), '<=', None],
    [(1, 2)],
    [],
    ['>='],
    ((1, 3), (2, -4), '>=', 1),                         # tuples instead of lists
    ((1, 3), (-2, -4), '>=', 1),
    ((1, 3), (-2, -4), '<=', 1),
    ((1, 3), (2, -4), '<', 1),
    "ab>=1",
    None,
    7,
]

for k, case in enumerate(CASES):
    arg = copy.deepcopy(case)
    try:
        out = normalize_opb(arg)
        rec('norm', k, out, type(out).__name__, [type(t).__name__ for t in out])
    except Exception as e:
        rec('norm exc', k, excinfo(e))
    # the argument is never modified
    rec('arg same', repr(arg) == repr(case))

# ---------------------------------------------------------------- through the formula classes
def observe(tag, F):
    n = F.number_of_variables()
    cons = list(F)
    lits_ok = all(isinstance(l, int) and l != 0 and 1 <= abs(l) <= n
                  for c in cons for (_, l) in c[:-2])
    rec(tag, n, len(F), cons, lits_ok, F.debug(allow_opposite=True, allow_repetition=True))
    try:
        rec(F.to_opb())
    except Exception as e:
        rec('to_opb exc', excinfo(e))

for cls in (BaseOPB, OPB):
    for check in (True, False):
        F = cls()
        for k, case in enumerate(CASES):
            arg = copy.deepcopy(case)
            try:
                F.add_constraint(arg, check=check)
                rec('added', k, F.number_of_variables(), len(F), F[-1] if len(F) else None)
            except Exception as e:
                rec('add exc', k, excinfo(e), F.number_of_variables(), len(F))
        rec(cls.__name__, check, F.number_of_variables(), len(F))

    # constructor
    try:
        F = cls([[(1, 1), (-2, 2), '<', 3], [(-1, -7), '>', -2]])
        observe('ctor', F)
    except Exception as e:
        rec('ctor exc', excinfo(e))
    try:
        cls([[(1, 1), (-2, 0), '<', 3]])
    except Exception as e:
        rec('ctor exc', excinfo(e))

    # cardinality helpers, interleaved with variable creation
    F = cls()
    lits = [1, -4, 2, -3, 6, -5]
    for value in (-1, 0, 1, 3, 6, 7):
        F.cardinality_geq(lits, value)
        F.cardinality_leq(lits, value)
        F.cardinality_eq(lits, value)
        F.cardinality_neq(lits, value)
        F.cardinality_leq(iter(lits), value)
    F.add_loose_majority(lits); F.add_loose_minority(lits)
    F.add_strict_majority(lits); F.add_strict_minority(lits)
    F.add_loose_majority(lits[:5]); F.add_loose_minority(lits[:5])
    F.add_strict_majority(lits[:5]); F.add_strict_minority(lits[:5])
    F.add_loose_minority([]); F.add_strict_minority([]); F.cardinality_leq([], 0)
    F.add_parity([1, -2, 9], 1)
    F.add_clause([-11, 3])
    F.add_constraints_from([[(3, 12), (-3, -13), '<=', 2], [(-4, 14), '<', 0]])
    observe('helpers', F)
    for bad in ([1, 0, 2], [1, 'a'], [1.5, 2]):
        for meth in ('cardinality_leq', 'cardinality_geq', 'cardinality_eq'):
            try:
                getattr(F, meth)(bad, 1)
                rec('bad accepted', meth, bad, F.number_of_variables(), F[-1])
            except Exception as e:
                rec('bad exc', meth, bad, excinfo(e), F.number_of_variables(), len(F))

# variable groups and constraints interleaved (OPB only)
F = OPB()
f = F.new_mapping(6, 4)
F.force_complete_mapping(f)
F.force_functional_mapping(f)
F.force_injective_mapping(f)
x = F.new_variable('x')
F.add_constraint([(-3, x), (2, -f(1, 1)), '<', 0])
Bg = BipartiteGraph(3, 5)
for u in range(1, 4):
    for v in range(1, 6):
        if (u + v) % 4 != 0:
            Bg.add_edge(u, v)
g = F.new_sparse_mapping(Bg)
F.force_complete_mapping(g)
F.force_functional_mapping(g)
F.force_injective_mapping(g)
F.force_surjective_mapping(g)
b = F.new_block(2, 3)
F.cardinality_leq(b(1, None), 1)
F.add_constraint([(-1, v) for v in b(None, 2)] + ['>', -2])
F.add_constraint([(1, F.number_of_variables() + 3), '<=', 0])
try:
    F.new_block(2)
    y = F.new_variable('y')
    rec('fresh', y, F.number_of_variables())
except Exception as e:
    rec(excinfo(e))
observe('interleaved', F)
rec(list(F.all_variable_labels()))

# ---------------------------------------------------------------- families
random.seed(77)
import networkx
def fam():
    yield 'php', PigeonholePrinciple(9, 7, formula_class=OPB)
    yield 'fphp', PigeonholePrinciple(7, 9, functional=True, onto=True, formula_class=OPB)
    yield 'rphp', RelativizedPigeonholePrinciple(5, 7, 4, formula_class=OPB)
    B = BipartiteGraph(8, 8)
    for u in range(1, 9):
        for d in (0, 1, 3):
            B.add_edge(u, (u + d - 1) % 8 + 1)
    yield 'subsetcard', SubsetCardinalityFormula(B, formula_class=OPB)
    yield 'subsetcard-eq', SubsetCardinalityFormula(B, equalities=True, formula_class=OPB)
    yield 'count', CountingPrinciple(9, 3, formula_class=OPB)
    G = Graph.from_networkx(networkx.circulant_graph(10, [1, 2]))
    yield 'matching', PerfectMatchingPrinciple(G, formula_class=OPB)
    yield 'ec', EvenColoringFormula(G, formula_class=OPB)
    yield 'vdw', VanDerWaerden(12, 3, 3, formula_class=OPB)
    yield 'domset', DominatingSet(G, 3, formula_class=OPB)
    yield 'domset-alt', DominatingSet(G, 3, alternative=True, formula_class=OPB)
for name, F in fam():
    observe(name, F)
    rec(list(F.all_variable_labels())[:15], list(F.header.items()))

# ---------------------------------------------------------------- command line
for argv in (['pbgen', '-q', 'php', '8', '6'],
             ['pbgen', 'php', '5', '4', '--functional', '--onto'],
             ['pbgen', '-q', 'subsetcard', '7'],
             ['pbgen', '-q', 'subsetcard', '8', '4'],
             ['pbgen', '-q', '--seed', '5', 'ec', 'gnd', '10', '4'],
             ['pbgen', '-q', '--seed', '5', 'parity', '9'],
             ['pbgen', '-q', '--seed', '5', 'matching', 'gnp', '8', '.6'],
             ['pbgen', '-q', 'count', '9', '3'],
             ['pbgen', '-q', 'vdw', '10', '3', '3'],
             ['pbgen', '-q', 'domset', '3', 'grid', '3', '4'],
             ['pbgen', '-v', 'rphp', '4', '3', '3'],
             ['pbgen', '-q', '-of', 'latex', 'php', '3', '2'],
             ['pbgen', '-q', 'php', '0', '0'],
             ['pbgen', '-q', 'php', '4', '3', '-T', 'xor', '2']):
    try:
        rec(argv, pbgen(argv, mode='string'))
    except SystemExit as e:
        rec(argv, 'exit', e.code)
    except Exception as e:
        rec(argv, excinfo(e)[:2])

print(H.hexdigest())
