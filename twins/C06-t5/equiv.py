"""Equivalence script for the refactoring of cnfgen.formula.cnfio.guess_output_format
(and CNFio.to_file which dispatches on it)."""
import sys, os, io, hashlib, tempfile
sys.path.insert(0, os.getcwd())

from cnfgen.formula.cnfio import guess_output_format, CNFio
from cnfgen.formula.cnf import CNF

out = []
TMP = [None]
def rec(*a):
    s = repr(a)
    if TMP[0]:
        s = s.replace(TMP[0], '<TMP>')
    out.append(s)

class Named:
    def __init__(self, name):
        self.name = name
class NoName:
    pass
class BadName:
    @property
    def name(self):
        raise ValueError("no name today")
class IdxName:
    @property
    def name(self):
        raise IndexError("idx")
class KeyName:
    @property
    def name(self):
        raise KeyError("key")

files = [None, '', 'a', 'a.tex', 'a.opb', 'a.cnf', 'a.TEX', 'a.tex.cnf', 'a.cnf.tex',
         '.tex', '.opb', 'tex', 'opb', 'dir.tex/file', 'dir/file.opb', 'x.', 'x..tex',
         'a.latex', 'a.dimacs', b'a.tex', 12, 3.5, ['a.tex'], ('a.opb',),
         Named('n.tex'), Named('n.opb'), Named('n.cnf'), Named(''), Named(None),
         Named(7), Named(b'q.tex'), Named(['x']), NoName(), BadName(), IdxName(), KeyName(),
         io.StringIO(), sys.stdout]
reqs = [None, 'latex', 'dimacs', 'opb', 'tex', 'cnf', '', 'LATEX', 'Dimacs', 0, 1, False,
        True, ['latex'], ('opb',), b'opb', 3.0]

for fi, f in enumerate(files):
    for r in reqs:
        try:
            res = guess_output_format(f, r)
            rec('ok', fi, type(f).__name__, repr(r), res)
        except BaseException as e:
            rec('exc', fi, type(f).__name__, repr(r), type(e).__name__, str(e))

# to_file dispatch through guess_output_format
formulas = []
formulas.append(CNF())
formulas.append(CNF([[]]))
formulas.append(CNF([[1, -2], [], [3]], description='weird éè name\nsecond line'))
F = CNF(description='with names')
x = F.new_variable('x y')
b = F.new_block(2, 2, label='b_{{{},{}}}')
F.update_variable_number(8)
F.add_clause([x, -b(1, 2)])
F.add_clause([b(2, 2), 8])
formulas.append(F)

tmpdir = tempfile.mkdtemp()
TMP[0] = tmpdir
try:
    for i, G in enumerate(formulas):
        for fname in ['o.cnf', 'o.tex', 'o.opb', 'o', 'o.tex.cnf', '.opb']:
            for ff in [None, 'dimacs', 'latex', 'opb', 'bogus', 'tex']:
                for hdr in (True, False):
                    for vn in (True, False):
                        path = os.path.join(tmpdir, fname)
                        # by name
                        try:
                            G.to_file(path, fileformat=ff, export_header=hdr, export_varnames=vn)
                            with open(path, encoding='utf-8') as fh:
                                rec('file', i, fname, ff, hdr, vn, fh.read())
                            os.remove(path)
                        except BaseException as e:
                            rec('fexc', i, fname, ff, hdr, vn, type(e).__name__, str(e))
                        # by named object
                        try:
                            with open(path, 'w', encoding='utf-8') as fh:
                                G.to_file(fh, fileformat=ff, export_header=hdr, export_varnames=vn)
                            with open(path, encoding='utf-8') as fh:
                                rec('fobj', i, fname, ff, hdr, vn, fh.read())
                            os.remove(path)
                        except BaseException as e:
                            rec('foexc', i, fname, ff, hdr, vn, type(e).__name__, str(e))
        # nameless object
        for ff in [None, 'dimacs', 'latex', 'opb', 'zzz']:
            buf = io.StringIO()
            try:
                G.to_file(buf, fileformat=ff)
                rec('buf', i, ff, buf.getvalue())
            except BaseException as e:
                rec('bexc', i, ff, type(e).__name__, str(e))
        # round trip
        buf = io.StringIO()
        G.to_file(buf, export_varnames=True)
        buf.seek(0)
        H = CNF.from_file(buf)
        rec('rt', i, H.number_of_variables(), list(H), H.header['description'])
finally:
    for f in os.listdir(tmpdir):
        os.remove(os.path.join(tmpdir, f))
    os.rmdir(tmpdir)

print(hashlib.sha256("\n".join(out).encode('utf-8', 'backslashreplace')).hexdigest())
