"""Equivalence script for modify_bipartite_graph_plantbiclique (cnfgen/clitools/graph_build.py)."""
import os, sys, hashlib, random, io, contextlib
sys.path.insert(0, os.getcwd())

from cnfgen.graphs import BipartiteGraph, CompleteBipartiteGraph
from cnfgen.clitools.graph_build import modify_bipartite_graph_plantbiclique
from cnfgen.clitools.graph_args import make_graph_from_spec
from cnfgen.clitools.cnfgen import cli as cnfgen_cli
from cnfgen.clitools.pbgen import cli as pbgen_cli

H = hashlib.sha256()


def rec(*items):
    H.update((repr(items) + "\n").encode())


def snapshot(G):
    L, R = G.parts()
    return (list(L), list(R), G.number_of_edges(), list(G.edges()),
            [list(G.right_neighbors(u)) for u in L],
            [list(G.left_neighbors(v)) for v in R], G.name)


def mk(l, r, p, seed):
    rnd = random.Random(seed)
    G = BipartiteGraph(l, r, name='B({},{},{})'.format(l, r, p))
    for u in range(1, l + 1):
        for v in range(1, r + 1):
            if rnd.random() < p:
                G.add_edge(u, v)
    return G


# direct calls with a parsed dictionary
for l, r in ((1, 1), (1, 4), (3, 2), (4, 4), (6, 9)):
    for p in (0.0, 0.4, 1.0):
        for a in (0, 1, l - 1, l, l + 1):
            for b in (0, 1, r - 1, r, r + 2):
                for seed in (0, 3, -12):
                    G = mk(l, r, p, l * 100 + r)
                    random.seed(seed)
                    try:
                        G2 = modify_bipartite_graph_plantbiclique(
                            {'plantbiclique': [str(a), str(b)]}, G)
                        rec('ok', l, r, p, a, b, seed, G2 is G, snapshot(G), random.random())
                    except Exception as e:
                        rec('exc', l, r, p, a, b, seed, type(e).__name__, str(e),
                            snapshot(G), random.random())

# malformed argument lists
for bad in ([], ['1'], ['1', '2', '3'], ['a', '1'], ['1', 'b'], ['-1', '1'], ['1', '-1'],
            [None, 1], [1, 1], [1.9, 1.2], ['1.5', '1'], None, 7, ['', '']):
    G = mk(3, 3, 0.5, 8)
    random.seed(5)
    try:
        G2 = modify_bipartite_graph_plantbiclique({'plantbiclique': bad}, G)
        rec('okbad', repr(bad), snapshot(G2), random.random())
    except Exception as e:
        rec('excbad', repr(bad), type(e).__name__, str(e), snapshot(G), random.random())

G = CompleteBipartiteGraph(3, 4)
G.name = 'K'
random.seed(9)
rec('complete', snapshot(modify_bipartite_graph_plantbiclique({'plantbiclique': ['2', '3']}, G)),
    random.random())

# graph specifications
specs = [
    ['glrp', '5', '4', '.3', 'plantbiclique', '2', '2'],
    ['glrp', '5', '4', '0', 'plantbiclique', '5', '4'],
    ['glrp', '5', '4', '0', 'plantbiclique', '0', '0'],
    ['glrp', '5', '4', '0', 'plantbiclique', '6', '1'],
    ['glrp', '5', '4', '0', 'plantbiclique', '1', '5'],
    ['glrp', '5', '4', '0', 'plantbiclique', '1'],
    ['glrp', '5', '4', '0', 'plantbiclique', '1', 'x'],
    ['glrm', '6', '7', '10', 'plantbiclique', '3', '2', 'addedges', '4'],
    ['glrd', '6', '7', '2', 'plantbiclique', '2', '4'],
    ['regular', '6', '4', '2', 'plantbiclique', '3', '3'],
    ['shift', '5', '6', '0', '2', 'plantbiclique', '2', '2'],
    ['empty', '4', '3', 'plantbiclique', '2', '3'],
    ['complete', '4', '3', 'plantbiclique', '2', '3'],
]
for spec in specs:
    for seed in (0, 1, 1234):
        random.seed(seed)
        try:
            G = make_graph_from_spec('bipartite', spec)
            rec('spec', spec, seed, snapshot(G), random.random())
        except Exception as e:
            rec('specexc', spec, seed, type(e).__name__, str(e), random.random())

# full command lines
cmdlines = [
    ['--seed', '0', 'php', 'glrp', '5', '4', '.3', 'plantbiclique', '2', '2'],
    ['--seed', '7', 'php', 'glrd', '6', '5', '2', 'plantbiclique', '3', '2', 'addedges', '2'],
    ['--seed', '-4', 'subsetcard', 'regular', '6', '6', '3', 'plantbiclique', '2', '2'],
    ['--seed', '7', 'php', 'glrm', '4', '4', '5', 'plantbiclique', '5', '1'],
    ['--seed', '7', 'php', 'glrm', '4', '4', '5', 'plantbiclique', '1', '-2'],
    ['--seed', '7', 'php', 'glrm', '4', '4', '5', 'plantbiclique', '2'],
    ['--seed', '11', 'parity', 'glrp', '4', '4', '.5', 'plantbiclique', '2', '2'],
]
for cl in cmdlines:
    for tool, name in ((cnfgen_cli, 'cnfgen'), (pbgen_cli, 'pbgen')):
        argv = [name] + cl
        err = io.StringIO()
        out = io.StringIO()
        try:
            with contextlib.redirect_stderr(err), contextlib.redirect_stdout(out):
                s = tool(argv, mode='string')
                F = tool(argv, mode='formula')
            rec('cli', argv, s, sorted(F.header.items()), out.getvalue(), err.getvalue())
        except SystemExit as e:
            rec('cliexit', argv, e.code, out.getvalue(), err.getvalue())
        except Exception as e:
            rec('cliexc', argv, type(e).__name__, str(e), out.getvalue(), err.getvalue())

print(H.hexdigest())
