"""Equivalence check for cnfgen.clitools.msg (error_msg, interactive_msg).

Calls the two message functions directly with many prefixes, widths and
message objects, with an interactive and a non interactive stdin, and then
runs the command line tools cnfgen, pbgen, cnfshuffle and kthlist2pebbling
on command lines ending in formulas, helps and shielded errors. Digests
everything that reaches stdout/stderr plus exceptions and exit codes.
"""
import sys
import io
import os
import hashlib
import warnings
import random
import importlib
import tempfile
import shutil

warnings.simplefilter('ignore')
sys.path.insert(0, os.getcwd())

msgmod = importlib.import_module("cnfgen.clitools.msg")
from cnfgen.info import info

tools = {
    'cnfgen': importlib.import_module("cnfgen.clitools.cnfgen"),
    'pbgen': importlib.import_module("cnfgen.clitools.pbgen"),
    'cnfshuffle': importlib.import_module("cnfgen.clitools.cnfshuffle"),
    'kthlist2pebbling': importlib.import_module("cnfgen.clitools.kthlist2pebbling"),
}

out = []


def rec(*items):
    out.append(repr(items))


class Buf(io.StringIO):
    tty = False

    def close(self):
        pass

    def isatty(self):
        return self.tty


class Tty(Buf):
    tty = True


class Weird:
    def __str__(self):
        return "   weird object\n     on two lines"


def call_msg(fname, prefixes, msg, tty, *args, **kwargs):
    msgmod._prefix = ''
    saved = sys.stdout, sys.stderr, sys.stdin
    so, se = Buf(), Buf()
    sys.stdout, sys.stderr = so, se
    sys.stdin = Tty('') if tty else Buf('')
    res = None
    try:
        try:
            fn = getattr(msgmod, fname)
            if len(prefixes) == 0:
                res = ('ret', fn(msg, *args, **kwargs))
            elif len(prefixes) == 1:
                with msgmod.msg_prefix(prefixes[0]):
                    res = ('ret', fn(msg, *args, **kwargs))
            else:
                with msgmod.msg_prefix(prefixes[0]):
                    with msgmod.msg_prefix(prefixes[1]):
                        res = ('ret', fn(msg, *args, **kwargs))
        except BaseException as e:
            res = ('exc', type(e).__name__, str(e))
    finally:
        sys.stdout, sys.stderr, sys.stdin = saved
    rec(fname, prefixes, repr(msg) if isinstance(msg, str) else str(type(msg)),
        tty, args, sorted(kwargs.items()), res, so.getvalue(), se.getvalue(),
        msgmod._prefix)


LONG = """
    The formula generation process you asked for needs a graph in
    input. Graph format was not specified on the command line and there no
    file name extension to guess that from, thus it is impossible
    to proceed."""

messages = [
    '', 'short', 'two\nlines', '  indented\n    more\n  back', LONG,
    'trailing newline\n', '\n\nblank lines around\n\n', 'x' * 100,
    'word ' * 40, '\ttabbed\n\tlines', 'ERROR: a\n\nERROR: b\n   c',
    ValueError('value error message\n  second line'), 17, None, Weird(),
    OSError(2, 'No such file'), ['a', 'list'],
]
prefix_sets = [(), ('c ',), ('% ',), ('* ',), ('c ', 'INPUT: '), ('', ''),
               ('c ' * 20,), ('a very long prefix of some length: ',)]
widths = [None, 0, -1, 1, 2, 3, 10, 29, 30, 31, 32, 33, 37, 38, 40, 60, 65,
          66, 70, 200]

for msg in messages:
    for prefixes in prefix_sets:
        for tty in (False, True):
            call_msg('error_msg', prefixes, msg, tty)
            call_msg('interactive_msg', prefixes, msg, tty)
            for w in widths:
                call_msg('error_msg', prefixes, msg, tty, filltext=w)
                call_msg('interactive_msg', prefixes, msg, tty, filltext=w)
call_msg('error_msg', ('c ',), 'positional width ' * 10, False, 40)
call_msg('interactive_msg', ('c ',), 'positional width ' * 10, True, 40)
call_msg('error_msg', ('c ',), 'bad width', False, filltext='x')
call_msg('interactive_msg', ('c ',), 'bad width', True, filltext='x')
call_msg('interactive_msg', ('c ',), 'bad width', True, filltext=50.5)
call_msg('error_msg', ('c ',), 'bad width', False, filltext=50.5)

# InternalBug and the prefix context manager
try:
    raise msgmod.InternalBug("something\nodd")
except Exception as e:
    rec('bug', type(e).__name__, str(e), e.args)
msgmod._prefix = ''
with msgmod.msg_prefix('a'):
    rec('prefix', msgmod._prefix)
    with msgmod.msg_prefix():
        rec('prefix', msgmod._prefix)
        with msgmod.msg_prefix('b'):
            rec('prefix', msgmod._prefix)
        rec('prefix', msgmod._prefix)
rec('prefix', msgmod._prefix)


def run_main(tool, argv, stdin='', tty=False):
    msgmod._prefix = ''
    random.seed(20240518)
    saved = sys.argv, sys.stdout, sys.stderr, sys.stdin
    so, se = Buf(), Buf()
    sys.argv, sys.stdout, sys.stderr = list(argv), so, se
    sys.stdin = Tty(stdin) if tty else Buf(stdin)
    code = 0
    exc = None
    try:
        try:
            tools[tool].main()
        except SystemExit as e:
            code = e.code
        except BaseException as e:  # unhandled internal exception
            exc = (type(e).__name__, str(e))
    finally:
        sys.argv, sys.stdout, sys.stderr, sys.stdin = saved
    rec('main', tool, argv, tty, code, exc, so.getvalue(), se.getvalue())


# work inside a scratch directory, with relative file names only, so
# that no random path name ends up in the output
startdir = os.getcwd()
tmpdir = tempfile.mkdtemp()
os.chdir(tmpdir)
try:
    with open('good.cnf', 'w') as f:
        f.write('c hi\np cnf 3 2\n1 -2 0\n2 3 0\n')
    with open('bad.cnf', 'w') as f:
        f.write('p cnf 3 2\n1 -2 0\n2 7 0\n')
    with open('worse.cnf', 'w') as f:
        f.write('hello world\n')
    with open('g.kthlist', 'w') as f:
        f.write('c graph\n3\n1 : 0\n2 : 0\n3 : 1 2 0\n')
    with open('badg.kthlist', 'w') as f:
        f.write('c graph\n3\n1 : 0\n2 : 3 0\n3 : 1 2 0\n')
    with open('g.gml', 'w') as f:
        f.write('graph [\n node [ id 1 ]\n node [ id 2 ]\n edge [ source 1 target 2 ]\n]\n')
    with open('junk.dot', 'w') as f:
        f.write('this is { not a graph')
    with open('noext', 'w') as f:
        f.write('3\n')

    DIMACS_IN = 'p cnf 3 2\n1 -2 0\n2 3 0\n'
    KTH_IN = '3\n1 : 0\n2 : 0\n3 : 1 2 0\n'

    runs = [
        ('cnfgen', ['cnfgen']),
        ('cnfgen', ['cnfgen', '-h']),
        ('cnfgen', ['cnfgen', '--help-dag']),
        ('cnfgen', ['cnfgen', '-q', 'php', '3', '2']),
        ('cnfgen', ['cnfgen', 'php', '3', '2']),
        ('cnfgen', ['cnfgen', 'php', '3', '2', '9', '9']),
        ('cnfgen', ['cnfgen', 'php', '-3']),
        ('cnfgen', ['cnfgen', 'php']),
        ('cnfgen', ['cnfgen', 'nosuch']),
        ('cnfgen', ['cnfgen', '--nosuch']),
        ('cnfgen', ['cnfgen', '-l', 'php', '3', '2', '9', '9']),
        ('cnfgen', ['cnfgen', '-of', 'opb', 'php', '3', '2', '9', '9']),
        ('cnfgen', ['cnfgen', '-of', 'latex', 'op', '0']),
        ('cnfgen', ['cnfgen', '-of', 'opb', 'op', '-1']),
        ('cnfgen', ['cnfgen', '-of', 'opb', 'op', '3', '-T']),
        ('cnfgen', ['cnfgen', '-l', 'op', '3', '-T', 'xor', '0']),
        ('cnfgen', ['cnfgen', '-o', 'nodir/out.cnf', 'php', '3', '2']),
        ('cnfgen', ['cnfgen', '-o', 'out.tex', 'op', '0', '0']),
        ('cnfgen', ['cnfgen', '-o', 'out.opb', 'op', '3', '-T', 'nosuch']),
        ('cnfgen', ['cnfgen', '-q', 'kclique', '3', 'gnp', '5', '2']),
        ('cnfgen', ['cnfgen', '-q', 'kclique', '3', 'gnm', '5', '200']),
        ('cnfgen', ['cnfgen', '-q', 'kclique', '3', 'nofile.gml']),
        ('cnfgen', ['cnfgen', '-q', 'kclique', '3', 'noext']),
        ('cnfgen', ['cnfgen', '-q', 'kclique', '3', 'junk.dot']),
        ('cnfgen', ['cnfgen', '-q', 'kclique', '3', 'g.kthlist']),
        ('cnfgen', ['cnfgen', '-q', 'kclique', '2', 'g.gml']),
        ('cnfgen', ['cnfgen', '-q', 'kclique', '2', 'gml', '-']),
        ('cnfgen', ['cnfgen', '-q', 'peb', 'g.kthlist']),
        ('cnfgen', ['cnfgen', '-q', 'peb', 'badg.kthlist']),
        ('cnfgen', ['cnfgen', '-q', 'peb', 'pyramid', '-1']),
        ('cnfgen', ['cnfgen', '-q', 'peb', 'pyramid', '1', 'save']),
        ('cnfgen', ['cnfgen', '-q', 'dimacs', 'good.cnf']),
        ('cnfgen', ['cnfgen', '-q', 'dimacs', 'bad.cnf']),
        ('cnfgen', ['cnfgen', '-q', 'dimacs', 'worse.cnf']),
        ('cnfgen', ['cnfgen', '-q', 'dimacs', 'missing.cnf']),
        ('cnfgen', ['cnfgen', '-q', 'dimacs'], DIMACS_IN),
        ('cnfgen', ['cnfgen', '-q', 'dimacs'], DIMACS_IN, True),
        ('cnfgen', ['cnfgen', '-l', 'dimacs'], DIMACS_IN, True),
        ('cnfgen', ['cnfgen', '-q', 'dimacs'], 'p cnf x y\n', True),
        ('cnfgen', ['cnfgen', '-q', 'peb', 'kthlist', '-'], KTH_IN, True),
        ('cnfgen', ['cnfgen', '-of', 'opb', 'peb', 'kthlist', '-'], KTH_IN, True),
        ('cnfgen', ['cnfgen', '-q', 'peb', 'kthlist', '-'], 'garbage\n', True),
        ('pbgen', ['pbgen']),
        ('pbgen', ['pbgen', '-h']),
        ('pbgen', ['pbgen', 'nosuch']),
        ('pbgen', ['pbgen', '--nosuch', '3']),
        ('pbgen', ['pbgen', '-q', 'php', '3', '2']),
        ('pbgen', ['pbgen', 'php', '3', '2']),
        ('pbgen', ['pbgen', 'php', '3', '2', '9', '9']),
        ('pbgen', ['pbgen', '-l', 'php', '3', '2', '9', '9']),
        ('pbgen', ['pbgen', 'php', '0', '-2']),
        ('pbgen', ['pbgen', 'php']),
        ('pbgen', ['pbgen', '-o', 'nodir/out.opb', 'php', '3', '2']),
        ('pbgen', ['pbgen', '-of', 'dimacs', 'php', '3', '2']),
        ('cnfshuffle', ['cnfshuffle', '-h']),
        ('cnfshuffle', ['cnfshuffle', '--nosuch']),
        ('cnfshuffle', ['cnfshuffle', 'extra']),
        ('cnfshuffle', ['cnfshuffle', '-S', '3', '-i', 'good.cnf']),
        ('cnfshuffle', ['cnfshuffle', '-S', '3', '-q', '-i', 'good.cnf']),
        ('cnfshuffle', ['cnfshuffle', '-S', '3', '-p', '-v', '-c', '-i', 'good.cnf']),
        ('cnfshuffle', ['cnfshuffle', '-S', '3', '-i', 'bad.cnf']),
        ('cnfshuffle', ['cnfshuffle', '-S', '3', '-i', 'worse.cnf']),
        ('cnfshuffle', ['cnfshuffle', '-S', '3', '-i', 'missing.cnf']),
        ('cnfshuffle', ['cnfshuffle', '-S', '3', '-i', 'good.cnf', '-o', 'nodir/x.cnf']),
        ('cnfshuffle', ['cnfshuffle', '-S', '3'], DIMACS_IN),
        ('cnfshuffle', ['cnfshuffle', '-S', '3'], DIMACS_IN, True),
        ('cnfshuffle', ['cnfshuffle', '-S', '3'], 'p cnf 1\n', True),
        ('cnfshuffle', ['cnfshuffle', '-S', '3'], '', True),
        ('kthlist2pebbling', ['kthlist2pebbling', '-h']),
        ('kthlist2pebbling', ['kthlist2pebbling', '--nosuch']),
        ('kthlist2pebbling', ['kthlist2pebbling', '-i', 'g.kthlist']),
        ('kthlist2pebbling', ['kthlist2pebbling', '-i', 'badg.kthlist']),
        ('kthlist2pebbling', ['kthlist2pebbling', '-i', 'worse.cnf']),
        ('kthlist2pebbling', ['kthlist2pebbling', '-i', 'missing.kthlist']),
        ('kthlist2pebbling', ['kthlist2pebbling', '-i', 'g.kthlist', '-T', 'xor', '2']),
        ('kthlist2pebbling', ['kthlist2pebbling', '-i', 'g.kthlist', '-T', 'xor', '0']),
        ('kthlist2pebbling', ['kthlist2pebbling'], KTH_IN),
        ('kthlist2pebbling', ['kthlist2pebbling'], KTH_IN, True),
        ('kthlist2pebbling', ['kthlist2pebbling'], 'junk\n', True),
    ]
    for r in runs:
        run_main(*r)
    # files written by the runs above
    for name in sorted(os.listdir('.')):
        with open(name) as f:
            rec('file', name, f.read())
finally:
    os.chdir(startdir)
    shutil.rmtree(tmpdir, ignore_errors=True)

text = "\n".join(out)
assert tmpdir not in text
# the version comes from `git describe`: keep it out of the digest
text = text.replace('CNFgen ({})'.format(info['version']), 'CNFgen (<VER>)')
if os.environ.get("EQUIV_DUMP"):
    sys.stderr.write(text)
print(hashlib.sha256(text.encode('utf-8')).hexdigest())
