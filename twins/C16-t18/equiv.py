#!/usr/bin/env python
"""Equivalence script for property C16 (graph objects under updates).

Run as: cd <checkout> && /venv/bin/python equiv.py
Prints one SHA256 digest of everything observed.
"""
import os
import sys
sys.path.insert(0, os.getcwd())

import hashlib
import random
import itertools

import networkx

from cnfgen.graphs import Graph, DirectedGraph, BipartiteGraph
from cnfgen.graphs import CompleteBipartiteGraph

LOG = []


def log(*items):
    LOG.append(repr(items))


def attempt(tag, fn, *args):
    """Call fn and log either the value or the exception"""
    plain = (int, float, str, tuple, list, type(None))
    shown = tuple(a if isinstance(a, plain) else '<%s>' % type(a).__name__
                  for a in args)
    try:
        res = fn(*args)
    except Exception as e:   # noqa
        log(tag, shown, 'EXC', type(e).__name__, str(e))
        return None
    log(tag, shown, 'OK', res if isinstance(res, plain + (bool,)) else '<%s>' % type(res).__name__)
    return res


def listed(fn, *args):
    return list(fn(*args))


WEIRD = [0, -1, -7, 1000, 2.5, 'a', None, (1, 2), True]


def rand_vertex(rng, n):
    r = rng.random()
    if r < 0.75:
        return rng.randint(1, max(n, 1))
    if r < 0.9:
        return rng.choice([0, -1, n + 1, n + 2, n + 50])
    return rng.choice(WEIRD)


def dump_simple(G, probe):
    n = G.number_of_vertices()
    log('order', G.order(), len(G), list(G.vertices()), G.number_of_edges())
    E = G.edges()
    log('edges', len(E), list(E), list(E))
    log('flags', G.is_dag(), G.is_directed(), G.is_bipartite(), G.is_multigraph())
    for u in list(range(-1, n + 3)) + WEIRD:
        attempt('neighbors', listed, G.neighbors, u)
        attempt('degree', G.degree, u)
    for (u, v) in probe:
        attempt('has_edge', G.has_edge, u, v)
        attempt('in_edges', lambda a, b: (a, b) in E, u, v)
    attempt('in_edges_bad', lambda t: t in E, (1, 2, 3))
    attempt('in_edges_bad', lambda t: t in E, (1,))
    H = G.to_networkx()
    attempt('nx', lambda: (type(H).__name__, sorted(H.nodes()),
                           sorted(tuple(sorted(e)) for e in H.edges())))
    def back(H):
        G2 = Graph.from_networkx(H)
        return (G2.number_of_vertices(), G2.number_of_edges(), list(G2.edges()),
                [list(G2.neighbors(u)) for u in G2.vertices()], G2.name)
    attempt('back', back, H)
    attempt('normalize', lambda: (Graph.normalize(G) is G,
                                  list(Graph.normalize(H, 'H').edges())))


def dump_directed(D, probe):
    n = D.number_of_vertices()
    log('order', D.order(), len(D), list(D.vertices()), D.number_of_edges())
    E = D.edges()
    F = D.edges_ordered_by_successors()
    log('edges', len(E), list(E), list(E), len(F), list(F), list(F))
    log('flags', D.is_dag(), D.is_directed(), D.is_bipartite(), D.is_multigraph())
    for u in list(range(-1, n + 3)) + WEIRD:
        attempt('predecessors', listed, D.predecessors, u)
        attempt('successors', listed, D.successors, u)
        attempt('in_degree', D.in_degree, u)
        attempt('out_degree', D.out_degree, u)
    for (u, v) in probe:
        attempt('has_edge', D.has_edge, u, v)
        attempt('in_edges', lambda a, b: (a, b) in E, u, v)
        attempt('in_edges2', lambda a, b: (a, b) in F, u, v)
    attempt('in_edges_bad', lambda t: t in E, (1, 2, 3))
    H = D.to_networkx()
    attempt('nx', lambda: (type(H).__name__, sorted(H.nodes()), sorted(H.edges())))
    def back(H):
        D2 = DirectedGraph.from_networkx(H)
        return (D2.number_of_vertices(), D2.number_of_edges(), list(D2.edges()),
                list(D2.edges_ordered_by_successors()), D2.is_dag(),
                [list(D2.predecessors(u)) for u in D2.vertices()],
                [list(D2.successors(u)) for u in D2.vertices()], D2.name)
    attempt('back', back, H)
    attempt('normalize', lambda: (DirectedGraph.normalize(D) is D,
                                  list(DirectedGraph.normalize(H, 'H').edges())))


def dump_bipartite(B, probe):
    L, R = B.left_order(), B.right_order()
    log('order', B.order(), len(B), list(B.vertices()), B.number_of_vertices(),
        L, R, [list(p) for p in B.parts()], B.number_of_edges())
    E = B.edges()
    log('edges', len(E), list(E), list(E))
    log('flags', B.is_bipartite(), B.is_multigraph())
    for u in list(range(-1, max(L, R) + 3)) + WEIRD:
        attempt('right_neighbors', listed, B.right_neighbors, u)
        attempt('left_neighbors', listed, B.left_neighbors, u)
        attempt('right_degree', B.right_degree, u)
        attempt('left_degree', B.left_degree, u)
    for (u, v) in probe:
        attempt('has_edge', B.has_edge, u, v)
        attempt('in_edges', lambda a, b: (a, b) in E, u, v)
    H = B.to_networkx()
    attempt('nx', lambda: (type(H).__name__,
                           sorted(H.nodes(data=True), key=lambda x: x[0]),
                           sorted(tuple(sorted(e)) for e in H.edges()), H.name))
    def back(H):
        B2 = BipartiteGraph.from_networkx(H)
        return (B2.left_order(), B2.right_order(), B2.number_of_edges(),
                list(B2.edges()), B2.name)
    attempt('back', back, H)
    log('normalize', BipartiteGraph.normalize(B) is B)


def run_simple(seed, n0, steps):
    rng = random.Random(seed)
    log('== simple', seed, n0, steps)
    G = attempt('Graph', Graph, n0)
    if G is None:
        return
    log('name', G.name)
    probe = []
    for step in range(steps):
        n = G.number_of_vertices()
        r = rng.random()
        if r < 0.55:
            u, v = rand_vertex(rng, n), rand_vertex(rng, n)
            probe.append((u, v))
            attempt('add_edge', G.add_edge, u, v)
        elif r < 0.75:
            if probe and rng.random() < 0.7:
                u, v = rng.choice(probe)
                if rng.random() < 0.5:
                    u, v = v, u
            else:
                u, v = rand_vertex(rng, n), rand_vertex(rng, n)
            attempt('remove_edge', G.remove_edge, u, v)
        elif r < 0.85:
            new = rng.choice([n, n + 1, n + 3, max(n - 2, 0), 0, -1, 2.0, 'x', None])
            attempt('update_vertex_number', G.update_vertex_number, new)
        else:
            k = rng.randint(0, 5)
            edges = [(rand_vertex(rng, n), rand_vertex(rng, n)) for _ in range(k)]
            if rng.random() < 0.2:
                edges.append((1, 2, 3))
            probe.extend(e for e in edges if len(e) == 2)
            attempt('add_edges_from', G.add_edges_from, edges)
        if step % 7 == 0:
            log('quick', G.number_of_vertices(), G.number_of_edges(), list(G.edges()))
    dump_simple(G, probe[-40:] + [(1, 1), (0, 1), (1, 2), (2, 1)])


def run_directed(seed, n0, steps, forward_only=False):
    rng = random.Random(seed)
    log('== directed', seed, n0, steps, forward_only)
    D = attempt('DirectedGraph', DirectedGraph, n0)
    if D is None:
        return
    log('name', D.name)
    probe = []
    for step in range(steps):
        n = D.number_of_vertices()
        r = rng.random()
        if r < 0.8:
            u, v = rand_vertex(rng, n), rand_vertex(rng, n)
            if forward_only and isinstance(u, int) and isinstance(v, int) and u >= v:
                u, v = v, u + 1
            probe.append((u, v))
            attempt('add_edge', D.add_edge, u, v)
        else:
            k = rng.randint(0, 5)
            edges = [(rand_vertex(rng, n), rand_vertex(rng, n)) for _ in range(k)]
            if forward_only:
                edges = [(min(a, b), max(a, b) + 1) for (a, b) in edges
                         if isinstance(a, int) and isinstance(b, int)]
            probe.extend(edges)
            attempt('add_edges_from', D.add_edges_from, edges)
        log('dag', D.is_dag())
        if step % 7 == 0:
            log('quick', D.number_of_edges(), list(D.edges()),
                list(D.edges_ordered_by_successors()))
    dump_directed(D, probe[-40:] + [(1, 1), (0, 1), (1, 2), (2, 1)])


def run_bipartite(seed, L0, R0, steps):
    rng = random.Random(seed)
    log('== bipartite', seed, L0, R0, steps)
    B = attempt('BipartiteGraph', BipartiteGraph, L0, R0)
    if B is None:
        return
    log('name', B.name)
    probe = []
    for step in range(steps):
        r = rng.random()
        if r < 0.8:
            u, v = rand_vertex(rng, L0), rand_vertex(rng, R0)
            probe.append((u, v))
            attempt('add_edge', B.add_edge, u, v)
        else:
            k = rng.randint(0, 5)
            edges = [(rand_vertex(rng, L0), rand_vertex(rng, R0)) for _ in range(k)]
            probe.extend(edges)
            attempt('add_edges_from', B.add_edges_from, edges)
        if step % 7 == 0:
            log('quick', B.number_of_edges(), list(B.edges()))
    dump_bipartite(B, probe[-40:] + [(1, 1), (0, 1), (1, 2), (2, 1)])


def lazy_and_mutation_checks():
    """Generators are lazy; edge views are live"""
    log('== lazy')
    G = Graph(5)
    D = DirectedGraph(5)
    for bad in [0, 6, -1]:
        for fn in [G.neighbors, D.predecessors, D.successors]:
            it = attempt('make-generator', lambda f, x: type(f(x)).__name__, fn, bad)
            gen = fn(bad)
            attempt('next-generator', next, gen)
    # live views
    E = G.edges()
    DE = D.edges()
    DF = D.edges_ordered_by_successors()
    log(len(E), list(E), len(DE), list(DE), list(DF))
    G.add_edge(2, 4)
    G.add_edge(4, 1)
    D.add_edge(4, 2)
    D.add_edge(1, 3)
    log(len(E), list(E), len(DE), list(DE), list(DF), D.is_dag())
    # mutation while iterating over the edge list
    G = Graph(8)
    G.add_edges_from([(1, 2), (1, 5), (2, 3)])
    seen = []
    for (u, v) in G.edges():
        seen.append((u, v))
        if (u, v) == (1, 2):
            G.add_edge(1, 7)
            G.add_edge(1, 3)
        if (u, v) == (1, 5):
            G.remove_edge(1, 7)
        if len(seen) > 30:
            break
    log('mutating', seen, list(G.edges()))
    it = iter(G.edges())
    log(type(it).__name__, next(it), next(it))
    G.update_vertex_number(10)
    G.add_edge(9, 10)
    log(list(it), list(G.edges()))
    D = DirectedGraph(6)
    D.add_edges_from([(1, 2), (1, 5), (2, 3)])
    seen = []
    for (u, v) in D.edges():
        seen.append((u, v))
        if (u, v) == (1, 2):
            D.add_edge(1, 6)
            D.add_edge(5, 6)
        if len(seen) > 30:
            break
    log('mutating', seen, list(D.edges()), list(D.edges_ordered_by_successors()))


def classmethod_checks():
    log('== classmethods')
    for n in [0, 1, 2, 5]:
        for ctor in [Graph.empty_graph, Graph.complete_graph, Graph.star_graph]:
            G = attempt(ctor.__name__, lambda c, k: c(k).name, ctor, n)
            G = ctor(n)
            log(G.number_of_vertices(), G.number_of_edges(), list(G.edges()),
                [(list(G.neighbors(u)), G.degree(u)) for u in G.vertices()])
    G = Graph.null_graph()
    log(G.name, G.order(), list(G.edges()))
    for bad in [-1, 1.5, 'a', None]:
        attempt('Graph', Graph, bad)
        attempt('DirectedGraph', DirectedGraph, bad)
        attempt('BipartiteGraph', BipartiteGraph, bad, 2)
        attempt('BipartiteGraph', BipartiteGraph, 2, bad)
    log(DirectedGraph(3, None).name, DirectedGraph(3, 'zz').name,
        Graph(3, 'yy').name, BipartiteGraph(1, 2, 'ww').name)
    K = CompleteBipartiteGraph(2, 3)
    K.add_edge(7, 7)
    log(K.name, K.number_of_edges(), list(K.edges()), K.has_edge(2, 3),
        K.has_edge(3, 3), list(K.left_neighbors(1)), K.left_degree(1),
        K.right_degree(1))
    # from_networkx / normalize error paths and label handling
    H = networkx.Graph()
    H.add_edges_from([('10', '2'), ('2', 'b'), ('b', 'a'), (3, '10')])
    G = Graph.from_networkx(H)
    log(list(G.edges()), G.name)
    H = networkx.DiGraph()
    H.add_edges_from([('10', '2'), ('2', 'b'), ('b', 'a'), (3, '10'), ('a', 'a')])
    H.name = 'named'
    D = DirectedGraph.from_networkx(H)
    log(list(D.edges()), D.is_dag(), D.name)
    attempt('from_nx', Graph.from_networkx, 5)
    attempt('from_nx', DirectedGraph.from_networkx, networkx.Graph())
    attempt('from_nx', BipartiteGraph.from_networkx, 'x')
    attempt('normalize', Graph.normalize, 5, 'q')
    attempt('normalize', DirectedGraph.normalize, networkx.Graph(), 'q')
    attempt('normalize', BipartiteGraph.normalize, DirectedGraph(2), 'q')
    loop = networkx.Graph()
    loop.add_edge(1, 1)
    attempt('from_nx_loop', Graph.from_networkx, loop)
    H = networkx.Graph()
    H.add_node('x', bipartite=0)
    H.add_node('y')
    attempt('from_nx_bip', BipartiteGraph.from_networkx, H)
    H = networkx.Graph()
    H.add_nodes_from(['a', 'b'], bipartite=0)
    H.add_nodes_from(['c', 'd'], bipartite='1')
    H.add_edge('c', 'a')
    H.add_edge('b', 'd')
    B = BipartiteGraph.from_networkx(H)
    log(list(B.edges()), B.left_order(), B.right_order())
    H.add_edge('a', 'b')
    attempt('from_nx_bip', lambda h: list(BipartiteGraph.from_networkx(h).edges()), H)


def main():
    classmethod_checks()
    lazy_and_mutation_checks()
    seed = 1600
    for n0 in [0, 1, 2, 3, 5, 9, 14]:
        for steps in [0, 3, 25, 80]:
            seed += 1
            run_simple(seed, n0, steps)
            run_directed(seed, n0, steps)
            run_directed(seed + 5000, n0, steps, forward_only=True)
    for L0, R0 in itertools.product([0, 1, 3, 6, 10], [0, 1, 4, 9]):
        for steps in [0, 4, 40]:
            seed += 1
            run_bipartite(seed, L0, R0, steps)
    blob = '\n'.join(LOG).encode('utf-8')
    print(hashlib.sha256(blob).hexdigest())


if __name__ == '__main__':
    main()
