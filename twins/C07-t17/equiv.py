"""Equivalence script for TseitinCmdHelper.build_formula (cnfgen/clihelpers/counting_helpers.py)."""
import os, sys, hashlib, random, io, contextlib, argparse
sys.path.insert(0, os.getcwd())

from cnfgen.graphs import Graph
from cnfgen.formula.cnf import CNF
from cnfgen.formula.opb import OPB
from cnfgen.clihelpers.counting_helpers import TseitinCmdHelper
from cnfgen.clitools.cnfgen import cli as cnfgen_cli
from cnfgen.clitools.pbgen import cli as pbgen_cli

H = hashlib.sha256()


def rec(*items):
    H.update((repr(items) + "\n").encode())


def mk(n, p, seed):
    rnd = random.Random(seed)
    G = Graph(n)
    for u in range(1, n + 1):
        for v in range(u + 1, n + 1):
            if rnd.random() < p:
                G.add_edge(u, v)
    return G


def dump(F):
    return (F.number_of_variables(), len(F), [repr(c) for c in F.clauses()] if hasattr(F, 'clauses') else None,
            sorted((k, v) for k, v in F.header.items()))


# direct calls of the helper with hand made namespaces
charges = ['first', 'random', 'randomodd', 'randomeven', 'zero', 'one', 'bogus', '', None]
for n in (1, 2, 3, 6, 9):
    for p in (0.0, 0.5, 1.0):
        for ch in charges:
            for seed in (0, 1, -5, 2**40):
                for fc in (CNF, OPB):
                    G = mk(n, p, 31 * n + int(10 * p))
                    args = argparse.Namespace(G=G, charge=ch)
                    random.seed(seed)
                    try:
                        F = TseitinCmdHelper.build_formula(args, fc)
                        rec('ok', n, p, ch, seed, fc.__name__, F.to_dimacs() if fc is CNF else F.to_opb(),
                            random.random())
                    except Exception as e:
                        rec('exc', n, p, ch, seed, fc.__name__, type(e).__name__, str(e), random.random())

# namespace with a graph but no charge, and the N d shortcut
for ns in (dict(G=mk(4, 0.8, 2)), dict(N=6, d=3), dict(N=7, d=4), dict(N=4, d=4), dict(N=3, d=5),
           dict(N=5, d=3), dict(N=10, d=4), dict(N=2, d=1), dict(N=1, d=0)):
    for seed in (0, 9, 77):
        random.seed(seed)
        try:
            F = TseitinCmdHelper.build_formula(argparse.Namespace(**ns), CNF)
            rec('ns', sorted(k for k in ns), seed, F.to_dimacs(), random.random())
        except Exception as e:
            rec('nsexc', sorted(k for k in ns), seed, type(e).__name__, str(e), random.random())

# full command lines
cmdlines = []
for seed in ('0', '1', '-8', '314159'):
    cmdlines += [
        ['--seed', seed, 'tseitin', '8'],
        ['--seed', seed, 'tseitin', '7', '2'],
        ['--seed', seed, 'tseitin', '9', '3'],
        ['--seed', seed, 'tseitin', '3', '4'],
        ['--seed', seed, 'tseitin', 'random', 'gnp', '7', '.5'],
        ['--seed', seed, 'tseitin', 'randomodd', 'gnm', '7', '9'],
        ['--seed', seed, 'tseitin', 'randomeven', 'gnd', '8', '3'],
        ['--seed', seed, 'tseitin', 'random', 'grid', '2', '3'],
        ['--seed', seed, 'tseitin', 'randomodd', 'complete', '1'],
        ['--seed', seed, 'tseitin', 'random', 'empty', '1'],
        ['--seed', seed, 'tseitin', 'first', 'gnp', '6', '.6', 'plantclique', '3'],
        ['--seed', seed, 'tseitin', 'zero', 'torus', '3', '3'],
        ['--seed', seed, 'tseitin', 'one', 'gnp', '5', '.5', 'addedges', '2'],
        ['--seed', seed, 'tseitin', 'randomish', 'gnp', '5', '.5'],
        ['--seed', seed, 'tseitin', 'random', 'gnp', '6', '.5', '-T', 'shuffle'],
    ]
for cl in cmdlines:
    for tool, name in ((cnfgen_cli, 'cnfgen'), (pbgen_cli, 'pbgen')):
        argv = [name] + cl
        err = io.StringIO()
        out = io.StringIO()
        try:
            with contextlib.redirect_stderr(err), contextlib.redirect_stdout(out):
                s = tool(argv, mode='string')
                tool(argv, mode='output')
            rec('cli', argv, s, out.getvalue(), err.getvalue(), random.random())
        except SystemExit as e:
            rec('cliexit', argv, e.code, out.getvalue(), err.getvalue())
        except Exception as e:
            rec('cliexc', argv, type(e).__name__, str(e), out.getvalue(), err.getvalue())

print(H.hexdigest())
