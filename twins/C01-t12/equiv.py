"""Equivalence script for the refactoring of PHPArgs.__call__
(cnfgen/clihelpers/php_helpers.py).  Prints one SHA256 digest."""
import sys, os, hashlib, argparse, io, contextlib
sys.path.insert(0, os.getcwd())

from cnfgen import cnfgen
from cnfgen.clihelpers.php_helpers import PHPArgs, PHPCmdHelper, is_some_number
from cnfgen.clitools import CLIParser, CLIHelpFormatter
from cnfgen.formula.cnf import CNF

H = hashlib.sha256()


def rec(*items):
    for it in items:
        H.update(repr(it).encode('utf-8'))
        H.update(b'\x00')
    H.update(b'\n')


def run_cli(argv, fmt=None):
    out = io.StringIO()
    err = io.StringIO()
    try:
        with contextlib.redirect_stdout(out), contextlib.redirect_stderr(err):
            res = cnfgen(argv, mode='string')
        rec('CLI', argv, 'OK', res, out.getvalue(), err.getvalue())
    except SystemExit as e:
        rec('CLI', argv, 'EXIT', e.code, out.getvalue(), err.getvalue())
    except BaseException as e:
        rec('CLI', argv, 'EXC', type(e).__name__, str(e), out.getvalue(),
            err.getvalue())


# 1. is_some_number
for s in ['0', '1', '-1', '3.5', '1e3', 'nan', 'inf', '', ' 4 ', 'gnp', 'abc',
          '0x10', '1_0', '--', '+7', '١٢']:
    try:
        rec('isnum', s, is_some_number(s))
    except BaseException as e:
        rec('isnum', s, type(e).__name__, str(e))

# 2. direct use of the argparse action on a small parser
def direct(values, extra=()):
    parser = CLIParser(prog='cnfgen php', formatter_class=CLIHelpFormatter)
    PHPCmdHelper.setup_command_line(parser)
    try:
        ns = parser.parse_args(list(extra) + list(values))
        d = dict(vars(ns))
        B = d.pop('B', None)
        if B is not None:
            d['B'] = (B.left_order(), B.right_order(), list(B.edges()), B.name)
        rec('direct', values, extra, sorted(d.items()))
        ns.B = B if B is not None else None
        F = PHPCmdHelper.build_formula(ns, CNF) if (
            B is not None or ns.holes == ns.degree) else None
        if F is not None:
            rec('formula', F.to_dimacs())
    except SystemExit as e:
        rec('direct', values, extra, 'EXIT', e.code)
    except BaseException as e:
        rec('direct', values, extra, type(e).__name__, str(e))

cases = [
    [], ['0'], ['1'], ['3'], ['5'], ['0', '0'], ['0', '3'], ['3', '0'],
    ['4', '3'], ['3', '4'], ['2', '2'], ['4', '3', '3'], ['4', '3', '0'],
    ['4', '3', '4'], ['0', '0', '0'], ['0', '0', '1'], ['5', '4', '2'],
    ['1', '2', '3', '4'], ['1', '2', '3', '4', '5'],
    ['-1'], ['-3', '1'], ['3', '-1'], ['2', '2', '-1'], ['3.5'], ['1e3'],
    ['3', 'x'], ['3', '2.5'], ['3', '3', 'z'], ['nan'], ['inf', '2'],
    ['+3', '+2'], [' 3', '2 '], ['1_0', '2'],
    ['complete', '3', '2'], ['complete', '3'], ['glrd', '4', '3', '2'],
    ['regular', '4', '4', '2'], ['aaad', 'sdda'], ['shift', '4', '4', '1', '2'],
    ['complete', '2', '2', '7', '8'],
]
import random
for c in cases:
    for extra in [(), ('--functional',), ('--onto',), ('--functional', '--onto')]:
        random.seed(42)
        direct(c, extra)

# 3. through the full command line, including the random left-regular case
for c in cases:
    for extra in [[], ['--functional'], ['--onto'], ['--functional', '--onto']]:
        run_cli(['cnfgen', '-q', '--seed', '17', 'php'] + c + extra)
        run_cli(['cnfgen', '-q', '--seed', '17', 'php'] + extra + c)
for c in [['4', '3'], ['5', '4', '2'], ['complete', '2', '3'], ['4', '3', '9']]:
    run_cli(['cnfgen', '--seed', '5', '-of', 'opb', 'php'] + c)
    run_cli(['cnfgen', '--seed', '5', '-of', 'latex', 'php'] + c)
    run_cli(['cnfgen', '--seed', '5', 'php'] + c + ['-T', 'xor', '2'])
run_cli(['cnfgen', 'php', '-h'])
run_cli(['cnfgen', 'php', '--help'])

print(H.hexdigest())
