import hashlib, random, sys, os
sys.path.insert(0, os.getcwd())
from cnfgen.graphs import DirectedGraph
from cnfgen.families.pebbling import PebblingFormula, StoneFormula, SparseStoneFormula
from cnfgen.graphs import BipartiteGraph

out = []
def rec(*a):
    out.append(repr(a))

def attempt(tag, fn):
    try:
        rec(tag, fn())
    except Exception as e:
        rec(tag, 'EXC', type(e).__name__, str(e))

rng = random.Random(2024)
graphs = []
for n in range(0, 8):
    for trial in range(4):
        D = DirectedGraph(n)
        if n >= 2:
            for _ in range(rng.randrange(0, 2 * n)):
                u = rng.randrange(1, n + 1)
                v = rng.randrange(1, n + 1)
                if trial == 3 or u < v:
                    attempt(('add', n, trial, u, v), lambda: D.add_edge(u, v))
        graphs.append(D)

for idx, D in enumerate(graphs):
    n = D.number_of_vertices()
    rec(idx, n, D.number_of_edges(), D.is_dag(), list(D.edges()), list(D.edges_ordered_by_successors()))
    for u in [-1, 0, 1, 2, n - 1, n, n + 1, n + 5, 1.5, True]:
        attempt(('pred', idx, u), lambda: list(D.predecessors(u)))
        attempt(('succ', idx, u), lambda: list(D.successors(u)))
        attempt(('indeg', idx, u), lambda: D.in_degree(u))
        attempt(('outdeg', idx, u), lambda: D.out_degree(u))
    # generators are lazy: creating one with a bad vertex must not raise yet
    attempt(('lazy', idx), lambda: (D.predecessors(n + 3), D.successors(0)) and 'ok')
    for u in ['a', None]:
        attempt(('predT', idx, u), lambda: list(D.predecessors(u)))
        attempt(('outT', idx, u), lambda: D.out_degree(u))
    attempt(('peb', idx), lambda: (lambda F: (F.number_of_variables(), list(F.clauses())))(PebblingFormula(D)))
    for s in (0, 1, 2):
        attempt(('stone', idx, s), lambda: (lambda F: (F.number_of_variables(), list(F.clauses())))(StoneFormula(D, s)))
    if n:
        B = BipartiteGraph(n, 3)
        for l in range(1, n + 1):
            for r in range(1, 4):
                if rng.random() < 0.6:
                    B.add_edge(l, r)
        attempt(('sparse', idx), lambda: (lambda F: (F.number_of_variables(), list(F.clauses())))(SparseStoneFormula(D, B)))

print(hashlib.sha256("\n".join(out).encode()).hexdigest())
