#!/usr/bin/env python
"""Equivalence script for t21: randkcnf / randkxor command line helpers."""
import sys, os, io, hashlib, random, argparse, contextlib
sys.path.insert(0, os.getcwd())

from cnfgen.clitools.cnfgen import cli as cnfgen_cli
from cnfgen.clitools.pbgen import cli as pbgen_cli
from cnfgen.clihelpers.simple_helpers import RandCmdHelper, RandXorHelper
from cnfgen.clitools.cmdline import get_formula_helpers
from cnfgen.formula.cnf import CNF
from cnfgen.formula.opb import OPB

H = hashlib.sha256()
def rec(*items):
    for it in items:
        H.update(repr(it).encode('utf8'))
        H.update(b'\x00')

def run(clifn, argv, mode='string'):
    out, err = io.StringIO(), io.StringIO()
    res = None
    try:
        with contextlib.redirect_stdout(out), contextlib.redirect_stderr(err):
            res = clifn(argv, mode=mode)
        if mode == 'formula':
            res = (type(res).__name__, list(res.clauses()), sorted(res.header.items()))
        rec('OK', argv, res)
    except SystemExit as e:
        rec('EXIT', argv, e.code)
    except BaseException as e:
        rec('EXC', argv, type(e).__name__, str(e))
    rec(out.getvalue(), err.getvalue())
    rec('state', random.getstate()[1][:5])

# the list of helpers discovered by the command line tools
helpers = get_formula_helpers()
rec([(h.__name__, h.name) for h in helpers])
for h in (RandCmdHelper, RandXorHelper):
    rec(h.name, h.description, h.__doc__)

# direct calls of build_formula
for helper in (RandCmdHelper, RandXorHelper):
    for fclass in (CNF, OPB):
        for plant in (False, True):
            for (k, n, m) in [(1, 1, 0), (1, 1, 1), (1, 1, 2), (1, 1, 3), (2, 2, 4), (2, 2, 2),
                              (2, 2, 5), (3, 5, 10), (3, 5, 40), (3, 5, 70), (3, 5, 80), (3, 5, 81),
                              (4, 3, 1), (2, 6, 0), (3, 7, 20), (5, 5, 1), (5, 5, 2), (5, 5, 31),
                              (5, 5, 32), (5, 5, 33), (3, 12, 50), (2, 4, 12), (2, 4, 13),
                              (2, 4, 6), (2, 4, 7), (2, 4, 18), (2, 4, 19), (2, 4, 24), (2, 4, 25)]:
                for seed in (0, 7):
                    random.seed(seed)
                    args = argparse.Namespace(k=k, n=n, m=m, plant=plant)
                    try:
                        F = helper.build_formula(args, fclass)
                        rec('OK', helper.name, fclass.__name__, plant, k, n, m, seed,
                            type(F).__name__, F.number_of_variables(), len(F),
                            F.header.get('description'))
                        if isinstance(F, CNF):
                            rec(list(F.clauses()), F.to_dimacs())
                        else:
                            rec(F.to_opb())
                    except BaseException as e:
                        rec('EXC', helper.name, fclass.__name__, plant, k, n, m, seed,
                            type(e).__name__, str(e))
                    rec(random.getstate()[1][:5])
                    # keyword call, as done by the command line tools
                    random.seed(seed)
                    try:
                        F = helper.build_formula(args, formula_class=fclass)
                        rec(type(F).__name__, len(F))
                    except BaseException as e:
                        rec(type(e).__name__, str(e))

# through the command line tools
for tool, fn in (('cnfgen', cnfgen_cli), ('pbgen', pbgen_cli)):
    for fam in ('randkcnf', 'randkxor'):
        for extra in ([], ['-p'], ['--plant']):
            for knm in (['3', '6', '10'], ['2', '3', '12'], ['2', '3', '13'], ['4', '3', '1'],
                        ['1', '1', '2'], ['1', '1', '1'], ['0', '3', '1'], ['2', '0', '1'],
                        ['2', '5', '-1'], ['2', '5', '0'], ['3', '4', '16'], ['3', '4', '17'],
                        ['3', '4', '4'], ['3', '4', '5'], ['3', '4', '32'], ['3', '4', '33'],
                        ['3', '4'], ['x', '4', '4']):
                for seed in ('1', '42'):
                    run(fn, [tool, '--seed', seed, fam] + extra + knm)
                run(fn, [tool, '-q', '--seed', '3', fam] + knm + extra)
        run(fn, [tool, fam, '-h'])
        run(fn, [tool, fam])
    run(fn, [tool, '--seed', '5', 'randkcnf', '3', '6', '10'], mode='formula')

print(H.hexdigest())
