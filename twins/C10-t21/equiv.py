#!/usr/bin/env python
"""Equivalence script for refactoring t21 (property C10).

Exercises the variable counter of both formula classes (BaseCNF/CNF and
BaseOPB/OPB): number_of_variables, update_variable_number, interleavings
of group creation and clause insertion, families, transformations, cli.
Prints one SHA256 digest of everything observed.
"""
import sys
import os
import io
import random
import hashlib
import contextlib

sys.path.insert(0, os.getcwd())

import cnfgen
from cnfgen.formula.basecnf import BaseCNF
from cnfgen.formula.baseopb import BaseOPB
from cnfgen.formula.linear import CNFLinear
from cnfgen.formula.cnf import CNF
from cnfgen.formula.opb import OPB
from cnfgen.clitools.cnfgen import cli as cnfgen_cli
from cnfgen.clitools.pbgen import cli as pbgen_cli

LOG = []


def rec(*items):
    LOG.append(repr(items))


def attempt(tag, fn, *args, **kwargs):
    try:
        res = fn(*args, **kwargs)
        rec(tag, 'ok', res)
        return res
    except SystemExit as e:
        rec(tag, 'exit', e.code)
    except BaseException as e:
        chain = []
        c = e
        while c is not None:
            chain.append((type(c).__name__, str(c)))
            c = c.__cause__
        rec(tag, 'exc', chain)
    return None


def check_owned(tag, F):
    """Record the number of variables, and that every literal is owned"""
    n = F.number_of_variables()
    ok = True
    if isinstance(F, BaseOPB):
        for cons in F:
            for (c, l) in cons[:-2]:
                if not (isinstance(l, int) and 0 < abs(l) <= n):
                    ok = False
    else:
        for cls in F:
            for l in cls:
                if not (isinstance(l, int) and 0 < abs(l) <= n):
                    ok = False
    rec(tag, 'nvars', n, 'len', len(F), 'owned', ok, 'debug',
        F.debug(allow_opposite=True, allow_repetition=True),
        list(F.variables())[:3], list(F.variables())[-3:], len(F.variables()))


# 1. update_variable_number / number_of_variables on all four classes
BAD = [-1, -100, 1.5, 2.0, '3', None, [1], (2,), True, False, 0, 7, 3, 10**6]
for cls in [BaseCNF, CNFLinear, CNF, BaseOPB, OPB]:
    F = cls()
    rec(cls.__name__, 'init', F.number_of_variables(), str(F))
    for v in BAD:
        attempt((cls.__name__, 'update', repr(v)), F.update_variable_number, v)
        rec(cls.__name__, 'after', repr(v), F.number_of_variables(), type(F.number_of_variables()).__name__)
    attempt((cls.__name__, 'update-kw'), F.update_variable_number, new_value=10**6 + 5)
    rec(cls.__name__, 'final', F.number_of_variables(), str(F),
        len(F.variables()), F.variables()[0], F.variables()[-1])
    labels = F.all_variable_labels()
    rec(cls.__name__, 'labels', [next(labels) for _ in range(4)])

# 2. clause insertion raises the counter (check=True) or not (check=False)
for cls in [BaseCNF, CNF, BaseOPB, OPB]:
    F = cls()
    F.add_clause([1, -5, 3])
    rec(cls.__name__, F.number_of_variables())
    F.add_clause([9, -12], check=False)
    rec(cls.__name__, F.number_of_variables(), F.debug())
    F.update_variable_number(4)
    rec(cls.__name__, F.number_of_variables(), F.debug())
    F.update_variable_number(12)
    rec(cls.__name__, F.number_of_variables(), F.debug())
    F.add_clause([])
    attempt((cls.__name__, 'zero'), F.add_clause, [1, 0, 2])
    attempt((cls.__name__, 'str'), F.add_clause, [1, 'a'])
    attempt((cls.__name__, 'float'), F.add_clause, [1.5, 2])
    rec(cls.__name__, F.number_of_variables(), len(F), list(F)[-3:])
    F.add_clauses_from([[20, -21], [-40]], check=True)
    rec(cls.__name__, F.number_of_variables(), str(F))
    init = [[1, 2], [-3]] if cls in (BaseCNF, CNF) else [[(1, 1), (2, -2), '>=', 1], [(3, 4), '<', 2]]
    check_owned((cls.__name__, 'sec2'), cls(init))
    attempt((cls.__name__, 'badinit'), lambda: str(cls([[1, 2], [0]])))

F = BaseOPB()
F.add_constraint([(2, 3), (-4, 7), '<=', 3])
rec('opb', F.number_of_variables(), list(F))
attempt('opb-bad', F.add_constraint, [(2, 0), '>=', 3])
F.add_constraint([(1, 30), '>', 0], check=False)
rec('opb', F.number_of_variables(), F.debug())
F.update_variable_number(30)
rec('opb', F.number_of_variables(), F.debug())
F.cardinality_neq([31, 32, -33], 2)
F.add_parity([34, 35], 1)
F.add_loose_majority([36, 37, 38])
rec('opb', F.number_of_variables(), len(F))

# 3. interleavings of variable-group creation and clause insertion
rng = random.Random(2110)
for cls in [CNF, OPB]:
    for trial in range(25):
        F = cls()
        for step in range(rng.randint(1, 12)):
            what = rng.randrange(9)
            n0 = F.number_of_variables()
            if what == 0:
                v = attempt(('new_variable', trial, step), F.new_variable, 'v%d' % step)
            elif what == 1:
                g = F.new_block(rng.randint(1, 4), rng.randint(0, 5), label='b%d({{}},{{}})' % step)
                rec('block', list(g), n0)
            elif what == 2:
                g = F.new_combinations(rng.randint(0, 6), rng.randint(0, 3))
                rec('comb', list(g), n0)
            elif what == 3:
                m = rng.randint(n0, n0 + 9)
                F.add_clause([m + 1, -(rng.randint(0, m) + 1)])
            elif what == 4:
                F.add_clause([n0 + rng.randint(1, 5)], check=False)
            elif what == 5:
                attempt(('upd', trial, step), F.update_variable_number, n0 + rng.randint(-3, 6))
            elif what == 6:
                f = F.new_mapping(rng.randint(1, 4), rng.randint(1, 4))
                F.force_complete_mapping(f)
                F.force_functional_mapping(f)
                rec('map', list(f), n0)
            elif what == 7:
                f = F.new_binary_mapping(rng.randint(1, 4), rng.randint(1, 5))
                F.force_complete_mapping(f)
                rec('bmap', list(f), n0)
            else:
                g = F.new_words(rng.randint(0, 3), rng.randint(0, 3))
                rec('words', list(g), n0)
            rec(cls.__name__, trial, step, what, F.number_of_variables())
        check_owned((cls.__name__, 'interleave', trial), F)
        rec(list(F.all_variable_labels()))
        if cls is CNF:
            rec(F.to_dimacs())
        else:
            rec(F.to_opb())

# overlapping group refused
F = CNF()
F.new_block(3, 3)
g = cnfgen.formula.variables.BlockOfVariables(F, [2, 2])
F.add_clause([10, 11])
attempt('overlap', F._add_variable_group, g)
rec(F.number_of_variables())

# 4. families at realistic sizes, both formula classes where available
random.seed(77)
G = cnfgen.Graph.from_networkx(__import__('networkx').random_regular_graph(3, 14, seed=5))
builders = [
    ('php', lambda fc: cnfgen.PigeonholePrinciple(12, 9, formula_class=fc)),
    ('fphp', lambda fc: cnfgen.PigeonholePrinciple(7, 6, functional=True, onto=True, formula_class=fc)),
    ('bphp', lambda fc: cnfgen.BinaryPigeonholePrinciple(9, 6, formula_class=fc)),
    ('op', lambda fc: cnfgen.OrderingPrinciple(9, formula_class=fc)),
    ('count', lambda fc: cnfgen.CountingPrinciple(7, 3, formula_class=fc)),
    ('tseitin', lambda fc: cnfgen.TseitinFormula(G, formula_class=fc)),
    ('kcolor', lambda fc: cnfgen.GraphColoringFormula(G, 4, formula_class=fc)),
    ('domset', lambda fc: cnfgen.DominatingSet(G, 5, formula_class=fc)),
    ('kclique', lambda fc: cnfgen.CliqueFormula(G, 4, formula_class=fc)),
    ('ram', lambda fc: cnfgen.RamseyNumber(3, 4, 8, formula_class=fc)),
    ('vdw', lambda fc: cnfgen.VanDerWaerden(30, 3, 4, formula_class=fc)),
    ('randkcnf', lambda fc: cnfgen.RandomKCNF(4, 60, 200, seed=11, formula_class=fc)),
    ('subsetcard', lambda fc: cnfgen.SubsetCardinalityFormula(
        cnfgen.BipartiteGraph.from_networkx(
            __import__('networkx').bipartite.complete_bipartite_graph(5, 5)), formula_class=fc)),
]
for name, build in builders:
    for fc in [CNF, OPB]:
        F = attempt((name, fc.__name__, 'build'), lambda: str(build(fc)))
        try:
            F = build(fc)
        except BaseException:
            continue
        check_owned((name, fc.__name__), F)
        rec(hashlib.sha256((F.to_dimacs() if fc is CNF else F.to_opb()).encode()).hexdigest())

# 5. transformation chains
base = cnfgen.PigeonholePrinciple(5, 4)
chains = [
    [lambda F: cnfgen.XorSubstitution(F, 2), lambda F: cnfgen.OrSubstitution(F, 2)],
    [lambda F: cnfgen.FormulaLifting(F, 3), cnfgen.FlipPolarity],
    [cnfgen.IfThenElseSubstitution, lambda F: cnfgen.MajoritySubstitution(F, 3)],
    [lambda F: cnfgen.ExactlyKSubstitution(F, 3, 1), lambda F: cnfgen.Shuffle(F)],
    [lambda F: cnfgen.AllEqualSubstitution(F, 3), lambda F: cnfgen.NotAllEqualSubstitution(F, 2)],
    [lambda F: cnfgen.Shuffle(F, 'fixed', 'fixed', 'fixed'), lambda F: cnfgen.AtMostKSubstitution(F, 2, 1)],
]
random.seed(4)
for i, chain in enumerate(chains):
    F = base
    for j, t in enumerate(chain):
        F = t(F)
        check_owned(('chain', i, j), F)
    rec(hashlib.sha256(F.to_dimacs().encode()).hexdigest(), list(F.all_variable_labels())[:5])

# 6. command line tools
cmdlines = [
    ['cnfgen', '-q', 'php', 8, 6],
    ['cnfgen', '-q', 'op', 7, '-T', 'xor', 2],
    ['cnfgen', '-q', '--seed', 3, 'randkcnf', 3, 30, 80, '-T', 'shuffle'],
    ['cnfgen', '-q', 'tseitin', 'randomodd', 'gnd', 10, 4, '--seed', 5],
    ['cnfgen', '-q', 'peb', 'pyramid', 5, '-T', 'lift', 2, '-T', 'flip'],
    ['cnfgen', 'count', 6, 3, '-T', 'ite'],
    ['cnfgen', '-q', 'php', -3, 2],
    ['cnfgen', '-q', 'php', 3, 2, '-T', 'xor', 0],
]
for argv in cmdlines:
    err = io.StringIO()
    with contextlib.redirect_stderr(err):
        attempt(('cli', tuple(argv)), cnfgen_cli, list(argv), mode='string')
        F = attempt(('cliF', tuple(argv)), lambda: str(cnfgen_cli(list(argv), mode='formula')))
    rec('stderr', err.getvalue())
for argv in [['pbgen', '-q', 'php', 8, 6], ['pbgen', '-q', 'op', 6], ['pbgen', 'count', 6, 3],
             ['pbgen', '-q', 'php', 0, -1]]:
    err = io.StringIO()
    with contextlib.redirect_stderr(err):
        attempt(('pbcli', tuple(argv)), pbgen_cli, list(argv), mode='string')
    rec('stderr', err.getvalue())

print(hashlib.sha256("\n".join(LOG).encode('utf-8')).hexdigest())
