#!/usr/bin/env python
"""Equivalence check for the refactoring of cnfgen/clitools/graph_fileinput.py
(open_input and read_graph_from_input: graphs read from files or from
standard input on the command line).

Calls the two functions directly with every graph type, readable,
missing, unreadable and malformed files, known / unknown / missing
file name extensions, explicit and autodetected formats and standard
input (interactive or not); then drives cnfgen and pbgen with graph
file arguments.  Prints one SHA256 digest of everything observed.
"""
import os
import sys
import io
import hashlib
import random
import tempfile
import importlib

sys.path.insert(0, os.getcwd())
os.environ['COLUMNS'] = '80'

msg_mod = importlib.import_module('cnfgen.clitools.msg')
# the version string comes from `git describe`: pin it
importlib.import_module('cnfgen.info').info['version'] = 'VERSION'
cnfgen_cli = importlib.import_module('cnfgen.clitools.cnfgen')
pbgen_cli = importlib.import_module('cnfgen.clitools.pbgen')
gfi = importlib.import_module('cnfgen.clitools.graph_fileinput')
from cnfgen.clitools.graph_fileinput import open_input, read_graph_from_input
from cnfgen.clitools.graph_args import make_graph_from_spec
from cnfgen.graphs import BipartiteGraph

LOG = []


def record(*items):
    for it in items:
        LOG.append(repr(it))


class Keep(io.StringIO):
    def close(self):
        pass


class TTY(io.StringIO):
    def isatty(self):
        return True


def graph_dump(G):
    if isinstance(G, BipartiteGraph):
        return (type(G).__name__, G.name, G.left_order(), G.right_order(),
                sorted(G.edges()))
    return (type(G).__name__, G.name, G.order(), sorted(G.edges()))


def call(func, args, stdin_text='', tty=False):
    out, err = Keep(), Keep()
    stdin = TTY(stdin_text) if tty else io.StringIO(stdin_text)
    saved = (sys.stdout, sys.stderr, sys.stdin)
    sys.stdout, sys.stderr, sys.stdin = out, err, stdin
    msg_mod._prefix = ''
    try:
        try:
            res = ('graph', graph_dump(func(*args)))
        except BaseException as e:
            res = ('EXC', type(e).__name__, str(e))
    finally:
        sys.stdout, sys.stderr, sys.stdin = saved
    record(func.__name__, args, tty, res, out.getvalue(), err.getvalue(),
           stdin.closed, stdin.tell())


tmp = tempfile.mkdtemp(prefix='c18t11')
os.chdir(tmp)

CONTENT = {
    'dimacs': 'c a graph\np edge 4 3\ne 1 2\ne 2 3\ne 3 4\n',
    'kthlist': 'c a graph\n4\n1: 0\n2: 1 0\n3: 2 0\n4: 3 1 0\n',
    'bip.kthlist': 'c bipartite\n5\n1: 4 5 0\n2: 4 0\n3: 5 0\n',
    'gml': 'graph [\n directed 0\n node [ id 1 ]\n node [ id 2 ]\n node [ id 3 ]\n'
           ' edge [ source 1 target 2 ]\n edge [ source 2 target 3 ]\n]\n',
    'dag.gml': 'graph [\n directed 1\n node [ id 1 ]\n node [ id 2 ]\n node [ id 3 ]\n'
               ' edge [ source 1 target 2 ]\n edge [ source 2 target 3 ]\n]\n',
    'dot': 'graph G {\n 1 -- 2;\n 2 -- 3;\n}\n',
    'matrix': '2 3\n1 0 1\n0 1 1\n',
}
FILES = {
    'g.dimacs': CONTENT['dimacs'], 'g.kthlist': CONTENT['kthlist'],
    'b.kthlist': CONTENT['bip.kthlist'], 'g.gml': CONTENT['gml'],
    'd.gml': CONTENT['dag.gml'], 'g.dot': CONTENT['dot'],
    'b.matrix': CONTENT['matrix'],
    'noext': CONTENT['dimacs'], 'g.xyz': CONTENT['dimacs'], 'g.': CONTENT['dimacs'],
    '.dimacs': CONTENT['dimacs'], 'two.ext.kthlist': CONTENT['kthlist'],
    'g.DIMACS': CONTENT['dimacs'], 'wrong.gml': CONTENT['dimacs'],
    'wrong.dimacs': CONTENT['matrix'], 'empty.dimacs': '', 'empty.kthlist': '',
    'empty.matrix': '', 'bad.dimacs': 'p edge 3 2\ne 1 9\n',
    'bad.kthlist': '3\n1: 2 0\n2: 1 0\n',
    'bad.matrix': '2 3\n1 0\n0 1 1\n', 'trunc.gml': 'graph [ node [ id ',
    'cyc.kthlist': '2\n1: 2 0\n2: 1 0\n',
}
for name, text in FILES.items():
    with open(name, 'w') as f:
        f.write(text)
os.mkdir('adir.gml')
os.mkdir('subdir')
with open(os.path.join('subdir', 'h.dimacs'), 'w') as f:
    f.write(CONTENT['dimacs'])
with open('locked.dimacs', 'w') as f:
    f.write(CONTENT['dimacs'])
os.chmod('locked.dimacs', 0)
record('locked readable', os.access('locked.dimacs', os.R_OK))

# open_input on its own
for name in ['g.dimacs', 'nosuch.dimacs', 'adir.gml', '', 'subdir/h.dimacs', None, b'g.dimacs']:
    try:
        with open_input(name) as fh:
            record('open', name, fh.read(), fh.closed, fh is sys.stdin)
        record('closed after', fh.closed)
    except BaseException as e:
        record('open', name, 'EXC', type(e).__name__, str(e))
    try:
        with open_input(name) as fh:
            raise KeyError('inside the block')
    except BaseException as e:
        record('open+raise', name, type(e).__name__, str(e))
        try:
            record(fh.closed)
        except NameError:
            record('no fh')
for tty in (False, True):
    saved = sys.stdin
    sys.stdin = TTY('from stdin') if tty else io.StringIO('from stdin')
    try:
        with open_input('-') as fh:
            record('open -', fh is sys.stdin, fh.read())
        record('stdin closed', sys.stdin.closed)
        try:
            with open_input('-') as fh:
                raise RuntimeError('inside')
        except RuntimeError as e:
            record('open - raise', str(e), sys.stdin.closed)
    finally:
        sys.stdin = saved

GRAPHTYPES = ['simple', 'digraph', 'dag', 'bipartite']
FORMATS = ['autodetect', 'dimacs', 'kthlist', 'gml', 'dot', 'matrix', 'foo', '', None]
NAMES = sorted(FILES) + ['adir.gml', 'subdir/h.dimacs', 'locked.dimacs',
                         'nosuch.dimacs', 'nosuch', 'nosuch.xyz', '', '.', './g.dimacs',
                         os.path.join(tmp, 'g.kthlist')]
for gt in GRAPHTYPES:
    for name in NAMES:
        shown = name.replace(tmp, '<TMP>')
        for ff in FORMATS:
            before = len(LOG)
            call(read_graph_from_input, (gt, name, ff))
            LOG[before:] = [x.replace(tmp, '<TMP>') for x in LOG[before:]]

# standard input
STDIN = [CONTENT['dimacs'], CONTENT['kthlist'], CONTENT['bip.kthlist'], CONTENT['gml'],
         CONTENT['dag.gml'], CONTENT['dot'], CONTENT['matrix'], '', 'garbage\n']
for gt in GRAPHTYPES:
    for ff in FORMATS:
        for text in STDIN:
            for tty in (False, True):
                call(read_graph_from_input, (gt, '-', ff), text, tty)

# odd arguments
for args in [('simple', None, 'dimacs'), ('simple', None, 'autodetect'),
             ('nosuchtype', 'g.dimacs', 'dimacs'), ('nosuchtype', '-', 'dimacs'),
             ('simple', b'g.dimacs', 'dimacs'), ('simple', b'g.dimacs', 'autodetect'),
             (None, 'g.dimacs', 'autodetect')]:
    call(read_graph_from_input, args, CONTENT['dimacs'])

# through the graph specification parser
for gt, spec in [('simple', 'g.dimacs'), ('simple', 'dimacs g.dimacs'), ('simple', 'noext'),
                 ('simple', 'g.xyz'), ('simple', 'nosuch.gml'), ('simple', 'gml nosuch'),
                 ('simple', 'g.gml addedges 1'), ('simple', 'matrix b.matrix'),
                 ('bipartite', 'b.matrix'), ('bipartite', 'b.matrix plantbiclique 1 1'),
                 ('bipartite', 'g.dimacs'), ('bipartite', 'dimacs g.dimacs'),
                 ('dag', 'g.kthlist'), ('dag', 'cyc.kthlist'), ('dag', 'd.gml'),
                 ('dag', 'g.gml'), ('dag', '-'), ('dag', 'kthlist -'), ('simple', 'adir.gml'),
                 ('simple', 'locked.dimacs'), ('simple', 'gnp')]:
    random.seed(5)
    call(make_graph_from_spec, (gt, spec), CONTENT['kthlist'])


def run_main(mainfunc, argv, stdin_text='', tty=False):
    out, err = Keep(), Keep()
    saved = (sys.argv, sys.stdout, sys.stderr, sys.stdin)
    sys.argv, sys.stdout, sys.stderr = argv, out, err
    sys.stdin = TTY(stdin_text) if tty else io.StringIO(stdin_text)
    random.seed(12345)
    msg_mod._prefix = ''   # every command line starts in a fresh process
    try:
        try:
            mainfunc()
            res = 'return'
        except SystemExit as e:
            res = 'SystemExit(%r)' % (e.code,)
        except BaseException as e:  # unhandled internal exception
            res = 'EXC %s: %s' % (type(e).__name__, e)
    finally:
        sys.argv, sys.stdout, sys.stderr, sys.stdin = saved
    record(argv, tty, res, out.getvalue(), err.getvalue())


CMDS = [
    (cnfgen_cli, ['cnfgen', 'kcolor', '3', 'g.dimacs']),
    (cnfgen_cli, ['cnfgen', '-q', 'kcolor', '3', 'dimacs', 'noext']),
    (cnfgen_cli, ['cnfgen', '-q', 'kcolor', '3', 'noext']),
    (cnfgen_cli, ['cnfgen', '-q', '-of', 'opb', 'kcolor', '3', 'noext']),
    (cnfgen_cli, ['cnfgen', '-q', '-of', 'latex', 'kcolor', '3', 'g.xyz']),
    (cnfgen_cli, ['cnfgen', '-q', 'kcolor', '3', 'g.']),
    (cnfgen_cli, ['cnfgen', '-q', 'kcolor', '3', '.dimacs']),
    (cnfgen_cli, ['cnfgen', '-q', 'kcolor', '3', 'g.DIMACS']),
    (cnfgen_cli, ['cnfgen', '-q', 'kcolor', '3', 'nosuch.dimacs']),
    (cnfgen_cli, ['cnfgen', '-q', 'kcolor', '3', 'nosuch']),
    (cnfgen_cli, ['cnfgen', '-q', 'kcolor', '3', 'adir.gml']),
    (cnfgen_cli, ['cnfgen', '-q', 'kcolor', '3', 'locked.dimacs']),
    (cnfgen_cli, ['cnfgen', '-q', 'kcolor', '3', 'wrong.gml']),
    (cnfgen_cli, ['cnfgen', '-q', 'kcolor', '3', 'trunc.gml']),
    (cnfgen_cli, ['cnfgen', '-q', 'kcolor', '3', 'bad.dimacs']),
    (cnfgen_cli, ['cnfgen', '-q', 'kcolor', '3', 'empty.dimacs']),
    (cnfgen_cli, ['cnfgen', '-q', 'kcolor', '3', 'g.dot']),
    (cnfgen_cli, ['cnfgen', '-q', 'kcolor', '3', 'b.matrix']),
    (cnfgen_cli, ['cnfgen', '-q', 'tseitin', 'first', 'g.gml']),
    (cnfgen_cli, ['cnfgen', '-q', 'php', 'b.matrix']),
    (cnfgen_cli, ['cnfgen', '-q', 'php', 'matrix', 'bad.matrix']),
    (cnfgen_cli, ['cnfgen', '-q', 'php', 'b.kthlist']),
    (cnfgen_cli, ['cnfgen', '-q', 'php', 'g.dimacs']),
    (cnfgen_cli, ['cnfgen', '-q', 'peb', 'g.kthlist']),
    (cnfgen_cli, ['cnfgen', '-q', 'peb', 'cyc.kthlist']),
    (cnfgen_cli, ['cnfgen', '-q', 'peb', 'd.gml']),
    (cnfgen_cli, ['cnfgen', '-q', 'peb', 'empty.kthlist']),
    (cnfgen_cli, ['cnfgen', '-q', 'peb', '-'], CONTENT['kthlist']),
    (cnfgen_cli, ['cnfgen', '-q', 'peb', 'kthlist', '-'], CONTENT['kthlist']),
    (cnfgen_cli, ['cnfgen', '-q', 'peb', 'kthlist', '-'], CONTENT['kthlist'], True),
    (cnfgen_cli, ['cnfgen', '-q', '-of', 'opb', 'kcolor', '2', 'gml', '-'], CONTENT['gml'], True),
    (cnfgen_cli, ['cnfgen', '-q', '-of', 'latex', 'kcolor', '2', 'dimacs', '-'], 'junk', True),
    (cnfgen_cli, ['cnfgen', '-q', 'kcolor', '2', '-'], CONTENT['dimacs'], True),
    (cnfgen_cli, ['cnfgen', '-q', 'op', '3', '-T', 'xorcomp', 'b.matrix']),
    (cnfgen_cli, ['cnfgen', '-q', 'op', '3', '-T', 'xorcomp', 'nosuch.matrix']),
    (cnfgen_cli, ['cnfgen', '-q', 'op', '3', '-T', 'xorcomp', 'noext']),
    (pbgen_cli, ['pbgen', '-q', 'php', 'b.matrix']),
    (pbgen_cli, ['pbgen', '-q', 'php', 'noext']),
    (pbgen_cli, ['pbgen', '-q', 'php', 'nosuch.matrix']),
    (pbgen_cli, ['pbgen', '-q', 'php', 'matrix', '-'], CONTENT['matrix'], True),
]
for item in CMDS:
    run_main(item[0].main, *item[1:])

os.chmod('locked.dimacs', 0o600)
for fn in sorted(os.listdir(tmp)):
    if os.path.isfile(fn):
        with open(fn) as f:
            record('file', fn, f.read())

os.chdir(sys.path[0])
import shutil
shutil.rmtree(tmp, ignore_errors=True)

print(hashlib.sha256('\n'.join(LOG).encode('utf-8')).hexdigest())
if os.environ.get('EQUIV_DUMP'):
    with open(os.environ['EQUIV_DUMP'], 'w') as f:
        f.write('\n'.join(LOG))
