#!/usr/bin/env python
"""Equivalence harness for t23: LaTeX rendering of CNF and OPB formulas
(cnfgen.utils.latexoutput: _print_latex, to_latex_string, to_latex_document).

Run as: cd <checkout> && /venv/bin/python equiv.py
Prints one SHA256 digest of everything observed.
"""
import hashlib
import io
import os
import random
import sys
import tempfile

sys.path.insert(0, os.getcwd())

from cnfgen.info import info
# the version string comes from `git describe`: pin it, so that the
# digest does not depend on the commit that is checked out
info['version'] = 'pinned-version'
from cnfgen.formula.cnf import CNF
from cnfgen.formula.opb import OPB
from cnfgen.formula.cnfio import CNFio
from cnfgen.formula.opbio import OPBio
from cnfgen.utils import latexoutput
from cnfgen.utils.latexoutput import to_latex_string, to_latex_document
from cnfgen.clitools.cnfgen import cli as cnfgen_cli
from cnfgen.clitools.pbgen import cli as pbgen_cli

LOG = []


def rec(*items):
    LOG.append(repr(items))


class Recorder:
    """File like object that records each single write"""
    def __init__(self, fail_after=None):
        self.writes = []
        self.fail_after = fail_after

    def write(self, text):
        if self.fail_after is not None and len(self.writes) >= self.fail_after:
            raise IOError("disk full after {}".format(len(self.writes)))
        self.writes.append(text)
        return len(text)


def cnf_formulas():
    rnd = random.Random(2323)
    yield 'empty', CNF()
    yield 'empty-io', CNFio()
    yield 'one-empty-clause', CNF([[]])
    yield 'three-empty', CNF([[], [], []])
    yield 'unit', CNF([[1]])
    yield 'negunit', CNFio([[-1]])
    yield 'small', CNF([[-1, 2, -3], [-2, -4], [2, 3, -4]])
    yield 'empty-in-the-middle', CNF([[1, 2], [], [-3], [], [3]])
    F = CNF([[2, -2, 2], [-1, -1]])
    F.update_variable_number(5)
    yield 'repeated-and-extra-vars', F
    F = CNF(description='under_score è')
    x = F.new_variable('x')
    P = F.new_block(2, 3, label='p_{{{},{}}}')
    y = F.new_variable('y^2_k')
    z = F.new_variable('_lead')
    w = F.new_variable('^up')
    u = F.new_variable('a_b^c')
    F.add_clause([x, -y, -x, y])
    F.add_clause(P(1, None))
    F.add_clause([-v for v in P(None, 2)])
    F.add_clause([])
    F.add_clause([-z, -w, -u, z, w, u])
    yield 'named', F
    F = CNF()
    f = F.new_mapping(3, 2)
    F.force_complete_mapping(f)
    F.force_injective_mapping(f)
    yield 'php', F
    for m in (1, 2, 34, 35, 36, 69, 70, 71, 105, 106):
        n = rnd.randint(1, 12)
        cls = []
        for _ in range(m):
            w = rnd.randint(0, 4)
            cls.append([rnd.choice([-1, 1]) * rnd.randint(1, n)
                        for _ in range(w)])
        yield 'rand{}'.format(m), CNF(cls, description='rand_{}'.format(m))
    F = CNFio()
    F.add_clause([1, 2], check=False)
    F.add_clause([1, 5], check=False)
    F.update_variable_number(2)
    yield 'unchecked-big-literal', F
    F = CNFio()
    F.add_clause([1, 'a'], check=False)
    F.update_variable_number(1)
    yield 'unchecked-str-literal', F
    F = CNFio()
    F.add_clause([1, 0, -2], check=False)
    F.update_variable_number(2)
    yield 'unchecked-zero', F


def opb_formulas():
    rnd = random.Random(3232)
    yield 'empty', OPB()
    yield 'empty-io', OPBio()
    yield 'empty-geq', OPB([['>=', 0]])
    yield 'empty-mixed', OPB([['==', 3], ['>=', -2], ['<', 0], ['<=', 4]])
    F = OPB()
    F.cardinality_geq([1, 3, -2, 4], 3)
    F.cardinality_eq([1, 3, -2, 4], 3)
    F.cardinality_leq([1, 4, 2], 2)
    F.add_constraint([(2, 3), (2, -1), (1, -2), ">=", 2])
    F.add_constraint([(-5, 3), (7, -1), (0, 2), "<", -2])
    F.add_constraint([(10 ** 20, 6), (-3, -6), "==", 10 ** 19])
    F.add_constraint([(1, 1), (1, 1), (2, -1), ">", 0])
    F.add_constraint(["==", 0])
    F.add_clause([1, -2, 5])
    F.add_clause([])
    yield 'mixed', F
    F = OPB(description='pb_é\n\nthree lines')
    x = F.new_variable('x')
    P = F.new_block(2, 2, label='q^{}_{}')
    z = F.new_variable('zeta')
    F.add_constraint([(3, x), (2, -z), (1, P(1, 2)), '>', 1])
    F.add_constraint([(1, P(2, 1)), (4, -P(2, 2)), '==', 4])
    F.add_parity([x, z], 1)
    F.update_variable_number(9)
    yield 'named', F
    F = OPB()
    f = F.new_mapping(4, 3)
    F.force_complete_mapping(f)
    F.force_injective_mapping(f)
    F.force_functional_mapping(f)
    yield 'php', F
    for m in (1, 2, 35, 36, 70, 71, 106):
        n = rnd.randint(1, 10)
        cons = []
        for _ in range(m):
            w = rnd.randint(0, 4)
            lin = [(rnd.randint(-4, 6), rnd.choice([-1, 1]) * rnd.randint(1, n))
                   for _ in range(w)]
            cons.append(lin + [rnd.choice(['>=', '<=', '==', '>', '<']),
                               rnd.randint(-5, 9)])
        yield 'rand{}'.format(m), OPB(cons, description='pb {}'.format(m))
    F = OPBio()
    F.add_constraint([(1, 1), '>=', 1])
    F.add_constraint([(1, 1), (2, 9), '>=', 1], check=False)
    yield 'unchecked-big-literal', F
    F = OPBio()
    F.add_constraint([(1, 1), (2, 'b'), '>=', 1], check=False)
    yield 'unchecked-str-literal', F
    F = OPBio()
    F.add_constraint([(1, 1), (2, 2), '!=', 1], check=False)
    F.add_constraint([(1, 1), (2.5, 2), '>=', 1.5], check=False)
    F.add_constraint([(1, 1), (True, -2), '>=', None], check=False)
    F.update_variable_number(2)
    yield 'unchecked-op-and-coefficients', F
    F = OPBio()
    F.update_variable_number(2)
    F.add_constraint([(1, 1), (2, 2), '>=', 1], check=False)
    F._constraints.append([(1, 1), ('k', 2), '>=', 1])
    F._constraints.append([(1, 1), (1, 2, 3), '>=', 1])
    yield 'tampered', F


def exercise(name, F):
    m = len(F)
    rec(name, type(F).__name__, m, F.number_of_variables(), list(F))
    try:
        rec(name, 'string', to_latex_string(F))
    except Exception as e:  # noqa
        rec(name, 'string', 'exc', type(e).__name__, str(e))
    try:
        rec(name, 'method', F.to_latex())
    except Exception as e:  # noqa
        rec(name, 'method', 'exc', type(e).__name__, str(e))
    splits = sorted(set([-1, 0, 1, 2, 3, 7, 35, m - 1, m, m + 1]))
    for split in splits:
        for compact in (True, False):
            fails = (None,) if m > 40 and split not in (-1, 2, 35) else (None, 0, 1, 2, 3, 4, 6, 9)
            for fail_after in fails:
                out = Recorder(fail_after)
                try:
                    res = latexoutput._print_latex(F, out, split_every=split,
                                                   compact=compact)
                    rec(name, split, compact, fail_after, 'ok', res)
                except Exception as e:  # noqa
                    rec(name, split, compact, fail_after, 'exc',
                        type(e).__name__, str(e))
                rec(name, split, compact, fail_after, out.writes)
    # defaults of the keyword arguments
    out = Recorder()
    try:
        latexoutput._print_latex(F, out)
    except Exception as e:  # noqa
        rec(name, 'defaults', 'exc', type(e).__name__, str(e))
    rec(name, 'defaults', out.writes)
    for hdr in (True, False):
        for extra in ('', 'Some \\emph{extra} text\n'):
            out = Recorder()
            try:
                to_latex_document(F, out, export_header=hdr, extra_text=extra)
            except Exception as e:  # noqa
                rec(name, 'doc', hdr, extra, 'exc', type(e).__name__, str(e))
            rec(name, 'doc', hdr, extra, out.writes)
    buf = io.StringIO()
    try:
        F.to_file(buf, fileformat='latex')
    except Exception as e:  # noqa
        rec(name, 'to_file', 'exc', type(e).__name__, str(e))
    rec(name, 'to_file', buf.getvalue())
    rec(name, 'after', len(F), F.number_of_variables(), list(F))


def main():
    for name, F in cnf_formulas():
        exercise('cnf:' + name, F)
    for name, F in opb_formulas():
        exercise('opb:' + name, F)

    # real files and standard output
    tmpdir = tempfile.mkdtemp()
    F = CNF([[1, -2], [], [2]], description='file_è test')
    G = OPB([[(2, 1), (1, -2), '>=', 2], ['==', 1]], description='pb_è test')
    for fname, X in (('a.tex', F), ('b.tex', G)):
        path = os.path.join(tmpdir, fname)
        rec(fname, to_latex_document(X, path))
        with open(path, 'rb') as fh:
            rec(fname, fh.read())
        os.unlink(path)
        rec(fname, X.to_file(path))
        with open(path, 'rb') as fh:
            rec(fname, fh.read())
        os.unlink(path)
    os.rmdir(tmpdir)
    old = sys.stdout
    try:
        for X in (F, G):
            sys.stdout = cap = io.StringIO()
            to_latex_document(X, None)
            LOG.append(repr(('stdout', cap.getvalue())))
    finally:
        sys.stdout = old

    # command line tools
    cmds = [
        (cnfgen_cli, ['cnfgen', '-q', '-of', 'latex', 'php', 3, 2]),
        (cnfgen_cli, ['cnfgen', '-of', 'latex', 'php', 6, 3]),
        (cnfgen_cli, ['cnfgen', '-of', 'latex', 'op', 4]),
        (cnfgen_cli, ['cnfgen', '-of', 'latex', 'and', 0, 0]),
        (cnfgen_cli, ['cnfgen', '-of', 'latex', 'or', 0, 0]),
        (cnfgen_cli, ['cnfgen', '--seed', 11, '-of', 'latex', 'randkcnf', 3, 8, 40]),
        (pbgen_cli, ['pbgen', '-of', 'latex', 'php', 3, 2]),
        (pbgen_cli, ['pbgen', '-q', '-of', 'latex', 'php', 9, 8]),
    ]
    for cli, argv in cmds:
        old_out, old_err = sys.stdout, sys.stderr
        sys.stdout, sys.stderr = cap, caperr = io.StringIO(), io.StringIO()
        try:
            try:
                cli(argv)
                status = 'ok'
            except SystemExit as e:
                status = ('exit', e.code)
            except Exception as e:  # noqa
                status = ('exc', type(e).__name__, str(e))
        finally:
            sys.stdout, sys.stderr = old_out, old_err
        rec('cli', argv, status, cap.getvalue(), caperr.getvalue())

    digest = hashlib.sha256('\n'.join(LOG).encode('utf-8')).hexdigest()
    print(digest)


if __name__ == '__main__':
    main()
