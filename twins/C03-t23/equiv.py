#!/usr/bin/env python
"""Equivalence check for t23: the pipe gadgets of PitfallFormula
(cnfgen/families/pitfall.py), through the library and the command line."""
import hashlib
import random
import sys
import warnings
warnings.simplefilter('ignore')
sys.path.insert(0, '.')

from cnfgen.families.pitfall import PitfallFormula
from cnfgen.clitools import cnfgen as cnfgen_cli

H = hashlib.sha256()


def emit(*items):
    H.update((" ".join(repr(i) for i in items) + "\n").encode('utf-8'))


def attempt(tag, thunk):
    try:
        emit(tag, 'OK', thunk())
    except SystemExit as e:
        emit(tag, 'EXIT', e.code)
    except Exception as e:
        emit(tag, 'EXC', type(e).__name__, str(e))


def build(seed, *params):
    random.seed(seed)
    F = PitfallFormula(*params)
    after = random.random()   # state of the random stream after the call
    return (F.header['description'], F.number_of_variables(), len(F),
            list(F.all_variable_labels()), [tuple(c) for c in F.clauses()], after)


graphs = [(2, 1), (3, 2), (4, 1), (4, 2), (4, 3), (5, 2), (5, 4), (6, 3), (6, 5), (8, 3)]
for (v, d) in graphs:
    for ny in [1, 2, 3, 4, 5]:
        for nz in [1, 2, 3, 4]:
            for k in [2, 4]:
                if v * d > 16 and (ny > 3 or nz > 3 or k > 2):
                    continue
                seed = 1000 * v + 100 * d + 10 * ny + nz + k
                attempt(('pitfall', v, d, ny, nz, k),
                        lambda: build(seed, v, d, ny, nz, k))

# several random outcomes for the same parameters
for seed in range(8):
    attempt(('pitfall seeds', seed), lambda: build(seed, 6, 3, 3, 2, 2))
    attempt(('pitfall seeds b', seed), lambda: build(seed, 8, 4, 2, 3, 2))
attempt(('pitfall k6',), lambda: build(5, 4, 3, 2, 2, 6))
attempt(('pitfall paper-like',), lambda: build(5, 10, 4, 6, 3, 2))

# error paths
bad = [(4, 3, 2, 2, 3), (4, 3, 2, 2, 1), (3, 3, 2, 2, 2), (3, 4, 2, 2, 2), (5, 3, 2, 2, 2),
       (0, 3, 2, 2, 2), (4, 0, 2, 2, 2), (4, 3, 0, 2, 2), (4, 3, 2, 0, 2), (4, 3, 2, 2, 0),
       (4, 3, 2, 2, -2), (4.0, 3, 2, 2, 2), (4, 3, '2', 2, 2), (4, 3, 2, None, 2), (1, 1, 1, 1, 2)]
for params in bad:
    attempt(('pitfall bad', params), lambda: build(3, *params))

# command line
for argv in [['pitfall', '4', '3', '2', '2', '2'],
             ['pitfall', '6', '3', '4', '3', '2'],
             ['pitfall', '6', '3', '1', '1', '4'],
             ['pitfall', '5', '2', '3', '2', '2'],
             ['pitfall', '5', '3', '3', '2', '2'],
             ['pitfall', '4', '3', '2', '2', '3'],
             ['pitfall', '4', '4', '2', '2', '2'],
             ['pitfall', '4', '3', '2', '2']]:
    for seed in ['0', '17']:
        attempt(('cli', tuple(argv), seed),
                lambda: cnfgen_cli(['cnfgen', '-q', '--seed', seed] + argv, mode='string'))
        attempt(('cli varnames', tuple(argv), seed),
                lambda: [str(c) for c in cnfgen_cli(['cnfgen', '--seed', seed] + argv, mode='formula').clauses()])

print(H.hexdigest())
