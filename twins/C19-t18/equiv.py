"""Equivalence script for t18: xorcomp / majcomp command line helpers."""
import sys, os, io, random, hashlib, argparse, warnings
warnings.simplefilter('ignore')
sys.path.insert(0, os.getcwd())

from cnfgen.clitools.cnfgen import cli
from cnfgen.formula.cnf import CNF
from cnfgen.graphs import BipartiteGraph
from cnfgen.clihelpers.transformation_helpers import XorCompressionCmd, MajCompressionCmd

out = []


def rec(*items):
    out.append(repr(items))


def snapshot(F):
    buf = io.StringIO()
    F.to_file(buf, fileformat='dimacs', export_header=True, export_varnames=True)
    return (list(F.header.items()), F.number_of_variables(),
            [list(c) for c in F], list(F.all_variable_labels()), buf.getvalue())


def run_cli(argv):
    random.seed(12345)
    try:
        F = cli(['cnfgen'] + argv, mode='formula')
        rec('cli', argv, snapshot(F))
    except BaseException as e:  # SystemExit, CLIError, ...
        rec('cli-exc', argv, type(e).__name__, str(e))
    for fmt in ['dimacs', 'latex']:
        random.seed(12345)
        try:
            s = cli(['cnfgen', '-of', fmt] + argv, mode='string')
            rec('cli-str', fmt, argv, s)
        except BaseException as e:
            rec('cli-str-exc', fmt, argv, type(e).__name__, str(e))


bases = [['php', 3, 2], ['--seed', 7, 'randkcnf', 3, 5, 6], ['and', 0, 0],
         ['or', 2, 1], ['op', 3], ['tseitin', 'first', 'complete', 4]]
for base in bases:
    for name in ['xorcomp', 'majcomp']:
        for targs in [[4], [4, 2], [5, 1], [8], [1, 1], [3, 3], [2, 5], [0], [-1],
                      [], ['x'], [3, 'y'], [3, 2, 1],
                      ['glrd', 6, 4, 2], ['glrd', 5, 4, 2], ['glrm', 6, 5, 9],
                      ['complete', 6, 2], ['complete', 5, 3], ['glrp', 15, 4, 0.5]]:
            run_cli(base + ['-T', name] + targs)

# chains: provenance numbering
run_cli(['php', 3, 2, '-T', 'xorcomp', 5, 2, '-T', 'majcomp', 6, 3])
run_cli(['php', 3, 2, '-T', 'shuffle', '-T', 'majcomp', 6, 3, '-T', 'xorcomp', 4, 1, '-T', 'flip'])
run_cli(['--seed', 3, 'php', 3, 2, '-T', 'or', 2, '-T', 'xorcomp', 'glrd', 12, 5, 2, '-T', 'shuffle'])

# direct calls of the helpers
def mkF():
    F = CNF([[1, -2], [2, 3], [-1, -3], []], description='base formula')
    F.header['extra'] = 'hello'
    return F

B = BipartiteGraph(3, 4)
for u, v in [(1, 1), (1, 2), (2, 2), (2, 3), (3, 3), (3, 4), (3, 1)]:
    B.add_edge(u, v)
Bbad = BipartiteGraph(2, 4)
Bbad.add_edge(1, 1)

for cmd in [XorCompressionCmd, MajCompressionCmd]:
    rec(cmd.__name__, cmd.name)
    for ns in [argparse.Namespace(N=4, d=2), argparse.Namespace(N=4, d=2, B=B),
               argparse.Namespace(B=B), argparse.Namespace(B=Bbad),
               argparse.Namespace(N=3, d=7), argparse.Namespace(N=3),
               argparse.Namespace(), argparse.Namespace(B=None), argparse.Namespace(B='foo')]:
        F = mkF()
        before = snapshot(F)
        edges_before = sorted(B.edges())
        random.seed(99)
        try:
            G = cmd.transform_cnf(F, ns)
            rec('direct', sorted(vars(ns)), snapshot(G), G is F)
        except BaseException as e:
            rec('direct-exc', sorted(vars(ns)), type(e).__name__, str(e))
        rec('untouched', before == snapshot(F), edges_before == sorted(B.edges()),
            random.random())

print(hashlib.sha256("\n".join(out).encode('utf-8')).hexdigest())
