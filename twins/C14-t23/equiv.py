#!/usr/bin/env python
"""Equivalence script for the rewrite of the token scanner inside
`_read_graph_matrix_format` (cnfgen/graphs.py).

Feeds the matrix reader with valid, truncated, corrupted and commented
inputs (text and binary streams, instrumented streams), plus round trips
of bipartite graphs, and prints a single SHA256 digest of everything
observable.
"""
import contextlib
import hashlib
import io
import random
import sys

sys.path.insert(0, '.')

from cnfgen.graphs import (BipartiteGraph, CompleteBipartiteGraph, BaseGraph,
                           readGraph, writeGraph)
from cnfgen.graphs import _read_graph_matrix_format

H = hashlib.sha256()


def rec(*items):
    for it in items:
        H.update(repr(it).encode('utf-8'))
        H.update(b'\x00')
    H.update(b'\n')


def describe(G):
    if isinstance(G, BaseGraph):
        d = [type(G).__name__, G.number_of_vertices(), G.number_of_edges(),
             getattr(G, 'name', None)]
        if G.is_bipartite():
            d.append((G.left_order(), G.right_order()))
        d.append(list(G.edges()))
        return d
    return ['other', type(G).__name__, repr(G)[:200]]


def attempt(label, fn, *args, **kwargs):
    try:
        res = fn(*args, **kwargs)
    except Exception as e:  # noqa
        ctx = type(e.__context__).__name__ if e.__context__ is not None else None
        rec(label, 'EXC', type(e).__name__, str(e), ctx)
        return None
    rec(label, 'OK', describe(res))
    return res


class Spy(io.StringIO):
    """Text stream that logs how it is consumed"""

    def __init__(self, text):
        io.StringIO.__init__(self, text)
        self.log = []

    def readline(self, *args):
        line = io.StringIO.readline(self, *args)
        self.log.append(('readline', line))
        return line

    def readlines(self, *args):
        lines = io.StringIO.readlines(self, *args)
        self.log.append(('readlines', len(lines)))
        return lines

    def read(self, *args):
        data = io.StringIO.read(self, *args)
        self.log.append(('read', len(data)))
        return data


HAND = [
    "",
    "\n",
    "\n\n\n",
    "# only a comment\n",
    "0 0\n",
    "0 0",
    "0\n0\n",
    "0 5\n",
    "3 0\n",
    "3 0\n\n\n# trailing comment\n",
    "3 0\n0\n",
    "0 0\n1\n",
    "1 1\n1\n",
    "1 1\n0\n",
    "1 1\n2\n",
    "1 1\n-1\n",
    "1 1\n",
    "1\n",
    "1",
    "2\n# nothing more",
    "2 2\n1 0\n0 1\n",
    "2 2\n1 0\n0 1",
    "2 2 1 0 0 1\n",
    "2 2 1 0 0 1 1\n",
    "2 2 1 0 0 1\n1\n",
    "2 2 1 0 0 1\n\n  \n# fine\n#also fine\n",
    "2 2 1 0 0 1\n\n  \n# fine\n 0 # not fine\n",
    "2\n2\n1\n0\n0\n1\n",
    "2 2\n1\n0 0\n1\n",
    "  2   2  \n\t1\t0\n 0 1 \n",
    "2 2\r\n1 0\r\n0 1\r\n",
    "# header comment\n2 3\n# row one\n1 0 1\n\n# row two\n0 1 0\n",
    "#2 3\n2 3\n1 0 1\n0 1 0\n",
    "2 3\n1 0 1 # comment after data\n0 1 0\n",
    "2 3\n1 0 1\n# 0 1 0\n",
    "2 3\n1 0 1\n#\n0 1 0\n",
    "2 3\n1 0 1\n #indented comment\n0 1 0\n",
    "2 3\n1 0 1\n0 1\n",
    "2 3\n1 0 1\n0 1 0 0\n",
    "2 3\n1 0 1\n0 1 0\n0\n",
    "2 3\n1 0 1\n0 1 0\n\n\nx\n",
    "2 3\n1 0 1\n0 1 0\n\n\n1 x\n",
    "2 3\n1 0 x\n0 1 0\n",
    "2 3\n1 0 1\n0 x 0\n",
    "2 3\nx 0 1\n0 1 0\n",
    "2 3\n1 0 7\n0 1 0\n",
    "2 3\n1 0 1\n0 1 7\n",
    "2 3\n1 0 1\n\n\n0 1 -7\n",
    "2 3\n1 0 1\n0 1 0.0\n",
    "2 3\n1 0 1\n0 1 1e0\n",
    "2 3\n+1 00 01\n0 1 0\n",
    "2 3\n1_0 0 1\n0 1 0\n",
    "2 3\n１ ０ １\n0 1 0\n",
    "x 3\n1 0 1\n",
    "2 x\n1 0 1\n",
    "2.0 3\n1 0 1\n",
    "-1 3\n",
    "3 -1\n",
    "-1 -1\n",
    "2 3 x\n",
    "p edge 3 2\ne 1 2\ne 2 3\n",
    "c a kthlist\n3\n1 : 2 3 0\n",
    "1 12\n1 0 1 0 1 0 1 0 1 0 1 1\n",
    "12 1\n1\n0\n1\n0\n1\n0\n1\n0\n1\n0\n1\n1\n",
    "12 1\n1 0 1 0 1 0 1 0 1 0 1 1\n",
    "100000000000 3\n1 0 1\n",
    "2 3\n1 0 1\n0 1 0\n" + "\n" * 50 + "1\n",
    "2 3\n1 0 1\n0 1 0\n" + "# c\n" * 50,
]


def corruptions(text, rng):
    out = []
    lines = text.split('\n')
    # truncations
    for cut in sorted(set([0, 1, 2, 3, len(text) // 3, len(text) // 2,
                           len(text) - 3, len(text) - 2, len(text) - 1])):
        if 0 <= cut < len(text):
            out.append(('trunc', cut, text[:cut]))
    # dropped / duplicated / commented / blank lines
    for k in range(min(len(lines), 6)):
        i = rng.randrange(len(lines))
        out.append(('drop', i, '\n'.join(lines[:i] + lines[i + 1:])))
        out.append(('dup', i, '\n'.join(lines[:i + 1] + lines[i:])))
        out.append(('blank', i, '\n'.join(lines[:i] + ['', '   '] + lines[i:])))
        out.append(('comment', i, '\n'.join(lines[:i] + ['# 1 1 1'] + lines[i:])))
        out.append(('hash', i, '\n'.join(lines[:i] + ['#' + lines[i]] + lines[i + 1:])))
    # token substitutions
    tokens = text.split()
    for k in range(6):
        if not tokens:
            break
        i = rng.randrange(len(tokens))
        for new in ['2', '-1', 'x', '#', '1#', '']:
            t2 = tokens[:i] + [new] + tokens[i + 1:]
            out.append(('tok', i, new, ' '.join(t2)))
            out.append(('tok-lines', i, new, '\n'.join(t2)))
    # different layouts of the same tokens
    out.append(('oneline', ' '.join(tokens)))
    out.append(('onecol', '\n'.join(tokens) + '\n'))
    chunks = []
    j = 0
    while j < len(tokens):
        step = rng.randint(1, 5)
        chunks.append(' '.join(tokens[j:j + step]))
        j += step
        if rng.random() < 0.3:
            chunks.append('')
        if rng.random() < 0.3:
            chunks.append('# noise 0 1 x')
    out.append(('chunks', '\n'.join(chunks)))
    return out


def read_all_ways(label, text):
    attempt((label, 'direct'), _read_graph_matrix_format, io.StringIO(text))
    attempt((label, 'readGraph'), readGraph, io.StringIO(text),
            'bipartite', 'matrix')
    # how the stream is consumed, and where it is left
    spy = Spy(text)
    attempt((label, 'spy'), _read_graph_matrix_format, spy)
    rec((label, 'spy-log'), spy.log, spy.tell())
    # binary streams are accepted by the I/O argument checker too
    try:
        data = text.encode('ascii')
    except UnicodeEncodeError:
        data = text.encode('utf-8')
    bio = io.BytesIO(data)
    attempt((label, 'bytes'), readGraph, bio, 'bipartite', 'matrix')
    rec((label, 'bytes-pos'), bio.tell())


def main():
    rng = random.Random(1414)
    for idx, text in enumerate(HAND):
        read_all_ways(('hand', idx), text)

    # autodetection of the format from the stream name
    for name in ['graph.matrix', 'graph.kthlist', 'graph', 'graph.MATRIX']:
        s = io.StringIO("2 2\n1 1\n0 1\n")
        s.name = name
        attempt(('autodetect', name), readGraph, s, 'bipartite')
    for gtype in ['simple', 'digraph', 'dag', 'bipartite', 'weird']:
        attempt(('type', gtype), readGraph, io.StringIO("1 1\n1\n"),
                gtype, 'matrix')

    # round trips
    shapes = [(0, 0), (0, 3), (3, 0), (1, 1), (1, 10), (10, 1), (2, 3),
              (5, 7), (9, 10), (10, 10), (11, 12), (13, 4)]
    for (L, R) in shapes:
        for density in [0.0, 0.3, 1.0]:
            B = BipartiteGraph(L, R, 'B({},{},{})'.format(L, R, density))
            for u in range(1, L + 1):
                for v in range(1, R + 1):
                    if rng.random() < density:
                        B.add_edge(u, v)
            buf = io.StringIO()
            writeGraph(B, buf, 'bipartite', 'matrix')
            text = buf.getvalue()
            rec('text', L, R, density, text)
            G = attempt(('roundtrip', L, R, density), readGraph,
                        io.StringIO(text), 'bipartite', 'matrix')
            if G is not None:
                rec('same', (G.left_order(), G.right_order()) == (L, R),
                    list(G.edges()) == list(B.edges()))
            if density == 0.3 and L * R <= 120:
                for c in corruptions(text, rng):
                    read_all_ways(('corrupt', L, R) + c[:-1], c[-1])
    K = CompleteBipartiteGraph(3, 11)
    buf = io.StringIO()
    writeGraph(K, buf, 'bipartite', 'matrix')
    rec('complete', buf.getvalue())
    attempt('complete-read', readGraph, io.StringIO(buf.getvalue()),
            'bipartite', 'matrix')


captured = io.StringIO()
with contextlib.redirect_stdout(captured):
    main()
H.update(captured.getvalue().encode('utf-8'))
print(H.hexdigest())
