#!/usr/bin/env python
"""Equivalence script for the refactoring of cnfgen/clitools/graph_fileinput.py
(open_input and read_graph_from_input).

Run as:  cd <checkout> && /venv/bin/python equiv.py
Prints a single SHA256 digest of everything observed.
"""
import os
import sys
import io
import hashlib
import shutil
import tempfile
import random

sys.path.insert(0, os.getcwd())

import cnfgen
from cnfgen.graphs import (Graph, DirectedGraph, BipartiteGraph, writeGraph,
                           supported_graph_formats)
import cnfgen.clitools.graph_fileinput as gfi
from cnfgen.clitools.graph_fileinput import open_input, read_graph_from_input
from cnfgen.clitools.cnfgen import cli

LOG = []


def log(*items):
    LOG.append(repr(items))


# ---- keep track of every file opened by the module under test
OPENED = []
_real_open = open


def tracking_open(*args, **kwargs):
    fh = _real_open(*args, **kwargs)
    OPENED.append(fh)
    return fh


gfi.open = tracking_open


def opened_status():
    status = [(os.path.basename(str(fh.name)), fh.mode, fh.closed) for fh in OPENED]
    del OPENED[:]
    return status


def describe(G):
    if G.is_bipartite():
        shape = ('bip', G.left_order(), G.right_order())
    else:
        shape = (type(G).__name__, G.number_of_vertices(), G.is_dag())
    return (shape, G.number_of_edges(), list(G.edges()), G.name)


def attempt(label, func, *args, **kwargs):
    try:
        res = func(*args, **kwargs)
        log(label, 'OK', res)
    except BaseException as e:  # noqa
        log(label, 'EXC', type(e).__name__, str(e))
    log(label, 'files', opened_status())


class FakeStdin(io.StringIO):
    def __init__(self, text, tty=False):
        io.StringIO.__init__(self, text)
        self._tty = tty

    def isatty(self):
        return self._tty


def with_stdin(text, func, tty=False):
    old = sys.stdin
    olderr = sys.stderr
    fake = FakeStdin(text, tty)
    err = io.StringIO()
    sys.stdin = fake
    sys.stderr = err
    try:
        try:
            res = ('OK', func())
        except BaseException as e:  # noqa
            res = ('EXC', type(e).__name__, str(e))
    finally:
        sys.stdin = old
        sys.stderr = olderr
    return res, fake.closed, fake.tell(), err.getvalue()


def make_graphs(rnd):
    graphs = {'simple': [], 'digraph': [], 'dag': [], 'bipartite': []}
    for n in [0, 1, 2, 5, 10, 13]:
        for p in [0.0, 0.3, 1.0]:
            G = Graph(n, 'g{}'.format(n))
            D = DirectedGraph(n, 'd{}'.format(n))
            A = DirectedGraph(n, 'a{}'.format(n))
            for u in range(1, n + 1):
                for v in range(1, n + 1):
                    if u < v and rnd.random() < p:
                        G.add_edge(u, v)
                    if u < v and rnd.random() < p:
                        A.add_edge(u, v)
                    if u != v and rnd.random() < p:
                        D.add_edge(u, v)
            graphs['simple'].append(G)
            graphs['digraph'].append(D)
            graphs['dag'].append(A)
    for L, R in [(0, 0), (1, 0), (0, 2), (1, 1), (3, 4), (10, 12), (11, 2)]:
        for p in [0.0, 0.4, 1.0]:
            B = BipartiteGraph(L, R, 'b{}_{}'.format(L, R))
            for u in range(1, L + 1):
                for v in range(1, R + 1):
                    if rnd.random() < p:
                        B.add_edge(u, v)
            graphs['bipartite'].append(B)
    return graphs


def main():
    rnd = random.Random(20140914)
    here = os.getcwd()
    tmp = tempfile.mkdtemp(prefix='c14t9_')
    os.chdir(tmp)
    try:
        run(rnd)
    finally:
        os.chdir(here)
        shutil.rmtree(tmp, ignore_errors=True)
    data = "\n".join(LOG).encode('utf-8')
    if os.environ.get('EQUIV_DUMP'):
        sys.stderr.write(data.decode('utf-8') + "\n")
    print(hashlib.sha256(data).hexdigest())


def run(rnd):
    formats = supported_graph_formats()
    log('formats', sorted(formats.items()))
    graphs = make_graphs(rnd)

    # --- 1. open_input directly
    with _real_open('plain.txt', 'w') as f:
        f.write("hello\nworld\n")

    def use_open_input(name, fail=False):
        with open_input(name) as fh:
            is_stdin = fh is sys.stdin
            content = fh.read()
            if fail:
                raise KeyError('boom ' + name)
        return (is_stdin, content, fh.closed)

    attempt('oi-file', use_open_input, 'plain.txt')
    attempt('oi-file-fail', use_open_input, 'plain.txt', True)
    attempt('oi-missing', use_open_input, 'missing.txt')
    attempt('oi-dir', use_open_input, '.')
    attempt('oi-empty-name', use_open_input, '')
    attempt('oi-none', use_open_input, None)
    log('oi-stdin', with_stdin("from stdin\n", lambda: use_open_input('-')))
    log('oi-stdin-fail', with_stdin("from stdin\n", lambda: use_open_input('-', True)))
    log('oi-files', opened_status())

    # generator protocol on the context manager: exit without exception / with
    for name in ['plain.txt', '-']:
        def cm_protocol():
            cm = open_input(name)
            fh = cm.__enter__()
            first = fh.readline()
            r = cm.__exit__(None, None, None)
            return (first, r, fh.closed)
        if name == '-':
            log('oi-proto', name, with_stdin("a\nb\n", cm_protocol))
        else:
            attempt('oi-proto-' + name, cm_protocol)

        def cm_protocol_exc():
            cm = open_input(name)
            fh = cm.__enter__()
            try:
                raise RuntimeError('inside')
            except RuntimeError:
                r = cm.__exit__(*sys.exc_info())
            return (r, fh.closed)
        if name == '-':
            log('oi-proto-exc', name, with_stdin("a\nb\n", cm_protocol_exc))
        else:
            attempt('oi-proto-exc-' + name, cm_protocol_exc)

    # --- 2. round trips through files, with explicit and autodetected format
    texts = {}
    for gtype in ['simple', 'digraph', 'dag', 'bipartite']:
        for idx, G in enumerate(graphs[gtype]):
            for fmt in formats[gtype]:
                fname = '{}_{}.{}'.format(gtype, idx, fmt)
                with _real_open(fname, 'w', encoding='utf-8') as f:
                    writeGraph(G, f, gtype, fmt)
                with _real_open(fname, 'r', encoding='utf-8') as f:
                    texts[(gtype, idx, fmt)] = f.read()
                for how in ['autodetect', fmt]:
                    attempt(('rt', gtype, idx, fmt, how),
                            lambda: describe(read_graph_from_input(gtype, fname, how)))
                # same content, file without extension / wrong extension
                noext = '{}_{}_{}_noext'.format(gtype, idx, fmt)
                shutil.copy(fname, noext)
                badext = noext + '.xyz'
                shutil.copy(fname, badext)
                if idx % 4 == 0:
                    attempt(('noext-auto', gtype, idx, fmt),
                            lambda: describe(read_graph_from_input(gtype, noext, 'autodetect')))
                    attempt(('noext-fmt', gtype, idx, fmt),
                            lambda: describe(read_graph_from_input(gtype, noext, fmt)))
                    attempt(('badext-auto', gtype, idx, fmt),
                            lambda: describe(read_graph_from_input(gtype, badext, 'autodetect')))
                    attempt(('badext-fmt', gtype, idx, fmt),
                            lambda: describe(read_graph_from_input(gtype, badext, fmt)))
                    # stdin
                    for tty in [False, True]:
                        for how in ['autodetect', fmt]:
                            log(('stdin', gtype, idx, fmt, how, tty),
                                with_stdin(texts[(gtype, idx, fmt)],
                                           lambda: describe(read_graph_from_input(gtype, '-', how)),
                                           tty))
                    log('stdin-files', opened_status())

    # --- 3. wrong type for the format / wrong format for type / odd arguments
    for gtype in ['simple', 'digraph', 'dag', 'bipartite']:
        for other in ['simple', 'digraph', 'dag', 'bipartite']:
            for fmt in ['kthlist', 'gml', 'dot', 'dimacs', 'matrix', 'unknown', '']:
                fname = '{}_{}.{}'.format(other, 4, fmt)
                if not os.path.exists(fname):
                    fname = '{}_{}.{}'.format(other, 4, 'kthlist')
                for how in ['autodetect', fmt]:
                    attempt(('cross', gtype, other, fmt, how),
                            lambda: describe(read_graph_from_input(gtype, fname, how)))
    attempt('missing-auto', lambda: describe(read_graph_from_input('simple', 'nothere.gml', 'autodetect')))
    attempt('missing-fmt', lambda: describe(read_graph_from_input('simple', 'nothere.gml', 'gml')))
    attempt('missing-noext', lambda: describe(read_graph_from_input('simple', 'nothere', 'autodetect')))
    attempt('missing-badext', lambda: describe(read_graph_from_input('simple', 'nothere.zzz', 'autodetect')))
    attempt('none-name', lambda: describe(read_graph_from_input('simple', None, 'autodetect')))
    attempt('none-name-fmt', lambda: describe(read_graph_from_input('simple', None, 'gml')))
    attempt('bad-gtype', lambda: describe(read_graph_from_input('multi', 'simple_4.gml', 'gml')))
    attempt('dotfile', lambda: describe(read_graph_from_input('simple', '.gml', 'autodetect')))
    attempt('trailing-dot', lambda: describe(read_graph_from_input('simple', 'simple_4.', 'autodetect')))

    # --- 4. corrupted / truncated inputs, via file and via stdin
    samples = [('simple', 4, 'kthlist'), ('simple', 13, 'dimacs'), ('simple', 10, 'gml'),
               ('dag', 13, 'kthlist'), ('dag', 16, 'dimacs'), ('digraph', 13, 'kthlist'),
               ('digraph', 4, 'gml'), ('bipartite', 13, 'kthlist'), ('bipartite', 16, 'matrix'),
               ('bipartite', 13, 'gml'), ('digraph', 13, 'dimacs')]
    for gtype, idx, fmt in samples:
        if fmt not in formats[gtype]:
            continue
        text = texts[(gtype, idx, fmt)]
        lines = text.split('\n')
        variants = []
        variants.append(text[:len(text) // 2])
        variants.append(text[:len(text) // 3])
        variants.append('')
        variants.append('\n\n' + text)
        variants.append('c a comment\n' + text + '\n\nc trailing comment\n')
        variants.append('\n'.join(reversed(lines)))
        for _ in range(6):
            chars = list(text)
            if chars:
                for _k in range(3):
                    pos = rnd.randrange(len(chars))
                    chars[pos] = rnd.choice('0123456789 :ex\n-')
            variants.append(''.join(chars))
        for _ in range(3):
            ll = list(lines)
            if len(ll) > 1:
                del ll[rnd.randrange(len(ll))]
            variants.append('\n'.join(ll))
        for vi, vtext in enumerate(variants):
            fname = 'var_{}_{}_{}_{}.{}'.format(gtype, idx, fmt, vi, fmt)
            with _real_open(fname, 'w', encoding='utf-8') as f:
                f.write(vtext)
            attempt(('var', gtype, idx, fmt, vi),
                    lambda: describe(read_graph_from_input(gtype, fname, 'autodetect')))
            if gtype == 'digraph':
                attempt(('var-as-dag', idx, fmt, vi),
                        lambda: describe(read_graph_from_input('dag', fname, 'autodetect')))
            if vi % 3 == 0:
                log(('var-stdin', gtype, idx, fmt, vi),
                    with_stdin(vtext, lambda: describe(read_graph_from_input(gtype, '-', fmt))))

    # --- 5. the command line tool that reaches this code
    def run_cli(argv, stdin_text=''):
        def call():
            out = io.StringIO()
            oldout = sys.stdout
            sys.stdout = out
            try:
                try:
                    cli(argv)
                    code = 'returned'
                except SystemExit as e:
                    code = ('exit', e.code)
            finally:
                sys.stdout = oldout
            return (code, out.getvalue())
        return with_stdin(stdin_text, call)

    cmds = [
        ['cnfgen', '-q', 'php', '3', '2'],
        ['cnfgen', '-q', 'kcolor', '3', 'simple_4.kthlist'],
        ['cnfgen', '-q', 'kcolor', '3', 'gml', 'simple_4.gml'],
        ['cnfgen', '-q', 'kcolor', '3', 'simple_4_kthlist_noext'],
        ['cnfgen', '-q', 'kcolor', '3', 'simple_4_kthlist_noext.xyz'],
        ['cnfgen', '-q', 'kcolor', '3', 'kthlist', 'simple_4_kthlist_noext'],
        ['cnfgen', '-q', 'kcolor', '3', 'nothere.gml'],
        ['cnfgen', '-q', 'kcolor', '3', 'dimacs', '-'],
        ['cnfgen', '-q', 'kcolor', '3', '-'],
        ['cnfgen', '-q', 'peb', 'dag_13.kthlist'],
        ['cnfgen', '-q', 'peb', 'digraph_13.kthlist'],
        ['cnfgen', '-q', 'peb', 'kthlist', '-'],
        ['cnfgen', '-q', 'php', 'bipartite_13.matrix'],
        ['cnfgen', '-q', 'php', 'bipartite_13.kthlist'],
        ['cnfgen', '-q', 'php', 'matrix', '-'],
        ['cnfgen', '-q', 'tseitin', 'first', 'simple_13.dimacs'],
    ]
    stdin_for = {7: texts[('simple', 13, 'dimacs')],
                 8: texts[('simple', 13, 'dimacs')],
                 11: texts[('dag', 13, 'kthlist')],
                 14: texts[('bipartite', 13, 'matrix')]}
    for ci, argv in enumerate(cmds):
        log(('cli', ci, argv), run_cli(argv, stdin_for.get(ci, '')))
        log(('cli-files', ci), opened_status())


if __name__ == '__main__':
    main()
