#!/usr/bin/env python
"""Equivalence check for the 'save' part of graph specifications:
cnfgen.clitools.graph_args.parse_graph_argument (helper consumesaveinfo),
and the graphs that end up saved on disk."""
import sys
import os
import io
import random
import hashlib
import tempfile
import contextlib

sys.path.insert(0, os.getcwd())

from cnfgen.clitools.graph_args import parse_graph_argument
from cnfgen.clitools.graph_args import make_graph_from_spec
from cnfgen.clitools import cnfgen as cnfgen_cli

H = hashlib.sha256()
tmpdir = tempfile.mkdtemp()


def clean(x):
    return str(x).replace(tmpdir, '<TMP>')


def emit(*items):
    H.update((" ".join(clean(x) for x in items) + "\n").encode('utf-8'))


def describe(G):
    return (type(G).__name__, G.number_of_vertices(), G.number_of_edges(),
            sorted(G.edges()), getattr(G, 'name', None))


def attempt(label, fn):
    try:
        emit(label, 'OK', fn())
    except BaseException as e:  # noqa
        emit(label, 'EXC', type(e).__name__, str(e))


def dump_files():
    for name in sorted(os.listdir(tmpdir)):
        with open(os.path.join(tmpdir, name), encoding='utf-8') as f:
            emit('file', name, f.read())
        os.remove(os.path.join(tmpdir, name))


# ---- the parser alone (nothing is written) ----
heads = {
    'simple': ['gnm 5 4', 'complete 4', 'grid 2 3', 'somefile.gml',
               'kthlist input.txt', 'gnp 5 .5 plantclique 3',
               'gnm 5 4 addedges 2 splitedges 1'],
    'bipartite': ['glrm 3 3 4', 'complete 2 3', 'shift 4 4 0 1',
                  'matrix in.mat', 'regular 4 4 2 plantbiclique 2 2'],
    'dag': ['path 4', 'tree 2', 'pyramid 3', 'in.kthlist'],
    'digraph': ['path 4', 'pyramid 2', 'dot x.dot'],
}
tails = [
    'save', 'save out.gml', 'save gml', 'save gml out.gml', 'save gml out',
    'save kthlist', 'save kthlist out.txt', 'save dimacs out', 'save dot o.dot',
    'save matrix', 'save matrix m.mat', 'save out', 'save 3', 'save 3 4',
    'save out.gml extra', 'save gml out.gml extra', 'save gml gml',
    'save gml gml gml', 'save save', 'save save save', 'save out.gml save o2.gml',
    'save gml out.gml save', 'save addedges', 'save addedges 3',
    'save out.gml addedges 2', 'save gml out.gml addedges 2',
    'save kthlist o.k plantclique 2', 'save o.k plantbiclique 1 1',
    'addedges 1 save', 'addedges 1 save gml', 'addedges 1 save gml o',
    'addedges 1 save o.dimacs', 'save -o', 'save gml -o', 'save autodetect',
    'save autodetect x.gml', 'save gnm', 'save complete 3', 'save simple',
    'save dag', 'save bipartite x',
]
for gtype in sorted(heads):
    for head in heads[gtype]:
        for tail in tails:
            spec = head + ' ' + tail
            attempt(('parse', gtype, spec),
                    lambda: sorted(parse_graph_argument(gtype, spec).items(),
                                   key=lambda kv: kv[0]))
            attempt(('parselist', gtype, spec),
                    lambda: sorted(parse_graph_argument(gtype, spec.split()).items(),
                                   key=lambda kv: kv[0]))

for gtype in sorted(heads):
    for spec in ['', 'save', 'save x.gml', 'gml', 'kthlist', 'save gml x']:
        attempt(('short', gtype, spec),
                lambda: sorted(parse_graph_argument(gtype, spec).items()))

# ---- build and save: the saved file is the graph that was built ----
os.chdir(tmpdir)
cases = [
    ('simple', 'gnm 7 9 save kthlist g1.txt'),
    ('simple', 'gnm 7 9 save g2.kthlist'),
    ('simple', 'gnm 7 9 save g3.dimacs'),
    ('simple', 'gnm 7 9 save gml g4'),
    ('simple', 'gnm 7 9 save g5.gml'),
    ('simple', 'gnm 7 9 save g6.unknown'),
    ('simple', 'gnm 7 9 save g7'),
    ('simple', 'gnm 7 9 save matrix g8.matrix'),
    ('simple', 'gnm 7 9 save g9.matrix'),
    ('simple', 'gnd 6 3 plantclique 4 addedges 2 splitedges 3 save dimacs g10'),
    ('simple', 'gnp 6 .4 save kthlist g11 addedges 3'),
    ('simple', 'complete 3 2 save nosuchdir/g12.gml'),
    ('simple', 'grid 2 3 save kthlist'),
    ('simple', 'torus 3 3 save'),
    ('bipartite', 'glrm 4 5 7 save matrix b1'),
    ('bipartite', 'glrm 4 5 7 save b2.matrix'),
    ('bipartite', 'glrd 4 5 2 save kthlist b3'),
    ('bipartite', 'regular 4 4 2 plantbiclique 2 2 save b4.gml'),
    ('bipartite', 'shift 5 5 0 1 3 addedges 2 save b5.kthlist'),
    ('bipartite', 'complete 2 3 save dimacs b6'),
    ('bipartite', 'glrp 3 4 .5 save b7.dimacs'),
    ('bipartite', 'empty 2 2 save matrix'),
    ('dag', 'pyramid 3 save d1.kthlist'),
    ('dag', 'tree 2 save gml d2'),
    ('dag', 'path 5 save kthlist d3'),
    ('dag', 'path 5 save dimacs d4'),
    ('dag', 'path 5 save d5.matrix'),
    ('digraph', 'tree 3 save d6.gml'),
    ('digraph', 'pyramid 2 save kthlist'),
]
for gtype, spec in cases:
    for seed in [2, 99]:
        def run():
            random.seed(seed)
            G = make_graph_from_spec(gtype, spec)
            return describe(G), random.random()
        attempt(('build', gtype, spec, seed), run)
        dump_files()

# save and read back
for gtype, gen, fmt in [('simple', 'gnm 6 8', 'kthlist'), ('simple', 'gnd 6 3', 'gml'),
                        ('simple', 'gnp 6 .5', 'dimacs'),
                        ('bipartite', 'glrm 3 4 6', 'matrix'),
                        ('bipartite', 'glrd 3 4 2', 'kthlist'),
                        ('dag', 'pyramid 2', 'kthlist'), ('dag', 'tree 2', 'gml')]:
    def run():
        random.seed(17)
        G = make_graph_from_spec(gtype, gen + ' save ' + fmt + ' rb.file')
        G2 = make_graph_from_spec(gtype, fmt + ' rb.file')
        G3 = make_graph_from_spec(gtype, gen + ' save rb2.' + fmt)
        G4 = make_graph_from_spec(gtype, 'rb2.' + fmt)
        return describe(G), describe(G2), describe(G3), describe(G4)
    attempt(('roundtrip', gtype, gen, fmt), run)
    dump_files()

# ---- the cnfgen command line ----
cmdlines = [
    ['cnfgen', '-q', '--seed', 4, 'kcolor', 3, 'gnm', 6, 8, 'save', 'kthlist', 'c1.txt'],
    ['cnfgen', '-q', '--seed', 4, 'kcolor', 3, 'gnm', 6, 8, 'save', 'c2.gml'],
    ['cnfgen', '-q', '--seed', 4, 'kcolor', 3, 'gnm', 6, 8, 'save'],
    ['cnfgen', '-q', '--seed', 4, 'kcolor', 3, 'gnm', 6, 8, 'save', 'gml'],
    ['cnfgen', '-q', '--seed', 4, 'kcolor', 3, 'gnm', 6, 8, 'save', 'c3'],
    ['cnfgen', '-q', '--seed', 4, 'php', 'glrd', 4, 3, 2, 'save', 'matrix', 'c4'],
    ['cnfgen', '-q', '--seed', 4, 'php', 'glrd', 4, 3, 2, 'save', 'matrix'],
    ['cnfgen', '-q', '--seed', 4, 'peb', 'pyramid', 2, 'save', 'c5.kthlist'],
    ['cnfgen', '-q', '--seed', 4, 'peb', 'pyramid', 2, 'save', 'kthlist', 'c6', 'save', 'c7.gml'],
    ['cnfgen', '-q', '--seed', 4, 'subsetcard', 'regular', 4, 4, 2, 'addedges', 1, 'save', 'c8.matrix'],
    ['cnfgen', '-q', '--seed', 4, 'iso', 'gnm', 4, 3, 'save', 'c9.gml', '-e', 'gnm', 4, 3, 'save', 'kthlist', 'c10'],
]
for cmd in cmdlines:
    def run():
        out = io.StringIO()
        err = io.StringIO()
        try:
            with contextlib.redirect_stdout(out), contextlib.redirect_stderr(err):
                res = cnfgen_cli(cmd, mode='string')
        except SystemExit as e:
            return ('exit', e.code, out.getvalue(), err.getvalue())
        return (res, out.getvalue(), err.getvalue())
    attempt(('cli', cmd), run)
    dump_files()

os.chdir('/')
os.rmdir(tmpdir)
print(H.hexdigest())
