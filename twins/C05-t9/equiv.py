"""Equivalence script for t9: CNFLinear.add_linear, the '!=' branch
(used by AnythingButKSubstitution / LinearSubstitution with '!=' and,
as negated operator, by the '==' substitutions)."""
import hashlib
import itertools
import random
import sys

sys.path.insert(0, '.')

from cnfgen.formula.cnf import CNF
from cnfgen.formula.linear import CNFLinear
from cnfgen.transformations.substitutions import (
    LinearSubstitution, AnythingButKSubstitution, ExactlyKSubstitution,
    ExactlyOneSubstitution)

out = []


def rec(*items):
    out.append(repr(items))


def attempt(tag, fn):
    try:
        res = fn()
        rec(tag, 'ok', res)
    except Exception as e:  # record type and message
        rec(tag, 'exc', type(e).__name__, str(e))


def dump(F):
    return (F.number_of_variables(), F.number_of_clauses(),
            [list(c) for c in F], sorted(F.header.items(), key=repr),
            list(F.all_variable_labels()))


# 1. direct calls of add_linear with every operator
litsets = [[], [1], [-1], [1, 2], [-1, 2], [1, 2, 3], [-1, 2, -3],
           [3, 1, 2, 5], [1, 1, 2], [1, -1], [4, -7, 2, 9, -3],
           (1, 2, 3), (5, -6), range(1, 5)]
for lits in litsets:
    for op in ['<=', '>=', '<', '>', '==', '!=']:
        for c in range(-2, 8):
            for check in (True, False):
                def run(lits=lits, op=op, c=c, check=check):
                    F = CNFLinear()
                    orig = list(lits)
                    F.add_linear(lits, op, c, check=check)
                    # the caller's sequence must not be modified
                    return (list(F), F.number_of_variables(),
                            list(lits) == orig)
                attempt(('lin', list(lits), op, c, check), run)

# generators as input
for op in ['!=', '==', '<=']:
    for c in range(-1, 5):
        def run(op=op, c=c):
            F = CNFLinear()
            F.add_linear((x for x in [2, -3, 4]), op, c)
            return (list(F), F.number_of_variables())
        attempt(('gen', op, c), run)

# the caller keeps its list unchanged, clauses are independent copies
F = CNFLinear()
mylits = [1, -2, 3, 4]
F.add_linear(mylits, '!=', 2)
rec('alias', mylits, list(F))
mylits[0] = 99
rec('alias2', mylits, list(F))

# error paths
attempt('badop', lambda: CNFLinear().add_linear([1, 2], '=', 1))
attempt('zero', lambda: CNFLinear().add_linear([1, 0], '!=', 1))
attempt('str', lambda: CNFLinear().add_linear([1, 'a'], '!=', 1))
attempt('strconst', lambda: CNFLinear().add_linear([1, 2], '!=', 'a'))
attempt('floatconst', lambda: CNFLinear().add_linear([1, 2], '!=', 1.0))
attempt('none', lambda: CNFLinear().add_linear(None, '!=', 1))
attempt('cardneq', lambda: (lambda G: (G.cardinality_neq([1, 2, 3], 1), list(G)))(CNFLinear()))
attempt('boolconst', lambda: (lambda G: (G.add_linear([1, 2, 3], '!=', True), list(G)))(CNFLinear()))

# 2. substitutions that use the '!=' encoding
rng = random.Random(20250505)
formulas = []
F0 = CNF()
formulas.append(F0)
F1 = CNF([[]])
formulas.append(F1)
F2 = CNF([[1, -2], [2, 3], [-1, -3], []])
formulas.append(F2)
F3 = CNF([[1, 1, -1], [2, -2]])
F3.update_variable_number(4)
formulas.append(F3)
F4 = CNF()
F4.new_variable('a{1}')
b = F4.new_block(2, label='b_{}')
F4.add_clause([1, -b(1)])
F4.add_clause([-1, b(2), b(1)])
formulas.append(F4)
for _ in range(4):
    n = rng.randint(1, 4)
    G = CNF()
    G.update_variable_number(n)
    for _ in range(rng.randint(0, 4)):
        w = rng.randint(0, 3)
        G.add_clause([rng.choice([1, -1]) * rng.randint(1, n) for _ in range(w)])
    formulas.append(G)

for idx, G in enumerate(formulas):
    for k in range(1, 5):
        for C in range(-1, k + 2):
            for op in ['!=', '==']:
                attempt(('LS', idx, k, op, C),
                        lambda G=G, k=k, op=op, C=C: dump(LinearSubstitution(G, k, op, C)))
            attempt(('AB', idx, k, C),
                    lambda G=G, k=k, C=C: dump(AnythingButKSubstitution(G, k, C)))
            attempt(('EK', idx, k, C),
                    lambda G=G, k=k, C=C: dump(ExactlyKSubstitution(G, k, C)))
        attempt(('E1', idx, k), lambda G=G, k=k: dump(ExactlyOneSubstitution(G, k)))

# semantic check of the anything-but composition on small cases, recorded too
def sat(F, assignment):
    return all(any((l > 0) == assignment[abs(l)] for l in c) for c in F)

for idx, G in enumerate(formulas[:6]):
    n = G.number_of_variables()
    for k in (1, 2, 3):
        if n * k > 9:
            continue
        for C in range(0, k + 1):
            T = AnythingButKSubstitution(G, k, C)
            good = T.number_of_variables() == n * k
            for bits in itertools.product([False, True], repeat=n * k):
                a = dict(enumerate(bits, start=1))
                ind = {v: (sum(bits[(v - 1) * k:(v) * k]) != C) for v in range(1, n + 1)}
                good = good and (sat(T, a) == sat(G, ind))
            rec('sem', idx, k, C, good)

print(hashlib.sha256("\n".join(out).encode('utf-8')).hexdigest())
