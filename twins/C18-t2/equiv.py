#!/usr/bin/env python3
"""Equivalence script for C18 refactoring 2: ObtainSimpleGraph / ObtainBipartiteGraph /
ObtainDirectedAcyclicGraph .__call__ (cnfgen/clitools/graph_args.py)

Run as `cd <checkout> && /venv/bin/python equiv.py`.  Prints one SHA256 digest
of everything observable: exit codes, stdout, stderr, exception types/messages.
"""
import os
import sys
import io
import random
import hashlib
import tempfile
import shutil
import warnings

warnings.simplefilter('ignore')
sys.path.insert(0, os.getcwd())

import cnfgen                                    # noqa: E402
from cnfgen.info import info                     # noqa: E402
info['version'] = 'VERSION'

import importlib                                 # noqa: E402
# (the package re-exports functions named like the modules: go through importlib)
cnfgen_cli = importlib.import_module('cnfgen.clitools.cnfgen')
pbgen_cli = importlib.import_module('cnfgen.clitools.pbgen')
shuffle_cli = importlib.import_module('cnfgen.clitools.cnfshuffle')
from cnfgen.clitools.cmdline import CLIParser, CLIError  # noqa: E402
from cnfgen.clitools.cmdline import get_formula_helpers, get_transformation_helpers  # noqa: E402

# load all helper modules once, outside any captured run
get_formula_helpers()
get_transformation_helpers()

msg_module = importlib.import_module('cnfgen.clitools.msg')
TOOLS = {'cnfgen': cnfgen_cli, 'pbgen': pbgen_cli, 'cnfshuffle': shuffle_cli}

H = hashlib.sha256()


def record(*items):
    if os.environ.get('C18_DUMP'):
        sys.__stdout__.write(repr(items)[:int(os.environ['C18_DUMP'])] + '\n')
    for it in items:
        H.update(repr(it).encode('utf-8'))
        H.update(b'\x00')


class Keep(io.StringIO):
    """StringIO that survives close() (main() closes sys.stderr)"""
    def close(self):
        pass


def run_main(tool, args, stdin_text=''):
    """Run the `main` entry point of a tool, in process"""
    mod = TOOLS[tool]
    out, err = Keep(), Keep()
    old = sys.stdout, sys.stderr, sys.stdin, sys.argv
    sys.stdout, sys.stderr, sys.stdin = out, err, io.StringIO(stdin_text)
    sys.argv = [tool] + [str(a) for a in args]
    random.seed(12345)
    msg_module._prefix = ''      # a fresh process starts with no message prefix
    code, exc = 0, None
    try:
        mod.main()
    except SystemExit as e:
        code = e.code
    except BaseException as e:   # unhandled internal exception
        exc = (type(e).__name__, str(e))
    finally:
        sys.stdout, sys.stderr, sys.stdin, sys.argv = old
    record('main', tool, args, code, exc, out.getvalue(), err.getvalue())


def run_cli(tool, args, mode='string', stdin_text=''):
    """Run the `cli` function of a tool, in process"""
    mod = TOOLS[tool]
    out, err = Keep(), Keep()
    old = sys.stdout, sys.stderr, sys.stdin
    sys.stdout, sys.stderr, sys.stdin = out, err, io.StringIO(stdin_text)
    random.seed(12345)
    msg_module._prefix = ''      # a fresh process starts with no message prefix
    res, exc = None, None
    try:
        res = mod.cli([tool] + list(args), mode=mode)
        if not isinstance(res, (str, type(None))):
            res = res.to_dimacs() if hasattr(res, 'to_dimacs') else res.to_opb()
    except SystemExit as e:
        exc = ('SystemExit', e.code)
    except BaseException as e:
        exc = (type(e).__name__, str(e))
    finally:
        sys.stdout, sys.stderr, sys.stdin = old
    record('cli', tool, args, mode, res, exc, out.getvalue(), err.getvalue())


def write(name, text):
    with open(name, 'w') as f:
        f.write(text)


def core_vectors():
    """Argument vectors shared by the C18 equivalence scripts"""
    V = []
    # plain successes in the three formats
    for fmt in ([], ['-of', 'dimacs'], ['-of', 'opb'], ['-of', 'latex'], ['-l'], ['-q'], ['-v'],
                ['--varnames']):
        V.append(('cnfgen', fmt + ['php', 3, 2]))
        V.append(('cnfgen', fmt + ['--seed', 7, 'randkcnf', 3, 6, 5]))
    V.append(('pbgen', ['php', 3, 2]))
    V.append(('pbgen', ['-of', 'latex', 'php', 3, 2]))
    V.append(('pbgen', ['-of', 'dimacs', 'php', 3, 2]))
    V.append(('pbgen', ['php', 3, 2, '-T', 'shuffle']))
    # help / version / no arguments
    for tool in ('cnfgen', 'pbgen'):
        V += [(tool, []), (tool, ['-h']), (tool, ['--help']), (tool, ['-V']),
              (tool, ['php', '-h']), (tool, ['--help-graph']), (tool, ['--help-dag']),
              (tool, ['--help-bipartite']), (tool, ['--nonsense']), (tool, ['nonsense']),
              (tool, ['php']), (tool, ['php', 3]), (tool, ['php', 3, 2, 1, 0]),
              (tool, ['php', 'x', 2]), (tool, ['php', -1, 2]), (tool, ['php', 0, 0]),
              (tool, ['php', 3, 2, '--bogus']), (tool, ['-of', 'xyz', 'php', 3, 2]),
              (tool, ['-o']), (tool, ['--seed']), (tool, ['-o', 'nodir/sub/f.cnf', 'php', 2, 1])]
    V.append(('cnfgen', ['--tutorial']))
    # numbers inside, at and beyond the boundaries
    for n in (-1, 0, 1, 2, 3):
        V.append(('cnfgen', ['op', n]))
        V.append(('cnfgen', ['parity', n]))
        V.append(('cnfgen', ['count', n, 2]))
        V.append(('cnfgen', ['count', 4, n]))
        V.append(('cnfgen', ['ram', n, 2, 3]))
        V.append(('cnfgen', ['tseitin', n]))
        V.append(('cnfgen', ['tseitin', 6, n]))
        V.append(('cnfgen', ['-S', 1, 'randkcnf', n, 3, 2]))
        V.append(('cnfgen', ['-S', 1, 'randkcnf', 2, n, 2]))
        V.append(('cnfgen', ['-S', 1, 'randkcnf', 2, 3, n]))
        V.append(('cnfgen', ['php', n, 2]))
        V.append(('cnfgen', ['php', 2, n]))
        V.append(('cnfgen', ['vdw', 5, n, 3]))
        V.append(('cnfgen', ['stone', n, 'pyramid', 2]))
        V.append(('cnfgen', ['peb', 'pyramid', n]))
        V.append(('cnfgen', ['peb', 'tree', n]))
        V.append(('cnfgen', ['peb', 'path', n]))
        V.append(('cnfgen', ['kclique', n, 'complete', 3]))
        V.append(('cnfgen', ['kcolor', n, 'gnp', 4, 0.5]))
        V.append(('cnfgen', ['php', 3, 2, '-T', 'xor', n]))
        V.append(('cnfgen', ['php', 3, 2, '-T', 'lift', n]))
        V.append(('cnfgen', ['op', 3, '-T', 'or', n, '-T', 'shuffle']))
    V += [('cnfgen', ['randkcnf', 3, 3, 9]), ('cnfgen', ['randkcnf', 3, 3, 8]),
          ('cnfgen', ['randkcnf', 'a', 3, 8]), ('cnfgen', ['randkcnf', 3.5, 3, 8]),
          ('cnfgen', ['php', 3, 2, '-T']), ('cnfgen', ['php', 3, 2, '-T', 'nonsense']),
          ('cnfgen', ['php', 3, 2, '-T', 'xor']), ('cnfgen', ['php', 3, 2, '-T', 'xor', 'q']),
          ('cnfgen', ['-T', 'xor', 2]), ('cnfgen', ['-T']),
          ('cnfgen', ['tseitin', 'first', 'gnd', 6, 3]), ('cnfgen', ['tseitin', 'gnd', 5, 3]),
          ('cnfgen', ['tseitin', 'random', 'gnd', 5, 3]), ('cnfgen', ['tseitin', 5, 3]),
          ('cnfgen', ['tseitin', 'first']), ('cnfgen', ['tseitin']),
          ('cnfgen', ['subsetcard', 'regular', 4, 4, 2]), ('cnfgen', ['subsetcard', 'regular', 4, 4, 9])]
    # graph specifications, well formed and malformed
    G = [['gnp', 5, 0.5], ['gnp', 5, 1.5], ['gnp', 5, -0.1], ['gnp', 5], ['gnp'], ['gnp', 0, 0.5],
         ['gnp', -1, 0.5], ['gnp', 'x', 0.5], ['gnp', 5, 0.5, 7],
         ['gnm', 5, 4], ['gnm', 5, 10], ['gnm', 5, 11], ['gnm', 5, -1], ['gnm', 5, 2.5],
         ['gnd', 6, 3], ['gnd', 5, 3], ['gnd', 4, 4], ['gnd', 4, -1],
         ['grid', 2, 3], ['grid', 0], ['grid'], ['grid', 2, -3], ['torus', 3, 3], ['torus', 1],
         ['complete', 4], ['complete', 0], ['complete', -2], ['complete'], ['empty', 3], ['empty', 0],
         ['complete', 4, 'plantclique', 3], ['empty', 4, 'plantclique', 5], ['empty', 4, 'plantclique'],
         ['empty', 4, 'plantclique', -1], ['empty', 4, 'addedges', 3], ['empty', 4, 'addedges', 7],
         ['empty', 4, 'addedges', -1], ['empty', 4, 'addedges', 1, 'addedges', 1],
         ['complete', 4, 'splitedges', 2], ['complete', 4, 'splitedges', 9],
         ['empty', 4, 'plantbiclique', 1, 1], ['empty', 4, 'gnp', 4, .5], ['empty', 4, 'bogus'],
         ['empty', 4, '--bogus'], ['empty', 4, 'simple'], ['glrp', 3, 3, .5], ['path', 3],
         ['empty', 4, 'save'], ['empty', 4, 'save', 'gml'], ['empty', 4, 'save', 'saved.gml'],
         ['empty', 4, 'save', 'dot', 'saved2.xyz'], ['empty', 4, 'save', 'saved.xyz'],
         ['empty', 4, 'save', 'nodir/saved.gml'], ['empty', 4, 'save', 'kthlist', 'saved.kthlist'],
         ['good.gml'], ['gml', 'good.gml'], ['gml'], ['dot', 'good.gml'], ['good.dimacs'], ['bad.gml'],
         ['bad.dimacs'], ['noext'], ['weird.xyz'], ['missing.gml'], ['gml', 'missing.gml'],
         ['kthlist', 'good.gml'], ['matrix', 'good.matrix'], ['adir.gml'], ['empty.gml'],
         ['gml', 'noext'], ['dimacs', 'noext'], ['good.gml', 'addedges', 1], ['good.gml', 'bogus'],
         ['dimacs', '-'], ['-'], ['gml', '-']]
    for g in G:
        V.append(('cnfgen', ['-S', 3, 'kcolor', 3] + g))
    V.append(('cnfgen', ['-S', 3, 'domset', 2] + ['gnp', 5, .5]))
    V.append(('cnfgen', ['iso', 'good.gml', '-e', 'good.dimacs']))
    V.append(('cnfgen', ['iso', 'gnd', 4, 2]))
    # bipartite
    B = [['glrp', 3, 3, .5], ['glrp', 3, 3, 2], ['glrm', 3, 3, 4], ['glrm', 3, 3, 10], ['glrd', 3, 3, 2],
         ['glrd', 3, 3, 4], ['regular', 4, 4, 2], ['regular', 4, 3, 2], ['shift', 4, 4, 1, 2],
         ['shift', 4, 4], ['shift', 4, 4, 0], ['shift', 4, 4, 5], ['complete', 2, 3], ['complete', 2],
         ['empty', 2, 2], ['empty', 0, 0], ['empty', 2, 2, 'plantbiclique', 1, 1],
         ['empty', 2, 2, 'plantbiclique', 3, 1], ['empty', 2, 2, 'plantbiclique', 1],
         ['empty', 2, 2, 'plantclique', 1], ['empty', 2, 2, 'addedges', 4], ['empty', 2, 2, 'addedges', 5],
         ['gnp', 4, .5], ['good.matrix'], ['matrix', 'good.matrix'], ['bad.matrix'], ['good.gml'],
         ['gml', 'good.gml'], ['missing.matrix'], ['noext'], ['matrix', 'noext'], ['matrix'],
         ['empty', 2, 2, 'save', 'savedb.matrix'], ['empty', 2, 2, 'save', 'matrix'],
         ['complete', 2, 2, 'save', 'gml', 'savedb.gml']]
    for b in B:
        V.append(('cnfgen', ['-S', 3, 'php'] + b))
        V.append(('pbgen', ['-S', 3, 'php'] + b))
    # dags
    D = [['pyramid', 2], ['pyramid', 0], ['pyramid', -1], ['pyramid'], ['tree', 2], ['tree', 0], ['path', 0],
         ['path', 3], ['path', 3, 'save', 'savedd.kthlist'], ['path', 3, 'addedges', 1], ['gnp', 3, .5],
         ['good.kthlist'], ['kthlist', 'good.kthlist'], ['bad.kthlist'], ['cyclic.kthlist'],
         ['good.gml'], ['dot', 'good.dot'], ['good.dot'], ['missing.kthlist'], ['noext'], ['kthlist', 'noext'],
         ['kthlist']]
    for d in D:
        V.append(('cnfgen', ['peb'] + d))
        V.append(('cnfgen', ['stone', 2] + d))
    # dimacs input and cnfshuffle
    for f in ('good.cnf', 'bad.cnf', 'bad2.cnf', 'bad3.cnf', 'missing.cnf', 'adir.gml', 'empty.gml'):
        V.append(('cnfgen', ['dimacs', f]))
        V.append(('cnfgen', ['-q', 'dimacs', f, '-T', 'shuffle']))
        V.append(('cnfshuffle', ['-S', 5, '-i', f]))
        V.append(('cnfshuffle', ['-S', 5, '-q', '-p', '-v', '-c', '-i', f]))
    V += [('cnfshuffle', ['-h']), ('cnfshuffle', ['--bogus']), ('cnfshuffle', ['extra']),
          ('cnfshuffle', ['-S']), ('cnfshuffle', ['-i']), ('cnfshuffle', ['-o', 'nodir/x.cnf', '-i', 'good.cnf']),
          ('cnfshuffle', ['-S', 1, '-o', 'shuffled.cnf', '-i', 'good.cnf'])]
    V.append(('cnfgen', ['-o', 'out.cnf', 'php', 3, 2]))
    V.append(('cnfgen', ['-o', 'out.tex', 'php', 3, 2]))
    V.append(('cnfgen', ['-o', 'out.opb', 'php', 3, 2]))
    V.append(('pbgen', ['-o', 'out2.cnf', 'php', 3, 2]))
    V.append(('pbgen', ['-o', 'out2.opb', 'php', 3, 2]))
    V.append(('cnfgen', ['-o', 'out3.tex', 'kcolor', 3, 'good.gml']))
    return V


def make_files():
    write('good.gml', 'graph [\n node [ id 1 label "1" ]\n node [ id 2 label "2" ]\n node [ id 3 label "3" ]\n'
                      ' edge [ source 1 target 2 ]\n edge [ source 2 target 3 ]\n]\n')
    write('bad.gml', 'graph [\n node [ id 1 label\n edge [ source 1 target 9 ]\n')
    write('empty.gml', '')
    write('good.dimacs', 'c comment\np edge 3 2\ne 1 2\ne 2 3\n')
    write('bad.dimacs', 'p edge 3 2\ne 1 2\ne 2 7\ne x y\n')
    write('noext', 'p edge 3 2\ne 1 2\ne 2 3\n')
    write('weird.xyz', 'p edge 3 2\ne 1 2\ne 2 3\n')
    write('good.matrix', '2 3\n1 0 1\n0 1 1\n')
    write('bad.matrix', '2 3\n1 0 1\n0 1\n')
    write('good.kthlist', '3\n1 : 0\n2 : 0\n3 : 1 2 0\n')
    write('bad.kthlist', '3\n1 : 0\n2 : 5 0\nfoo\n')
    write('cyclic.kthlist', '3\n1 : 3 0\n2 : 1 0\n3 : 2 0\n')
    write('good.dot', 'digraph G {\n 1 -> 2;\n 2 -> 3;\n 1 -> 3;\n}\n')
    write('good.cnf', 'c hello\np cnf 3 2\n1 -2 0\n2 3 -1 0\n')
    write('bad.cnf', 'p cnf 3 2\n1 -2 0\n2 5 -1 0\n')
    write('bad2.cnf', 'p cnf 3 3\n1 -2 0\n')
    write('bad3.cnf', 'hello world\n1 2 x 0\n')
    os.mkdir('adir.gml')


def record_files():
    for root, dirs, files in sorted(os.walk('.')):
        dirs.sort()
        for name in sorted(files):
            path = os.path.join(root, name)
            with open(path, 'rb') as f:
                record('file', path, f.read())


def specific():
    """Direct calls of the three graph-argument actions, the refactored code"""
    import argparse
    graph_args = importlib.import_module('cnfgen.clitools.graph_args')

    class Both(ValueError, OSError):
        pass

    class FakeParser:
        def __init__(self, behaviour):
            self.behaviour = behaviour

        def error(self, message):
            record('parser.error', type(message).__name__, message)
            if self.behaviour == 'cli':
                raise CLIError(message)
            if self.behaviour == 'value':
                raise ValueError('from error: ' + message)
            if self.behaviour == 'os':
                raise OSError('from error: ' + message)
            return None

    actions = [('simple', graph_args.ObtainSimpleGraph),
               ('bipartite', graph_args.ObtainBipartiteGraph),
               ('dag', graph_args.ObtainDirectedAcyclicGraph)]
    specs = [['gnp', '4', '.5'], ['gnp', '4', '7'], ['glrp', '2', '2', '.5'], ['glrp', '2', '2', '5'],
             ['pyramid', '2'], ['pyramid', '-2'], ['missing.gml'], ['missing.matrix'], ['missing.kthlist'],
             ['adir.gml'], ['gml', 'adir.gml'], ['good.gml'], ['good.matrix'], ['good.kthlist'], ['bad.gml'],
             ['bad.matrix'], ['bad.kthlist'], ['noext'], ['weird.xyz'], [], None, 'gnp 3 .5', 'empty 2 2', 'path 2',
             [3], ['empty', '3', 'save', 'nodir/x.gml'], ['empty', '2', '2', 'save', 'nodir/x.matrix'],
             ['path', '2', 'save', 'nodir/x.kthlist'], ['empty', '3', 'save', 'adir.gml'],
             ['complete', '3', 'save', 'sp_saved.dot'], ['empty', '3', 'bogus'], ['-x']]
    for gtype, cls in actions:
        for nargs in (None, 1, '+'):
            try:
                cls(['--g'], 'G', nargs=nargs)
                record('ctor ok', gtype, nargs)
            except BaseException as e:
                record('ctor', gtype, nargs, type(e).__name__, str(e))
        act = cls([], 'G')
        record('action', gtype, act.nargs, act.dest)
        for behaviour in ('cli', 'none', 'value', 'os'):
            for spec in specs:
                ns = argparse.Namespace()
                random.seed(99)
                try:
                    act(FakeParser(behaviour), ns, spec)
                    G = getattr(ns, 'G', None)
                    if G is None:
                        record('no graph', gtype, behaviour, spec)
                    else:
                        record('graph', gtype, behaviour, spec, G.name, G.number_of_vertices(),
                               sorted(G.edges()))
                except BaseException as e:
                    record('raised', gtype, behaviour, spec, type(e).__name__, str(e),
                           type(e.__context__).__name__, type(e.__cause__).__name__)
    # exceptions of several kinds coming out of the graph construction
    original = graph_args.make_graph_from_spec
    raised = [ValueError('v'), OSError('o'), OSError(2, 'msg', 'fname'), FileNotFoundError('f'),
              PermissionError(13, 'denied'), IsADirectoryError('d'), UnicodeDecodeError('utf8', b'x', 0, 1, 'r'),
              Both('both'), TypeError('t'), KeyError('k'), RuntimeError('r'), CLIError('c'),
              AssertionError('a'), EOFError('e'), KeyboardInterrupt('i'), SystemExit(3),
              BrokenPipeError('pipe'), IOError('io'), ConnectionError('conn'), ZeroDivisionError('z')]
    try:
        for exc in raised:
            def boom(graphtype, args, exc=exc):
                raise exc
            graph_args.make_graph_from_spec = boom
            for gtype, cls in actions:
                act = cls([], 'G')
                for behaviour in ('cli', 'none', 'value', 'os'):
                    ns = argparse.Namespace()
                    try:
                        act(FakeParser(behaviour), ns, ['x'])
                        record('returned', gtype, behaviour, repr(exc), sorted(vars(ns)))
                    except BaseException as e:
                        record('raised', gtype, behaviour, repr(exc), type(e).__name__, str(e),
                               type(e.__context__).__name__)
    finally:
        graph_args.make_graph_from_spec = original


def main():
    checkout = os.getcwd()
    tmp = tempfile.mkdtemp(prefix='c18equiv')
    os.chdir(tmp)
    try:
        make_files()
        specific()
        stdin_text = 'p edge 3 2\ne 1 2\ne 2 3\n'
        for tool, args in core_vectors():
            run_main(tool, args, stdin_text)
            if tool != 'cnfshuffle':
                run_cli(tool, args, 'string', stdin_text)
        record_files()
    finally:
        os.chdir(checkout)
        shutil.rmtree(tmp, ignore_errors=True)
    print(H.hexdigest())


if __name__ == '__main__':
    main()
