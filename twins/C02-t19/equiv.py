#!/usr/bin/env python
"""Equivalence check for dominatingset.unique_neighborhoods and its users."""
import sys, os, io, random, hashlib, itertools
from contextlib import redirect_stdout, redirect_stderr
sys.path.insert(0, os.getcwd())

import networkx as nx
from cnfgen.graphs import Graph
from cnfgen.formula.cnf import CNF
from cnfgen.clitools import cnfgen
import cnfgen.families.dominatingset as ds
from cnfgen.families.dominatingset import DominatingSet, Tiling

H = hashlib.sha256()


def emit(*items):
    for it in items:
        H.update(repr(it).encode('utf8'))
        H.update(b'\x00')


def attempt(tag, fn):
    try:
        emit(tag, 'ok', fn())
    except BaseException as e:
        emit(tag, 'exc', type(e).__name__, str(e))


def mkgraph(n, edges, name=None):
    G = Graph(n, name=name)
    for u, v in edges:
        G.add_edge(u, v)
    return G


def dump(F):
    return (F.header.get('description'), F.number_of_variables(),
            list(F.all_variable_labels()), list(F.clauses()), F.to_dimacs())


def un(G):
    res = ds.unique_neighborhoods(G)
    # type and content of the result, and freshness of the inner lists
    return (type(res).__name__, [type(x).__name__ for x in res], res)


graphs = []
# all graphs up to 4 vertices
for n in range(0, 5):
    pairs = list(itertools.combinations(range(1, n + 1), 2))
    for mask in range(1 << len(pairs)):
        edges = [p for i, p in enumerate(pairs) if mask >> i & 1]
        graphs.append(mkgraph(n, edges, 'g{}_{}'.format(n, mask)))
# random larger graphs, with many twins / duplicated neighbourhoods
rnd = random.Random(2024)
for n in (5, 6, 7, 9, 12):
    for p in (0.0, 0.15, 0.5, 0.85, 1.0):
        pairs = list(itertools.combinations(range(1, n + 1), 2))
        edges = [e for e in pairs if rnd.random() < p]
        graphs.append(mkgraph(n, edges, 'r{}_{}'.format(n, p)))
# complete multipartite / disjoint cliques (duplicated closed neighbourhoods)
graphs.append(Graph.from_networkx(nx.complete_multipartite_graph(2, 3, 2)))
graphs.append(Graph.from_networkx(nx.disjoint_union(nx.complete_graph(3), nx.complete_graph(4))))
graphs.append(Graph.from_networkx(nx.star_graph(6)))
graphs.append(Graph.from_networkx(nx.grid_2d_graph(3, 4)))
graphs.append(Graph.from_networkx(nx.petersen_graph()))

for G in graphs:
    attempt(('un', G.name), lambda: un(G))
    attempt(('tiling', G.name), lambda: dump(Tiling(G)))
    for d in (1, 2, 3):
        for alt in (False, True):
            if G.order() > 7 and d > 2:
                continue
            attempt(('domset', G.name, d, alt),
                    lambda: dump(DominatingSet(G, d, alternative=alt)))

# networkx input and labelled graphs
for nxg in (nx.path_graph(5), nx.cycle_graph(6), nx.null_graph(), nx.empty_graph(3),
            nx.complete_graph(4), nx.relabel_nodes(nx.path_graph(4), {0: 'd', 1: 'a', 2: 'c', 3: 'b'})):
    attempt('nx-tiling', lambda: dump(Tiling(nxg)))
    attempt('nx-domset', lambda: dump(DominatingSet(nxg, 2)))
    attempt('nx-domset-alt', lambda: dump(DominatingSet(nxg, 2, alternative=True)))

# error paths
K3 = mkgraph(3, [(1, 2), (2, 3), (1, 3)], 'k3')
for bad_d in (0, -1, 1.5, 'two', None, True):
    attempt(('bad d', bad_d), lambda: dump(DominatingSet(K3, bad_d)))
for bad_g in (None, 3, 'graph', [1, 2], nx.DiGraph([(1, 2)])):
    attempt(('bad G dom', repr(type(bad_g))), lambda: dump(DominatingSet(bad_g, 2)))
    attempt(('bad G til', repr(type(bad_g))), lambda: dump(Tiling(bad_g)))
    attempt(('bad G un', repr(type(bad_g))), lambda: un(bad_g))


# command line
def run_cli(argv):
    out, err = io.StringIO(), io.StringIO()
    try:
        with redirect_stdout(out), redirect_stderr(err):
            res = cnfgen(argv, mode='string')
        emit('CLI', argv, 'ok', res, out.getvalue(), err.getvalue())
    except SystemExit as e:
        emit('CLI', argv, 'exit', e.code, out.getvalue(), err.getvalue())
    except BaseException as e:
        emit('CLI', argv, 'exc', type(e).__name__, str(e), out.getvalue(), err.getvalue())


for spec in (['complete', 4], ['grid', 3, 3], ['empty', 3], ['gnp', 8, 0.3], ['gnd', 8, 3],
             ['torus', 3, 3], ['star', 5], ['complete', 2, 3], ['path', 7], ['cycle', 6],
             ['gnm', 9, 12, 'plantclique', 4], ['complete', 0]):
    run_cli(['cnfgen', '-q', '--seed', 17, 'tiling'] + spec)
    run_cli(['cnfgen', '--seed', 17, 'tiling'] + spec)
    for d in (1, 2, 3, 0):
        run_cli(['cnfgen', '-q', '--seed', 17, 'domset', d] + spec)
        run_cli(['cnfgen', '-q', '--seed', 17, 'domset', '-a', d] + spec)
run_cli(['cnfgen', '-q', '-of', 'latex', 'tiling', 'grid', 2, 3])
run_cli(['cnfgen', '-q', '-of', 'opb', 'domset', 2, 'grid', 2, 3])
run_cli(['cnfgen', '-q', 'tiling'])
run_cli(['cnfgen', '-q', 'domset', 2])

print(H.hexdigest())
