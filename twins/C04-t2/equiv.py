#!/usr/bin/env python
"""Equivalence harness for normalize_opb and the pseudo-Boolean builders (property C04).

Run as:  cd <checkout> && /venv/bin/python equiv.py
Prints one SHA256 digest of everything observable.
"""
import sys
import os
import hashlib
import itertools
import random
from fractions import Fraction

sys.path.insert(0, os.getcwd())

from cnfgen.formula.baseopb import BaseOPB, normalize_opb
from cnfgen.formula.opb import OPB

H = hashlib.sha256()
NREC = 0


def rec(*items):
    global NREC
    NREC += 1
    H.update(repr(items).encode('utf-8'))
    H.update(b'\n')


def attempt(tag, fn):
    try:
        res = fn()
        rec(tag, 'ok', res)
    except Exception as e:  # noqa
        cause = e.__cause__
        rec(tag, 'exc', type(e).__name__, str(e),
            None if cause is None else (type(cause).__name__, str(cause)))


def snapshot(F):
    return ([list(c) for c in F], F.number_of_variables(), len(F))


OPS = ['<=', '>=', '<', '>', '==']


def holds(constraint, bits):
    """Evaluate an arbitrary (non normalised) constraint on an assignment"""
    import operator
    pyop = {'<=': operator.le, '>=': operator.ge, '<': operator.lt,
            '>': operator.gt, '==': operator.eq}
    total = 0
    for c, l in constraint[:-2]:
        if bits[abs(l) - 1] == (l > 0):
            total += c
    return pyop[constraint[-2]](total, constraint[-1])


def run_normalize_exhaustive():
    coeffs = [-3, -1, 0, 1, 2]
    for n in range(0, 4):
        for cs in itertools.product(coeffs, repeat=n):
            for signs in itertools.product([1, -1], repeat=n):
                terms = [(c, s * (i + 1)) for i, (c, s) in enumerate(zip(cs, signs))]
                for op in OPS:
                    for value in range(-5, 6):
                        original = terms + [op, value]
                        frozen = list(original)
                        out = normalize_opb(original)
                        rec('norm', frozen, out, original == frozen, out is original)
                        # shape after normalisation
                        assert out[-2] in ('>=', '==')
                        assert all(c >= 0 for c, _ in out[:-2])
                        # same models
                        for bits in itertools.product([False, True], repeat=n):
                            assert holds(frozen, bits) == holds(out, bits)


def run_normalize_random():
    rng = random.Random(40402)
    for step in range(3000):
        n = rng.randint(0, 8)
        terms = []
        for _ in range(n):
            c = rng.choice([rng.randint(-9, 9), rng.randint(-10**6, 10**6), 0, 1, -1])
            l = rng.choice([1, -1]) * rng.randint(1, 12)
            terms.append((c, l))
        op = rng.choice(OPS)
        value = rng.randint(-30, 30)
        con = terms + [op, value]
        frozen = list(con)
        attempt(('rnd', step, frozen), lambda: (normalize_opb(con), con == frozen))


def run_normalize_odd_inputs():
    odd = [
        [],
        ['>=', 1],
        [1],
        ['>='],
        [(1, 2)],
        [(1, 2), '>='],
        [(1, 2), '!=', 1],
        [(1, 2), '=', 1],
        [(1, 2), 'foo', 1],
        [(1, 2), None, 1],
        [(-1, 2), 'foo', 1],
        [(1, 2), '>=', None],
        [(1, 2), '<', None],
        [(1, 2), '<=', None],
        [(-1, 2), '>=', None],
        [(-1, 2), '>=', 'x'],
        [(1, 2), '<', 'x'],
        [(1.5, 2), '<=', 2],
        [(-1.5, 2), '>', 2.5],
        [(-2.0, -2), (3, 1), '<', 0.5],
        [(Fraction(-1, 2), 3), (Fraction(1, 3), -1), '<=', Fraction(1, 7)],
        [(True, 1), (False, 2), '<=', True],
        [('a', 1), '>=', 1],
        [('a', 1), '<=', 1],
        [(None, 1), '>=', 1],
        [(1, 'x'), '>=', 1],
        [(-1, 'x'), '>=', 1],
        [(-1, None), '>=', 1],
        [(1, None), '<=', 1],
        [(1, 2, 3), '>=', 1],
        [(1,), '>=', 1],
        [(1, 2, 3), '<=', 1],
        [5, '>=', 1],
        [5, '<=', 1],
        [[-1, 2], [3, -4], '<', 2],
        ((1, 2), (1, 3), '>=', 1),
        ((-1, 2), (1, 3), '>=', 1),
        ((1, 2), (1, 3), '<=', 1),
        ((-1, 2), (1, 3), '<=', 1),
        ((1, 2), (-1, 3), '<', 1),
        ((1, 2), (1, 3), '>', 1),
        ('>=', 1),
        ('<=', 1),
        'ab',
        '<=3',
        None,
        17,
        {1: 2},
        [(0, 1), (0, -2), '<', 0],
        [(-1, 1)] * 5 + ['==', -2],
        [(10**30, 1), (-10**30, 2), '>', -10**30],
        [(-1, None), '>=', None],
        [(-1, 'x'), '>=', 'y'],
        [(-1, 'x'), '<', None],
        [(float('nan'), 2), (-1, 3), '>=', 1],
        [(-1, 2), (1,), '>=', 1],
        [(-1, 2), (-2, 3, 4), '>=', 1],
        [(-1, 2), 7, '>=', 1],
    ]
    for i, con in enumerate(odd):
        attempt(('odd', i, repr(con)), lambda: normalize_opb(con))
        for cls in (BaseOPB, OPB):
            for check in (True, False):
                def go():
                    F = cls()
                    r = F.add_constraint(con, check=check)
                    return (r, snapshot(F))
                attempt(('odd-add', cls.__name__, i, check), go)


def literal_lists():
    yield []
    for n in range(1, 6):
        base = list(range(1, n + 1))
        yield base
        yield [-l for l in base]
        yield [l if i % 2 else -l for i, l in enumerate(base)]
    yield [3, -1, 9, -4]
    yield [5, 5, -5]
    yield [-12, 11, -10, 9, -8, 7, -6]


def containers(lits):
    yield 'list', lambda: list(lits)
    yield 'tuple', lambda: tuple(lits)
    yield 'gen', lambda: (l for l in lits)
    if len(lits) > 0 and list(lits) == list(range(lits[0], lits[0] + len(lits))):
        yield 'range', lambda: range(lits[0], lits[0] + len(lits))


def run_builders(cls):
    for lits in literal_lists():
        n = len(lits)
        for name in ['cardinality_geq', 'cardinality_leq', 'cardinality_eq', 'cardinality_neq']:
            for const in range(-2, n + 3):
                for cname, mk in containers(lits):
                    for check in (True, False):
                        def go():
                            F = cls()
                            r = getattr(F, name)(mk(), const, check=check)
                            return (r, snapshot(F))
                        attempt((cls.__name__, name, lits, const, cname, check), go)
        for name in ['add_loose_majority', 'add_loose_minority',
                     'add_strict_majority', 'add_strict_minority']:
            for cname, mk in containers(lits):
                for check in (True, False):
                    def go():
                        F = cls()
                        r = getattr(F, name)(mk(), check=check)
                        return (r, snapshot(F))
                    attempt((cls.__name__, name, lits, cname, check), go)
        for const in (0, 1, 2, -1):
            for cname, mk in containers(lits):
                def go():
                    F = cls()
                    r = F.add_parity(mk(), const)
                    return (r, snapshot(F))
                attempt((cls.__name__, 'add_parity', lits, const, cname), go)
    for lits in ([0], [1, 0], ['a'], [None], [1.5], 'ab', 7, None):
        for name in ['cardinality_geq', 'cardinality_leq', 'cardinality_eq', 'cardinality_neq']:
            for check in (True, False):
                def go():
                    F = cls()
                    r = getattr(F, name)(lits, 1, check=check)
                    return (r, snapshot(F))
                attempt((cls.__name__, 'bad', name, repr(lits), check), go)


def run_accumulate(cls):
    rng = random.Random(40403)
    F = cls()
    for step in range(500):
        n = rng.randint(0, 6)
        terms = [(rng.randint(-5, 5), rng.choice([1, -1]) * rng.randint(1, 10)) for _ in range(n)]
        con = terms + [rng.choice(OPS), rng.randint(-8, 8)]
        attempt(('acc', step, list(con)), lambda: F.add_constraint(con, check=rng.random() < 0.7))
    rec('acc-final', snapshot(F))
    if hasattr(F, 'to_opb'):
        rec('acc-opb', F.to_opb())
    G = cls()
    attempt('from', lambda: G.add_constraints_from([list(c) for c in F]))
    rec('acc-copy', snapshot(G))


run_normalize_exhaustive()
run_normalize_random()
run_normalize_odd_inputs()
for klass in (BaseOPB, OPB):
    run_builders(klass)
    run_accumulate(klass)

rec('count', NREC)
print(H.hexdigest())
