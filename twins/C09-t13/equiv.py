#!/usr/bin/env python
"""Equivalence script for the refactoring of cnfgen.clitools.cnfshuffle.cli
(choice of 'fixed'/'shuffle' settings from the switches, dispatch on mode)."""
import sys, os, io, hashlib, contextlib, random, tempfile, subprocess, itertools

ROOT = os.getcwd()
sys.path.insert(0, ROOT)

from cnfgen.clitools.cnfshuffle import cli
from cnfgen import CNF

H = hashlib.sha256()


from cnfgen.info import info
# the version comes from `git describe`: keep the digest independent of HEAD
VERSION_TAG = "CNFgen ({})".format(info['version'])


def record(*items):
    for it in items:
        H.update(repr(it).replace(VERSION_TAG, 'CNFgen (VERSION)').encode('utf-8'))
        H.update(b'\x00')


def dimacs(n, clauses, header=''):
    return header + 'p cnf {} {}\n'.format(n, len(clauses)) + \
        ''.join(' '.join(str(l) for l in c) + ' 0\n' for c in clauses)


rnd = random.Random(99)


def random_cnf(n, m, maxw):
    cls = []
    for _ in range(m):
        w = rnd.randint(0, min(maxw, n))
        vs = rnd.sample(range(1, n + 1), w)
        cls.append([v * rnd.choice([-1, 1]) for v in vs])
    return dimacs(n, cls)


inputs = {
    'empty.cnf': dimacs(0, []),
    'novars.cnf': dimacs(0, [[], []]),
    'noclauses.cnf': dimacs(5, []),
    'unit.cnf': dimacs(1, [[1]]),
    'contr.cnf': dimacs(1, [[1], [-1]]),
    'php.cnf': dimacs(6, [[1, 2], [3, 4], [5, 6], [-1, -3], [-1, -5], [-3, -5],
                          [-2, -4], [-2, -6], [-4, -6]],
                      header='c description: php 3 2\nc\n'),
    'multi.cnf': 'c comment\np cnf 4 3\n1 -2\n 3 0 4 0\n-1 -4 0\n',
    'rnd1.cnf': random_cnf(8, 20, 4),
    'rnd2.cnf': random_cnf(15, 40, 6),
    'rnd3.cnf': random_cnf(3, 10, 3),
    # malformed
    'bad_nospec.cnf': '1 2 0\n',
    'bad_lit.cnf': 'p cnf 2 1\n1 3 0\n',
    'bad_count.cnf': 'p cnf 2 3\n1 2 0\n',
    'bad_incomplete.cnf': 'p cnf 2 1\n1 2\n',
    'bad_spec.cnf': 'p cnf x 1\n1 0\n',
    'bad_twospec.cnf': 'p cnf 2 1\np cnf 2 1\n1 0\n',
}

switch_sets = []
for r in range(4):
    for comb in itertools.combinations(['-p', '-v', '-c'], r):
        switch_sets.append(list(comb))
long_switches = [['--no-polarity-flips'], ['--no-variables-permutation'],
                 ['--no-clauses-permutation'],
                 ['--no-polarity-flips', '--no-variables-permutation', '--no-clauses-permutation'],
                 ['-pvc'], ['-q', '-p'], ['-q']]


def run(argv, mode, stdin_text=None):
    err = io.StringIO()
    out = io.StringIO()
    old_stdin = sys.stdin
    if stdin_text is not None:
        sys.stdin = io.StringIO(stdin_text)
    try:
        with contextlib.redirect_stderr(err), contextlib.redirect_stdout(out):
            res = cli(argv, mode=mode)
        if isinstance(res, CNF):
            res = ('CNF', res.number_of_variables(), res.number_of_clauses(),
                   list(res.clauses()), sorted(res.header.items()))
        record('OK', argv, mode, res, out.getvalue(), err.getvalue())
    except SystemExit as e:
        record('EXIT', argv, mode, e.code, out.getvalue(), err.getvalue())
    except BaseException as e:
        record('EXC', argv, mode, type(e).__name__, str(e), out.getvalue(), err.getvalue())
    finally:
        sys.stdin = old_stdin
    # state of the random stream after the call
    record(random.random())


with tempfile.TemporaryDirectory() as tmp:
    os.chdir(tmp)
    for name, text in inputs.items():
        with open(name, 'w') as f:
            f.write(text)

    modes = ['formula', 'string', 'output', 'other', None]
    for name in sorted(inputs):
        for sw in switch_sets + long_switches:
            for seed in [None, 0, 7, 'hello']:
                if name.startswith('bad') and (seed not in (0,) or len(sw) > 1):
                    continue
                for mode in modes:
                    if mode in ('other', None) and seed != 7:
                        continue
                    argv = ['cnfshuffle', '-i', name] + sw
                    if seed is None:
                        random.seed(1234)
                    else:
                        random.seed(4321)
                        argv += ['--seed', seed]
                    run(argv, mode)

    # seed given with -S, non-string argv items, default argument mode
    random.seed(5)
    run(['cnfshuffle', '-S', 12, '-i', 'php.cnf'], 'string')
    run(['/usr/bin/cnfshuffle', '-S', '', '-i', 'php.cnf'], 'string')
    run(['cnfshuffle', '-S', '0', '-i', 'php.cnf', '-v'], 'formula')

    # reading from standard input
    for sw in switch_sets:
        random.seed(77)
        run(['cnfshuffle', '--seed', 3] + sw, 'string', stdin_text=inputs['php.cnf'])
        run(['cnfshuffle', '--seed', 3, '-i', '-'] + sw, 'formula', stdin_text=inputs['rnd1.cnf'])
        run(['cnfshuffle', '--seed', 3] + sw, 'output', stdin_text=inputs['multi.cnf'])
    run(['cnfshuffle', '--seed', 3], 'string', stdin_text='')
    run(['cnfshuffle', '--seed', 3], 'string', stdin_text=inputs['bad_lit.cnf'])

    # writing to an output file
    for i, sw in enumerate(switch_sets):
        oname = 'out{}.cnf'.format(i)
        random.seed(8)
        run(['cnfshuffle', '--seed', 21, '-i', 'rnd2.cnf', '-o', oname] + sw, 'output')
        with open(oname) as f:
            record('FILE', oname, f.read())
        # when a formula/string is requested the output file stays empty
        run(['cnfshuffle', '--seed', 21, '-i', 'rnd2.cnf', '-o', 'unused.cnf'] + sw, 'string')
        with open('unused.cnf') as f:
            record('FILE', 'unused', f.read())

    # command line errors
    for argv in [['cnfshuffle', '-i', 'missing.cnf'],
                 ['cnfshuffle', '-i', 'php.cnf', '-x'],
                 ['cnfshuffle', '-i', 'php.cnf', 'extra'],
                 ['cnfshuffle', '-i'],
                 ['cnfshuffle', '-h'],
                 ['cnfshuffle', '--seed'],
                 ['cnfshuffle', '-i', 'php.cnf', '-o', os.path.join('nodir', 'x.cnf')]]:
        for mode in ['formula', 'string', 'output']:
            run(argv, mode)

    # the real command line launcher
    launcher = ("import sys; sys.path.insert(0, {!r}); "
                "from cnfgen.clitools.cnfshuffle import main; main()").format(ROOT)
    env = dict(os.environ)
    env['PYTHONWARNINGS'] = 'ignore'
    for args in [['--seed', '5', '-i', 'php.cnf'],
                 ['--seed', '5', '-i', 'php.cnf', '-p'],
                 ['--seed', '5', '-i', 'php.cnf', '-v', '-c'],
                 ['--seed', '5', '-i', 'php.cnf', '-p', '-v', '-c'],
                 ['--seed', '5', '-q', '-i', 'rnd3.cnf', '-o', 'launcher.cnf'],
                 ['--seed', '5', '-i', 'bad_lit.cnf'],
                 ['--seed', '5', '-i', 'bad_count.cnf', '-p'],
                 ['--seed', '5', '-i', 'missing.cnf'],
                 ['--seed', '5', '--bogus'],
                 ['--seed', '5', '-c']]:
        stdin_text = inputs['rnd1.cnf'] if '-i' not in args else ''
        p = subprocess.run([sys.executable, '-c', launcher] + args, input=stdin_text,
                           capture_output=True, text=True, env=env, cwd=tmp)
        record('MAIN', args, p.returncode, p.stdout, p.stderr)
    with open('launcher.cnf') as f:
        record('FILE', 'launcher', f.read())
    os.chdir(ROOT)

print(H.hexdigest())
