"""Equivalence check for cnfgen.graphs.add_random_missing_edges
(used by the 'addedges' graph modifier).

Exercises simple and bipartite graphs, sparse and dense (fallback)
regimes, seed argument vs. global seeding, boundary values of m and the
error paths, plus the command line; hashes the resulting graphs,
return values, exceptions and the random generator state.
"""
import sys, os, io, hashlib, random, contextlib
sys.path.insert(0, os.getcwd())

from cnfgen.graphs import (Graph, BipartiteGraph, DirectedGraph,
                           CompleteBipartiteGraph,
                           add_random_missing_edges)
from cnfgen.clitools import make_graph_from_spec
from cnfgen.clitools.cnfgen import cli as cnfgen_cli

H = hashlib.sha256()
STAT = {}


def record(*items):
    for it in items:
        H.update(repr(it).encode('utf8'))
        H.update(b'\x00')


def describe(G):
    return (type(G).__name__, G.name, G.order(), G.number_of_edges(),
            list(G.edges()),
            [(v, list(G.neighbors(v))) for v in G.vertices()]
            if isinstance(G, Graph) else None)


def simple(n, edges):
    G = Graph(n)
    G.add_edges_from(edges)
    return G


def bip(l, r, edges):
    G = BipartiteGraph(l, r)
    for u, v in edges:
        G.add_edge(u, v)
    return G


def attempt(tag, G, m, **kw):
    before = G.number_of_edges()
    try:
        ret = add_random_missing_edges(G, m, **kw)
        res = ('ret', ret)
    except BaseException as e:
        res = 'exc:{}:{}'.format(type(e).__name__, e)
    STAT[str(res)[:8]] = STAT.get(str(res)[:8], 0) + 1
    record(tag, m, sorted(kw.items()), before, res, describe(G),
           random.getstate())


path = lambda n: [(i, i + 1) for i in range(1, n)]
complete = lambda n: [(i, j) for i in range(1, n + 1) for j in range(i + 1, n + 1)]

# simple graphs: every m from -1 to (missing + 2)
for seed in [0, 1, 5, 77, -4]:
    for n, edges in [(0, []), (1, []), (2, []), (2, [(1, 2)]), (3, path(3)),
                     (5, []), (5, path(5)), (6, complete(6)[:-1]),
                     (6, complete(6)), (7, complete(7)[3:]), (8, path(8))]:
        missing = n * (n - 1) // 2 - len(edges)
        for m in range(-1, missing + 3):
            attempt('simple-seedarg', simple(n, edges), m, seed=seed)
            random.seed(seed)
            attempt('simple-global', simple(n, edges), m)

# bipartite graphs
for seed in [0, 2, 31]:
    for l, r, edges in [(0, 0, []), (1, 1, []), (1, 1, [(1, 1)]), (2, 3, []),
                        (3, 2, [(1, 1), (2, 2)]),
                        (3, 3, [(u, v) for u in (1, 2, 3) for v in (1, 2)]),
                        (4, 5, [(1, 1)]), (0, 3, []), (3, 0, [])]:
        missing = l * r - len(edges)
        for m in range(-1, missing + 3):
            attempt('bip-seedarg', bip(l, r, edges), m, seed=seed)
            random.seed(seed)
            attempt('bip-global', bip(l, r, edges), m)
    attempt('completebip', CompleteBipartiteGraph(2, 2), 0, seed=seed)
    attempt('completebip', CompleteBipartiteGraph(2, 2), 1, seed=seed)

# dense regime on larger graphs: the retry loop is likely to fall short
for seed in range(12):
    E = complete(12)
    random.seed(1000 + seed)
    random.shuffle(E)
    for keep in [0, 1, 2, 5]:
        G = simple(12, E[keep + 3:])
        attempt('dense', G, keep + 3 - (seed % 2), seed=seed)
    B = [(u, v) for u in range(1, 7) for v in range(1, 8)]
    random.shuffle(B)
    attempt('dense-bip', bip(6, 7, B[4:]), 4, seed=seed)
    attempt('dense-bip', bip(6, 7, B[4:]), 3, seed=seed)

# one stream, several calls on the same graph
random.seed(99)
G = simple(9, path(9))
for m in [0, 1, 2, 3, 0, 10, 12, 1]:
    attempt('stream', G, m)

# odd arguments
attempt('odd', simple(4, []), 2.0, seed=1)
attempt('odd', simple(4, []), '2', seed=1)
attempt('odd', simple(4, []), None, seed=1)
attempt('odd', simple(4, []), True, seed=1)
attempt('odd', simple(4, []), 2, seed='abc')
D = DirectedGraph(4)
D.add_edge(1, 2)
attempt('odd-directed', D, 2, seed=1)


def run(argv):
    out, err = io.StringIO(), io.StringIO()
    res = None
    try:
        with contextlib.redirect_stdout(out), contextlib.redirect_stderr(err):
            res = cnfgen_cli(argv, mode='string')
        status = 'ok'
    except SystemExit as e:
        status = 'exit:{!r}'.format(e.code)
    except BaseException as e:
        status = 'exc:{}:{}'.format(type(e).__name__, e)
    record(argv, status, res, out.getvalue(), err.getvalue(),
           random.getstate())


for seed in [0, 9, -2]:
    for spec in [['gnp', 6, '.5', 'addedges', 3], ['gnm', 5, 8, 'addedges', 2],
                 ['gnm', 5, 8, 'addedges', 3], ['complete', 4, 'addedges', 0],
                 ['complete', 4, 'addedges', 1], ['empty', 4, 'addedges', 6],
                 ['gnd', 6, 3, 'plantclique', 3, 'addedges', 2],
                 ['gnp', 5, '.5', 'addedges', -1], ['gnp', 5, '.5', 'addedges', 'x']]:
        run(['cnfgen', '--seed', seed, 'kcolor', 3] + spec)
    for spec in [['glrp', 3, 4, '.5', 'addedges', 2], ['glrm', 3, 3, 7, 'addedges', 2],
                 ['glrd', 4, 4, 2, 'addedges', 8], ['glrd', 4, 4, 2, 'addedges', 9],
                 ['complete', 2, 2, 'addedges', 1]]:
        run(['cnfgen', '--seed', seed, 'php'] + spec)

if os.environ.get('EQUIV_DEBUG'):
    print(STAT, file=sys.stderr)
print(H.hexdigest())
