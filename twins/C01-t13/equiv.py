"""Equivalence script for the refactoring of BinaryMappingVariables.__init__
and BinaryMappingVariables.forbid (cnfgen/formula/variables.py).
Prints one SHA256 digest."""
import sys, os, hashlib, io, contextlib
from itertools import product
sys.path.insert(0, os.getcwd())

from cnfgen import cnfgen
from cnfgen.formula.cnf import CNF
from cnfgen.formula.basecnf import BaseCNF
from cnfgen.formula.variables import BinaryMappingVariables, VariablesManager
from cnfgen.families.pigeonhole import BinaryPigeonholePrinciple

H = hashlib.sha256()


def rec(*items):
    for it in items:
        H.update(repr(it).encode('utf-8'))
        H.update(b'\x00')
    H.update(b'\n')


def attempt(tag, fn):
    try:
        rec(tag, 'OK', fn())
    except BaseException as e:
        rec(tag, 'EXC', type(e).__name__, str(e))


# 1. the variable group itself
for offset in [0, 3]:
    for n in range(0, 6):
        for m in list(range(0, 10)) + [15, 16, 17, 33]:
            F = BaseCNF()
            F.update_variable_number(offset)
            f = BinaryMappingVariables(F, n, m, labelfmt='f({},{})')
            rec('grp', offset, n, m, len(f), f.bits(), f.bitlength,
                type(f.flips).__name__, len(f.flips),
                [(type(x).__name__, x) for x in f.flips],
                list(f.domain()), list(f.range()), list(f.label()),
                list(f()), list(f.indices()))
            for i in range(-1, n + 3):
                for j in list(range(-3, 2**f.bits() + 3)):
                    def go(i=i, j=j):
                        c = f.forbid(i, j)
                        return (type(c).__name__, c)
                    attempt(('forbid', offset, n, m, i, j), go)
            attempt(('forbid-none', n, m), lambda: f.forbid(None, 0))
            attempt(('forbid-str', n, m), lambda: f.forbid(1, 'a'))
            attempt(('forbid-float', n, m), lambda: f.forbid(1, 0.0))
for n, m in [(-1, 3), (3, -1), (-1, -1), (2.5, 4), ('a', 3), (3, 'b'), (None, 2)]:
    attempt(('bad-init', n, m),
            lambda: len(BinaryMappingVariables(BaseCNF(), n, m)))

# 2. mapping constraints built on it
for n in range(0, 5):
    for m in range(0, 9):
        C = CNF()
        x = C.new_variable('x')
        g = C.new_binary_mapping(n, m, label='g({},{})')
        C.force_complete_mapping(g)
        C.force_injective_mapping(g)
        C.force_functional_mapping(g)
        attempt(('surj', n, m), lambda: C.force_surjective_mapping(g))
        attempt(('nondecr', n, m), lambda: C.force_nondecreasing_mapping(g))
        rec('constraints', n, m, list(C.clauses()), list(C.all_variable_labels()))


# 3. the binary pigeonhole principle, with brute force model enumeration
def models(F):
    nv = F.number_of_variables()
    cls = [list(c) for c in F.clauses()]
    res = []
    for bits in product([False, True], repeat=nv):
        if all(any((bits[abs(l) - 1] == (l > 0)) for l in c) for c in cls):
            res.append(bits)
    return res

for pigeons in range(0, 7):
    for holes in range(0, 10):
        F = BinaryPigeonholePrinciple(pigeons, holes)
        rec('bphp', pigeons, holes, F.to_dimacs(), F.to_opb(), F.to_latex())
        if F.number_of_variables() <= 12:
            ms = models(F)
            rec('bphp-models', pigeons, holes, len(ms), ms[:5],
                (len(ms) > 0) == (pigeons <= holes))
for args in [(-1, 2), (2, -1), (1.5, 2), ('3', 2), (2, None)]:
    attempt(('bphp-bad', args), lambda: BinaryPigeonholePrinciple(*args).to_dimacs())
F = BinaryPigeonholePrinciple(40, 37)
rec('bphp-big', F.to_dimacs())

# 4. command line
for argv in [['bphp', '5', '8'], ['bphp', '9', '8'], ['bphp', '1', '1'],
             ['bphp', '3', '2', '-T', 'shuffle'], ['bphp', '0', '2'],
             ['bphp', '2'], ['bphp', 'a', '2'], ['bphp', '4', '3', '-T', 'xor', '2']]:
    for of in ['dimacs', 'opb', 'latex']:
        def go():
            out = io.StringIO()
            with contextlib.redirect_stdout(out), contextlib.redirect_stderr(out):
                r = cnfgen(['cnfgen', '--seed', '11', '-of', of] + argv, mode='string')
            return (r, out.getvalue())
        attempt(('cli', argv, of), go)

print(H.hexdigest())
