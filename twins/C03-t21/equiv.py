#!/usr/bin/env python
"""Equivalence check for t21: vertex range checks of Graph / DirectedGraph
(neighbors, degree, predecessors, successors, in_degree, out_degree) and the
formulas that rely on them (pebbling, stone, sparse stone, graph ordering)."""
import hashlib
import random
import sys
import warnings
warnings.simplefilter('ignore')
sys.path.insert(0, '.')

import networkx
from cnfgen.graphs import Graph, DirectedGraph, BipartiteGraph
from cnfgen.graphs import bipartite_random_left_regular
from cnfgen.families.pebbling import PebblingFormula, StoneFormula, SparseStoneFormula
from cnfgen.families.ordering import GraphOrderingPrinciple, OrderingPrinciple

H = hashlib.sha256()


def emit(*items):
    H.update((" ".join(repr(i) for i in items) + "\n").encode('utf-8'))


def attempt(tag, thunk):
    try:
        res = thunk()
        emit(tag, 'OK', res)
    except Exception as e:  # record type and message
        emit(tag, 'EXC', type(e).__name__, str(e))


def dump(tag, thunk):
    def run():
        F = thunk()
        return (F.header['description'], F.number_of_variables(),
                list(F.all_variable_labels()), [tuple(c) for c in F.clauses()])
    attempt(tag, run)


def random_dag(n, p, rnd):
    D = DirectedGraph(n, name='dag{}_{}'.format(n, p))
    for u in range(1, n + 1):
        for v in range(u + 1, n + 1):
            if rnd.random() < p:
                D.add_edge(u, v)
    return D


rnd = random.Random(2112)

# --- direct method calls, legal and illegal vertices
dags = [DirectedGraph(0), DirectedGraph(1), random_dag(5, 0.5, rnd),
        random_dag(8, 0.3, rnd)]
cyc = DirectedGraph(4, name='cyc')
cyc.add_edges_from([(1, 2), (2, 3), (3, 1), (4, 4)])
dags.append(cyc)
bad = [0, -1, -7, 100, 'a', None, 2.5, 1.0, True]
for D in dags:
    n = D.number_of_vertices()
    emit('dag', D.name, n, D.number_of_edges(), D.is_dag(), list(D.vertices()),
         list(D.edges()))
    for v in list(range(1, n + 1)) + [n + 1] + bad:
        for mname in ['predecessors', 'successors']:
            m = getattr(D, mname)
            # the generators are lazy: building them never raises
            attempt(('build', mname, v), lambda: type(m(v)).__name__)
            attempt((mname, v), lambda: list(m(v)))
        for mname in ['in_degree', 'out_degree']:
            m = getattr(D, mname)
            attempt((mname, v), lambda: m(v))

graphs = [Graph(0), Graph(1), Graph.complete_graph(4), Graph.star_graph(3),
          Graph.empty_graph(3)]
G = Graph(6, name='rnd6')
for u in range(1, 7):
    for v in range(u + 1, 7):
        if rnd.random() < 0.5:
            G.add_edge(v, u)
graphs.append(G)
for G in graphs:
    n = G.number_of_vertices()
    emit('graph', G.name, n, G.number_of_edges(), list(G.vertices()), list(G.edges()))
    for v in list(range(1, n + 1)) + [n + 1] + bad:
        attempt(('build neighbors', v), lambda: type(G.neighbors(v)).__name__)
        attempt(('neighbors', v), lambda: list(G.neighbors(v)))
        attempt(('degree', v), lambda: G.degree(v))

# --- formulas built on top of these methods
for D in dags:
    dump(('peb', D.name), lambda: PebblingFormula(D))
    for s in [0, 1, 2, 3]:
        if D.number_of_vertices() <= 5 or s <= 2:
            dump(('stone', D.name, s), lambda: StoneFormula(D, s))
    n = D.number_of_vertices()
    for (r, d) in [(3, 2), (4, 1), (2, 2)]:
        B = bipartite_random_left_regular(n, r, d, seed=n * 100 + r * 10 + d)
        dump(('sparsestone', D.name, r, d), lambda: SparseStoneFormula(D, B))
    attempt(('sparsestone mismatch', D.name),
            lambda: SparseStoneFormula(D, BipartiteGraph(n + 1, 2)))

for n in range(1, 7):
    for kind in ['path', 'pyramid-ish', 'tree']:
        X = networkx.DiGraph()
        X.add_nodes_from(range(1, n + 1))
        if kind == 'path':
            X.add_edges_from((i, i + 1) for i in range(1, n))
        elif kind == 'tree':
            X.add_edges_from((i, (i + n) // 2 + 1) for i in range(1, n) if (i + n) // 2 + 1 <= n and (i + n) // 2 + 1 > i)
        else:
            X.add_edges_from((i, j) for i in range(1, n + 1) for j in range(i + 1, min(n, i + 2) + 1))
        X.name = kind + str(n)
        dump(('peb nx', kind, n), lambda: PebblingFormula(X))
        dump(('stone nx', kind, n), lambda: StoneFormula(X, 2))

for G in graphs:
    for total, smart, plant, knuth in [(False, False, False, 0), (True, False, False, 0),
                                        (False, True, False, 0), (False, False, True, 0),
                                        (False, False, False, 2), (False, False, False, 3),
                                        (False, True, True, 0)]:
        dump(('gop', G.name, total, smart, plant, knuth),
             lambda: GraphOrderingPrinciple(G, total, smart, plant, knuth))
for n in range(0, 5):
    dump(('op', n), lambda: OrderingPrinciple(n))
    dump(('op plant', n), lambda: OrderingPrinciple(n, plant=True))
for seed in range(3):
    R = networkx.random_regular_graph(3, 8, seed=seed)
    dump(('gop regular', seed), lambda: GraphOrderingPrinciple(R))

print(H.hexdigest())
