"""Equivalence check for the `php` command line argument parsing
(cnfgen.clihelpers.php_helpers.PHPArgs and PHPCmdHelper)."""
import hashlib
import io
import contextlib
import sys

sys.path.insert(0, '.')

from cnfgen.clitools.cnfgen import cli as cnfgen

H = hashlib.sha256()


def record(*items):
    for it in items:
        H.update(repr(it).encode('utf-8'))
        H.update(b'\x00')


def run(args, mode='string'):
    argv = ['cnfgen', '-q', '--seed', '42'] + [str(a) for a in args]
    out = io.StringIO()
    err = io.StringIO()
    try:
        with contextlib.redirect_stdout(out), contextlib.redirect_stderr(err):
            res = cnfgen(argv, mode=mode)
        if mode == 'formula':
            res = (res.to_dimacs(), res.header.get('description'))
        record('OK', args, res, out.getvalue(), err.getvalue())
    except SystemExit as e:
        record('EXIT', args, e.code, out.getvalue(), err.getvalue())
    except BaseException as e:
        record('EXC', args, type(e).__name__, str(e), out.getvalue(),
               err.getvalue())


flagsets = [[], ['--functional'], ['--onto'], ['--functional', '--onto']]

# numeric specs
specs = []
for n in range(0, 5):
    specs.append([n])
for m in range(0, 5):
    for n in range(0, 5):
        specs.append([m, n])
for m in range(0, 5):
    for n in range(0, 4):
        for d in range(0, 6):
            specs.append([m, n, d])
# error paths
specs += [
    [],
    [1, 2, 3, 4],
    [1, 2, 3, 4, 5],
    ['-3', '1'],
    ['3', '-1'],
    ['3', '2', '-1'],
    ['1.5', '2'],
    ['2', '1.5'],
    ['2', 'x'],
    ['1e3'],
    ['aaad', 'sdda'],
    ['complete', 3, 2],
    ['complete', 3],
    ['complete', 0, 0],
    ['regular', 4, 2, 1],
    ['regular', 6, 4, 2],
    ['glrd', 4, 3, 2],
    ['glrm', 4, 3, 6],
    ['glrp', 4, 3, '0.5'],
    ['shift', 5, 3, 1, 2],
    [3, 3, 3],
    [3, 3, 4],
    [5, 3, 0],
    ['nan'],
    ['inf', 2],
]

for idx, spec in enumerate(specs):
    for fl in flagsets:
        run(['php'] + fl + spec)
    if idx % 7 == 0:
        run(['php'] + spec + ['--functional', '--onto'])

# formula mode and other output formats
for spec in [[3], [4, 3], [5, 4, 2], [2, 2, 2], [0], [0, 0]]:
    run(['php'] + spec, mode='formula')
    run(['-of', 'latex', 'php'] + spec)
    run(['php', '--functional', '--onto'] + spec, mode='formula')

# verbose header (includes seed & command line)
for spec in [[3], [4, 3], [5, 4, 2]]:
    argv = ['cnfgen', '--seed', '7', 'php'] + [str(x) for x in spec]
    try:
        res = cnfgen(argv, mode='string')
        record('V', spec, res)
    except BaseException as e:
        record('VEXC', spec, type(e).__name__, str(e))

# the other helpers of the module, for good measure
for args in [['bphp', 3, 2], ['bphp', 0, 2], ['rphp', 2, 3, 2], ['rphp', 0, 0, 0],
             ['cliquecoloring', 4, 3, 2], ['cliquecoloring', 0, 1, 1],
             ['bphp'], ['rphp', 1], ['cliquecoloring', 1, 0, 1]]:
    run(args)

print(H.hexdigest())
