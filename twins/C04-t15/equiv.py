#!/usr/bin/env python3
"""Equivalence script for refactoring t15 (property C04).

Exercises BinaryMappingVariables.__init__ (the table of sign flips) and
BinaryMappingVariables.forbid, directly and through the
force_*_mapping methods of CNF and OPB formulas.  Prints one SHA256
digest of everything observed.
"""
import hashlib
import io
import itertools
import sys

sys.path.insert(0, '.')

from cnfgen.formula.cnf import CNF
from cnfgen.formula.opb import OPB
from cnfgen.formula.basecnf import BaseCNF
from cnfgen.formula.variables import BinaryMappingVariables, VariablesManager

LOG = []


def rec(*items):
    LOG.append(repr(items))


def attempt(tag, fn):
    try:
        res = fn()
        shown = res if isinstance(res, (list, tuple, int, str, type(None))) else type(res).__name__
        rec(tag, 'ok', shown)
        return res
    except Exception as e:  # noqa
        rec(tag, 'exc', type(e).__name__, str(e))
        return None


def dump(F):
    if isinstance(F, OPB):
        out = io.StringIO()
        try:
            F.to_file(out)
            text = out.getvalue()
        except Exception as e:  # noqa
            text = 'EXC ' + type(e).__name__ + str(e)
        return (F.number_of_variables(), [list(c) for c in F], text)
    try:
        text = F.to_dimacs()
    except Exception as e:  # noqa
        text = 'EXC ' + type(e).__name__ + str(e)
    return (F.number_of_variables(), [list(c) for c in F], text)


def sat_assignments(F, nvars):
    """Brute force models of a CNF with few variables"""
    models = []
    clauses = [list(c) for c in F]
    for bits in itertools.product([False, True], repeat=nvars):
        ok = True
        for c in clauses:
            if not any((bits[abs(l) - 1] == (l > 0)) for l in c):
                ok = False
                break
        if ok:
            models.append(bits)
    return models


# 1. direct construction of the variable group
for pre in [0, 3]:
    for n in range(0, 5):
        for m in range(0, 10):
            F = BaseCNF()
            F.update_variable_number(pre)
            f = attempt(('ctor', pre, n, m),
                        lambda: BinaryMappingVariables(F, n, m))
            if f is None:
                continue
            rec('flips', pre, n, m, type(f.flips).__name__,
                [(type(x).__name__, x) for x in f.flips])
            rec('bits', f.bits(), len(f), list(f.domain()), list(f.range()))
            rec('labels', list(f.label()))
            k = f.bits()
            for i in range(-1, n + 3):
                for j in range(-2**k - 2, 2**k + 3):
                    attempt(('forbid', pre, n, m, i, j),
                            lambda: f.forbid(i, j))

for n, m in [(-1, 3), (3, -1), (-2, -2), (2, 17), (1, 33), (3, 64), (2, 65)]:
    F = BaseCNF()
    f = attempt(('ctor2', n, m), lambda: BinaryMappingVariables(F, n, m, labelfmt='b[{}|{}]'))
    if f is not None:
        rec('flips2', n, m, len(f.flips), f.flips[:5], f.flips[-5:])
        attempt(('forbid2', n, m), lambda: [f.forbid(1, j) for j in (0, 1, m - 1, m, 2**f.bits() - 1)])
        attempt(('forbid2hi', n, m), lambda: f.forbid(1, 2**f.bits()))
        attempt(('forbid2float', n, m), lambda: f.forbid(1, 1.0))
        attempt(('forbid2str', n, m), lambda: f.forbid(1, 'a'))
        attempt(('forbid2none', n, m), lambda: f.forbid(1, None))

# 2. through the formula classes
for cls in (CNF, OPB):
    for n in range(0, 5):
        for m in range(0, 8):
            for pre in (0, 2):
                F = cls()
                for _ in range(pre):
                    F.new_variable()
                f = attempt(('newbin', cls.__name__, n, m, pre),
                            lambda: F.new_binary_mapping(n, m))
                if f is None:
                    continue
                attempt(('complete', cls.__name__, n, m, pre),
                        lambda: F.force_complete_mapping(f))
                rec('after-complete', dump(F))
                attempt(('functional', cls.__name__, n, m, pre),
                        lambda: F.force_functional_mapping(f))
                attempt(('injective', cls.__name__, n, m, pre),
                        lambda: F.force_injective_mapping(f))
                rec('after-injective', dump(F))
                attempt(('nondecr', cls.__name__, n, m, pre),
                        lambda: F.force_nondecreasing_mapping(f))
                attempt(('surj', cls.__name__, n, m, pre),
                        lambda: F.force_surjective_mapping(f))
                rec('final', dump(F))
                rec('labels', list(F.all_variable_labels()))

# 3. semantics: models of small binary mappings
for n in range(1, 4):
    for m in range(1, 6):
        for which in ('complete', 'injective', 'nondecreasing'):
            F = CNF()
            f = F.new_binary_mapping(n, m)
            F.force_complete_mapping(f)
            if which == 'injective':
                F.force_injective_mapping(f)
            if which == 'nondecreasing':
                F.force_nondecreasing_mapping(f)
            nv = F.number_of_variables()
            if nv <= 9:
                rec('models', n, m, which, sat_assignments(F, nv))

# 4. two mappings in one formula, wrong parent
F = CNF()
G = CNF()
f1 = F.new_binary_mapping(3, 5)
f2 = F.new_binary_mapping(2, 3, label='w({},{})')
g1 = G.new_binary_mapping(3, 5)
attempt('wrong-parent-c', lambda: F.force_complete_mapping(g1))
attempt('wrong-parent-i', lambda: F.force_injective_mapping(g1))
attempt('wrong-parent-n', lambda: F.force_nondecreasing_mapping(g1))
F.force_complete_mapping(f2)
F.force_injective_mapping(f1)
F.force_nondecreasing_mapping(f2)
rec('two', dump(F), f1.flips, f2.flips)

print(hashlib.sha256('\n'.join(LOG).encode('utf-8')).hexdigest())
