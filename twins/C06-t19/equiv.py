#!/usr/bin/env python
"""Equivalence probe for the DIMACS / OPB writers (header comments, variable
name comments, problem line, clauses) and the DIMACS round trip.

Run as:  cd <checkout> && /venv/bin/python equiv.py
Prints one SHA256 digest of everything observed.
"""
import contextlib
import hashlib
import io
import os
import random
import sys
import tempfile

sys.path.insert(0, os.getcwd())

import cnfgen
from cnfgen import CNF
from cnfgen.formula.opb import OPB
from cnfgen.formula.basecnf import BaseCNF
from cnfgen.formula.cnfio import CNFio
from cnfgen.utils.parsedimacs import to_dimacs_file
from cnfgen.utils.opb import to_opb_file
from cnfgen.clitools import cnfgen as cnfgen_cli
from cnfgen.clitools.pbgen import cli as pbgen_cli

# the version string is taken from `git describe`: pin it, so that the digest
# does not depend on the commit the checkout happens to be at
from cnfgen.info import info as _info
_info['version'] = 'pinned-version'

LOG = []


def log(*items):
    LOG.append(repr(items))


def describe_exc(e):
    ctx = e.__context__
    return (type(e).__name__, str(e),
            None if ctx is None else (type(ctx).__name__, str(ctx)))


class Recorder:
    """File-like object which remembers each single write"""
    def __init__(self):
        self.chunks = []

    def write(self, text):
        self.chunks.append(text)
        return len(text)

    def text(self):
        return "".join(self.chunks)


class Weird:
    def __init__(self, s):
        self.s = s

    def __str__(self):
        return self.s


def check_dimacs_shape(text, n, m):
    """Everything but clause lines must be a comment, problem line is exact"""
    lines = text.split("\n")
    assert lines[-1] == ""
    lines = lines[:-1]
    noncomment = [l for l in lines if not l.startswith("c")]
    ok = (len(noncomment) == m + 1 and noncomment[0] == "p cnf %d %d" % (n, m))
    return ok


def probe_writers(tag, F):
    n = F.number_of_variables()
    m = len(F)
    for writer, wname in [(to_dimacs_file, 'dimacs'), (to_opb_file, 'opb')]:
        for hdr in (True, False):
            for vn in (True, False):
                rec = Recorder()
                try:
                    writer(F, rec, export_header=hdr, export_varnames=vn)
                    log(tag, wname, hdr, vn, rec.chunks)
                except BaseException as e:
                    log(tag, wname, hdr, vn, rec.chunks, describe_exc(e))
                    continue
                if wname == 'dimacs' and isinstance(F, BaseCNF):
                    text = rec.text()
                    log(tag, 'shape', check_dimacs_shape(text, n, m))
                    try:
                        G = CNF.from_file(io.StringIO(text))
                        log(tag, 'roundtrip', G.number_of_variables() == n,
                            list(G) == [list(c) for c in F],
                            G.number_of_variables(), list(G))
                    except BaseException as e:
                        log(tag, 'roundtrip', describe_exc(e))
    # default arguments
    for writer in (to_dimacs_file, to_opb_file):
        rec = Recorder()
        try:
            writer(F, rec)
            log(tag, 'defaults', rec.chunks)
        except BaseException as e:
            log(tag, 'defaults', rec.chunks, describe_exc(e))
    # stdout destination
    buf = io.StringIO()
    with contextlib.redirect_stdout(buf):
        try:
            to_opb_file(F, None, export_header=False, export_varnames=True)
            to_dimacs_file(F, export_varnames=True)
        except BaseException as e:
            log(tag, 'stdout', describe_exc(e))
    log(tag, 'stdout', buf.getvalue())
    # methods of the formula objects
    for meth in ('to_dimacs', 'to_opb'):
        if hasattr(F, meth):
            log(tag, meth, getattr(F, meth)())
    if hasattr(F, 'to_file'):
        for fmt in (None, 'dimacs', 'opb'):
            for hdr in (True, False):
                for vn in (True, False):
                    rec = Recorder()
                    try:
                        F.to_file(rec, fileformat=fmt, export_header=hdr,
                                  export_varnames=vn)
                        log(tag, 'to_file', fmt, hdr, vn, rec.chunks)
                    except BaseException as e:
                        log(tag, 'to_file', fmt, hdr, vn, rec.chunks,
                            describe_exc(e))


def probe_filenames(tag, F, tmpdir):
    for ext in ('cnf', 'opb', 'txt'):
        fname = os.path.join(tmpdir, 'out.' + ext)
        for vn in (True, False):
            if hasattr(F, 'to_file'):
                F.to_file(fname, export_varnames=vn)
                with open(fname, 'rb') as f:
                    log(tag, 'fname', ext, vn, f.read())
            try:
                to_dimacs_file(F, fname, export_header=vn, export_varnames=not vn)
            except BaseException as e:
                log(tag, 'fname-dimacs', describe_exc(e))
            with open(fname, 'rb') as f:
                log(tag, 'fname-dimacs', ext, vn, f.read())
            to_opb_file(F, fname, export_header=not vn, export_varnames=vn)
            with open(fname, 'rb') as f:
                log(tag, 'fname-opb', ext, vn, f.read())
        os.unlink(fname)


def hand_made():
    out = []
    out.append(('empty', CNF()))
    out.append(('empty-base', BaseCNF()))
    out.append(('empty-io', CNFio()))
    out.append(('one-empty-clause', CNF([[]])))
    out.append(('empty-clauses', CNF([[], [1, -2], [], []])))
    F = CNF()
    F.update_variable_number(7)
    out.append(('unused-vars', F))
    F = CNF([[1, -3]])
    F.update_variable_number(9)
    F.add_clause([2, 2, -2])
    out.append(('unused-vars-2', F))

    F = CNF([[1, 2], [-1]], description="multi\nline\r\ndescription\n")
    out.append(('multiline-descr', F))
    F = CNF([[1, 2], [-1]], description="")
    out.append(('empty-descr', F))
    F = CNF([[1, 2], [-1]], description="\n")
    out.append(('newline-descr', F))
    F = CNF([[1, 2], [-1]], description="caffè ☕ naïve — p cnf 3 3")
    out.append(('nonascii-descr', F))
    F = CNF([[1, 2], [-1]], description="x\np cnf 99 99\n1 2 3 0 p cnf 1 1\x0cq\x1cr\x85s")
    out.append(('sneaky-descr', F))
    F = CNF([[3, -2]])
    F.header.clear()
    out.append(('no-header', F))
    F = CNF([[3, -2]])
    F.header['extra'] = 12
    F.header[5] = None
    F.header['weird'] = Weird("a\nb")
    F.header['list'] = [1, 'two\n', 3.0]
    F.header['key\nwith newline'] = 'v'
    F.header['clé'] = 'välue'
    F.header[''] = ''
    out.append(('odd-header', F))

    # named variables, with unusual names
    F = CNF()
    x = F.new_variable('x')
    y = F.new_variable('why not\nnewline')
    z = F.new_variable('zeta ζ {0} %s')
    F.add_clause([x, -y, z])
    F.add_clause([-x])
    out.append(('named-vars', F))
    F = CNF()
    b = F.new_block(2, 3, label='p_{{{},{}}}')
    F.new_variable('\tlone  \r\n var ')
    w = F.new_block(2, label='c varname {}')
    F.add_clause([b(1, 1), -b(2, 3), w(2)])
    F.add_clause([])
    F.update_variable_number(11)
    out.append(('blocks', F))

    # OPB formulas
    P = OPB()
    out.append(('opb-empty', P))
    P = OPB(description="opb\nmulti ☕")
    P.add_constraint([(1, 1), (-2, 2), (3, -3), '>=', 2])
    P.add_constraint([(1, 4), (5, -1), '==', 3])
    P.add_clause([1, -2, 5])
    P.update_variable_number(8)
    out.append(('opb-1', P))
    P = OPB()
    v = P.new_block(2, 2, label='o[{},{}]')
    P.new_variable('odd\nname')
    P.cardinality_leq([v(1, 1), v(1, 2), -v(2, 2)], 2)
    P.cardinality_eq([v(2, 1), -v(1, 1)], 1)
    out.append(('opb-named', P))
    return out


def from_families():
    rng = random.Random(611)
    out = []
    out.append(('php', cnfgen.PigeonholePrinciple(4, 3)))
    out.append(('fphp', cnfgen.PigeonholePrinciple(3, 3, functional=True, onto=True)))
    out.append(('op', cnfgen.OrderingPrinciple(4, total=True)))
    out.append(('count', cnfgen.CountingPrinciple(5, 2)))
    random.seed(42)
    out.append(('kcnf', cnfgen.RandomKCNF(3, 7, 12)))
    out.append(('kcnf0', cnfgen.RandomKCNF(3, 5, 0)))
    out.append(('ram', cnfgen.RamseyNumber(3, 3, 5)))
    F = cnfgen.PigeonholePrinciple(3, 2)
    out.append(('xor-php', cnfgen.XorSubstitution(F, 2)))
    out.append(('or-php', cnfgen.OrSubstitution(F, 2)))
    random.seed(7)
    out.append(('shuffle-php', cnfgen.Shuffle(cnfgen.PigeonholePrinciple(4, 2))))
    out.append(('lift-op', cnfgen.FormulaLifting(cnfgen.OrderingPrinciple(3), 2)))
    out.append(('flip', cnfgen.FlipPolarity(cnfgen.OrderingPrinciple(3))))
    # random hand made formulas
    for i in range(25):
        n = rng.randint(0, 8)
        F = CNF(description="random %d\n" % i * rng.randint(0, 2))
        F.update_variable_number(n + rng.randint(0, 2))
        for _ in range(rng.randint(0, 8)):
            w = rng.randint(0, 4) if n else 0
            F.add_clause([rng.choice([1, -1]) * rng.randint(1, n) for _ in range(w)])
        out.append(('rnd%d' % i, F))
    return out


CLI_CNFGEN = [
    ['cnfgen', 'php', '3', '2'],
    ['cnfgen', '-q', 'php', '3', '2'],
    ['cnfgen', '--varnames', 'php', '3', '2'],
    ['cnfgen', '-q', '--varnames', 'op', '3'],
    ['cnfgen', '--seed', '13', '--varnames', 'randkcnf', '3', '6', '9'],
    ['cnfgen', '--varnames', 'php', '3', '2', '-T', 'xor', '2'],
    ['cnfgen', '-of', 'opb', '--varnames', 'php', '3', '2'],
    ['cnfgen', '-of', 'opb', '-q', 'php', '3', '2'],
    ['cnfgen', '--seed', '5', 'randkcnf', '2', '4', '5', '-T', 'shuffle'],
    ['cnfgen', 'and', '0', '0'],
    ['cnfgen', '--varnames', 'or', '2', '0'],
]
CLI_PBGEN = [
    ['pbgen', 'php', '3', '2'],
    ['pbgen', '-q', 'php', '3', '2'],
    ['pbgen', '--varnames', 'php', '3', '2'],
    ['pbgen', '-q', '--varnames', 'php', '3', '2'],
]


def probe_cli():
    for clifun, cmds in [(cnfgen_cli, CLI_CNFGEN), (pbgen_cli, CLI_PBGEN)]:
        for argv in cmds:
            buf = io.StringIO()
            err = io.StringIO()
            try:
                with contextlib.redirect_stdout(buf), contextlib.redirect_stderr(err):
                    res = clifun(list(argv), mode='output')
                log('cli', argv, res, buf.getvalue())
            except SystemExit as e:
                log('cli', argv, 'SystemExit', e.code, buf.getvalue(), err.getvalue())
            except BaseException as e:
                log('cli', argv, describe_exc(e), buf.getvalue())


def main():
    formulas = hand_made() + from_families()
    for tag, F in formulas:
        probe_writers(tag, F)
    tmpdir = tempfile.mkdtemp()
    try:
        for tag, F in formulas[:30]:
            probe_filenames(tag, F, tmpdir)
    finally:
        os.rmdir(tmpdir)
    probe_cli()

    # error paths of the writers
    class Broken:
        def write(self, text):
            raise IOError("disk full after %r" % (text,))
    for writer in (to_dimacs_file, to_opb_file):
        for hdr in (True, False):
            try:
                writer(CNF([[1]]), Broken(), export_header=hdr, export_varnames=True)
            except IOError as e:
                log('broken', hdr, describe_exc(e))
        try:
            writer(CNF([[1]]), os.path.join(tmpdir, 'missing', 'f.cnf'))
        except IOError as e:
            log('nodir', type(e).__name__, e.errno)
        try:
            writer(object(), Recorder())
        except BaseException as e:
            log('notformula', describe_exc(e))
        try:
            writer(CNF([[1]]), 17)
        except BaseException as e:
            log('notfile', describe_exc(e))

    digest = hashlib.sha256("\n".join(LOG).encode('utf-8', 'backslashreplace'))
    print(digest.hexdigest())


if __name__ == '__main__':
    main()
