#!/usr/bin/env python
"""Equivalence script for the refactoring of the command line helpers
XorCompressionCmd / MajCompressionCmd (cnfgen/clihelpers/transformation_helpers.py).
Prints one SHA256 digest of everything observable."""
import sys, os, hashlib, random, io, contextlib, argparse
sys.path.insert(0, os.getcwd())

import cnfgen
from cnfgen.formula.cnf import CNF
from cnfgen.graphs import BipartiteGraph
from cnfgen.clitools.cnfgen import cli as cnfgen_cli
from cnfgen.clihelpers.transformation_helpers import XorCompressionCmd, MajCompressionCmd

H = hashlib.sha256()
def emit(*xs):
    H.update((" ".join(repr(x) for x in xs) + "\n").encode('utf-8'))

def attempt(tag, fn):
    try:
        r = fn()
        emit(tag, 'OK', r)
    except Exception as e:
        emit(tag, 'EXC', type(e).__name__, str(e))

def dump_formula(tag, F):
    n = F.number_of_variables()
    emit(tag, 'nvars', n, 'len', len(F))
    bad = 0
    for c in F:
        emit(tag, c)
        for l in c:
            if not isinstance(l, int) or l == 0 or abs(l) > n:
                bad += 1
    emit(tag, 'bad', bad)
    emit(tag, 'header', list(F.header.items()))
    emit(tag, 'labels', list(F.all_variable_labels()))
    attempt(tag + ' debug', lambda: F.debug(allow_opposite=True, allow_repetition=True))

GOODMATRIX = "6 4\n1 1 1 0\n0 1 1 1\n1 0 1 1\n1 1 0 1\n1 1 1 0\n0 1 1 1\n"   # 6 left vertices as php 3 2
BADMATRIX = "5 4\n1 1 1 0\n0 1 1 1\n1 0 1 1\n1 1 0 1\n1 1 1 0\n"               # wrong left side

def run_cli(argv, mode, stdin_text=''):
    err = io.StringIO()
    out = io.StringIO()
    oldstdin = sys.stdin
    sys.stdin = io.StringIO(stdin_text)
    try:
        with contextlib.redirect_stderr(err), contextlib.redirect_stdout(out):
            res = cnfgen_cli(argv, mode=mode)
    except SystemExit as e:
        return ('exit', e.code, out.getvalue(), err.getvalue())
    finally:
        sys.stdin = oldstdin
    return (res, out.getvalue(), err.getvalue())

# 1. the command line, formula mode
for comp in ['xorcomp', 'majcomp']:
    cmds = [
        ['php', 7, 5, '-T', comp, 12, 3],
        ['php', 7, 5, '-T', comp, 12],
        ['php', 7, 5, '-T', comp, 35, 1],
        ['php', 3, 2, '-T', comp, 3, 3],
        ['php', 3, 2, '-T', comp, 1, 1],
        ['php', 3, 2, '-T', comp, 1],            # default d=3 > N
        ['php', 3, 2, '-T', comp, 2, 5],         # d > N
        ['php', 3, 2, '-T', comp, 0],
        ['php', 3, 2, '-T', comp, -3, 2],
        ['php', 3, 2, '-T', comp, 4, 0],
        ['php', 3, 2, '-T', comp, 4, 2, 7],
        ['php', 3, 2, '-T', comp, 4.5],
        ['php', 3, 2, '-T', comp],
        ['php', 7, 5, '-T', comp, 'glrd', 35, 12, 3],
        ['php', 7, 5, '-T', comp, 'glrd', 30, 12, 3],   # wrong left side
        ['php', 3, 2, '-T', comp, 'complete', 6, 3],
        ['php', 3, 2, '-T', comp, 'regular', 6, 4, 2],
        ['php', 3, 2, '-T', comp, 'empty', 6, 3],
        ['php', 3, 2, '-T', comp, 'glrp', 6, 5, 0.5],
        ['php', 3, 2, '-T', comp, 'glrm', 6, 5, 9],
        ['php', 3, 2, '-T', comp, 'matrix', '-', GOODMATRIX],
        ['php', 3, 2, '-T', comp, 'matrix', '-', BADMATRIX],
        ['php', 3, 2, '-T', comp, 'matrix', '-', 'garbage'],
        ['php', 3, 2, '-T', comp, 'nonsense', 6, 3],
        ['php', 0, 0, '-T', comp, 3, 2],                # no variables at all
        ['php', 3, 2, '-T', comp, 8, 2, '-T', comp, 6, 2],  # chain of two compressions
        ['php', 3, 2, '-T', 'xor', 2, '-T', comp, 10, 2, '-T', 'shuffle'],
        ['bphp', 5, 4, '-T', comp, 12, 2, '-T', 'lift', 2],
        ['randkcnf', 3, 30, 100, '-T', comp, 20, 3],
        ['peb', 'pyramid', 4, '-T', comp, 10, 3],
    ]
    for seed in [1, 'abc', 4242]:
        for cmd in cmds:
            stdin_text = ''
            if 'matrix' in cmd:
                cmd, stdin_text = cmd[:-1], cmd[-1]
            argv = ['cnfgen', '-q', '--seed', seed] + cmd
            tag = 'cli ' + ' '.join(map(str, argv)) + ' <<< ' + repr(stdin_text)
            def mk():
                r = run_cli(argv, 'formula', stdin_text)
                if r[0] == 'exit':
                    return r
                F = r[0]
                dump_formula(tag, F)
                # state of the random stream after the run
                return (F.number_of_variables(), len(F), r[1], r[2], random.random())
            attempt(tag, mk)

# 2. the command line, textual outputs
for comp in ['xorcomp', 'majcomp']:
    for fmt in ['dimacs', 'opb', 'latex']:
        for cmd in [['php', 4, 3, '-T', comp, 8, 3],
                    ['php', 3, 2, '-T', comp, 'complete', 6, 2]]:
            argv = ['cnfgen', '--seed', 11, '-of', fmt] + cmd
            attempt('text ' + ' '.join(map(str, argv)), lambda: run_cli(argv, 'string'))
    argv = ['cnfgen', '--seed', 11, '-v', 'php', 4, 3, '-T', comp, 8, 3]
    attempt('output ' + ' '.join(map(str, argv)), lambda: run_cli(argv, 'output'))

# 3. direct use of the helpers with hand-made namespaces
def source():
    F = CNF()
    x = F.new_block(3, 2, label='x_{{{},{}}}')
    F.add_clause([x(1, 1), -x(2, 2)])
    F.add_clause([-x(3, 1), x(3, 2), 8])   # also a variable outside of groups
    F.add_clause([])
    return F

B6 = BipartiteGraph(8, 5)
for u in range(1, 9):
    for v in [(u % 5) + 1, ((u + 2) % 5) + 1, ((u + 3) % 5) + 1]:
        B6.add_edge(u, v)

for helper in [XorCompressionCmd, MajCompressionCmd]:
    hn = helper.__name__
    cases = [
        ('N d', argparse.Namespace(N=6, d=3)),
        ('N d B', argparse.Namespace(N=6, d=3, B=B6)),   # N wins over B
        ('B', argparse.Namespace(B=B6)),
        ('N only', argparse.Namespace(N=6)),             # d missing
        ('d only', argparse.Namespace(d=3)),             # neither N nor B
        ('empty', argparse.Namespace()),
        ('N None', argparse.Namespace(N=None, d=None)),
        ('N str', argparse.Namespace(N='6', d='2')),
        ('N big d', argparse.Namespace(N=3, d=9)),
        ('B wrong', argparse.Namespace(B=BipartiteGraph(3, 3))),
        ('B none', argparse.Namespace(B=None)),
    ]
    for name, ns in cases:
        for seed in [0, 99]:
            tag = 'direct {} {} s{}'.format(hn, name, seed)
            def mk():
                random.seed(seed)
                F = source()
                G = helper.transform_cnf(F, ns)
                dump_formula(tag, G)
                return (G.number_of_variables(), len(G), random.random(),
                        F.number_of_variables(), list(F), sorted(vars(ns)))
            attempt(tag, mk)

print(H.hexdigest())
