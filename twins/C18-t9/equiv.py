#!/usr/bin/env python
"""Equivalence check for the refactoring of
cnfgen.clitools.graph_build.obtain_bipartite_shift

Exercises the 'shift' bipartite construction, directly and through the
command line tools (cnfgen / pbgen), with legal, boundary and illegal
arguments.  Prints one SHA256 digest of everything observed.
"""
import os
import sys
import io
import hashlib
import random
import tempfile

sys.path.insert(0, os.getcwd())
os.environ['COLUMNS'] = '80'

from cnfgen.clitools.graph_build import obtain_bipartite_shift
from cnfgen.clitools.graph_args import make_graph_from_spec, parse_graph_argument
import importlib
cnfgen_cli = importlib.import_module('cnfgen.clitools.cnfgen')
pbgen_cli = importlib.import_module('cnfgen.clitools.pbgen')
msg_mod = importlib.import_module('cnfgen.clitools.msg')
# the version string comes from `git describe`: pin it
importlib.import_module('cnfgen.info').info['version'] = 'VERSION'

LOG = []


def record(*items):
    for it in items:
        LOG.append(repr(it))


class Keep(io.StringIO):
    def close(self):
        pass


def run_main(mainfunc, argv, stdin_text=''):
    out, err = Keep(), Keep()
    saved = (sys.argv, sys.stdout, sys.stderr, sys.stdin)
    sys.argv, sys.stdout, sys.stderr, sys.stdin = argv, out, err, io.StringIO(stdin_text)
    random.seed(12345)
    msg_mod._prefix = ''   # every command line starts in a fresh process
    try:
        try:
            mainfunc()
            res = 'return'
        except SystemExit as e:
            res = 'SystemExit(%r)' % (e.code,)
        except BaseException as e:  # unhandled internal exception
            res = 'EXC %s: %s' % (type(e).__name__, e)
    finally:
        sys.argv, sys.stdout, sys.stderr, sys.stdin = saved
    record(argv, res, out.getvalue(), err.getvalue())


def graph_dump(G):
    return (type(G).__name__, G.name, G.left_order(), G.right_order(),
            sorted(G.edges()))


def direct(args):
    parsed = {'graphtype': 'bipartite', 'construction': 'shift',
              'filename': None, 'fileformat': None, 'args': args}
    try:
        G = obtain_bipartite_shift(parsed)
        record('direct', args, graph_dump(G))
    except BaseException as e:
        record('direct', args, type(e).__name__, str(e),
               type(e.__context__).__name__, type(e.__cause__).__name__)


def via_spec(spec):
    random.seed(99)
    msg_mod._prefix = ''
    try:
        G = make_graph_from_spec('bipartite', spec)
        record('spec', spec, graph_dump(G))
    except BaseException as e:
        record('spec', spec, type(e).__name__, str(e))


ARGLISTS = [
    [], ['1'], ['0', '1'], ['1', '0'], ['-1', '3'], ['3', '-2'],
    ['1', '1'], ['1', '1', '0'], ['1', '1', '1'], ['1', '1', '2'],
    ['1', '1', '0', '1'], ['1', '1', '1', '1'], ['1', '1', '0', '0'],
    ['3', '4'], ['3', '4', '0'], ['3', '4', '4'], ['3', '4', '5'],
    ['3', '4', '-1'], ['3', '4', '0', '4'], ['3', '4', '4', '0'],
    ['3', '4', '1', '2', '3'], ['3', '4', '3', '1', '2'],
    ['3', '4', '1', '2', '1'], ['3', '4', '2', '2'], ['3', '4', '1', '3', '3', '2'],
    ['3', '4', '0', '1', '2', '3', '4'], ['3', '4', '0', '1', '2', '3', '4', '5'],
    ['3', '4', '1.5'], ['3.0', '4', '1'], ['3', '4.0', '1'], ['3', '4', '1e1'],
    ['3', '4', 'nan'], ['3', '4', 'inf'], ['inf', '4'], ['3', '4', ' 2 '],
    ['3', '4', '+2'], ['3', '4', '-0', '0'], ['3', '4', '-0'], ['3', '4', '02', '2'],
    ['5', '7', '6', '5', '1'], ['7', '5', '1', '5', '6'], ['7', '5', '5', '5'],
    ['10', '10', '10', '0'], ['10', '10', '11'], ['2', '3', '1', '2', '3', '0'],
    ['2', '3', '1', '2', '3', '0', '0'], ['2', '3', '3', '3', '0', '0'],
    ['2', '3', '-1', '-1'], ['2', '3', '4', '4'], ['2', '3', '4', '-1'],
    [3, 4, 1, 2], [3, 4, 2, 2], [3, 4, None], [None, 4], ['3', '4', ''],
    ['12', '9', '0', '3', '6'], ['12', '9', '8', '9'], ['12', '9', '9', '10'],
]

for a in ARGLISTS:
    direct(a)

# 'args' missing or of the wrong type
for parsed in [{'args': None}, {}, {'args': 7}, {'args': '34'}, {'args': ('3', '4', '1')}]:
    try:
        G = obtain_bipartite_shift(parsed)
        record('odd', sorted(parsed), graph_dump(G))
    except BaseException as e:
        record('odd', sorted(parsed), type(e).__name__, str(e))

SPECS = [
    'shift 3 4 1 2', 'shift 3 4 2 1', 'shift 3 4 2 2', 'shift 3 4', 'shift 3',
    'shift', 'shift 3 4 5', 'shift 3 4 0 4', 'shift 4 4 0 1 plantbiclique 2 2',
    'shift 4 4 0 1 addedges 3', 'shift 4 4 1 1 addedges 3', 'shift 0 4 1',
    'shift 4 4 0.5', 'shift 4 4 1 addedges', 'shift 4 4 1 plantbiclique 9 9',
    'shift 4 4 1 splitedges 1', 'shift 4 4 1 shift 4 4 1', 'shift -3 4 1',
    'shift 4 4 1 -q', 'shift 4 4 1 save', 'shift 4 4 1 save matrix',
]
for s in SPECS:
    via_spec(s)
    try:
        record('parsed', sorted(parse_graph_argument('bipartite', s).items(), key=str))
    except BaseException as e:
        record('parsed', type(e).__name__, str(e))

tmp = tempfile.mkdtemp(prefix='c18t9')
os.chdir(tmp)

CMDS = [
    ['cnfgen', '-q', 'php', 'shift', '4', '3', '0', '1'],
    ['cnfgen', 'php', 'shift', '4', '3', '0', '1', '3'],
    ['cnfgen', 'php', 'shift', '4', '3', '0', '0'],
    ['cnfgen', 'php', 'shift', '4', '3', '4'],
    ['cnfgen', 'php', 'shift', '4', '3', '-1'],
    ['cnfgen', 'php', 'shift', '4'],
    ['cnfgen', 'php', 'shift'],
    ['cnfgen', 'php', 'shift', '0', '3'],
    ['cnfgen', 'php', 'shift', '4', '3'],
    ['cnfgen', '-of', 'opb', 'php', 'shift', '4', '3', '1', '1'],
    ['cnfgen', '-of', 'latex', 'php', 'shift', '4', '3', '1', '7'],
    ['cnfgen', '-of', 'opb', '-q', 'php', 'shift', '4', '3', '1', '2'],
    ['cnfgen', '-of', 'latex', '-q', 'php', 'shift', '2', '3', '1', '2'],
    ['cnfgen', '-S', '7', 'php', 'shift', '5', '5', '0', '2', 'plantbiclique', '2', '2'],
    ['cnfgen', '-S', '7', 'php', 'shift', '5', '5', '0', '2', 'addedges', '4'],
    ['cnfgen', '-o', 'out1.cnf', 'php', 'shift', '3', '3', '0', '1', 'save', 'g1.matrix'],
    ['cnfgen', '-o', 'out2.cnf', 'php', 'shift', '3', '3', '1', '1', 'save', 'g2.matrix'],
    ['cnfgen', '-q', 'subsetcard', 'shift', '4', '4', '0', '1', '2'],
    ['cnfgen', '-q', 'subsetcard', 'shift', '4', '4', '0', '1', '1'],
    ['cnfgen', '-q', 'and', '2', '2', '-T', 'lift', 'shift', '4', '3', '0', '1'],
    ['cnfgen', '-q', 'op', '3', '-T', 'xorcomp', 'shift', '6', '4', '0', '1'],
    ['cnfgen', '-q', 'op', '3', '-T', 'xorcomp', 'shift', '6', '4', '1', '1'],
    ['cnfgen', '-q', 'op', '3', '-T', 'xorcomp', 'shift', '6', '4', '5'],
    ['cnfgen', '-q', 'op', '3', '-T', 'majcomp', 'shift', '6', '7', '0', '1', '2'],
    ['cnfgen', '-q', '-of', 'opb', 'op', '3', '-T', 'xorcomp', 'shift', '6', '4', '9'],
    ['pbgen', '-q', 'php', 'shift', '4', '3', '0', '1'],
    ['pbgen', 'php', 'shift', '4', '3', '2', '2'],
    ['pbgen', 'php', 'shift', '4', '3', '0', '3'],
    ['pbgen', 'php', 'shift', '4', '3', '0', '4'],
    ['pbgen', '-of', 'dimacs', 'php', 'shift', '4', '3', '2', '2'],
    ['pbgen', 'php', 'shift', '4'],
]
for c in CMDS:
    mainfunc = pbgen_cli.main if c[0] == 'pbgen' else cnfgen_cli.main
    run_main(mainfunc, c)

for fn in sorted(os.listdir(tmp)):
    with open(fn) as f:
        record('file', fn, f.read())

os.chdir(sys.path[0])
import shutil
shutil.rmtree(tmp, ignore_errors=True)

print(hashlib.sha256('\n'.join(LOG).encode('utf-8')).hexdigest())
if os.environ.get('EQUIV_DUMP'):
    with open(os.environ['EQUIV_DUMP'], 'w') as f:
        f.write('\n'.join(LOG))
