"""Equivalence check for obtain_grid_or_torus (cnfgen/clitools/graph_build.py)."""
import warnings
warnings.simplefilter("ignore")
import hashlib
import io
import random
import sys
import contextlib

sys.path.insert(0, '.')

from cnfgen.clitools.graph_args import make_graph_from_spec, parse_graph_argument
from cnfgen.clitools.graph_build import obtain_grid_or_torus, obtain_grid, obtain_torus
from cnfgen.clitools.cnfgen import cli

H = hashlib.sha256()


def emit(*items):
    for x in items:
        H.update(repr(x).encode('utf-8'))
        H.update(b'\n')


def dump(G):
    emit(type(G).__name__, G.name, G.number_of_vertices(), G.number_of_edges())
    emit(sorted(G.edges()))
    emit([G.degree(v) for v in G.vertices()])


def attempt(label, fn, *args, **kwargs):
    emit('CASE', label)
    try:
        G = fn(*args, **kwargs)
    except BaseException as e:
        emit('EXC', type(e).__name__, str(e))
    else:
        dump(G)


dimlists = [
    [], ['1'], ['2'], ['3'], ['5'], ['1', '1'], ['2', '2'], ['3', '2'], ['2', '3'],
    ['3', '3'], ['4', '3', '2'], ['2', '2', '2', '2'], ['1', '5'], ['5', '1'],
    ['0'], ['-1'], ['3', '0'], ['0', '3'], ['3', '-2'], ['-2', '3'],
    ['2.5'], ['3', '1e2'], ['1e1'], ['+3', '2'], [' 3 ', '2'], ['3', '2', '0', 'x'],
    ['x'], ['3', 'x'], ['', '2'], ['١٢'], ['3', '2', '1', '1', '2'],
]

for periodic in (False, True):
    for dims in dimlists:
        random.seed(42)
        attempt(('direct', periodic, dims), obtain_grid_or_torus,
                {'args': list(dims)}, periodic)

# non-list / odd argument containers
for periodic in (False, True):
    for args in (None, 5, (3, 2), [3, 2], [3.7, 2], [None], [[1]], ('2', '2'), '23', [True, 3]):
        attempt(('odd', periodic, repr(args)), obtain_grid_or_torus, {'args': args}, periodic)

for dims in dimlists:
    attempt(('grid', dims), obtain_grid, {'args': list(dims)})
    attempt(('torus', dims), obtain_torus, {'args': list(dims)})

# through the command line parser of graph specifications
specs = [
    'grid 3 3', 'torus 3 3', 'grid 4', 'torus 4', 'grid 2 3 4', 'torus 2 3 4',
    'grid 0', 'torus 0 3', 'grid -1 3', 'grid 3 2.5', 'torus 1e1', 'grid',
    'torus', 'grid 3 3 plantclique 4', 'torus 4 4 addedges 5',
    'grid 3 2 splitedges 3', 'torus 3 3 plantclique 3 addedges 2 splitedges 2',
    'grid 3 3 plantclique 10', 'grid 2 2 addedges 3', 'grid 2 2 splitedges 5',
    'torus 2 2', 'torus 1 1', 'grid 1', 'torus 1', 'torus 2', 'torus 3',
]
for spec in specs:
    random.seed(7)
    attempt(('spec', spec), make_graph_from_spec, 'simple', spec)
    emit(parse_graph_argument('simple', spec))

# through the full command line
cmdlines = [
    ['cnfgen', '-q', '--seed', '5', 'kcolor', '3', 'grid', '3', '3'],
    ['cnfgen', '-q', '--seed', '5', 'kcolor', '3', 'torus', '3', '3'],
    ['cnfgen', '-q', '--seed', '5', 'tseitin', 'first', 'torus', '4', '3'],
    ['cnfgen', '-q', '--seed', '5', 'tseitin', 'first', 'grid', '2', '2', '2'],
    ['cnfgen', '-q', '--seed', '5', 'kclique', '3', 'grid', '3', '2', 'plantclique', '3'],
    ['cnfgen', '-q', '--seed', '5', 'kcolor', '3', 'grid', '3', '0'],
    ['cnfgen', '-q', '--seed', '5', 'kcolor', '3', 'torus', '-3'],
    ['cnfgen', '-q', '--seed', '5', 'kcolor', '3', 'torus', '3', 'x'],
    ['cnfgen', '-q', '--seed', '5', 'domset', '3', 'torus', '3', '2', 'addedges', '2'],
]
for argv in cmdlines:
    out, err = io.StringIO(), io.StringIO()
    emit('CLI', argv)
    try:
        with contextlib.redirect_stdout(out), contextlib.redirect_stderr(err):
            cli(argv)
    except SystemExit as e:
        emit('EXIT', e.code)
    except BaseException as e:
        emit('EXC', type(e).__name__, str(e))
    emit(out.getvalue(), err.getvalue())

print(H.hexdigest())
