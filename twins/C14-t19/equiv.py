"""Equivalence check for the kthlist readers (_read_bipartite_kthlist, _read_nonbipartite_kthlist)."""
import hashlib
import io
import random
import sys
import warnings

warnings.simplefilter('ignore')
sys.path.insert(0, '.')
_real_stdout = sys.stdout
_captured = io.StringIO()
sys.stdout = _captured
_real_stderr = sys.stderr
sys.stderr = _captured

from cnfgen.graphs import Graph, DirectedGraph, BipartiteGraph, readGraph, writeGraph
from cnfgen.graphs import bipartite_random, dag_pyramid, dag_path, dag_complete_binary_tree
import cnfgen.graphs as graphs_module

out = []


def rec(*items):
    out.append(repr(items))


def describe(G):
    d = [type(G).__name__, G.number_of_vertices(), G.number_of_edges(), list(G.edges()), G.name]
    if G.is_bipartite():
        d.append((G.left_order(), G.right_order()))
    else:
        d.append((G.is_directed(), G.is_dag()))
    return d


def attempt(label, fn, *args, **kw):
    try:
        res = fn(*args, **kw)
        rec(label, 'OK', describe(res))
    except Exception as e:
        rec(label, 'EXC', type(e).__name__, str(e))


TYPES = ['simple', 'digraph', 'dag', 'bipartite']


def read_all(label, text):
    for gt in TYPES:
        attempt((label, gt), readGraph, io.StringIO(text), gt, 'kthlist')


rng = random.Random(140019)

hand = [
    '',
    '\n',
    '\n\n   \n',
    'c only a comment\n',
    '0\n',
    'c empty\n0\n',
    '1\n',
    '3\n',
    'c name\nc second comment\n3\n',
    'c \nc real name\n3\n1 : 0\n',
    '3\nc late comment\n1 : 0\n2 : 1 0\n3 : 1 2 0\n',
    '3\n1 : 0\n2 : 1 0\n3 : 1 2 0\n',
    '3\n\n1 : 0\n\n2 : 1 0\n   \n3 : 1 2 0\n\n',
    '3\n1 : 2 0\n2 : 3 0\n3 : 0\n',
    '3\n3 : 1 2 0\n',
    '3\n2 : 1 0\n1 : 0\n',
    '3\n2 : 1 0\n2 : 3 0\n',
    '3\n1 : 1 0\n',
    '3\n1 : 2 2 0\n',
    '3\n1 : 2 0\n2 : 1 0\n',
    '3\n3\n',
    '3\n1 : 2 0\n4\n',
    '-3\n',
    'three\n',
    '3 4\n',
    '1 : 2 0\n3\n',
    '3\n1 : 2\n',
    '3\n1 : 0 2\n',
    '3\n1 : \n',
    '3\n1 :\n',
    '3\n1 : 2 0 : 3 0\n',
    '3\nx : 2 0\n',
    '3\n1 : y 0\n',
    '3\n0 : 2 0\n',
    '3\n4 : 2 0\n',
    '3\n1 : 4 0\n',
    '3\n1 : -1 0\n',
    '3\n 1 : 2 0 \n',
    '3\n1:2 3 0\n',
    '3\r\n1 : 2 0\r\n',
    '12\n1 : 10 11 12 0\n2 : 11 0\n10 : 0\n',
    '12\n10 : 1 2 0\n11 : 1 10 0\n12 : 11 0\n',
    '12\n1 : 11 12 0\n10 : 12 0\n',
    '12\n1 : 11 12 0\n11 : 12 0\n',
    '12\n1 : 5 0\n6 : 7 0\n',
    '12\n1 : 5 0\n5 : 7 0\n',
    '12\n1 : 5 0\n4 : 3 0\n',
    '4\n1 : 3 4 0\n2 : 3 0\n',
    '4\n1 : 2 0\n3 : 4 0\n',
    '4\n4 : 0\n',
    '4\n1 : 0\n2 : 0\n3 : 0\n4 : 0\n',
    '5\n1 : 4 0\n2 : 5 0\n3 : 4 5 0\n',
    '5\n1 : 4 0\n2 : 3 0\n3 : 5 0\n',
    'c bipartite\n5\n2 : 4 5 0\n',
    'p edge 3 2\ne 1 2\n',
    'c\n3\n1 : 2 0\n',
    'cc\n3\n',
    'comment without space\n3\n1 : 3 0\n',
]
for i, text in enumerate(hand):
    read_all(('hand', i), text)
    # direct calls of the in-house readers too
    attempt(('direct-bip', i), graphs_module._read_bipartite_kthlist, io.StringIO(text))
    attempt(('direct-simple', i), graphs_module._read_nonbipartite_kthlist, io.StringIO(text), Graph)
    attempt(('direct-digraph', i), graphs_module._read_nonbipartite_kthlist, io.StringIO(text), DirectedGraph)

# round trips of generated graphs + mutations of the written text
gens = []
for n in [0, 1, 2, 3, 9, 10, 11, 15]:
    G = Graph(n, 'simple %d' % n)
    D = DirectedGraph(n, 'digraph %d' % n)
    A = DirectedGraph(n, 'dag %d' % n)
    for u in range(1, n + 1):
        for v in range(u + 1, n + 1):
            if rng.random() < 0.3:
                G.add_edge(u, v)
            if rng.random() < 0.25:
                A.add_edge(u, v)
            r = rng.random()
            if r < 0.15:
                D.add_edge(u, v)
            elif r < 0.3:
                D.add_edge(v, u)
    gens += [(G, 'simple'), (D, 'digraph'), (A, 'dag'), (A, 'digraph')]
gens += [(dag_pyramid(4), 'dag'), (dag_path(11), 'dag'), (dag_complete_binary_tree(3), 'dag')]
gens += [(Graph.complete_graph(10), 'simple'), (Graph.star_graph(11), 'simple'), (Graph.empty_graph(12), 'simple')]
for L, R in [(0, 0), (0, 3), (3, 0), (1, 1), (4, 9), (10, 10), (12, 3)]:
    gens.append((BipartiteGraph(L, R), 'bipartite'))
    if L >= 1 and R >= 1:
        gens.append((bipartite_random(L, R, 0.4, seed=L * 31 + R), 'bipartite'))
        gens.append((bipartite_random(L, R, 1.0, seed=1), 'bipartite'))


def mutate(text):
    lines = text.split('\n')
    kind = rng.randrange(8)
    if kind == 0 and lines:
        del lines[rng.randrange(len(lines))]
    elif kind == 1 and len(lines) >= 2:
        i, j = rng.sample(range(len(lines)), 2)
        lines[i], lines[j] = lines[j], lines[i]
    elif kind == 2:
        lines.insert(rng.randrange(len(lines) + 1), rng.choice(['', '   ', 'c hello', 'c', '7', '1 : 2 0', 'zz']))
    elif kind == 3 and lines:
        i = rng.randrange(len(lines))
        lines[i] = lines[i][:rng.randrange(len(lines[i]) + 1)]
    elif kind == 4:
        lines = lines[:rng.randrange(len(lines) + 1)]
    elif kind == 5 and lines:
        i = rng.randrange(len(lines))
        toks = lines[i].split(' ')
        k = rng.randrange(len(toks))
        toks[k] = rng.choice(['0', '1', '5', '10', '11', '99', '-2', ':', 'a'])
        lines[i] = ' '.join(toks)
    elif kind == 6 and lines:
        i = rng.randrange(len(lines))
        lines.insert(i, lines[i])
    else:
        text2 = list('\n'.join(lines))
        if text2:
            text2[rng.randrange(len(text2))] = rng.choice('0123456789 :\nc')
        return ''.join(text2)
    return '\n'.join(lines)


for i, (G, gt) in enumerate(gens):
    buf = io.StringIO()
    writeGraph(G, buf, gt, 'kthlist')
    text = buf.getvalue()
    rec('written', i, gt, text)
    read_all(('roundtrip', i), text)
    for m in range(12):
        read_all(('mut', i, m), mutate(text))
    t2 = mutate(mutate(text))
    read_all(('mut2', i), t2)

sys.stdout = _real_stdout
out.append(_captured.getvalue())
print(hashlib.sha256('\n'.join(out).encode('utf-8')).hexdigest())
