import hashlib, io, sys, contextlib
sys.path.insert(0, '.')
from cnfgen.clitools.cnfgen import cli
from cnfgen.clitools.pbgen import cli as pbcli

out = []
def run(tool, argv):
    so, se = io.StringIO(), io.StringIO()
    tag = 'ok'
    res = None
    try:
        with contextlib.redirect_stdout(so), contextlib.redirect_stderr(se):
            res = tool(argv, mode='string')
    except SystemExit as ex:
        tag = 'exit %r' % (ex.code,)
    except BaseException as ex:
        tag = 'EXC %s %s' % (type(ex).__name__, ex)
    out.append(repr((argv, tag, res, so.getvalue(), se.getvalue())))

php_args = [
    [], ['5'], ['0'], ['3', '2'], ['2', '3'], ['0', '0'], ['4', '3', '2'], ['4', '3', '3'],
    ['4', '3', '4'], ['1', '2', '3', '4'], ['-1'], ['3', '-2'], ['1.5'], ['2.0', '3'], ['1e2'],
    ['nan'], ['inf', '2'], ['abc'], ['3', 'abc'], ['--functional', '4', '3'], ['--onto', '3', '3'],
    ['--functional', '--onto', '3', '3'], ['4', '3', '--functional'], ['5', '4', '2', '--onto'],
    ['glrd', '4', '3', '2'], ['glrd', '4', '3', '2', '--functional'], ['complete', '3', '2'],
    ['--onto', 'complete', '2', '2'], ['glrp', '3', '3', '0.5'], ['regular', '4', '4', '2'],
    ['bshift', '4', '5', '1', '2'], ['0x10'], ['١٢'], [' 3 '], ['+3', '2'], ['1_0'], [''],
    ['-h'], ['gnp', '3', '.5'], ['nosuchgraph', '3'], ['glrd'], ['glrd', '3'],
]
for a in php_args:
    run(cli, ['cnfgen', '-q', '--seed', '17', 'php'] + a)
    run(pbcli, ['pbgen', '-q', '--seed', '17', 'php'] + a)
for a in [['4', '3'], ['0', '0'], ['3'], ['a', '2'], ['-1', '2'], []]:
    run(cli, ['cnfgen', '-q', 'bphp'] + a)
for a in [['3', '2', '2'], ['0', '0', '0'], ['3', '2'], ['3', '2', 'x'], ['1', '1', '1', '1']]:
    run(cli, ['cnfgen', '-q', 'rphp'] + a)
for a in [['4', '3', '2'], ['0', '0', '0'], ['3', '-1', '2'], ['3']]:
    run(cli, ['cnfgen', '-q', 'cliquecoloring'] + a)
for a in [['parity', '5'], ['parity', '4'], ['count', '6', '3'], ['count', '5', '0'], ['matching', 'complete', '4'],
          ['matching', 'gnm', '5', '6'], ['subsetcard', '4'], ['subsetcard', '--equal', 'glrd', '4', '4', '3'],
          ['subsetcard', 'regular', '5', '5', '3']]:
    run(cli, ['cnfgen', '-q', '--seed', '5'] + a)

# the helper itself, from wherever it is reachable
import cnfgen.clihelpers.php_helpers as ph
for s in ['1', '-1', '1.5', '1e3', 'nan', 'inf', '-inf', 'abc', '', ' 2 ', '0x1', '1_000', '١٢', '+4', 'glrd', '1,2']:
    out.append(repr(('isnum', s, ph.is_some_number(s))))
for bad in [None, [1], (2,)]:
    try:
        out.append(repr(('isnum', bad, ph.is_some_number(bad))))
    except Exception as ex:
        out.append(repr(('isnum', bad, type(ex).__name__, str(ex))))
out.append(repr(ph.is_some_number.__name__))

print(hashlib.sha256("\n".join(out).encode()).hexdigest())
