#!/usr/bin/env python
"""Equivalence script for C14/t16: cnfgen.graphs._process_graph_io_arguments
(argument checking shared by readGraph and writeGraph).

Run as:  cd <checkout> && /venv/bin/python equiv.py
Prints one SHA256 digest of everything observed."""
import os
import sys
sys.path.insert(0, os.getcwd())
import hashlib
import io
import random
import shutil
import tempfile

import cnfgen.graphs as cg
from cnfgen.graphs import BipartiteGraph, Graph, DirectedGraph
from cnfgen.graphs import readGraph, writeGraph

LOG = []
# pydot prints its parse errors on stdout: capture them (they are part of
# what is observed) so that only the digest gets printed.
REAL_STDOUT = sys.stdout
sys.stdout = CAPTURED = io.StringIO()
TMP = tempfile.mkdtemp(prefix='c14t16')


def clean(s):
    return s.replace(TMP, '<TMP>')


def log(*items):
    LOG.append(clean(repr(items)))


def dump(G):
    if isinstance(G, BipartiteGraph):
        return ('B', G.left_order(), G.right_order(), G.number_of_vertices(),
                G.number_of_edges(), list(G.edges()), getattr(G, 'name', None))
    return (type(G).__name__, G.number_of_vertices(), G.number_of_edges(),
            list(G.edges()), G.is_dag(), getattr(G, 'name', None))


def attempt(tag, f, *args, **kwargs):
    try:
        res = f(*args, **kwargs)
        if hasattr(res, 'number_of_vertices'):
            res = dump(res)
        elif isinstance(res, tuple) and len(res) == 2 and isinstance(res[0], type):
            res = (res[0].__name__, res[1])
        log(tag, 'OK', res)
        return True
    except Exception as e:  # record everything observable
        log(tag, 'EXC', type(e).__name__, str(e))
        return False


class Named(io.StringIO):
    """Text stream with a name, as if it were a file"""
    def __init__(self, name, text=''):
        io.StringIO.__init__(self, text)
        self.name = name

    def __repr__(self):
        return '<Named {!r}>'.format(self.name)


class NamedBytes(io.BytesIO):
    def __init__(self, name):
        io.BytesIO.__init__(self)
        self.name = name

    def __repr__(self):
        return '<NamedBytes {!r}>'.format(self.name)


class Duck:
    """Not an IO object at all"""
    name = 'duck.gml'

    def __repr__(self):
        return '<Duck>'

    def write(self, x):
        pass

    def readlines(self):
        return []


GRAPH_TYPES = ['dag', 'digraph', 'simple', 'bipartite', 'directed', 'Simple',
               '', None, 3, ('dag',)]
FORMATS = ['autodetect', 'kthlist', 'gml', 'dot', 'dimacs', 'matrix', 'KTHLIST',
           'png', '', None, 7]
NAMES = ['g.kthlist', 'g.gml', 'g.dot', 'g.dimacs', 'g.matrix', 'g.txt', 'g',
         'g.', '.gml', 'dir.d/g', 'dir.gml/g', 'g.gml.bak', 'g.GML', 'a b.dot',
         '<stdin>', '']


def streams():
    yield 'StringIO', lambda: io.StringIO()
    yield 'BytesIO', lambda: io.BytesIO()
    for n in NAMES:
        yield 'Named:' + n, (lambda n=n: Named(n))
    yield 'NamedBytes:g.gml', lambda: NamedBytes('g.gml')
    yield 'Named-intname', lambda: Named(5)
    yield 'Named-nonename', lambda: Named(None)
    for tag, val in [('int', 12), ('none', None), ('bytes', b'g.gml'),
                     ('list', ['g.gml']), ('duck', Duck()), ('class', io.StringIO)]:
        yield 'bad:' + tag, (lambda val=val: val)


# ---- the checker itself, on the whole grid
for stag, mk in streams():
    for gt in GRAPH_TYPES:
        for ff in FORMATS:
            for me in [False, True, 0, 1, None, 'yes']:
                if me not in [False, True] and (gt not in ['simple', 'xx'] or ff != 'gml'):
                    continue
                attempt(('args', stag, gt, ff, me),
                        cg._process_graph_io_arguments, mk(), gt, ff, me)

# ---- through the public readers and writers
rnd = random.Random(1416)


def sample(gt, n):
    if gt == 'bipartite':
        G = BipartiteGraph(n, n + 1, name='sample b {}'.format(n))
        for u in range(1, n + 1):
            for v in range(1, n + 2):
                if rnd.random() < 0.4:
                    G.add_edge(u, v)
        return G
    if gt == 'simple':
        G = Graph(n, name='sample s {}'.format(n))
    else:
        G = DirectedGraph(n, name='sample d {}'.format(n))
    for u in range(1, n + 1):
        for v in range(u + 1, n + 1):
            if rnd.random() < 0.4:
                G.add_edge(u, v)
            if gt == 'digraph' and rnd.random() < 0.2:
                G.add_edge(v, u)
    return G


GOOD_TYPES = ['dag', 'digraph', 'simple', 'bipartite']
for gt in GOOD_TYPES:
    for n in [0, 1, 4, 11]:
        G = sample(gt, n)
        # streams without a name
        for ff in FORMATS:
            buf = io.StringIO()
            ok = attempt(('write-anon', gt, n, ff), writeGraph, G, buf, gt, ff)
            log('text', gt, n, ff, buf.getvalue())
            if ok:
                attempt(('read-anon', gt, n, ff), readGraph,
                        io.StringIO(buf.getvalue()), gt, ff)
                for gt2 in GRAPH_TYPES:
                    attempt(('read-anon-as', gt, n, ff, gt2), readGraph,
                            io.StringIO(buf.getvalue()), gt2, ff)
        attempt(('write-anon-default', gt, n), writeGraph, G, io.StringIO(), gt)
        # streams with a name, format from the extension or explicit
        for name in NAMES:
            for ff in ['autodetect', 'kthlist', 'gml', 'png']:
                buf = Named(name)
                ok = attempt(('write-named', gt, n, name, ff), writeGraph, G, buf, gt, ff)
                log('text', gt, n, name, ff, buf.getvalue())
                if ok:
                    attempt(('read-named', gt, n, name, ff), readGraph,
                            Named(name, buf.getvalue()), gt, ff)
                    attempt(('read-named-default', gt, n, name), readGraph,
                            Named(name, buf.getvalue()), gt)
        # real files, by name and by handle
        for ext in ['kthlist', 'gml', 'dot', 'dimacs', 'matrix', 'txt', '']:
            fname = os.path.join(TMP, '{}{}'.format(gt, n) + ('.' + ext if ext else ''))
            ok = attempt(('write-file', gt, n, ext), writeGraph, G, fname, gt)
            if os.path.exists(fname):
                with open(fname, encoding='utf-8') as f:
                    log('file-content', gt, n, ext, f.read())
            if ok:
                attempt(('read-file', gt, n, ext), readGraph, fname, gt)
                with open(fname, 'r', encoding='utf-8') as f:
                    attempt(('read-handle', gt, n, ext), readGraph, f, gt)
                with open(fname, 'rb') as f:
                    attempt(('read-binary-handle', gt, n, ext), readGraph, f, gt)
                attempt(('from_file', gt, n, ext), type(G).from_file, fname)
            fname2 = os.path.join(TMP, 'explicit_{}{}.data'.format(gt, n))
            if ext:
                ok = attempt(('write-file-explicit', gt, n, ext), writeGraph, G, fname2, gt, ext)
                if ok:
                    attempt(('read-file-explicit', gt, n, ext), readGraph, fname2, gt, ext)
                    attempt(('read-file-explicit-auto', gt, n, ext), readGraph, fname2, gt)
    # multi edges and bad objects
    attempt(('read-multi', gt), readGraph, io.StringIO('3\n'), gt, 'kthlist', True)
    attempt(('read-multi-badfile', gt), readGraph, 17, gt, 'kthlist', True)
    for bad in [17, None, b'x', Duck()]:
        attempt(('read-badfile', gt, repr(bad)), readGraph, bad, gt, 'kthlist')
        attempt(('write-badfile', gt, repr(bad)), writeGraph, sample(gt, 2), bad, gt, 'kthlist')
    attempt(('write-notgraph', gt), writeGraph, [(1, 2)], io.StringIO(), gt, 'kthlist')
    attempt(('read-missing-file', gt), readGraph, os.path.join(TMP, 'nothere.gml'), gt)

shutil.rmtree(TMP, ignore_errors=True)
sys.stdout = REAL_STDOUT
log('stdout', CAPTURED.getvalue())
print(hashlib.sha256("\n".join(LOG).encode('utf-8')).hexdigest())
