#!/usr/bin/env python3
"""Equivalence script for refactoring t17 (property C04).

Exercises BipartiteEdgesVariables.__init__ (the table of variable ID
offsets of the unary / sparse mappings) directly, through
new_mapping / new_sparse_mapping / new_bipartite_edges / new_graph_edges
and through the force_*_mapping constraint builders on CNF and OPB.
Prints one SHA256 digest of everything observed.
"""
import hashlib
import io
import itertools
import random
import sys

sys.path.insert(0, '.')

from cnfgen.formula.cnf import CNF
from cnfgen.formula.opb import OPB
from cnfgen.formula.basecnf import BaseCNF
from cnfgen.formula.variables import BipartiteEdgesVariables
from cnfgen.formula.variables import UnaryMappingVariables
from cnfgen.graphs import BipartiteGraph, CompleteBipartiteGraph, Graph
from cnfgen.graphs import BaseBipartiteGraph

LOG = []


def rec(*items):
    LOG.append(repr(items))


def attempt(tag, fn):
    try:
        res = fn()
        if not isinstance(res, (list, tuple, int, str, type(None), dict)):
            shown = type(res).__name__
        else:
            shown = res
        rec(tag, 'ok', shown)
        return res
    except Exception as e:  # noqa
        rec(tag, 'exc', type(e).__name__, str(e))
        return None


def dump(F):
    if isinstance(F, OPB):
        out = io.StringIO()
        F.to_file(out)
        text = out.getvalue()
    else:
        text = F.to_dimacs()
    return (F.number_of_variables(), [list(c) for c in F], text)


def models(F, nvars):
    res = []
    clauses = [list(c) for c in F]
    for bits in itertools.product([False, True], repeat=nvars):
        if all(any(bits[abs(l) - 1] == (l > 0) for l in c) for c in clauses):
            res.append(bits)
    return res


rng = random.Random(987654321)


def random_bipartite(L, R, p):
    B = BipartiteGraph(L, R)
    for u in range(1, L + 1):
        for v in range(1, R + 1):
            if rng.random() < p:
                B.add_edge(u, v)
    return B


graphs = []
for L in range(0, 5):
    for R in range(0, 5):
        graphs.append(('complete', L, R, CompleteBipartiteGraph(L, R)))
        graphs.append(('empty', L, R, BipartiteGraph(L, R)))
        for p in (0.3, 0.7):
            graphs.append(('random%s' % p, L, R, random_bipartite(L, R, p)))
# first / last left vertices isolated
B = BipartiteGraph(5, 3)
B.add_edges_from([(2, 1), (2, 3), (4, 2)])
graphs.append(('isolated-ends', 5, 3, B))
B = BipartiteGraph(4, 6)
B.add_edges_from([(1, 6), (1, 1), (4, 3), (4, 4), (4, 5)])
graphs.append(('isolated-middle', 4, 6, B))


def describe_group(tag, f, pre):
    rec(tag, 'offset', f.offset)
    rec(tag, 'ids', list(f), len(f))
    rec(tag, 'dict', sorted(f.to_dict().items()))
    rec(tag, 'labels', list(f.label()))
    rec(tag, 'all', list(f()))
    L = f.G.left_order()
    R = f.G.right_order()
    for u in range(0, L + 2):
        attempt((tag, 'row', u), lambda: list(f(u, None)))
        for v in range(0, R + 2):
            attempt((tag, 'lit', u, v), lambda: f(u, v))
    for v in range(0, R + 2):
        attempt((tag, 'col', v), lambda: list(f(None, v)))
    for lit in range(pre - 1, pre + len(f) + 3):
        attempt((tag, 'to_index', lit), lambda: f.to_index(lit))
        attempt((tag, 'to_index-', lit), lambda: f.to_index(-lit))


# 1. direct construction
for name, L, R, G in graphs:
    for pre in (0, 4):
        F = BaseCNF()
        F.update_variable_number(pre)
        tag = ('direct', name, L, R, pre)
        f = attempt(tag, lambda: BipartiteEdgesVariables(F, G, labelfmt='e[{},{}]'))
        if f is not None:
            describe_group(tag, f, pre)
        g = attempt(tag + ('unary',), lambda: UnaryMappingVariables(F, G, labelfmt='f({})={}'))
        if g is not None:
            rec(tag, 'unary-offset', g.offset, list(g.domain()), list(g.range()))


# 2. error paths of the constructor
class CallLogGraph(BipartiteGraph):
    """Bipartite graph that records the queries it receives"""
    def __init__(self, L, R):
        BipartiteGraph.__init__(self, L, R)
        self.calls = []

    def parts(self):
        self.calls.append('parts')
        return BipartiteGraph.parts(self)

    def right_degree(self, u):
        self.calls.append(('right_degree', u))
        return BipartiteGraph.right_degree(self, u)

    def number_of_edges(self):
        self.calls.append('number_of_edges')
        return BipartiteGraph.number_of_edges(self)


class LyingGraph(BipartiteGraph):
    """number_of_edges is inconsistent with the degrees"""
    def __init__(self, L, R, delta):
        BipartiteGraph.__init__(self, L, R)
        self.delta = delta

    def number_of_edges(self):
        return BipartiteGraph.number_of_edges(self) + self.delta


for L, R, edges in [(0, 0, []), (3, 2, [(1, 1), (3, 2), (3, 1)]), (2, 2, [])]:
    G = CallLogGraph(L, R)
    G.add_edges_from(edges)
    F = BaseCNF()
    F.update_variable_number(2)
    f = attempt(('calllog', L, R), lambda: BipartiteEdgesVariables(F, G))
    rec('calllog', L, R, G.calls, f.offset if f is not None else None)

for delta in (-1, 0, 1):
    for L, R, edges in [(0, 0, []), (0, 3, []), (3, 2, [(1, 1), (3, 2), (3, 1)])]:
        G = LyingGraph(L, R, delta)
        G.add_edges_from(edges)
        F = BaseCNF()
        f = attempt(('lying', delta, L, R), lambda: BipartiteEdgesVariables(F, G))
        rec('lying-state', delta, L, R, F.number_of_variables(),
            f.offset if f is not None else None)

F = BaseCNF()
for bad in (None, 3, 'graph', Graph(3), [(1, 2)]):
    attempt(('badgraph', repr(type(bad))), lambda: BipartiteEdgesVariables(F, bad))
for fmt in ('{}', '{}{}{}', 'x', '{0}{1}', '{2}', '{a}'):
    attempt(('badfmt', fmt), lambda: BipartiteEdgesVariables(F, CompleteBipartiteGraph(2, 2), labelfmt=fmt).offset)
attempt(('badfmt', None), lambda: BipartiteEdgesVariables(F, CompleteBipartiteGraph(2, 2), labelfmt=None).offset)

# 3. mappings through formulas and the constraint builders
for cls in (CNF, OPB):
    for name, L, R, G in graphs:
        for pre in (0, 3):
            F = cls()
            for _ in range(pre):
                F.new_variable()
            tag = ('formula', cls.__name__, name, L, R, pre)
            if name == 'complete':
                f = attempt(tag + ('new_mapping',), lambda: F.new_mapping(L, R))
            else:
                f = attempt(tag + ('new_sparse',), lambda: F.new_sparse_mapping(G))
            if f is None:
                continue
            rec(tag, 'offset', f.offset)
            e = attempt(tag + ('new_bip',), lambda: F.new_bipartite_edges(G, label='b({},{})'))
            if e is not None:
                rec(tag, 'offset-e', e.offset, list(e()))
            attempt(tag + ('complete',), lambda: F.force_complete_mapping(f))
            attempt(tag + ('functional',), lambda: F.force_functional_mapping(f))
            rec(tag, 'mid', dump(F))
            attempt(tag + ('surjective',), lambda: F.force_surjective_mapping(f))
            attempt(tag + ('injective',), lambda: F.force_injective_mapping(f))
            attempt(tag + ('nondecreasing',), lambda: F.force_nondecreasing_mapping(f))
            rec(tag, 'final', dump(F))
            rec(tag, 'labels', list(F.all_variable_labels()))

# 4. semantics of small unary mappings (CNF models)
for name, L, R, G in graphs:
    if G.number_of_edges() > 9 or G.number_of_edges() == 0:
        continue
    for which in ('complete', 'functional', 'total', 'injective', 'surjective', 'nondecreasing'):
        F = CNF()
        f = F.new_sparse_mapping(G)
        if which in ('complete', 'total'):
            F.force_complete_mapping(f)
        if which in ('functional', 'total'):
            F.force_functional_mapping(f)
        if which == 'injective':
            F.force_injective_mapping(f)
        if which == 'surjective':
            F.force_surjective_mapping(f)
        if which == 'nondecreasing':
            F.force_nondecreasing_mapping(f)
        rec('models', name, L, R, which, models(F, F.number_of_variables()))

# 5. simple graph edges (built on top of a BipartiteEdgesVariables)
for n in range(0, 6):
    for p in (0.0, 0.4, 1.0):
        G = Graph(n)
        for u in range(1, n + 1):
            for v in range(u + 1, n + 1):
                if rng.random() < p:
                    G.add_edge(u, v)
        F = CNF()
        F.new_variable('z')
        e = attempt(('graphedges', n, p), lambda: F.new_graph_edges(G))
        if e is not None:
            rec('graphedges', n, p, e.BG.offset, list(e()), list(e.label()))
            for u in range(1, n + 1):
                attempt(('graphedges-nbr', n, p, u), lambda: list(e(u, None)))

print(hashlib.sha256('\n'.join(LOG).encode('utf-8')).hexdigest())
