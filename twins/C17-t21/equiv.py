#!/usr/bin/env python
"""Equivalence check for the graph-argument argparse actions
(ObtainGraphAction and its three subclasses in cnfgen/clitools/graph_args.py).

Prints one SHA256 digest of everything observable."""
import sys, os, io, hashlib, random, contextlib, tempfile, warnings
sys.path.insert(0, os.getcwd())
warnings.simplefilter('ignore')

from cnfgen.clitools import cnfgen as cnfgen_cli
from cnfgen.clitools import kthlist2pebbling
from cnfgen.clitools.pbgen import cli as pbgen_cli
from cnfgen.clitools import CLIParser
from cnfgen.clitools import ObtainSimpleGraph, ObtainBipartiteGraph, ObtainDirectedAcyclicGraph
from cnfgen.clitools.graph_args import ObtainGraphAction

H = hashlib.sha256()


def record(*items):
    for it in items:
        H.update(repr(it).encode('utf-8'))
        H.update(b'\0')


def graph_summary(G):
    info = [type(G).__name__, getattr(G, 'name', None)]
    try:
        info.append(G.order())
    except Exception as e:
        info.append(repr(e))
    for meth in ('number_of_vertices', 'left_order', 'right_order',
                 'number_of_edges'):
        if hasattr(G, meth):
            try:
                info.append((meth, getattr(G, meth)()))
            except Exception as e:
                info.append((meth, repr(e)))
    try:
        info.append(sorted(tuple(e) for e in G.edges()))
    except Exception as e:
        info.append(repr(e))
    return info


def run_tool(tool, argv, seed=4242):
    out, err = io.StringIO(), io.StringIO()
    random.seed(seed)
    record('ARGV', argv)
    try:
        with contextlib.redirect_stdout(out), contextlib.redirect_stderr(err):
            res = tool(argv, mode='string')
        record('OK', res)
    except SystemExit as e:
        record('EXIT', e.code)
    except BaseException as e:
        record('EXC', type(e).__name__, str(e))
    record(out.getvalue(), err.getvalue())


def run_action(action, spec, seed=99):
    parser = CLIParser(prog='prog')
    parser.usage = 'usage: prog <graph>'
    parser.add_argument('--flag', action='store_true')
    parser.add_argument('X', action=action)
    random.seed(seed)
    record('ACTION', action.__name__, spec)
    out, err = io.StringIO(), io.StringIO()
    try:
        with contextlib.redirect_stdout(out), contextlib.redirect_stderr(err):
            ns = parser.parse_args([str(x) for x in spec])
        record('OK', sorted(vars(ns).keys()), graph_summary(ns.X))
    except SystemExit as e:
        record('EXIT', e.code)
    except BaseException as e:
        record('EXC', type(e).__name__, str(e))
    record(out.getvalue(), err.getvalue())


workdir = tempfile.mkdtemp()
os.chdir(workdir)

# some graph files
with open('g.gml', 'w') as f:
    f.write('graph [\n node [ id 1 label "1" ]\n node [ id 2 label "2" ]\n node [ id 3 label "3" ]\n'
            ' edge [ source 1 target 2 ]\n edge [ source 2 target 3 ]\n]\n')
with open('d.kthlist', 'w') as f:
    f.write('c a dag\n4\n1 : 0\n2 : 0\n3 : 1 2 0\n4 : 2 3 0\n')
with open('b.matrix', 'w') as f:
    f.write('3 4\n1 1 0 0\n0 1 1 0\n0 0 1 1\n')
with open('noext', 'w') as f:
    f.write('whatever\n')
with open('bad.xyz', 'w') as f:
    f.write('whatever\n')

simple_specs = [
    ['gnp', 6, 0.5], ['gnp', 4, 0.5, 3], ['gnd', 6, 3], ['gnd', 5, 3], ['gnm', 5, 4],
    ['complete', 4], ['complete', 2, 3], ['empty', 3], ['grid', 2, 3], ['torus', 3, 3],
    ['gnp', 7, 0.3, 'plantclique', 3], ['gnp', 6, 0.2, 'addedges', 2],
    ['complete', 4, 'splitedges', 2], ['gnp', 5, 0.5, 'save', 'saved1.gml'],
    ['gnp', 5, 0.5, 'save', 'dot', 'saved1.whatever'],
    ['gml', 'g.gml'], ['g.gml'], ['g.gml', 'addedges', 1], ['saved1.gml'],
    ['gnp', 5], ['gnp', 'a'], ['gnd', 3, 5], ['nonexistent.gml'], ['gml', 'nonexistent.gml'],
    ['noext'], ['bad.xyz'], ['glrd', 3, 4, 2], ['kthlist', 'd.kthlist'], ['pyramid', 3],
    ['gnp', 5, 0.5, 'gnp', 3, 0.2], ['gnp', 5, 0.5, '--flag'], ['gnp', 5, 0.5, 'plantbiclique', 2, 2],
    ['gnp', 5, 0.5, 'save'], ['gnp', 5, 0.5, 'save', 'gml'], ['gnp', 5, 0.5, 'addedges', 1, 'addedges', 2],
    ['complete', 0], ['gml'], ['gnp', 5, 0.5, 'plantclique', 9],
]
bipartite_specs = [
    ['glrd', 4, 5, 2], ['glrp', 3, 4, 0.5], ['glrm', 3, 4, 5], ['regular', 4, 4, 2],
    ['shift', 5, 5, 1, 2], ['complete', 2, 3], ['empty', 2, 2],
    ['glrd', 4, 5, 2, 'plantbiclique', 2, 2], ['glrp', 3, 3, 0.2, 'addedges', 2],
    ['glrd', 4, 5, 2, 'save', 'savedb.matrix'], ['savedb.matrix'], ['matrix', 'b.matrix'], ['b.matrix'],
    ['gnp', 5, 0.5], ['gml', 'g.gml'], ['glrd', 4, 5, 7], ['nothere.matrix'], ['kthlist', 'd.kthlist'],
    ['glrd', 4, 5, 2, 'plantclique', 2], ['noext'], ['glrd', 4, 5, 2, 'splitedges', 1],
]
dag_specs = [
    ['pyramid', 3], ['pyramid', 0], ['tree', 2], ['path', 4], ['path', 1],
    ['pyramid', 2, 'save', 'savedd.kthlist'], ['savedd.kthlist'], ['kthlist', 'd.kthlist'], ['d.kthlist'],
    ['tree', 2, 'save', 'gml', 'savedd2.x'], ['gml', 'savedd2.x'],
    ['gnp', 5, 0.5], ['matrix', 'b.matrix'], ['pyramid'], ['pyramid', 'x'], ['nothere.kthlist'],
    ['pyramid', 2, 'addedges', 1], ['noext'], ['bad.xyz'], ['tree', -1],
]

for spec in simple_specs:
    run_action(ObtainSimpleGraph, spec)
for spec in bipartite_specs:
    run_action(ObtainBipartiteGraph, spec)
for spec in dag_specs:
    run_action(ObtainDirectedAcyclicGraph, spec)

# constructor contract of the action classes
for cls in (ObtainGraphAction, ObtainSimpleGraph, ObtainBipartiteGraph,
            ObtainDirectedAcyclicGraph):
    try:
        cls([], 'G', nargs=2)
        record('no error')
    except Exception as e:
        record(cls.__name__, type(e).__name__, str(e))
    a = cls([], 'G')
    record(cls.__name__, a.nargs, a.dest, isinstance(a, ObtainGraphAction),
           [c.__name__ for c in cls.__mro__])

# Full command lines going through the actions
cmdlines = [
    ['cnfgen', 'kcolor', 3, 'gnp', 6, 0.5],
    ['cnfgen', '-q', 'kcolor', 3, 'g.gml'],
    ['cnfgen', 'kclique', 3, 'gnp', 6, 0.6, 'plantclique', 3],
    ['cnfgen', 'domset', 2, 'grid', 2, 3],
    ['cnfgen', 'tseitin', 'first', 'torus', 3, 3],
    ['cnfgen', 'tseitin', 'randomodd', 'gnd', 6, 3],
    ['cnfgen', 'op', 'gnp', 5, 0.7],
    ['cnfgen', 'ec', 'gnm', 5, 6],
    ['cnfgen', 'peb', 'pyramid', 3],
    ['cnfgen', 'peb', 'd.kthlist'],
    ['cnfgen', 'peb', 'kthlist', 'd.kthlist', '-T', 'xor', 2],
    ['cnfgen', 'stone', 3, 'tree', 2],
    ['cnfgen', 'stone', 3, 'path', 3, '--sparse', 2],
    ['cnfgen', 'php', 'glrd', 4, 3, 2],
    ['cnfgen', 'php', 'b.matrix'],
    ['cnfgen', 'subsetcard', 'regular', 4, 4, 2],
    ['cnfgen', 'subsetcard', 'b.matrix'],
    ['cnfgen', 'php', 4, 3, '-T', 'xorcomp', 'glrd', 12, 6, 2],
    ['cnfgen', 'php', 3, 2, '-T', 'majcomp', 'glrd', 6, 5, 3, '-T', 'flip'],
    ['cnfgen', 'kcolor', 3, 'pyramid', 3],
    ['cnfgen', 'peb', 'gnp', 4, 0.5],
    ['cnfgen', 'php', 'gnp', 4, 0.5],
    ['cnfgen', 'kcolor', 3, 'missing.gml'],
    ['cnfgen', 'peb', 'missing.kthlist'],
    ['cnfgen', 'php', 'missing.matrix'],
    ['cnfgen', 'kcolor', 3, 'noext'],
    ['cnfgen', 'kcolor', 3],
    ['cnfgen', 'peb'],
    ['cnfgen', 'kcolor', 3, 'gnp', 6, 0.5, 'save', 'k.gml'],
    ['cnfgen', 'kcolor', 3, 'k.gml'],
    ['cnfgen', '-S', 7, 'kcolor', 3, 'gnp', 6, 0.5],
    ['cnfgen', 'kcolor', '-h'],
    ['cnfgen', 'peb', '-h'],
    ['cnfgen', 'php', '-h'],
]
for argv in cmdlines:
    run_tool(cnfgen_cli, argv)

for argv in [['pbgen', 'kcolor', 3, 'gnp', 5, 0.5],
             ['pbgen', 'peb', 'pyramid', 2],
             ['pbgen', 'php', 'glrd', 4, 3, 2],
             ['pbgen', 'peb', 'missing.kthlist']]:
    run_tool(pbgen_cli, argv)

for argv in [['kthlist2pebbling', '-i', 'd.kthlist'],
             ['kthlist2pebbling', '-i', 'd.kthlist', 'xor', 2],
             ['kthlist2pebbling', '-i', 'd.kthlist', 'xorcomp', 'glrd', 4, 3, 2],
             ['kthlist2pebbling', '-i', 'd.kthlist', 'majcomp', 'b.matrix']]:
    run_tool(kthlist2pebbling, argv)

# files written through 'save'
for fname in sorted(os.listdir('.')):
    with open(fname) as f:
        record('FILE', fname, f.read())

print(H.hexdigest())
