"""Equivalence script for t24: xorcomp/majcomp command line helpers."""
import sys, os, io, hashlib, random, argparse, contextlib
sys.path.insert(0, os.getcwd())

from cnfgen.clitools.cnfgen import cli
from cnfgen.clitools.cmdline import get_transformation_helpers
from cnfgen.clihelpers import transformation_helpers as TH
from cnfgen.formula.cnf import CNF
from cnfgen.graphs import BipartiteGraph

out = []
def rec(*a):
    out.append(repr(a))

# registered helpers (names and classes) must be unchanged
hs = get_transformation_helpers()
rec('helpers', [(h.__name__, h.name) for h in hs])
rec('subclasses', sorted(c.__name__ for c in TH.TransformationHelper.__subclasses__()))
for h in (TH.XorCompressionCmd, TH.MajCompressionCmd):
    rec(h.__name__, h.name, issubclass(h, TH.TransformationHelper),
        isinstance(h.__dict__.get('transform_cnf'), staticmethod),
        isinstance(h.__dict__.get('setup_command_line'), staticmethod))

def run(argv):
    so, se = io.StringIO(), io.StringIO()
    try:
        with contextlib.redirect_stdout(so), contextlib.redirect_stderr(se):
            res = cli(argv, mode='string')
        rec('ok', argv, res, so.getvalue(), se.getvalue())
    except SystemExit as e:
        rec('exit', argv, e.code, so.getvalue(), se.getvalue())
    except BaseException as e:
        rec('exc', argv, type(e).__name__, str(e), so.getvalue(), se.getvalue())

base = [['php', 4, 3], ['op', 4], ['randkcnf', 3, 6, 9], ['and', 2, 3], ['or', 0, 0], ['parity', 5]]
for comp in ('xorcomp', 'majcomp'):
    for f in base:
        for targs in ([1], [3], [5], [7, 1], [7, 2], [6, 3], [9, 4], [4, 4], [3, 5], [0], [-1], ['x'], [],
                      [5, 2, 1], ['glrd', 5, 2], ['bipartite', 'glrd', 5, 2]):
            run(['cnfgen', '--seed', '17', '-q'] + f + ['-T', comp] + targs)
    # explicit graphs of the right / wrong size
    run(['cnfgen', '--seed', 5, 'and', 2, 2, '-T', comp, 'glrd', 4, 6, 2])
    run(['cnfgen', '--seed', 5, 'and', 2, 2, '-T', comp, 'glrd', 3, 6, 2])
    run(['cnfgen', '--seed', 5, 'and', 2, 2, '-T', comp, 'complete', 4, 3])
    run(['cnfgen', '--seed', 5, 'and', 2, 2, '-T', comp, 'glrp', 4, 5, '0.5'])
    run(['cnfgen', '--seed', 5, 'and', 2, 2, '-T', comp, 'glrm', 4, 5, 7, '-T', comp, 3, 2])
    run(['cnfgen', '--seed', 5, 'and', 2, 2, '-T', comp, '-h'])
    run(['cnfgen', '--seed', 5, '-of', 'latex', 'and', 2, 1, '-T', comp, 4, 2])
    run(['cnfgen', '--seed', 5, '-of', 'opb', 'and', 2, 1, '-T', comp, 4, 2, '-T', 'shuffle'])

# direct calls to transform_cnf with hand made namespaces
def direct(helper, F, ns, seed):
    random.seed(seed)
    try:
        G = helper.transform_cnf(F, ns)
        rec('direct', helper.__name__, G.number_of_variables(), list(G), dict(G.header), random.random())
    except BaseException as e:
        rec('direct-exc', helper.__name__, type(e).__name__, str(e), random.random())

for helper in (TH.XorCompressionCmd, TH.MajCompressionCmd):
    for clauses in ([], [[]], [[1, -2], [2, 3], [-1, -3, 3]], [[1, 1], [-4], [4, 2, -2]]):
        F = CNF(clauses)
        F.update_variable_number(max(F.number_of_variables(), 4))
        for seed in range(3):
            direct(helper, F, argparse.Namespace(N=5, d=2), seed)
            direct(helper, F, argparse.Namespace(N=2, d=2), seed)
            direct(helper, F, argparse.Namespace(N=1, d=3), seed)
            B = BipartiteGraph(4, 3)
            for (u, v) in [(1, 1), (1, 2), (2, 3), (4, 1), (4, 2), (4, 3)]:
                B.add_edge(u, v)
            direct(helper, F, argparse.Namespace(B=B), seed)
            # both present: N wins
            direct(helper, F, argparse.Namespace(N=6, d=1, B=B), seed)
            direct(helper, F, argparse.Namespace(B=BipartiteGraph(3, 3)), seed)
            direct(helper, F, argparse.Namespace(), seed)

print(hashlib.sha256("\n".join(out).encode()).hexdigest())
