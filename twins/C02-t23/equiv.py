#!/usr/bin/env python
"""Equivalence script for t23: choice of the charge vector in the command
line helper of the Tseitin formula (cnfgen and pbgen), including random
streams and error paths."""
import sys, os, hashlib, itertools, random, io
from argparse import Namespace
sys.path.insert(0, os.getcwd())

from cnfgen.graphs import Graph
from cnfgen.formula.cnf import CNF
from cnfgen.clitools import cnfgen as cnfgen_cli, CLIError, redirect_stdin
from cnfgen.clitools.pbgen import cli as pbgen_cli
from cnfgen.clihelpers.counting_helpers import TseitinCmdHelper

H = hashlib.sha256()


def emit(*things):
    for t in things:
        H.update(repr(t).encode('utf-8'))
        H.update(b'\n')


def attempt(tag, fn):
    try:
        res = fn()
    except SystemExit as e:
        emit(tag, 'EXIT', e.code)
        return None
    except Exception as e:
        emit(tag, 'EXC', type(e).__name__, str(e))
        return None
    return res


CHARGES = ['first', 'random', 'randomodd', 'randomeven', 'zero', 'one']
GRAPHS = [
    ['complete', 1], ['complete', 2], ['complete', 4], ['empty', 3],
    ['empty', 0], ['complete', 0],
    ['grid', 2, 3], ['torus', 3, 3], ['gnd', 8, 3], ['gnp', 6, 0.5],
    ['gnm', 7, 9], ['gnp', 5, 0.0], ['complete', 3, 'addedges', 0],
    ['path', 4], ['complete', 4, 'plantclique', 2], ['gnd', 6, 3, 'addedges', 2],
]
SHORT = [[1], [2], [5], [6], [10, 3], [9, 3], [7, 2], [4, 4], [3, 5],
         [6, 5], [8, 1], [0], [-3], [5, 0], [6, 'x'], []]

for seed in (0, 123):
    for ch, g in itertools.product(CHARGES + ['bogus', 'First', ''], GRAPHS):
        for tool, name in ((cnfgen_cli, 'cnfgen'), (pbgen_cli, 'pbgen')):
            if name == 'pbgen' and seed != 0:
                continue
            argv = [name, '-q', '--seed', seed, 'tseitin', ch] + g
            out = attempt((name, seed, ch, g), lambda: tool(argv, mode='string'))
            emit((name, seed, ch, g), out, random.random())
    for sh in SHORT:
        for tool, name in ((cnfgen_cli, 'cnfgen'), (pbgen_cli, 'pbgen')):
            argv = [name, '-q', '--seed', seed, 'tseitin'] + sh
            def run():
                with redirect_stdin(io.StringIO('')):
                    return tool(argv, mode='string')
            out = attempt((name, seed, sh), run)
            emit((name, seed, sh), out, random.random())

# graphs read from standard input (null graph included)
STDIN = [('kthlist', "0\n"), ('dimacs', "p edge 0 0\n"),
         ('kthlist', "3\n1 : 2 3 0\n2 : 1 3 0\n3 : 1 2 0\n"),
         ('dimacs', "p edge 4 3\ne 1 2\ne 2 3\ne 3 4\n"),
         ('dimacs', "p edge 1 0\n"), ('kthlist', "garbage\n")]
for (fmt, txt), ch in itertools.product(STDIN, CHARGES):
    argv = ['cnfgen', '-q', '--seed', 3, 'tseitin', ch, fmt, '-']
    def run():
        with redirect_stdin(io.StringIO(txt)):
            return cnfgen_cli(argv, mode='string')
    emit(('stdin', fmt, txt, ch), attempt(('stdin', fmt, txt, ch), run), random.random())

# other output formats
for fmt in ('latex', 'dimacs'):
    for ch in CHARGES:
        argv = ['cnfgen', '-q', '--seed', 5, '-of', fmt, 'tseitin', ch, 'gnd', 6, 3]
        emit((fmt, ch), attempt((fmt, ch), lambda: cnfgen_cli(argv, mode='string')))
# verbose header
for ch in CHARGES:
    argv = ['cnfgen', '--seed', 5, 'tseitin', ch, 'gnm', 5, 6]
    out = attempt(('hdr', ch), lambda: cnfgen_cli(argv, mode='string'))
    if out is not None:
        out = '\n'.join(l for l in out.split('\n') if 'version' not in l.lower())
    emit(('hdr', ch), out)


# direct calls of the helper, with handcrafted namespaces
def build(ns):
    F = TseitinCmdHelper.build_formula(ns, CNF)
    return (F.number_of_variables(), [list(c) for c in F.clauses()],
            F.header.get('description'))


def some_graph(n, seed):
    r = random.Random(seed)
    G = Graph(n, 'G{}-{}'.format(n, seed))
    for u, v in itertools.combinations(range(1, n + 1), 2):
        if r.random() < 0.5:
            G.add_edge(u, v)
    return G


for n in range(0, 7):
    for ch in CHARGES + ['bogus', None, 0, 1, 'ZERO', ('first',)]:
        random.seed(1000 + n)
        G = some_graph(n, n)
        res = attempt(('direct', n, ch), lambda: build(Namespace(G=G, charge=ch)))
        emit(('direct', n, ch), res, random.random())
    # no charge attribute at all
    random.seed(2000 + n)
    res = attempt(('direct-nocharge', n), lambda: build(Namespace(G=some_graph(n, n))))
    emit(('direct-nocharge', n), res, random.random())

for N, d in itertools.product(range(1, 9), range(0, 6)):
    for extra in ({}, {'charge': 'zero'}, {'charge': 'randomeven'}, {'charge': 'bogus'}):
        random.seed(N * 100 + d)
        res = attempt(('direct-short', N, d, sorted(extra.items())),
                      lambda: build(Namespace(N=N, d=d, **extra)))
        emit(('direct-short', N, d, sorted(extra.items())), res, random.random())

print(H.hexdigest())
