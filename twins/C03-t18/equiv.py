#!/usr/bin/env python
"""Equivalence script for t18: van der Waerden formulas (arithmetic
progression generator in cnfgen/families/ramsey.py).

Run as:  cd <checkout> && /venv/bin/python equiv.py
Prints one SHA256 digest of everything observable.
"""
import sys
import os
import hashlib
import itertools
import warnings

warnings.simplefilter('ignore')
sys.path.insert(0, os.getcwd())

from cnfgen.families.ramsey import VanDerWaerden
from cnfgen.formula.cnf import CNF
from cnfgen.clitools.cnfgen import cli
import cnfgen

H = hashlib.sha256()


def emit(*items):
    for x in items:
        H.update(repr(x).encode('utf-8'))
        H.update(b'\x00')


def observe_formula(F):
    emit(F.header.get('description'))
    emit(F.number_of_variables(), len(F))
    emit(list(F.all_variable_labels()))
    emit([list(c) for c in F.clauses()])
    emit(F.to_dimacs())


def attempt(tag, fn, *args, **kwargs):
    emit('CALL', tag, args, sorted(kwargs.items()))
    try:
        res = fn(*args, **kwargs)
    except BaseException as e:  # noqa
        emit('EXC', type(e).__name__, str(e))
        return None
    return res


def brute_count(F, limit=16):
    n = F.number_of_variables()
    if n > limit:
        return None
    cls = [list(c) for c in F.clauses()]
    cnt = 0
    for bits in itertools.product([False, True], repeat=n):
        ok = True
        for c in cls:
            if not any((bits[abs(l) - 1] if l > 0 else not bits[abs(l) - 1])
                       for l in c):
                ok = False
                break
        if ok:
            cnt += 1
    return cnt


# two colours
for N in range(0, 13):
    for k1 in range(1, 6):
        for k2 in range(1, 6):
            F = attempt('vdw2', VanDerWaerden, N, k1, k2)
            if F is not None:
                observe_formula(F)
                emit('count', brute_count(F, 12))

# more colours
for N in range(0, 9):
    for ks in itertools.product(range(1, 5), repeat=3):
        F = attempt('vdw3', VanDerWaerden, N, *ks)
        if F is not None:
            observe_formula(F)
            if N <= 4:
                emit('count', brute_count(F, 12))

for N in [0, 1, 5, 7]:
    for ks in [(1, 1, 1, 1), (2, 3, 2, 3), (3, 3, 3, 3, 3), (7, 8, 9, 10),
               (2, 2, 2, 2, 2, 2)]:
        F = attempt('vdwmany', VanDerWaerden, N, *ks)
        if F is not None:
            observe_formula(F)

# large-ish ones
for args in [(30, 3, 4), (40, 5, 5), (27, 3, 3, 3), (20, 20, 21), (20, 19, 20),
             (9, 3, 3), (8, 3, 3), (18, 3, 4), (17, 3, 4)]:
    F = attempt('vdwbig', VanDerWaerden, *args)
    if F is not None:
        observe_formula(F)
        emit(F.to_latex() if hasattr(F, 'to_latex') else None)

# package level alias
F = attempt('pkg', cnfgen.VanDerWaerden, 6, 2, 3, 2)
if F is not None:
    observe_formula(F)

# formula_class keyword
F = attempt('fc', VanDerWaerden, 6, 2, 3, formula_class=CNF)
if F is not None:
    observe_formula(F)

# error paths
bad = [(-1, 2, 2), (5, 0, 2), (5, 2, 0), (5, 2, 2, 0), (5, 2, 2, -3),
       ('a', 2, 2), (5, 'b', 2), (5, 2, 2.5), (5, 2, 2, 'x'), (5.0, 2, 2),
       (None, 2, 2), (5, 2, None), (5, 2, 2, None), (5,), (5, 2),
       (5, 2, 2, [3]), (True, 2, 2)]
for args in bad:
    F = attempt('bad', VanDerWaerden, *args)
    if F is not None:
        observe_formula(F)

# command line
cmdlines = [
    ['cnfgen', '-q', 'vdw', '5', '2', '3'],
    ['cnfgen', 'vdw', '9', '3', '3'],
    ['cnfgen', '-q', 'vdw', '6', '1', '1'],
    ['cnfgen', '-q', 'vdw', '6', '2', '2', '2'],
    ['cnfgen', '-q', 'vdw', '0', '2', '2'],
    ['cnfgen', '-q', 'vdw', '0', '2', '2', '4'],
    ['cnfgen', '-q', '-of', 'latex', 'vdw', '5', '2', '3', '2'],
    ['cnfgen', '-q', '-of', 'opb', 'vdw', '5', '2', '3', '2'],
    ['cnfgen', '-q', 'vdw', '5', '0', '3'],
    ['cnfgen', '-q', 'vdw', '-1', '2', '3'],
    ['cnfgen', '-q', 'vdw', '5', '2'],
    ['cnfgen', '-q', 'vdw', '5', '2', 'x'],
    ['cnfgen', '-q', 'vdw', '5', '2', '3', '0'],
    ['cnfgen', '-q', 'vdw', '7', '3', '3', '-T', 'shuffle'],
]
import random
for cmd in cmdlines:
    random.seed(42)
    out = attempt('cli', cli, cmd, mode='string')
    emit(out)

print(H.hexdigest())
