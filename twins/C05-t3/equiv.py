#!/usr/bin/env python
"""Equivalence digest for the refactoring of FormulaLifting.

Run as:  cd <checkout> && /venv/bin/python equiv.py
Prints one SHA256 digest of every observable thing produced.
"""
import sys
import os
import random
import hashlib
import types

sys.path.insert(0, os.getcwd())

from cnfgen.formula.cnf import CNF
from cnfgen.graphs import BipartiteGraph, CompleteBipartiteGraph
from cnfgen.transformations import substitutions as S

H = hashlib.sha256()


def emit(*items):
    H.update((" ".join(repr(x) for x in items) + "\n").encode('utf-8'))


def attempt(tag, fn):
    try:
        res = fn()
    except Exception as e:  # record type and message
        emit(tag, 'EXC', type(e).__name__, str(e))
        return None
    return res


def dump(tag, F):
    if F is None:
        return
    emit(tag, 'nvars', F.number_of_variables(), 'nclauses', len(F))
    emit(tag, 'clauses', [list(c) for c in F])
    emit(tag, 'header', sorted(F.header.items()))
    emit(tag, 'labels', list(F.all_variable_labels()))
    if len(F) <= 200:
        emit(tag, 'dimacs', F.to_dimacs())


def formulas():
    rng = random.Random(20240505)
    out = []
    out.append(('empty', CNF()))
    out.append(('emptyclause', CNF([[]])))
    F = CNF()
    F.update_variable_number(3)
    out.append(('novar-clauses', F))
    F = CNF([[1, -2], []])
    F.update_variable_number(4)
    out.append(('unused', F))
    out.append(('repeat', CNF([[1, 1, -2], [2, -2], [-1, -1]])))
    out.append(('unit', CNF([[1], [-1]])))
    F = CNF()
    x = F.new_variable('x')
    y = F.new_block(2, label='y_{{{}}}')
    F.add_clause([x, -y(1)])
    F.add_clause([-x, y(2), y(1)])
    out.append(('named', F))
    for n in range(1, 5):
        for t in range(2):
            m = rng.randint(0, 4)
            cls = []
            for _ in range(m):
                w = rng.randint(0, 3)
                cls.append([rng.choice([-1, 1]) * rng.randint(1, n)
                            for _ in range(w)])
            F = CNF(cls)
            F.update_variable_number(n)
            out.append(('rnd-{}-{}'.format(n, t), F))
    return out


def graphs_for(n):
    rng = random.Random(77 + n)
    out = []
    out.append(('complete', CompleteBipartiteGraph(n, 3)))
    B = BipartiteGraph(n, 4)
    for u in range(1, n + 1):
        for v in range(1, 5):
            if rng.random() < 0.5:
                B.add_edge(u, v)
    out.append(('rnd', B))
    out.append(('edgeless', BipartiteGraph(n, 2)))
    out.append(('noright', BipartiteGraph(n, 0)))
    return out


def lifting_section():
    for name, F in formulas():
        for k in [1, 2, 3, 4, 5]:
            tag = 'lift/{}/{}'.format(name, k)
            dump(tag, attempt(tag, lambda: S.FormulaLifting(F, k)))
    F = CNF([[1, -2, 3], [-3], [2, 2], [-1, 1]])
    F.update_variable_number(5)
    for k in [1, 2, 6, 7, True]:
        tag = 'lift/fixed/{!r}'.format(k)
        dump(tag, attempt(tag, lambda: S.FormulaLifting(F, k)))
    for k in [0, -3, 2.0, '2', None, [2], False]:
        tag = 'lift/bad/{!r}'.format(k)
        dump(tag, attempt(tag, lambda: S.FormulaLifting(F, k)))
    # lifting of lifted / named formulas
    G = CNF()
    a = G.new_variable('a_{}')
    b = G.new_block(2, 2, label='b[{},{}]')
    G.add_clause([a, -b(1, 2)])
    G.add_clause([-a, b(2, 1), b(2, 2)])
    L1 = S.FormulaLifting(G, 2)
    dump('lift/named', L1)
    dump('lift/twice', S.FormulaLifting(L1, 1))
    # the input formula is left untouched
    emit('lift/input', [list(c) for c in G], list(G.all_variable_labels()), sorted(G.header.items()))


def main():
    lifting_section()
    # the generator itself, with hand made substitutions
    for name, F in formulas():
        gen = S.apply_substitution(F, lambda lit: [[lit], [lit, -lit]])
        emit(name, 'isgen', isinstance(gen, types.GeneratorType))
        emit(name, 'raw', attempt(name, lambda: list(gen)))
        emit(name, 'raw-empty-dom',
             attempt(name, lambda: list(S.apply_substitution(F, lambda lit: []))))
        emit(name, 'raw-tuple',
             attempt(name, lambda: list(S.apply_substitution(
                 F, lambda lit: ((lit, 7), (-lit,)) if lit > 0 else ((),)))))
        calls = []

        def rec(lit):
            calls.append(lit)
            return [[lit]]
        g = S.apply_substitution(F, rec)
        emit(name, 'lazy-before', list(calls))
        first = next(g, 'STOP')
        emit(name, 'lazy-first', first, list(calls))
        emit(name, 'lazy-rest', list(g), list(calls))
        # a substitution that fails
        def bad(lit):
            if lit == -2:
                raise KeyError('boom {}'.format(lit))
            return [[lit]]
        emit(name, 'bad', attempt(name + '-bad',
                                  lambda: list(S.apply_substitution(F, bad))))
        # a substitution returning a non iterable
        emit(name, 'nonit', attempt(name + '-nonit',
                                    lambda: list(S.apply_substitution(F, lambda lit: 5))))

    for name, F in formulas():
        dump(name + '/flip', attempt(name + '/flip', lambda: S.FlipPolarity(F)))
        dump(name + '/ite', attempt(name + '/ite', lambda: S.IfThenElseSubstitution(F)))
        for k in [1, 2, 3]:
            for fname in ['XorSubstitution', 'OrSubstitution', 'AndSubstitution',
                          'MajoritySubstitution', 'AllEqualSubstitution',
                          'NotAllEqualSubstitution', 'ExactlyOneSubstitution',
                          'FormulaLifting']:
                tag = '{}/{}/{}'.format(name, fname, k)
                dump(tag, attempt(tag, lambda: getattr(S, fname)(F, k)))
            for c in range(-1, k + 2):
                for fname in ['AtLeastKSubstitution', 'AtMostKSubstitution',
                              'ExactlyKSubstitution', 'AnythingButKSubstitution']:
                    tag = '{}/{}/{}/{}'.format(name, fname, k, c)
                    dump(tag, attempt(tag, lambda: getattr(S, fname)(F, k, c)))
                for op in ['<', '>']:
                    tag = '{}/linear/{}/{}/{}'.format(name, k, op, c)
                    dump(tag, attempt(tag, lambda: S.LinearSubstitution(F, k, op, c)))
        for gname, B in graphs_for(F.number_of_variables()):
            for func in ['xor', 'maj']:
                tag = '{}/compress/{}/{}'.format(name, gname, func)
                dump(tag, attempt(tag, lambda: S.VariableCompression(F, B, func)))

    # bad arguments
    F = CNF([[1, -2], [2]])
    for k in [0, -1, 'a', 1.5, None]:
        for fname in ['XorSubstitution', 'OrSubstitution', 'MajoritySubstitution',
                      'AllEqualSubstitution', 'NotAllEqualSubstitution',
                      'ExactlyOneSubstitution', 'FormulaLifting']:
            tag = 'bad/{}/{!r}'.format(fname, k)
            dump(tag, attempt(tag, lambda: getattr(S, fname)(F, k)))
    dump('bad/op', attempt('bad/op', lambda: S.LinearSubstitution(F, 2, '=', 1)))
    dump('bad/C', attempt('bad/C', lambda: S.LinearSubstitution(F, 2, '==', 'x')))
    dump('bad/B', attempt('bad/B', lambda: S.VariableCompression(F, BipartiteGraph(3, 2), 'xor')))
    dump('bad/func', attempt('bad/func', lambda: S.VariableCompression(F, BipartiteGraph(2, 2), 'and')))
    dump('bad/graph', attempt('bad/graph', lambda: S.VariableCompression(F, 'nograph', 'xor')))

    # composition of transformations (header numbering)
    G = S.XorSubstitution(S.OrSubstitution(S.FlipPolarity(F), 2), 2)
    dump('compose', G)
    dump('compose2', S.FormulaLifting(S.IfThenElseSubstitution(S.FlipPolarity(F)), 2))

    print(H.hexdigest())


if __name__ == '__main__':
    main()
