#!/usr/bin/env python
"""Equivalence script for the refactoring of the `normalize` class methods
of Graph / DirectedGraph / BipartiteGraph (cnfgen/graphs.py).

Prints a single SHA256 digest of everything observable.
"""
import contextlib
import hashlib
import io
import random
import sys

sys.path.insert(0, '.')

import networkx

from cnfgen.graphs import (Graph, DirectedGraph, BipartiteGraph,
                           CompleteBipartiteGraph, BaseGraph,
                           readGraph, writeGraph)

H = hashlib.sha256()


def rec(*items):
    for it in items:
        H.update(repr(it).encode('utf-8'))
        H.update(b'\x00')
    H.update(b'\n')


def describe(G):
    if isinstance(G, BaseGraph):
        d = [type(G).__name__, G.number_of_vertices(), G.number_of_edges(),
             getattr(G, 'name', None)]
        if G.is_bipartite():
            d.append((G.left_order(), G.right_order()))
        else:
            d.append(G.is_dag())
        d.append(list(G.edges()))
        return d
    return ['other', type(G).__name__, repr(G)[:200]]


def attempt(label, fn, *args, **kwargs):
    try:
        res = fn(*args, **kwargs)
    except Exception as e:  # noqa
        ctx = type(e.__context__).__name__ if e.__context__ is not None else None
        cause = type(e.__cause__).__name__ if e.__cause__ is not None else None
        rec(label, 'EXC', type(e).__name__, str(e), ctx, cause)
        return None
    rec(label, 'OK', describe(res))
    return res


class BrokenOrder(networkx.Graph):
    def order(self):
        raise AttributeError("no order here")


class BrokenOrderDi(networkx.DiGraph):
    def order(self):
        raise AttributeError("no order here")


class BrokenEdges(networkx.Graph):
    @property
    def edges(self):
        raise AttributeError("no edges here")


class MySimple(Graph):
    pass


class MyDirected(DirectedGraph):
    pass


class MyBip(BipartiteGraph):
    pass


def nx_inputs():
    rng = random.Random(2024)
    out = []
    out.append(('nx-empty', networkx.Graph()))
    out.append(('nxd-empty', networkx.DiGraph()))
    G = networkx.Graph()
    G.add_nodes_from(range(1, 13))
    for _ in range(20):
        u, v = rng.sample(range(1, 13), 2)
        G.add_edge(u, v)
    G.name = 'twelve'
    out.append(('nx-12', G))
    G = networkx.Graph()
    G.add_nodes_from(str(i) for i in range(1, 12))
    for _ in range(15):
        u, v = rng.sample(range(1, 12), 2)
        G.add_edge(str(u), str(v))
    out.append(('nx-strlabels', G))
    G = networkx.Graph()
    G.add_edges_from([('b', 'a'), ('c', 'a'), ('z', 10), (10, 2), ('-3', 2)])
    out.append(('nx-mixed', G))
    G = networkx.Graph()
    G.add_edges_from([((1, 2), (0, 1)), ((0, 1), 'x')])
    out.append(('nx-tuples', G))
    D = networkx.DiGraph()
    D.add_nodes_from(range(1, 11))
    for _ in range(15):
        u, v = sorted(rng.sample(range(1, 11), 2))
        D.add_edge(u, v)
    D.name = 'a dag'
    out.append(('nxd-dag', D))
    D = networkx.DiGraph()
    D.add_edges_from([(3, 1), (1, 2), (2, 3), (4, 4), (10, 11), (11, 2)])
    out.append(('nxd-cyclic', D))
    B = networkx.Graph()
    B.add_nodes_from(['a', 'b', 'c'], bipartite=0)
    B.add_nodes_from([1, 2, 3, 4], bipartite=1)
    B.add_edges_from([('a', 1), ('b', 2), (3, 'c'), ('a', 4)])
    B.name = 'bip'
    out.append(('nx-bip', B))
    B = networkx.bipartite.complete_bipartite_graph(5, 7)
    out.append(('nx-k57', B))
    B = networkx.Graph()
    B.add_nodes_from([1, 2], bipartite=0)
    B.add_nodes_from([3], bipartite=1)
    B.add_edges_from([(1, 2), (1, 3)])
    out.append(('nx-bip-bad-edge', B))
    B = networkx.Graph()
    B.add_nodes_from([1, 2], bipartite='0')
    B.add_nodes_from([3, 4], bipartite='1')
    B.add_node(5, bipartite=2)
    out.append(('nx-bip-bad-label', B))
    M = networkx.MultiGraph()
    M.add_edges_from([(1, 2), (1, 2), (2, 3)])
    out.append(('nx-multi', M))
    M = networkx.MultiDiGraph()
    M.add_edges_from([(1, 2), (1, 2), (3, 2)])
    out.append(('nx-multidi', M))
    X = BrokenOrder()
    X.add_edges_from([(1, 2)])
    out.append(('nx-broken-order', X))
    X = BrokenOrderDi()
    X.add_edges_from([(1, 2)])
    out.append(('nxd-broken-order', X))
    X = BrokenEdges()
    X.add_nodes_from([1, 2], bipartite=0)
    X.add_nodes_from([3], bipartite=1)
    out.append(('nx-broken-edges', X))
    return out


def cnfgen_inputs():
    out = []
    G = Graph(11, 'eleven')
    G.add_edges_from([(1, 11), (10, 2), (3, 4)])
    out.append(('g-11', G))
    out.append(('g-0', Graph(0)))
    S = MySimple(4)
    S.add_edge(1, 2)
    out.append(('g-sub', S))
    D = DirectedGraph(10)
    D.add_edges_from([(1, 10), (2, 3), (9, 10)])
    out.append(('d-dag', D))
    D = DirectedGraph(3, None)
    D.add_edges_from([(3, 1), (2, 2)])
    out.append(('d-cyc', D))
    out.append(('d-sub', MyDirected(2)))
    B = BipartiteGraph(3, 12)
    B.add_edges_from([(1, 12), (3, 1), (2, 10)])
    out.append(('b-3-12', B))
    out.append(('b-k', CompleteBipartiteGraph(2, 3)))
    out.append(('b-sub', MyBip(1, 1)))
    out.append(('none', None))
    out.append(('int', 3))
    out.append(('str', 'graph'))
    out.append(('list', [(1, 2)]))
    return out


def main():
    classes = [Graph, DirectedGraph, BipartiteGraph, CompleteBipartiteGraph,
               MySimple, MyDirected, MyBip]
    inputs = nx_inputs() + cnfgen_inputs()
    for cls in classes:
        for label, obj in inputs:
            tag = cls.__name__ + '/' + label
            res = attempt(tag + '/default', cls.normalize, obj)
            if isinstance(obj, BaseGraph) and res is not None:
                rec(tag, 'identity', res is obj)
            attempt(tag + '/named', cls.normalize, obj, 'H')
            attempt(tag + '/kw', cls.normalize, obj, varname='{weird} name')
            attempt(tag + '/nonstr', cls.normalize, obj, varname=(1, 2))
    attempt('base', BaseGraph.normalize, Graph(1))

    # normalize as used by the readers of gml and dot files
    rng = random.Random(7)
    samples = []
    for n in [0, 1, 2, 9, 10, 11, 14]:
        G = Graph(n, 'simple {}'.format(n))
        D = DirectedGraph(n, 'dag {}'.format(n))
        C = DirectedGraph(n, 'digraph {}'.format(n))
        for _ in range(2 * n):
            u, v = rng.randint(1, n), rng.randint(1, n)
            if u != v:
                G.add_edge(u, v)
                D.add_edge(min(u, v), max(u, v))
            C.add_edge(u, v)
        B = BipartiteGraph(n, (n * 3) // 2 + 1, 'bip {}'.format(n))
        for _ in range(2 * n):
            B.add_edge(rng.randint(1, n), rng.randint(1, (n * 3) // 2 + 1))
        samples += [('simple', G), ('dag', D), ('digraph', C), ('dag', C),
                    ('bipartite', B), ('simple', B), ('digraph', G),
                    ('bipartite', G)]
    for gtype, G in samples:
        for fmt in ['gml', 'dot']:
            buf = io.StringIO()
            try:
                writeGraph(G, buf, gtype, fmt)
            except Exception as e:  # noqa
                rec('write', gtype, fmt, type(e).__name__, str(e))
                continue
            text = buf.getvalue()
            rec('text', gtype, fmt, text)
            for rtype in ['simple', 'digraph', 'dag', 'bipartite']:
                attempt('read/{}/{}/{}'.format(gtype, rtype, fmt),
                        readGraph, io.StringIO(text), rtype, fmt)


captured = io.StringIO()
with contextlib.redirect_stdout(captured):
    main()
H.update(captured.getvalue().encode('utf-8'))
print(H.hexdigest())
