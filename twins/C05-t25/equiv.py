"""Equivalence script for t25: add_description helper (transformation headers)."""
import sys, os, hashlib, itertools
sys.path.insert(0, os.getcwd())

from cnfgen.formula.cnf import CNF
from cnfgen.graphs import BipartiteGraph
import cnfgen.transformations.substitutions as S
from cnfgen.transformations.shuffle import Shuffle
import random

out = []
def rec(*a):
    out.append(repr(a))

rec('callable', callable(S.add_description), S.add_description.__name__,
    S.add_description.__doc__)

def snapshot(F):
    return (F.number_of_variables(), list(F), list(F.header.items()),
            list(F.all_variable_labels()), F.to_dimacs())

def trans(n):
    B = BipartiteGraph(n, 3)
    for u in range(1, n+1):
        B.add_edge(u, 1 + u % 3)
        B.add_edge(u, 1 + (u+1) % 3)
    T = [
        ('flip', lambda F: S.FlipPolarity(F)),
        ('ite', lambda F: S.IfThenElseSubstitution(F)),
        ('xorcomp', lambda F: S.VariableCompression(F, B, 'xor')),
        ('majcomp', lambda F: S.VariableCompression(F, B, 'maj')),
        ('badcomp', lambda F: S.VariableCompression(F, B, 'and')),
        ('shuffle', lambda F: Shuffle(F)),
    ]
    for k in (1, 2, 3):
        T += [
            ('xor%d' % k, lambda F, k=k: S.XorSubstitution(F, k)),
            ('or%d' % k, lambda F, k=k: S.OrSubstitution(F, k)),
            ('maj%d' % k, lambda F, k=k: S.MajoritySubstitution(F, k)),
            ('eq%d' % k, lambda F, k=k: S.AllEqualSubstitution(F, k)),
            ('neq%d' % k, lambda F, k=k: S.NotAllEqualSubstitution(F, k)),
            ('one%d' % k, lambda F, k=k: S.ExactlyOneSubstitution(F, k)),
            ('lift%d' % k, lambda F, k=k: S.FormulaLifting(F, k)),
        ]
        for c in (-1, 0, 1, k, k+1):
            T += [
                ('exact', lambda F, k=k, c=c: S.ExactlyKSubstitution(F, k, c)),
                ('atleast', lambda F, k=k, c=c: S.AtLeastKSubstitution(F, k, c)),
                ('atmost', lambda F, k=k, c=c: S.AtMostKSubstitution(F, k, c)),
                ('anybut', lambda F, k=k, c=c: S.AnythingButKSubstitution(F, k, c)),
                ('lt', lambda F, k=k, c=c: S.LinearSubstitution(F, k, '<', c)),
                ('gt', lambda F, k=k, c=c: S.LinearSubstitution(F, k, '>', c)),
            ]
    return T

formulas = []
F = CNF(); formulas.append(F)
F = CNF([[]]); formulas.append(F)
F = CNF([[1, -2], [2, 3], [-1, -3, 3], [1, 1]], description='a {test} formula'); formulas.append(F)
F = CNF([[-1], [2]]); F.update_variable_number(3)
F.header['transformation 2'] = 'gap'; formulas.append(F)
F = CNF(); F.new_variable('x_{1}'); F.new_block(2, label='y_{{{}}}'); F.add_clause([1, -3]); F.add_clause([2])
F.header['transformation 1'] = 'first'; F.header['transformation 3'] = 'third'; formulas.append(F)

for F in formulas:
    n = F.number_of_variables()
    T = trans(n)
    for name, t in T:
        random.seed(11)
        try:
            G = t(F)
            rec(name, snapshot(G), snapshot(F))
        except BaseException as e:
            rec(name, 'exc', type(e).__name__, str(e))
    # chains of two and three transformations
    random.seed(3)
    small = [x for x in T if x[0] in ('flip', 'ite', 'xor2', 'or2', 'lift1', 'lift2', 'shuffle', 'eq2', 'one2')]
    for (n1, t1), (n2, t2) in itertools.product(small, repeat=2):
        try:
            G = t2(t1(F))
            rec(n1, n2, snapshot(G))
            H = S.FlipPolarity(S.OrSubstitution(G, 1))
            rec(n1, n2, 'more', list(H.header.items()))
        except BaseException as e:
            rec(n1, n2, 'exc', type(e).__name__, str(e))

# direct calls
for hdr in ({}, {'transformation 1': 'a'}, {'transformation 2': 'b'},
            {'transformation 1': 'a', 'transformation 2': 'b', 'transformation 4': 'd'},
            {'description': 'transformation 1'}):
    F = CNF()
    F.header.update(hdr)
    for text in ('', 'plain', 'with {curly}', 'x\ny'):
        r = S.add_description(F, text)
        rec('direct', r, list(F.header.items()))
try:
    S.add_description(object(), 'x')
except BaseException as e:
    rec('direct-exc', type(e).__name__, str(e))

print(hashlib.sha256("\n".join(out).encode()).hexdigest())
