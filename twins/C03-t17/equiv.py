#!/usr/bin/env python
"""Equivalence script for the refactoring of cnfgen.graphs.DirectedGraph.add_edge
(sorted predecessor / successor lists used by pebbling, stone and sparse stone formulas)."""
import hashlib
import io
import random
import sys
from contextlib import redirect_stdout, redirect_stderr

sys.path.insert(0, '.')

import networkx

from cnfgen.graphs import DirectedGraph, BipartiteGraph, CompleteBipartiteGraph
from cnfgen.graphs import dag_pyramid, dag_path, dag_complete_binary_tree
from cnfgen.graphs import bipartite_random_left_regular
from cnfgen.families.pebbling import PebblingFormula, StoneFormula, SparseStoneFormula
from cnfgen.clitools import cnfgen as cnfgen_cli

OUT = []


def rec(*items):
    OUT.append(repr(items))


def describe_exc(e):
    chain = []
    seen = 0
    while e is not None and seen < 5:
        chain.append((type(e).__name__, str(e)))
        e = e.__cause__
        seen += 1
    return chain


def graph_obs(D):
    n = D.number_of_vertices()
    return (n, D.number_of_edges(), D.is_dag(), D.name,
            [list(x) for x in D.pred], [list(x) for x in D.succ],
            sorted(D.edgeset), list(D.edges()), list(D.edges_ordered_by_successors()),
            len(D.edges()),
            [list(D.predecessors(v)) for v in D.vertices()],
            [list(D.successors(v)) for v in D.vertices()],
            [D.in_degree(v) for v in D.vertices()],
            [D.out_degree(v) for v in D.vertices()],
            sorted(D.to_networkx().edges()))


def formula_obs(F):
    return (F.number_of_variables(), list(F.clauses()) if hasattr(F, 'clauses') else list(F),
            F.to_dimacs(), sorted((str(k), str(v)) for k, v in F.header.items()),
            list(F.all_variable_labels()))


def try_formulas(tag, D, rnd):
    for name, build in [
            ('peb', lambda: PebblingFormula(D)),
            ('stone1', lambda: StoneFormula(D, 1)),
            ('stone2', lambda: StoneFormula(D, 2)),
            ('sparse', lambda: SparseStoneFormula(
                D, bipartite_random_left_regular(D.number_of_vertices(), 3, 2,
                                                 seed=rnd.randint(0, 10**6))))]:
        try:
            F = build()
            rec(tag, name, 'ok', formula_obs(F))
        except Exception as e:
            rec(tag, name, 'exc', describe_exc(e))


def test_add_edge():
    rnd = random.Random(31337)
    # single calls, including invalid ones, with return value and exception
    for n in [0, 1, 2, 4]:
        D = DirectedGraph(n)
        for (u, v) in [(1, 2), (1, 2), (2, 1), (1, 1), (0, 1), (1, 0), (n, n + 1), (n + 1, n),
                       (-1, 2), (3, 4), (4, 3), (2, 4), (1, 4), (3, 4), (True, 2), (2, 3)]:
            try:
                r = D.add_edge(u, v)
                rec('single', n, u, v, 'ok', r, graph_obs(D))
            except Exception as e:
                rec('single', n, u, v, 'exc', describe_exc(e), graph_obs(D))
        for bad in [('a', 1), (1, 'b'), (None, 1), (1.0, 2.0), (1.5, 2), ((1,), 2)]:
            try:
                r = D.add_edge(*bad)
                rec('bad', n, bad, 'ok', r, graph_obs(D))
            except Exception as e:
                rec('bad', n, bad, 'exc', describe_exc(e), graph_obs(D))
    # random insertion orders: forward only (DAGs) and arbitrary
    for trial in range(60):
        n = rnd.randint(1, 7)
        forward_only = trial % 2 == 0
        D = DirectedGraph(n, name=None if trial % 3 == 0 else 'g{}'.format(trial))
        pairs = [(u, v) for u in range(1, n + 1) for v in range(1, n + 1)
                 if (u < v if forward_only else True)]
        rnd.shuffle(pairs)
        m = rnd.randint(0, len(pairs))
        chosen = pairs[:m]
        # duplicates
        chosen += [rnd.choice(chosen) for _ in range(rnd.randint(0, 3))] if chosen else []
        for (u, v) in chosen:
            D.add_edge(u, v)
        rec('random', trial, n, chosen, graph_obs(D))
        if n <= 5:
            try_formulas(('randomF', trial), D, rnd)
    # add_edges_from and networkx conversion (labels get sorted)
    for trial in range(20):
        n = rnd.randint(0, 6)
        G = networkx.DiGraph()
        labels = list(range(10, 10 + n))
        rnd.shuffle(labels)
        G.add_nodes_from(labels)
        for _ in range(rnd.randint(0, 2 * n)):
            if n:
                G.add_edge(rnd.choice(labels), rnd.choice(labels))
        G.name = 'nx{}'.format(trial)
        try:
            D = DirectedGraph.from_networkx(G)
            rec('nx', trial, graph_obs(D))
            try_formulas(('nxF', trial), D, rnd)
            D2 = DirectedGraph(n)
            D2.add_edges_from(reversed(list(D.edges())))
            rec('nx-rev', trial, graph_obs(D2))
        except Exception as e:
            rec('nx', trial, 'exc', describe_exc(e))


def test_constructions():
    rnd = random.Random(5)
    for h in range(0, 4):
        for cons in [dag_pyramid, dag_complete_binary_tree, dag_path]:
            D = cons(h)
            rec('cons', cons.__name__, h, graph_obs(D))
            if D.number_of_vertices() <= 7:
                try_formulas(('consF', cons.__name__, h), D, rnd)


def run_cli(cmd, stdin_text=None):
    out = io.StringIO()
    err = io.StringIO()
    old_stdin = sys.stdin
    random.seed(777)
    if stdin_text is not None:
        sys.stdin = io.StringIO(stdin_text)
    try:
        with redirect_stdout(out), redirect_stderr(err):
            r = cnfgen_cli(cmd, mode='string')
        rec('cli', cmd, 'ok', r, out.getvalue(), err.getvalue())
    except SystemExit as e:
        rec('cli', cmd, 'exit', e.code, out.getvalue(), err.getvalue())
    except Exception as e:
        rec('cli', cmd, 'exc', describe_exc(e), out.getvalue(), err.getvalue())
    finally:
        sys.stdin = old_stdin


def test_cli():
    kth = "5\n1 : 0\n2 : 0\n3 : 2 1 0\n4 : 3 1 0\n5 : 4 3 2 1 0\n"
    dim = "p edge 5 6\ne 2 5\ne 1 5\ne 3 5\ne 1 3\ne 2 3\ne 1 2\ne 1 2\n"
    cyc = "p edge 3 3\ne 1 2\ne 2 3\ne 3 1\n"
    gml = """graph [
  directed 1
  node [ id 0 label "c" ]
  node [ id 1 label "a" ]
  node [ id 2 label "b" ]
  edge [ source 1 target 0 ]
  edge [ source 2 target 0 ]
  edge [ source 1 target 2 ]
]
"""
    for fmt, text in [('kthlist', kth), ('dimacs', dim), ('dimacs', cyc), ('gml', gml),
                      ('kthlist', "0\n")]:
        run_cli(['cnfgen', '-q', 'peb', fmt, '-'], text)
        run_cli(['cnfgen', 'peb', fmt, '-'], text)
        run_cli(['cnfgen', '-q', 'stone', 2, fmt, '-'], text)
        run_cli(['cnfgen', '-q', '--seed', 9, 'stone', 3, fmt, '-', '--sparse', 2], text)
        run_cli(['cnfgen', '-q', '-of', 'latex', 'peb', fmt, '-'], text)
    for cons in [['pyramid', 3], ['tree', 2], ['path', 4]]:
        run_cli(['cnfgen', 'peb'] + cons)
        run_cli(['cnfgen', '-q', 'stone', 2] + cons)


test_add_edge()
test_constructions()
test_cli()

h = hashlib.sha256()
for line in OUT:
    h.update(line.encode('utf-8', 'backslashreplace'))
    h.update(b'\n')
print(h.hexdigest())
