import hashlib, random, sys
sys.path.insert(0, '.')
from cnfgen.formula.basecnf import BaseCNF
from cnfgen.formula.baseopb import BaseOPB
from cnfgen.formula.cnf import CNF
from cnfgen.formula.opb import OPB
import cnfgen

out = []
def rec(*a):
    out.append(repr(a))

def attempt(tag, f):
    try:
        rec(tag, 'ok', f())
    except Exception as e:
        rec(tag, 'exc', type(e).__name__, str(e))

def counters(tag, F):
    rec(tag, 'n', F.number_of_variables())
    rec(tag, 'vars', F.variables(), list(F.variables())[:5], len(F.variables()))
    rec(tag, 'labels', list(F.all_variable_labels()))
    rec(tag, 'labels2', list(F.all_variable_labels('y_{{{}}}')))
    rec(tag, 'labels3', list(F.all_variable_labels(default_label_format='<{}>')))
    rec(tag, 'str', str(F), len(F), F.debug())

for cls in (BaseCNF, BaseOPB, CNF, OPB):
    name = cls.__name__
    F = cls()
    counters(name + '/empty', F)
    for v in (0, 3, 2, 7, 7, 0):
        attempt(name + '/upd%d' % v, lambda: F.update_variable_number(v))
        rec(name, F.number_of_variables(), F.variables())
    for bad in (-1, -100, 2.0, '3', None, [1], True):
        attempt(name + '/bad%r' % (bad,), lambda: F.update_variable_number(bad))
        rec(name, F.number_of_variables())
    F.add_clause([1, -9, 4])
    counters(name + '/c1', F)
    F.update_variable_number(5)
    counters(name + '/c2', F)
    F.update_variable_number(50)
    F.add_clause([-51, 2])
    counters(name + '/c3', F)
    attempt(name + '/zero', lambda: F.add_clause([1, 0]))
    attempt(name + '/str', lambda: F.add_clause([1, 'a']))
    counters(name + '/c4', F)
    rec(name, 'resolved',
        [getattr(cls, m).__name__ for m in
         ('number_of_variables', 'variables', 'all_variable_labels', 'update_variable_number')],
        [bool(getattr(cls, m).__doc__) for m in
         ('number_of_variables', 'variables', 'all_variable_labels', 'update_variable_number')],
        [getattr(cls, m).__doc__ for m in
         ('number_of_variables', 'variables', 'all_variable_labels', 'update_variable_number')])

# interleavings of group creation and clause insertion
for cls in (CNF, OPB):
    name = cls.__name__
    F = cls()
    x = F.new_variable('X')
    b = F.new_block(3, 4, label='b_{{{},{}}}')
    F.add_clause([x, -b(2, 3)])
    counters(name + '/i1', F)
    F.update_variable_number(20)
    attempt(name + '/overlap', lambda: F._add_variable_group(b))
    m = F.new_mapping(4, 3)
    F.force_complete_mapping(m)
    counters(name + '/i2', F)
    F.add_clause([40, -41])
    w = F.new_words(3, 2)
    g = F.new_combinations(5, 2)
    counters(name + '/i3', F)
    rec(name, [c for c in F])
    if cls is OPB:
        F.add_constraint([(2, 70), (-3, -71), '<', 2])
        F.cardinality_neq([72, 73, -74], 1)
        F.add_parity([75, 76], 1)
        counters(name + '/i4', F)
        rec(F.to_opb())
    else:
        F.add_linear([70, -71, 72], '==', 1)
        F.add_parity([73, 74, 75], 0)
        counters(name + '/i4', F)
        rec(F.to_dimacs())

# families and transformations at moderate size
random.seed(13)
fams = [
    cnfgen.PigeonholePrinciple(9, 7),
    cnfgen.PigeonholePrinciple(6, 5, functional=True, onto=True),
    cnfgen.OrderingPrinciple(9),
    cnfgen.RandomKCNF(3, 40, 120, seed=5),
    cnfgen.CountingPrinciple(9, 3),
    cnfgen.RamseyNumber(3, 3, 6),
    cnfgen.BinaryPigeonholePrinciple(9, 8),
    cnfgen.VanDerWaerden(12, 3, 3),
]
for i, F in enumerate(fams):
    counters('fam%d' % i, F)
    rec(F.to_dimacs())
    if max((len(c) for c in F), default=0) > 9:
        continue
    for T in (cnfgen.XorSubstitution(F, 2), cnfgen.FormulaLifting(F, 2) if i < 3 else cnfgen.OrSubstitution(F, 2),
              cnfgen.IfThenElseSubstitution(F), cnfgen.Shuffle(F)):
        counters('fam%d/t' % i, T)
        mx = max((abs(l) for c in T for l in c), default=0)
        rec(mx <= T.number_of_variables(), T.debug(allow_opposite=True, allow_repetition=True))
        rec(hashlib.sha256(T.to_dimacs().encode()).hexdigest())

from cnfgen.clitools.cnfgen import cli as cnfgen_cli
from cnfgen.clitools.pbgen import cli as pbgen_cli
for args in (['cnfgen', '-q', 'php', '7', '5'], ['cnfgen', '-q', 'op', '6', '-T', 'xor', '2'],
             ['cnfgen', '-q', '--varnames', 'tseitin', 'randomodd', 'gnd', '8', '3', '-T', 'shuffle'],
             ['cnfgen', '-q', '--seed', '4', 'randkcnf', '3', '20', '50', '-T', 'lift', '2']):
    random.seed(1)
    attempt(' '.join(args), lambda: cnfgen_cli(args, mode='string'))
for args in (['pbgen', '-q', 'php', '7', '5'], ['pbgen', '-q', 'parity', '7']):
    random.seed(1)
    attempt(' '.join(args), lambda: pbgen_cli(args, mode='string'))

print(hashlib.sha256('\n'.join(out).encode()).hexdigest())
