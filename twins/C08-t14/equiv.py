#!/usr/bin/env python
"""Equivalence script for cnfgen.formula.variables.VariablesManager.all_variable_labels

Names of the variables (and their order) for CNF and OPB formulas built by
hand with mixtures of variable groups and anonymous variables, for
corrupted managers, and for the formulas made by `cnfgen` and `pbgen`
(with --varnames and in LaTeX).  Prints one SHA256 digest of everything
observed.
"""
import sys, os
sys.dont_write_bytecode = True
sys.path.insert(0, os.getcwd())
import hashlib, io, random, contextlib, itertools

from cnfgen.formula.cnf import CNF
from cnfgen.formula.opb import OPB
from cnfgen.formula.basecnf import BaseCNF
from cnfgen.formula.baseopb import BaseOPB
from cnfgen.formula.variables import VariablesManager, BlockOfVariables
from cnfgen.formula.variables import SingletonVariableGroup
from cnfgen.graphs import BipartiteGraph, Graph, DirectedGraph
from cnfgen.clitools.cnfgen import cli as cnfgen_cli
from cnfgen.clitools.pbgen import cli as pbgen_cli

LOG = []


def rec(*items):
    LOG.append(repr(items))


def attempt(tag, fn):
    out, err = io.StringIO(), io.StringIO()
    try:
        with contextlib.redirect_stdout(out), contextlib.redirect_stderr(err):
            res = fn()
        rec(tag, 'ok', res, out.getvalue(), err.getvalue())
    except BaseException as e:   # noqa
        chain = []
        x = e
        while x is not None:
            chain.append((type(x).__name__, str(x)))
            x = x.__cause__
        rec(tag, 'exc', chain, out.getvalue(), err.getvalue())


def drain(gen):
    """All the items of a generator, and how it ended"""
    items = []
    try:
        for x in gen:
            items.append(x)
        return items, 'end'
    except BaseException as e:   # noqa
        return items, (type(e).__name__, str(e))


FORMATS = ['x{}', 'x_{}', 'v', '{}', '{0}-{0}', 'y{:03d}']


def names(F):
    res = [drain(F.all_variable_labels())]
    for fmt in FORMATS:
        res.append(drain(F.all_variable_labels(fmt)))
        res.append(drain(F.all_variable_labels(default_label_format=fmt)))
    # laziness: just a prefix
    res.append(drain(itertools.islice(F.all_variable_labels(), 3)))
    return res


def outputs(F):
    res = [F.number_of_variables(), len(F)]
    buf = io.StringIO()
    F.to_file(buf, fileformat='opb', export_header=False, export_varnames=True)
    res.append(buf.getvalue())
    if hasattr(F, 'to_dimacs'):
        buf = io.StringIO()
        F.to_file(buf, fileformat='dimacs', export_header=False, export_varnames=True)
        res.append(buf.getvalue())
    res.append(F.to_latex())
    return res


def bip(l, r, edges):
    B = BipartiteGraph(l, r)
    for u, v in edges:
        B.add_edge(u, v)
    return B


def simple(n, edges):
    G = Graph(n)
    for u, v in edges:
        G.add_edge(u, v)
    return G


def dag(n, edges):
    D = DirectedGraph(n)
    for u, v in edges:
        D.add_edge(u, v)
    return D


# A menu of steps that add variables to a formula
def steps_menu():
    return [
        ('var', lambda F: F.new_variable(label='X')),
        ('var-nolabel', lambda F: F.new_variable()),
        ('block0', lambda F: F.new_block(0, label='e_{}')),
        ('block1', lambda F: F.new_block(1, label='s_{}')),
        ('block3', lambda F: F.new_block(3, label='b_{}')),
        ('block2x3', lambda F: F.new_block(2, 3, label='z_{{{},{}}}')),
        ('block2x0', lambda F: F.new_block(2, 0, label='w({},{})')),
        ('comb', lambda F: F.new_combinations(4, 2)),
        ('combrep', lambda F: F.new_combinations_with_replacement(3, 2, label='c{}')),
        ('perm', lambda F: F.new_permutations(3, 2)),
        ('words', lambda F: F.new_words(2, 2, label='w{}')),
        ('bipedges', lambda F: F.new_bipartite_edges(bip(2, 3, [(1, 1), (1, 3), (2, 2)]))),
        ('bipedges-empty', lambda F: F.new_bipartite_edges(bip(2, 2, []))),
        ('graphedges', lambda F: F.new_graph_edges(simple(4, [(1, 2), (2, 3), (1, 4)]))),
        ('digraphedges', lambda F: F.new_digraph_edges(dag(3, [(1, 2), (1, 3), (2, 3)]))),
        ('mapping', lambda F: F.new_mapping(2, 3)),
        ('mapping0', lambda F: F.new_mapping(0, 3)),
        ('sparse', lambda F: F.new_sparse_mapping(bip(3, 2, [(1, 1), (2, 1), (2, 2), (3, 2)]))),
        ('binmap', lambda F: F.new_binary_mapping(3, 5)),
        ('binmap1', lambda F: F.new_binary_mapping(2, 1)),
        ('gap1', lambda F: F.update_variable_number(F.number_of_variables() + 1)),
        ('gap4', lambda F: F.update_variable_number(F.number_of_variables() + 4)),
        ('gap0', lambda F: F.update_variable_number(F.number_of_variables())),
        ('clause', lambda F: F.add_clause([1, -(F.number_of_variables() + 2)])),
        ('clause-inside', lambda F: F.add_clause([1]) if F.number_of_variables() else None),
    ]


MENU = steps_menu()
MENUD = dict(MENU)

# every single step, every ordered pair of steps, random longer recipes
RECIPES = [[]]
RECIPES += [[a] for a, _ in MENU]
RECIPES += [[a, b] for a, _ in MENU for b, _ in MENU]
# a variable without a name cannot be printed: use it sparingly
MENU = [item for item in MENU if item[0] != 'var-nolabel']
rng = random.Random(8)
for length in (3, 4, 6, 9):
    for _ in range(60):
        RECIPES.append([rng.choice(MENU)[0] for _ in range(length)])

for recipe in RECIPES:
    for cls in (CNF, OPB):
        def build():
            F = cls()
            for stepname in recipe:
                MENUD[stepname](F)
            return F
        attempt((cls.__name__, tuple(recipe), 'names'), lambda: names(build()))
        attempt((cls.__name__, tuple(recipe), 'outputs'), lambda: outputs(build()))

# Managers attached to base formulas (not the full CNF / OPB classes)
for base in (BaseCNF, BaseOPB):
    def standalone():
        F = base()
        V = VariablesManager(F)
        res = [drain(V.all_variable_labels())]
        F.update_variable_number(2)
        res.append(drain(V.all_variable_labels()))
        V.new_variable('A')
        V.new_block(2, 2, label='q{}{}')
        res.append(drain(V.all_variable_labels('u{}')))
        F.add_clause([9])
        res.append(drain(V.all_variable_labels('u{}')))
        res.append(drain(F.all_variable_labels('u{}')))
        V.new_block(0)
        V.new_variable('B')
        res.append(drain(V.all_variable_labels('u{}')))
        return res
    attempt(('standalone', base.__name__), standalone)


# Corrupted managers: groups that overlap, are out of order, or go past
# the number of variables known to the formula.
def corrupted(kind, cls):
    F = cls()
    if kind == 'beyond-end':
        F.new_block(2, label='a{}')
        F.new_block(3, label='b{}')
        F._numvar = 3
    elif kind == 'beyond-end-singleton':
        F.new_variable('A')
        F.new_variable('B')
        F._numvar = 1
    elif kind == 'zero-end':
        F.new_block(4, label='a{}')
        F._numvar = 0
    elif kind == 'out-of-order':
        F.new_block(2, label='a{}')
        F.update_variable_number(4)
        F.new_block(3, label='b{}')
        F._groups.reverse()
    elif kind == 'overlap':
        F.new_block(4, label='a{}')
        G = BlockOfVariables(F, [3], 'dup{}')
        G.ids = range(2, 5)
        F._groups.append(G)
    elif kind == 'overlap-grow':
        F.new_block(4, label='a{}')
        G = BlockOfVariables(F, [3], 'dup{}')
        G.ids = range(2, 5)
        F._groups.append(G)
        F.update_variable_number(9)
    elif kind == 'same-twice':
        b = F.new_block(2, label='a{}')
        F._groups.append(b)
        F.update_variable_number(4)
    elif kind == 'same-twice-short':
        b = F.new_block(2, label='a{}')
        F._groups.append(b)
    elif kind == 'foreign-group':
        other = cls()
        other.update_variable_number(5)
        g = other.new_block(2, label='far{}')
        F.update_variable_number(3)
        F._groups.append(g)
        F.update_variable_number(7)
    elif kind == 'foreign-group-short':
        other = cls()
        other.update_variable_number(5)
        g = other.new_block(2, label='far{}')
        F._groups.append(g)
        F.update_variable_number(6)
    elif kind == 'nolabel-block':
        F.new_block(2)
    elif kind == 'bad-format':
        F.update_variable_number(2)
        return [drain(F.all_variable_labels('{} {}')), drain(F.all_variable_labels(None)),
                drain(F.all_variable_labels(7))]
    return names(F)


for kind in ['beyond-end', 'beyond-end-singleton', 'zero-end', 'out-of-order', 'overlap',
             'overlap-grow', 'same-twice', 'same-twice-short', 'foreign-group',
             'foreign-group-short', 'nolabel-block', 'bad-format']:
    for cls in (CNF, OPB):
        attempt(('corrupted', kind, cls.__name__), lambda: corrupted(kind, cls))

# Command line: every family which both tools can build
CMDLINES = [
    ['and', '2', '3'], ['and', '0', '0'], ['or', '3', '1'], ['or', '0', '0'], ['true'], ['false'],
    ['php', '4', '3'], ['php', '4', '3', '--functional', '--onto'], ['php', '5', '4', '2'],
    ['php', '0', '0'], ['bphp', '5', '3'], ['rphp', '3', '4', '2'], ['rphp', '0', '0', '0'],
    ['cliquecoloring', '5', '3', '2'], ['count', '5', '2'], ['count', '6', '3'],
    ['matching', 'gnp', '5', '0.7'], ['parity', '5'], ['parity', '0'],
    ['cpls', '2', '4', '2'], ['domset', '2', 'gnp', '5', '.6'], ['domset', '--alternative', '2', 'complete', '4'],
    ['ec', 'gnd', '6', '4'], ['iso', 'gnd', '5', '2'], ['iso', 'gnd', '4', '2', '-e', 'complete', '4'],
    ['kclique', '3', 'gnp', '5', '.6'], ['kcliquebin', '2', 'gnp', '5', '.6'],
    ['kcolor', '3', 'gnd', '6', '3'], ['op', '4'], ['op', '4', '--total'], ['op', '5', '--smart'],
    ['op', '1'], ['op', 'gnd', '6', '2'], ['op', '5', '--knuth3', '--plant'], ['peb', 'pyramid', '2'], ['peb', 'tree', '2'],
    ['stone', '3', 'pyramid', '2'], ['stone', '2', 'path', '3', '--sparse', '2'],
    ['pitfall', '8', '3', '2', '2', '2'], ['ptn', '14'], ['ptn', '0'], ['ram', '3', '3', '5'],
    ['ramlb', '3', '3', 'gnp', '5', '.5'], ['randkcnf', '3', '6', '8'], ['randkcnf', '2', '4', '0'],
    ['randkcnf', '-p', '3', '6', '8'], ['subgraph', '-G', 'gnp', '5', '.6', '-H', 'complete', '3'],
    ['subsetcard', '6'], ['subsetcard', '5', '4', '--equal'], ['tiling', 'grid', '2', '3'],
    ['tseitin', '6', '3'], ['tseitin', 'first', 'grid', '2', '3'], ['tseitin', 'randomodd', 'gnd', '6', '4'],
    ['vdw', '6', '2', '3'], ['vdw', '7', '2', '2', '3'],
]
for cmd in CMDLINES:
    for tool, cli in (('cnfgen', cnfgen_cli), ('pbgen', pbgen_cli)):
        argv = [tool, '--seed', '17'] + cmd
        def run():
            random.seed(3)
            F = cli(argv, mode='formula')
            return names(F), outputs(F)
        attempt(tuple(argv), run)
        rec('rnd', random.random())

    def opb_varnames():
        random.seed(3)
        F = cnfgen_cli(['cnfgen', '--seed', '17'] + cmd, mode='formula')
        buf = io.StringIO()
        F.to_file(buf, fileformat='opb', export_header=False, export_varnames=True)
        return buf.getvalue()
    attempt(('cnfgen-as-opb', tuple(cmd)), opb_varnames)

# Transformed formulas use the labels of the original formula
for tr in (['-T', 'xor', '2'], ['-T', 'or', '2'], ['-T', 'lift', '2'], ['-T', 'eq', '2'], ['-T', 'shuffle']):
    argv = ['cnfgen', '--seed', '5', 'php', '3', '2'] + tr
    def run_t():
        F = cnfgen_cli(argv, mode='formula')
        return names(F), outputs(F)
    attempt(tuple(argv), run_t)

print(hashlib.sha256("\n".join(LOG).encode('utf-8')).hexdigest())
