#!/usr/bin/env python
"""Equivalence check for the splitting of the command line around '-T'
(parse_command_line in cnfgen/clitools/cnfgen.py and cnfgen/clitools/pbgen.py).

Prints one SHA256 digest of everything observable."""
import sys, os, io, hashlib, random, contextlib, tempfile, warnings
sys.path.insert(0, os.getcwd())
warnings.simplefilter('ignore')

from cnfgen.clitools import cnfgen as cnfgen_cli
from cnfgen.clitools.pbgen import cli as pbgen_cli
import importlib
cnfgen_mod = importlib.import_module('cnfgen.clitools.cnfgen')
pbgen_mod = importlib.import_module('cnfgen.clitools.pbgen')
from cnfgen.clitools import get_formula_helpers, get_transformation_helpers

H = hashlib.sha256()


def record(*items):
    for it in items:
        H.update(repr(it).encode('utf-8'))
        H.update(b'\0')


def formula_summary(F):
    info = [type(F).__name__, F.number_of_variables(),
            list(F.all_variable_labels()),
            sorted((k, str(v)) for k, v in F.header.items())]
    if hasattr(F, 'clauses'):
        info.append([list(c) for c in F.clauses()])
    if hasattr(F, 'to_opb'):
        info.append(F.to_opb())
    return info


def run_tool(tool, argv, mode, seed=4242):
    out, err = io.StringIO(), io.StringIO()
    random.seed(seed)
    record('ARGV', argv, mode)
    try:
        with contextlib.redirect_stdout(out), contextlib.redirect_stderr(err):
            res = tool(argv, mode=mode)
        if mode == 'formula':
            res = formula_summary(res)
        record('OK', res)
    except SystemExit as e:
        record('EXIT', e.code)
    except BaseException as e:
        record('EXC', type(e).__name__, str(e))
    record(out.getvalue(), err.getvalue())


def ns_summary(ns):
    d = {}
    for k, v in vars(ns).items():
        if isinstance(v, type):
            v = v.__name__
        elif not isinstance(v, (str, int, float, bool, list, tuple, type(None))):
            v = (type(v).__name__, getattr(v, 'name', None))
            if v[0] == 'StringIO':
                v = 'redirected-stream'
        d[k] = repr(v)
    return sorted(d.items())


workdir = tempfile.mkdtemp()
os.chdir(workdir)

chains = [
    [],
    ['-T', 'xor', 2],
    ['-T', 'or', 2, '-T', 'flip'],
    ['-T', 'flip', '-T', 'or', 2],
    ['-T', 'shuffle'],
    ['-T', 'shuffle', '-T', 'shuffle', '-p'],
    ['-T', 'lift', 2, '-T', 'none', '-T', 'eq', 2],
    ['-T', 'xorcomp', 5, 2],
    ['-T', 'majcomp', 'glrd', 6, 4, 3],
    ['-T', 'atleast', 3, 2, '-T', 'ite'],
    ['-T'],
    ['-T', '-T'],
    ['-T', 'xor', 2, '-T'],
    ['-T', '-T', 'xor', 2],
    ['-T', 'xor'],
    ['-T', 'nosuch', 2],
    ['-T', 'xor', 2, 3],
    ['-T', 'xor', '-T', 2],
    ['-T', 'xor', 2, '-q'],
    ['-t', 'xor', 2],
    ['-T', 'shuffle', '-h'],
    ['-T', 'xor', 0],
]
bases = [
    ['cnfgen', 'php', 3, 2],
    ['cnfgen', '-q', 'op', 3],
    ['cnfgen', '-S', 11, 'randkcnf', 3, 5, 4],
    ['cnfgen', 'peb', 'pyramid', 2],
    ['cnfgen', '-of', 'opb', 'parity', 3],
]
for base in bases:
    for chain in chains:
        argv = base + chain
        run_tool(cnfgen_cli, argv, 'string')
        run_tool(cnfgen_cli, argv, 'formula')

# odd placements of -T
for argv in [['cnfgen'], ['cnfgen', '-T'], ['cnfgen', '-T', 'xor', 2],
             ['cnfgen', '-T', 'xor', 2, 'php', 3, 2], ['-T', 'php', 3, 2],
             ['cnfgen', 'php', '-T', 3, 2], ['cnfgen', 'php', 3, '-T', 'xor', 2],
             ['cnfgen', '-q', '-T', 'flip'], ['cnfgen', 'or', 2, 1, '-T', 'flip', '-T', 'flip'],
             ['cnfgen', 'php', 3, 2, '-Txor', 2], ['cnfgen', 'php', 3, 2, '-T xor', 2],
             [], ['cnfgen', 'and', 1, 1, '-T', 'or', 2, '-T', 'xor', 2, '-T', 'lift', 2]]:
    run_tool(cnfgen_cli, argv, 'string')
    run_tool(cnfgen_cli, argv, 'formula')

# pbgen refuses '-T' wherever it is
for argv in [['pbgen', 'php', 3, 2], ['pbgen', 'php', 3, 2, '-T', 'xor', 2],
             ['pbgen', '-T'], ['-T'], ['pbgen', 'php', 3, 2, '-T'], ['pbgen', '-q', 'parity', 3],
             ['pbgen'], ['pbgen', 'php', 3, 2, '-Txor'], ['pbgen', '-T', 'php', 3, 2],
             ['pbgen', '-S', 3, 'randkcnf', 2, 4, 3]]:
    run_tool(pbgen_cli, argv, 'string')
    run_tool(pbgen_cli, argv, 'formula')

# direct calls of the parsing functions (already stringified argv, as in cli)
fparser, tparser = cnfgen_mod.setup_command_line_parsers(
    'cnfgen', get_formula_helpers(), get_transformation_helpers())
for base in bases[:3]:
    for chain in chains:
        argv = [str(x) for x in base + chain]
        record('DIRECT', argv)
        try:
            random.seed(5)
            out, err = io.StringIO(), io.StringIO()
            try:
                with contextlib.redirect_stdout(out), contextlib.redirect_stderr(err):
                    fargs, targs = cnfgen_mod.parse_command_line(argv, fparser, tparser)
            finally:
                record(out.getvalue(), err.getvalue())
            record('OK', ns_summary(fargs), [ns_summary(t) for t in targs])
        except SystemExit as e:
            record('EXIT', e.code)
        except BaseException as e:
            record('EXC', type(e).__name__, str(e))

for argv in [['pbgen', 'php', '3', '2'], ['pbgen', 'php', '3', '2', '-T', 'xor', '2'],
             ['-T'], ['pbgen'], [], ('pbgen', 'op', '3'), ('pbgen', '-T')]:
    pparser = pbgen_mod.setup_command_line_parsers('pbgen', get_formula_helpers())
    if isinstance(pparser, tuple):
        pparser = pparser[0]
    record('DIRECTPB', argv)
    try:
        out, err = io.StringIO(), io.StringIO()
        try:
            with contextlib.redirect_stdout(out), contextlib.redirect_stderr(err):
                fargs = pbgen_mod.parse_command_line(argv, pparser)
        finally:
            record(out.getvalue(), err.getvalue())
        record('OK', ns_summary(fargs))
    except SystemExit as e:
        record('EXIT', e.code)
    except BaseException as e:
        record('EXC', type(e).__name__, str(e))

print(H.hexdigest())
