#!/usr/bin/env python
"""Equivalence check for cnfgen.formula.cnfio.guess_output_format (and CNF.to_file
which dispatches on it).  Prints one SHA256 digest of everything observed."""
import os
import sys
import io
import hashlib
import tempfile

sys.path.insert(0, os.getcwd())

# the version string comes from `git describe`: make it independent of the checkout
from cnfgen.info import info as _info
REAL_VERSION = str(_info['version'])
_info['version'] = 'VERSION'

from cnfgen.formula.cnfio import guess_output_format
from cnfgen.formula.cnf import CNF
from cnfgen.families.pigeonhole import PigeonholePrinciple

LOG = []


def log(*items):
    LOG.append(" | ".join(repr(x) for x in items))


class Named:
    def __init__(self, name):
        self.name = name


class NoName:
    pass


class RaisingName:
    def __init__(self, exc):
        self.exc = exc

    @property
    def name(self):
        raise self.exc


class HashableOdd(str):
    pass


def attempt(tag, fileorname, request):
    try:
        res = guess_output_format(fileorname, request)
        log(tag, 'OK', res, type(res).__name__)
    except BaseException as e:
        log(tag, 'EXC', type(e).__name__, str(e))


names = ['', 'a', 'a.tex', 'a.opb', 'a.cnf', 'a.dimacs', 'a.TEX', 'a.Opb',
         '.tex', '.opb', 'tex', 'opb', 'a.tex.opb', 'a.opb.tex', 'a.tex.',
         'a.tex ', 'dir.tex/file', 'dir.opb/file.cnf', 'a..tex', 'a.latex',
         '/x/y.z/w.opb', 'a.texx', 'a.t', '-', '<stdout>', '<stdin>',
         'unicodeé.tex', 'with space.opb', 'a.tex\n', 'a\0.tex',
         HashableOdd('sub.tex')]
requests = [None, 'latex', 'dimacs', 'opb', 'tex', 'cnf', '', 'LATEX', 'Dimacs',
            0, False, True, 1, ('latex',), 'pdf']

for nm in names:
    for rq in requests:
        attempt('str', nm, rq)
        attempt('obj', Named(nm), rq)

odd_names = [None, 0, 1, -1, 3.5, b'a.tex', b'a.opb', b'a', bytearray(b'a.tex'),
             ['a.tex'], ('a.tex',), {'a': 1}, object, NoName(), Named(None)]
for i, nm in enumerate(odd_names):
    for rq in requests:
        attempt('oddname%d' % i, Named(nm), rq)

odd_files = [None, 0, 1, 2.5, b'a.tex', ['a.tex'], NoName(), io.StringIO(),
             io.BytesIO(), sys.stdout, sys.stderr,
             RaisingName(AttributeError('attr')), RaisingName(ValueError('val')),
             RaisingName(IndexError('idx')), RaisingName(KeyError('key')),
             RaisingName(TypeError('typ')), RaisingName(RuntimeError('run'))]
for i, f in enumerate(odd_files):
    for rq in requests:
        attempt('oddfile%d' % i, f, rq)

# unhashable / odd requests
for i, rq in enumerate([[], ['latex'], {}, {'latex'}, 1.5, b'latex', object()]):
    attempt('oddreq%d' % i, 'a.tex', rq)
    attempt('oddreq%d' % i, None, rq)

# to_file dispatch, on real files and file objects
formulas = [CNF(), CNF([[]]), CNF([[1, -2], [], [3]]), PigeonholePrinciple(3, 2)]
F3 = CNF([[1, 2], [-1]], description='odd é desc\nsecond line')
F3.update_variable_number(5)
formulas.append(F3)

with tempfile.TemporaryDirectory() as tmp:
    for fi, F in enumerate(formulas):
        for fname in ['o.cnf', 'o.tex', 'o.opb', 'o', 'o.TEX', 'o.tex.cnf']:
            for rq in [None, 'dimacs', 'latex', 'opb', 'bogus']:
                for hdr in [True, False]:
                    for vn in [True, False]:
                        path = os.path.join(tmp, fname)
                        if os.path.exists(path):
                            os.unlink(path)
                        try:
                            F.to_file(path, fileformat=rq, export_header=hdr,
                                      export_varnames=vn)
                            with open(path, encoding='utf-8') as f:
                                log('tofile', fi, fname, rq, hdr, vn, f.read())
                        except BaseException as e:
                            log('tofile', fi, fname, rq, hdr, vn, 'EXC',
                                type(e).__name__, str(e),
                                os.path.exists(path))
                        # via open file object (has .name)
                        try:
                            with open(path, 'w', encoding='utf-8') as fh:
                                F.to_file(fh, fileformat=rq, export_header=hdr,
                                          export_varnames=vn)
                            with open(path, encoding='utf-8') as f:
                                log('tofileobj', fi, fname, rq, hdr, vn, f.read())
                        except BaseException as e:
                            log('tofileobj', fi, fname, rq, hdr, vn, 'EXC',
                                type(e).__name__, str(e))
        # StringIO: no name -> dimacs by default
        for rq in [None, 'dimacs', 'latex', 'opb', 'x']:
            buf = io.StringIO()
            try:
                F.to_file(buf, fileformat=rq)
                log('sio', fi, rq, buf.getvalue())
            except BaseException as e:
                log('sio', fi, rq, 'EXC', type(e).__name__, str(e))
        # round trip through the default format
        path = os.path.join(tmp, 'rt.cnf')
        F.to_file(path)
        G = CNF.from_file(path)
        log('rt', fi, G.number_of_variables(), list(G),
            G.number_of_variables() == F.number_of_variables(),
            list(G) == list(F))

# command line: output format inferred from the file name
from cnfgen.clitools.cnfgen import cli
with tempfile.TemporaryDirectory() as tmp:
    old = os.getcwd()
    os.chdir(tmp)
    try:
        for out in ['f.cnf', 'f.tex', 'f.opb', 'f']:
            for of in [None, 'dimacs', 'latex', 'opb']:
                argv = ['cnfgen', '-q', '-o', out]
                if of:
                    argv += ['-of', of]
                argv += ['php', '3', '2']
                try:
                    cli(argv, mode='output')
                    # the output file is still open inside argparse namespace;
                    # flush by reading after gc is unreliable: use 'string' too
                    log('cli-string', out, of, cli(argv, mode='string'))
                except BaseException as e:
                    log('cli', out, of, 'EXC', type(e).__name__, str(e))
    finally:
        os.chdir(old)

data = "\n".join(LOG).encode('utf-8', errors='backslashreplace')
print(hashlib.sha256(data).hexdigest())
