"""Equivalence script for t26: VariableCompression."""
import sys, os, hashlib, itertools, random
sys.path.insert(0, os.getcwd())

import networkx as nx
from cnfgen.formula.cnf import CNF
from cnfgen.graphs import BipartiteGraph, bipartite_random_left_regular, bipartite_random
from cnfgen.transformations.substitutions import VariableCompression

out = []
def rec(*a):
    out.append(repr(a))

def sat_count(F):
    n = F.number_of_variables()
    cnt = 0
    for bits in itertools.product([False, True], repeat=n):
        if all(any((bits[abs(l)-1] if l > 0 else not bits[abs(l)-1]) for l in c) for c in F):
            cnt += 1
    return cnt

def run(tag, F, B, function):
    before = (F.number_of_variables(), list(F), list(F.header.items()))
    try:
        G = VariableCompression(F, B, function)
        rec(tag, function, G.number_of_variables(), list(G), list(G.header.items()),
            list(G.all_variable_labels()), G.to_dimacs(),
            sat_count(G) if G.number_of_variables() <= 10 else None)
    except BaseException as e:
        rec(tag, function, 'exc', type(e).__name__, str(e))
    rec(tag, 'untouched', before == (F.number_of_variables(), list(F), list(F.header.items())))

def graph(L, R, edges):
    B = BipartiteGraph(L, R)
    for u, v in edges:
        B.add_edge(u, v)
    return B

cnfs = {
    'empty': CNF(),
    'emptyclause': CNF([[]]),
    'unit': CNF([[1]]),
    'negunit': CNF([[-1]]),
    'small': CNF([[1, -2], [2, 3], [-1, -3]]),
    'taut': CNF([[1, -1], [2, 2], [-3, 3, 1]]),
    'wide': CNF([[1, 2, 3, 4], [-1, -2, -3, -4], [4]]),
}
F = CNF([[1], [-3]]); F.update_variable_number(5); cnfs['unused'] = F
F = CNF([[1, 2]], description='with header'); F.header['transformation 1'] = 'previous'; cnfs['hdr'] = F

functions = ['xor', 'maj', 'and', 'XOR', '', None, 3, ('xor',)]
random.seed(2024)
for name, F in cnfs.items():
    n = F.number_of_variables()
    graphs = {
        'noedges': BipartiteGraph(n, 3),
        'zero-right': BipartiteGraph(n, 0),
        'complete': graph(n, 2, [(u, v) for u in range(1, n+1) for v in (1, 2)]),
        'matching': graph(n, max(n, 1), [(u, u) for u in range(1, n+1)]),
        'onevertex': graph(n, 1, [(u, 1) for u in range(1, n+1)]),
        'wrong-left': BipartiteGraph(n+1, 2),
        'mixed': graph(n, 4, [(u, 1 + (u*j) % 4) for u in range(1, n+1) for j in range(u % 4)]),
    }
    if n > 0:
        graphs['rand-reg'] = bipartite_random_left_regular(n, 5, 3)
        graphs['rand'] = bipartite_random(n, 4, 0.5)
        graphs['wrong-left-small'] = BipartiteGraph(n-1, 2)
    for gname, B in graphs.items():
        for fn in functions:
            run((name, gname), F, B, fn)

# graph given in other formats (normalize path) and wrong types
F = cnfs['small']
G = nx.Graph()
G.add_nodes_from(['a', 'b', 'c'], bipartite=0)
G.add_nodes_from(['x', 'y'], bipartite=1)
G.add_edges_from([('a', 'x'), ('b', 'x'), ('b', 'y'), ('c', 'y')])
for fn in functions:
    run(('small', 'networkx'), F, G, fn)
    run(('small', 'notagraph'), F, 'graph', fn)
    run(('small', 'none'), F, None, fn)

print(hashlib.sha256("\n".join(out).encode()).hexdigest())
