#!/usr/bin/env python
"""Equivalence check for obtain_bipartite_shift (cnfgen/clitools/graph_build.py)
and command lines using the 'shift' bipartite construction."""
import sys, os, hashlib, random, itertools
sys.path.insert(0, os.getcwd())

from cnfgen.clitools import graph_build as gb
from cnfgen.clitools import graph_args as ga
from cnfgen.clitools import cnfgen as cnfgen_cli
from cnfgen.clitools.pbgen import cli as pbgen_cli
from cnfgen.graphs import bipartite_shift

out = []

def rec(*xs):
    out.append(repr(xs))

def attempt(tag, f, *a, **kw):
    try:
        rec(tag, 'OK', f(*a, **kw))
    except BaseException as e:  # noqa
        rec(tag, 'EXC', type(e).__name__, str(e))

def summary(G):
    return (type(G).__name__, G.name, G.left_order(), G.right_order(),
            sorted(G.edges()),
            [tuple(G.right_neighbors(u)) for u in range(1, G.left_order() + 1)])

argsets = [
    [], ['3'], ['3', '4'], ['1', '1'], ['1', '1', '0'], ['1', '1', '1'], ['1', '1', '2'],
    ['0', '3', '1'], ['3', '0', '1'], ['-1', '3'], ['3', '-2'], ['3', '4', '-1'],
    ['3', '4', '0'], ['3', '4', '4'], ['3', '4', '5'], ['3', '4', '0', '4'],
    ['3', '4', '1', '1'], ['3', '4', '2', '1', '2'], ['3', '4', '3', '2', '1', '0'],
    ['3', '4', '0', '1', '2', '3', '4'], ['5', '7', '6', '0', '3'], ['5', '7', '3', '0', '6'],
    ['4', '4', '1', '3'], ['10', '3', '0', '1', '2'], ['2', '9', '8', '9'],
    ['3', '4', 'a'], ['a', '4', '1'], ['3', 'b', '1'], ['3.0', '4', '1'], ['3', '4', '1.0'],
    ['3', '4', '1e0'], ['3', '4', ''], [' 3 ', ' 4', '1 '], ['3', '4', '+1', '+2'],
    ['3', '4', '01', '1'], ['3', '4', '-0', '0'], ['6', '6', '5', '4', '3', '2', '1', '0'],
    ['6', '6', '0', '1', '2', '3', '4', '5', '6'], ['6', '6', '7'],
    [3, 4, 1, 2], [3, 4, None], [None, 4], (3, 4, 0),
]
for a in argsets:
    attempt(('obtain', repr(a)), lambda a=a: summary(gb.obtain_bipartite_shift({'args': a})))
for bad in [None, 5]:
    attempt(('obtain-bad', repr(bad)), gb.obtain_bipartite_shift, {'args': bad})
attempt(('obtain-missing',), gb.obtain_bipartite_shift, {})

# exhaustive small sweep
for L, R in itertools.product(range(0, 4), range(0, 4)):
    for k in range(0, 3):
        for pat in itertools.product(range(-1, R + 2), repeat=k):
            a = [str(L), str(R)] + [str(x) for x in pat]
            attempt(('sweep', tuple(a)), lambda a=a: summary(gb.obtain_bipartite_shift({'args': a})))

# via graph specification, compared with the library generator
for spec in ['shift 4 5 0 1 3', 'shift 4 5 3 1 0', 'shift 4 5', 'shift 4 5 0 0',
             'shift 4 5 6', 'shift 5 5 0 2 addedges 3', 'shift 5 5 0 2 plantbiclique 2 2',
             'shift 3', 'shift', 'shift 3 3 1 save']:
    random.seed(11)
    attempt(('spec', spec), lambda spec=spec: summary(ga.make_graph_from_spec('bipartite', spec.split())))
G = bipartite_shift(4, 5, [0, 1, 3])
rec('lib', sorted(G.edges()))

cmds = [
    ['cnfgen', '-q', 'php', 'shift', '4', '3', '0', '1'],
    ['cnfgen', '-q', 'php', 'shift', '4', '3', '1', '0'],
    ['cnfgen', 'php', 'shift', '5', '4', '0', '2', '3'],
    ['cnfgen', '-q', 'php', '--functional', '--onto', 'shift', '4', '3', '0', '1'],
    ['cnfgen', '-q', 'php', 'shift', '4', '3', '1', '1'],
    ['cnfgen', '-q', 'php', 'shift', '4', '3', '4'],
    ['cnfgen', '-q', 'php', 'shift', '4'],
    ['cnfgen', '-q', 'subsetcard', 'shift', '4', '4', '0', '1', '2'],
    ['cnfgen', '-q', 'subsetcard', '--equal', 'shift', '4', '4', '0', '1', '2', '3'],
    ['cnfgen', '-q', 'parity', 'shift', '4', '4', '0', '1'],
    ['cnfgen', '-q', 'matching', 'shift', '4', '4', '0', '1'],
    ['cnfgen', '-q', 'php', 'shift', '4', '3', '0', '1', '-T', 'xor', '2'],
    ['cnfgen', '-q', 'stone', '3', 'pyramid', '1', '--sparse', '2'],
    ['pbgen', '-q', 'php', 'shift', '4', '3', '0', '1'],
    ['pbgen', '-q', 'subsetcard', 'shift', '4', '4', '0', '1', '2'],
    ['pbgen', '-q', 'php', 'shift', '4', '3', '0', '0'],
]
for c in cmds:
    random.seed(7)
    f = pbgen_cli if c[0] == 'pbgen' else cnfgen_cli
    attempt(('cli', tuple(c)), f, list(c), mode='string')

print(hashlib.sha256("\n".join(out).encode('utf-8')).hexdigest())
