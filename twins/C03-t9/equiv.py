#!/usr/bin/env python
"""Equivalence script for refactoring t9 (BinaryMappingVariables.__init__ / forbid).

Run as:  cd <checkout> && /venv/bin/python equiv.py
Prints one SHA256 digest of everything observable.
"""
import sys, os, hashlib, random
sys.path.insert(0, os.getcwd())

from cnfgen.formula.basecnf import BaseCNF
from cnfgen.formula.cnf import CNF
from cnfgen.formula.variables import BinaryMappingVariables, VariablesManager
from cnfgen.families.cpls import CPLSFormula

out = []


def rec(*items):
    out.append(repr(items))


def attempt(tag, fn):
    try:
        rec(tag, 'ok', fn())
    except Exception as e:  # record type and message
        rec(tag, 'exc', type(e).__name__, str(e))


# 1. direct use of the variable group
for offset in (0, 3):
    for n in range(0, 6):
        for m in range(0, 18):
            F = BaseCNF()
            F.update_variable_number(offset)
            try:
                V = BinaryMappingVariables(F, n, m, labelfmt='f({},{})')
            except Exception as e:
                rec('init', offset, n, m, type(e).__name__, str(e))
                continue
            rec('init', offset, n, m, len(V), V.bits(), type(V.flips).__name__,
                [type(t).__name__ for t in V.flips], list(V.flips),
                F.number_of_variables())
            for i in range(-1, n + 3):
                for j in range(-3, 2 ** V.bits() + 3):
                    attempt(('forbid', offset, n, m, i, j),
                            lambda: V.forbid(i, j))

# negative sizes and odd types
for n, m in [(-1, 3), (3, -1), (-2, -2), (2, 1), (1, 1), (1, 2), (7, 1024), (2, 1025)]:
    def build():
        F = BaseCNF()
        V = BinaryMappingVariables(F, n, m)
        return (len(V), V.bits(), len(V.flips), V.flips[:5], V.flips[-5:],
                [V.forbid(i, j) for i in range(1, n + 1) for j in (0, 1, 2 ** V.bits() - 1)])
    attempt(('sizes', n, m), build)

attempt('forbid-nonint', lambda: BinaryMappingVariables(BaseCNF(), 3, 5).forbid(1, 'a'))
attempt('forbid-float', lambda: BinaryMappingVariables(BaseCNF(), 3, 5).forbid(1, 1.0))
attempt('forbid-none', lambda: BinaryMappingVariables(BaseCNF(), 3, 5).forbid(None, 1))

# 2. through the variable manager: complete / functional / injective etc.
for n in range(1, 5):
    for m in range(1, 10):
        C = CNF()
        x = C.new_variable('x')
        g = C.new_binary_mapping(n, m, label='g({},{})')
        C.force_complete_mapping(g)
        rec('complete', n, m, list(C.clauses()), list(C.all_variable_labels()))
        for meth in ('force_functional_mapping', 'force_surjective_mapping',
                     'force_injective_mapping', 'force_nondecreasing_mapping'):
            def run():
                D = CNF()
                h = D.new_binary_mapping(n, m)
                getattr(D, meth)(h)
                return list(D.clauses())
            attempt((meth, n, m), run)

# 3. CPLS formulas (the C03 family that uses forbid)
for a in range(1, 4):
    for b in (1, 2, 4, 8):
        for c in (1, 2, 4, 8):
            F = CPLSFormula(a, b, c)
            rec('cpls', a, b, c, F.number_of_variables(), list(F.clauses()),
                list(F.all_variable_labels()), F.to_dimacs())
F = CPLSFormula(2, 4, 2)
rec(F.to_latex(), F.to_opb())
for bad in [(0, 2, 2), (1, 3, 2), (1, 2, 3), (1, 0, 1), (1, 1, 0), (2, 6, 4),
            ('a', 2, 2), (1, 2.0, 2), (-1, 2, 2)]:
    attempt(('cpls-bad', bad), lambda: list(CPLSFormula(*bad).clauses()))

# the version string comes from `git describe`: make the digest independent of it
import re
text = re.sub(r"CNFgen \([^)\n]*\)", "CNFgen (VERSION)", "\n".join(out))
print(hashlib.sha256(text.encode('utf-8')).hexdigest())
