#!/usr/bin/env python
"""Equivalence script for the refactoring of compose_two_parsers
(cnfgen/clitools/cmdline.py), the argparse action used by `cnfgen op`
to choose between the ordering principle and graph ordering principle
command lines.  Prints one SHA256 digest."""
import sys, os, io, hashlib, random, argparse
sys.path.insert(0, os.getcwd())
from contextlib import redirect_stderr, redirect_stdout

from cnfgen.clitools.cnfgen import cli
from cnfgen.clitools import CLIParser, compose_two_parsers

H = hashlib.sha256()


def emit(*items):
    for it in items:
        H.update(repr(it).encode('utf-8'))
        H.update(b'\n')


def guarded(label, fn):
    err = io.StringIO()
    out = io.StringIO()
    random.seed(4242)
    try:
        with redirect_stderr(err), redirect_stdout(out):
            res = fn()
        emit('OK', label, res)
    except SystemExit as e:
        emit('EXIT', label, e.code)
    except BaseException as e:
        emit('EXC', label, type(e).__name__, str(e))
    emit('stdout', out.getvalue(), 'stderr', err.getvalue())
    emit('rnd', random.random())


def run_cli(argv):
    guarded(argv, lambda: cli(['cnfgen'] + argv, mode='string'))


# 1. Through the cnfgen command line: ordering principle family
op_lines = [
    ['op', '1'], ['op', '2'], ['op', '4'], ['op', '5', '--total'],
    ['op', '4', '--smart'], ['op', '4', '--knuth2'], ['op', '4', '--knuth3'],
    ['op', '4', '--plant'], ['op', '--plant', '--total', '3'],
    ['op', '6', '3'], ['op', '6', '3', '--total'], ['op', '6', '3', '--plant'],
    ['op', '5', '3'], ['op', '5', '2'], ['op', '4', '0'], ['op', '3', '5'],
    ['op', 'gnm', '5', '6'], ['op', 'gnp', '5', '0.5'], ['op', 'complete', '4'],
    ['op', 'complete', '4', '--smart'], ['op', 'grid', '2', '3', '--knuth2'],
    ['op', 'gnd', '6', '3', '--plant'], ['op', 'complete', '1'],
    ['op'], ['op', '--total'], ['op', 'x'], ['op', '5', 'x'], ['op', '1.5'],
    ['op', '1e1'], ['op', 'nan'], ['op', '5', '3', '2'], ['op', '-3'],
    ['op', '0'], ['op', 'gnm', '5'], ['op', 'nosuchgraph', '3'],
    ['op', '4', '--total', '--smart'], ['op', '4', '--bogus'],
    ['op', 'inf', '3'], ['op', '', '3'], ['op', ' 4'],
]
for line in op_lines:
    run_cli(['-q', '--seed', '11'] + line)
run_cli(['--seed', '5', 'op', '3'])
run_cli(['--seed', '5', '-of', 'latex', 'op', '3', '2'])

# other users of the same action
for line in [['tseitin', '4', '3'], ['tseitin', '5', '3'], ['tseitin', 'first', 'complete', '4'],
             ['tseitin', 'random', 'gnm', '5', '7'], ['tseitin'], ['tseitin', 'x'],
             ['subsetcard', '4'], ['subsetcard', 'glrd', '4', '4', '2'], ['subsetcard'],
             ['op', '3', '-T', 'xor', '2'], ['op', '3', '-T', 'xor'],
             ['op', '3', '-T', 'lift', '2'], ['op', '3', '-T', 'or', 'x']]:
    run_cli(['-q', '--seed', '3'] + line)


# 2. Direct use of compose_two_parsers
def make(test=None, plain=False):
    cls = argparse.ArgumentParser if plain else CLIParser
    p1 = cls()
    p1.add_argument('N', type=int)
    p1.add_argument('d', type=int, nargs='?', default=None)
    p2 = cls()
    p2.add_argument('name')
    p2.add_argument('rest', nargs='*')
    if test is None:
        action = compose_two_parsers(p1, p2)
    else:
        action = compose_two_parsers(p1, p2, test)
    top = cls(prog='topprog')
    top.usage = 'usage of top {}'.format(plain)
    top.description = 'description of the top parser'
    top.add_argument('--flag', action='store_true')
    top.add_argument('args', action=action, nargs='*')
    return top, p1, p2


calls = [[], ['3'], ['3', '4'], ['3', '4', '5'], ['abc'], ['abc', '1', '2'],
         ['--flag', '7'], ['7', '--flag'], ['-h'], ['3', '-h'], ['abc', '-h'],
         ['3', 'x'], ['0x10'], ['1_0'], ['+5'], ['.5'], ['--flag'], ['--', '-5'],
         ['--', '-h'], ['--', 'abc', '-h']]
tests = [None,
         lambda v: len(v) > 1,
         lambda v: v[0] == 'abc',
         lambda v: False,
         lambda v: 1 // (len(v) - 2)]
for plain in (False, True):
    for ti, tst in enumerate(tests):
        top, p1, p2 = make(tst, plain)
        # the same action object is reused for several command lines
        for argv in calls:
            guarded(('direct', plain, ti, argv),
                    lambda: sorted(vars(top.parse_args(argv)).items()))
            emit('attrs', p1.prog, p1.usage, p1.description,
                 p2.prog, p2.usage, p2.description)
        top.prog = 'renamed'
        top.usage = None
        top.description = None
        for argv in [['9'], ['zz', 'y'], ['zz', '-h'], []]:
            guarded(('direct2', plain, ti, argv),
                    lambda: sorted(vars(top.parse_args(argv)).items()))
            emit('attrs', p1.prog, p1.usage, p1.description,
                 p2.prog, p2.usage, p2.description)

# same parser object on both sides
p = CLIParser()
p.add_argument('a', nargs='+')
top = CLIParser(prog='same')
top.add_argument('args', action=compose_two_parsers(p, p), nargs='*')
for argv in [['1'], ['q', 'r'], []]:
    guarded(('same', argv), lambda: sorted(vars(top.parse_args(argv)).items()))

print(H.hexdigest())
