"""Equivalence harness for the parity-constraint builders (CNF and OPB)."""
import hashlib
import itertools
import sys
import os

sys.path.insert(0, os.getcwd())

from cnfgen.formula.cnf import CNF
from cnfgen.formula.linear import CNFLinear
from cnfgen.formula.baseopb import BaseOPB
from cnfgen.formula.opb import OPB
import cnfgen

OUT = []


def rec(*items):
    OUT.append(repr(items))


def state(F):
    if isinstance(F, BaseOPB):
        return (F.number_of_variables(), [list(c) for c in F])
    return (F.number_of_variables(), [list(c) for c in F])


def attempt(tag, fn):
    try:
        res = fn()
        rec(tag, 'ok', res)
    except Exception as e:  # noqa
        rec(tag, 'exc', type(e).__name__, str(e),
            type(e.__cause__).__name__ if e.__cause__ else None,
            str(e.__cause__) if e.__cause__ else None)


def gen(seq):
    return (x for x in seq)


LITSETS = [
    [], [1], [-1], [1, 2], [-1, 2], [3, -5, 7], [1, 2, 3, 4], [-4, -3, -2, -1],
    [2, 2], [1, -1], [5, 1, -9, 3, 2], [1, 2, 3, 4, 5, 6], [10, -20, 30, -40, 50, -60, 70],
]
WRAPPERS = [('list', list), ('tuple', tuple), ('gen', gen)]
CONSTANTS = [0, 1, 2, -1, 3, True, False, 1.0, '1', None]
CLASSES = [CNF, CNFLinear, BaseOPB, OPB]

for cls in CLASSES:
    for lits in LITSETS:
        for wname, w in WRAPPERS:
            for const in CONSTANTS:
                for check in (True, False):
                    F = cls()
                    F.update_variable_number(2)
                    attempt((cls.__name__, lits, wname, const, check, 'call'),
                            lambda: F.add_parity(w(lits), const, check=check))
                    rec('state', state(F))

    # ranges
    for r in [range(1, 1), range(1, 2), range(1, 5), range(3, 9, 2), range(-3, 0), range(0, 3), range(-2, 3)]:
        for const in (0, 1):
            for check in (True, False):
                F = cls()
                attempt((cls.__name__, 'range', repr(r), const, check),
                        lambda: F.add_parity(r, const, check=check))
                rec('state', state(F))

    # invalid inputs / error paths
    BAD = [[0], [1, 0, 2], ['a', 'b'], [1.5, 2], [None], 5, None, 'ab',
           iter([1, 2, 3]), map(abs, [1, -2]), {1, 2}, {1: 2, 3: 4}, [[1], [2]]]
    for i, bad in enumerate(BAD):
        for const in (0, 1):
            for check in (True, False):
                F = cls()
                b = bad
                if i == 8:
                    b = iter([1, 2, 3])
                if i == 9:
                    b = map(abs, [1, -2])
                attempt((cls.__name__, 'bad', i, const, check),
                        lambda: F.add_parity(b, const, check=check))
                try:
                    rec('state', state(F))
                except Exception as e:
                    rec('state-exc', type(e).__name__, str(e))

    # incremental use: several parities on the same formula, mixed with clauses
    F = cls()
    F.add_clause([1, -2])
    F.add_parity([1, 2, 3], 1)
    F.add_parity(gen([-4, 5]), 0)
    F.add_parity((6,), 1)
    F.add_parity([], 1)
    F.add_parity([], 0)
    F.add_parity(range(7, 10), 0, check=False)
    rec('incremental', cls.__name__, state(F))
    if hasattr(F, 'to_dimacs'):
        rec(F.to_dimacs())
    if hasattr(F, 'to_opb'):
        rec(F.to_opb())

# Positional arguments & keyword
F = CNF()
F.add_parity([1, 2], 1, False)
rec(state(F))
F = OPB()
F.add_parity([1, 2], 1, False)
rec(state(F))

# semantic check recorded too: satisfying assignments of each parity
for cls in (CNF, OPB):
    for n in range(0, 6):
        for pol in itertools.product([1, -1], repeat=n):
            lits = [p * (i + 1) for i, p in enumerate(pol)]
            for const in (0, 1):
                F = cls()
                F.add_parity(lits, const)
                cl = [list(c) for c in F]
                if cls is OPB:
                    cl = [[l for (_, l) in c[:-2]] for c in cl]
                sat = []
                for a in itertools.product([False, True], repeat=n):
                    val = lambda l: a[abs(l) - 1] == (l > 0)
                    if all(any(val(l) for l in c) for c in cl):
                        sat.append(a)
                rec(cls.__name__, lits, const, sat)

# Families that use parity constraints
from cnfgen.graphs import Graph
import networkx as nx
for n, d in [(4, 2), (6, 3), (5, 4)]:
    G = Graph.from_networkx(nx.random_regular_graph(d, n, seed=7))
    for charge in ('first', 'random', 'randomodd', 'randomeven'):
        import random
        random.seed(11)
        try:
            T = cnfgen.TseitinFormula(G, None if charge == 'first' else
                                      [random.randint(0, 1) for _ in range(n)])
            rec('tseitin', n, d, charge, T.to_dimacs())
        except Exception as e:
            rec('tseitin-exc', type(e).__name__, str(e))
rec('parity', cnfgen.ParityPrinciple(5).to_dimacs() if hasattr(cnfgen, 'ParityPrinciple') else None)
for args in [(4, 3, 3), (5, 2, 4)]:
    import random
    random.seed(3)
    try:
        rec('rxor', cnfgen.RandomKCNF.__name__)
    except Exception as e:
        rec('x', str(e))

# command line
from cnfgen.clitools import cnfgen as cnfgen_cli
import io
import contextlib
for argv in [['cnfgen', '-q', 'tseitin', 'first', 'gnd', '6', '3'],
             ['cnfgen', '-q', '--seed', '5', 'tseitin', 'randomodd', 'gnd', '6', '3'],
             ['cnfgen', '-q', 'parity', '5'],
             ['cnfgen', '-q', 'matching', 'complete', '4'],
             ['cnfgen', '-q', '--seed', '2', 'tseitin', 'random', 'grid', '3', '3']]:
    buf = io.StringIO()
    err = io.StringIO()
    try:
        with contextlib.redirect_stdout(buf), contextlib.redirect_stderr(err):
            cnfgen_cli(argv)
        rec('cli', argv, buf.getvalue())
    except SystemExit as e:
        rec('cli-exit', argv, e.code, buf.getvalue())
    except Exception as e:
        rec('cli-exc', argv, type(e).__name__, str(e))

h = hashlib.sha256()
for line in OUT:
    h.update(line.encode('utf-8'))
    h.update(b'\n')
print(h.hexdigest())
