#!/usr/bin/env python
"""Equivalence script for the refactoring of
cnfgen.transformations.substitutions.apply_substitution.

Run as:  cd <checkout> && /venv/bin/python equiv.py
Prints one SHA256 digest of everything observed.
"""
import os
import sys
import io
import hashlib
import inspect
from contextlib import redirect_stdout, redirect_stderr

sys.path.insert(0, os.getcwd())

import networkx as nx

import cnfgen
from cnfgen.formula.cnf import CNF
from cnfgen.graphs import BipartiteGraph
from cnfgen.transformations import substitutions as S
from cnfgen.transformations.substitutions import apply_substitution
from cnfgen.clitools import cnfgen as cnfgen_cli   # the cli() function

H = hashlib.sha256()
LOG = []


def rec(*items):
    line = ' '.join(repr(x) for x in items)
    LOG.append(line)
    H.update(line.encode('utf-8'))
    H.update(b'\n')


def attempt(tag, fn):
    try:
        res = fn()
        # formulas are dumped separately (their repr contains an address)
        rec(tag, 'OK', str(res) if isinstance(res, CNF) else res)
        return res
    except Exception as e:  # noqa
        rec(tag, 'EXC', type(e).__name__, str(e))
        return None


def dump(tag, F):
    if F is None:
        rec(tag, None)
        return
    lits = [l for c in F for l in c]
    maxv = max([abs(l) for l in lits] or [0])
    rec(tag, 'nv', F.number_of_variables(), 'nc', len(F), 'maxv', maxv,
        'inrange', maxv <= F.number_of_variables(), 'nozero', 0 not in lits,
        'debug', F.debug(True, True))
    rec(tag, 'header', list(F.header.items()))
    rec(tag, 'labels', list(F.all_variable_labels())[:30])
    rec(tag, 'types', sorted(set(type(c).__name__ for c in F._clauses)))
    text = F.to_dimacs()
    rec(tag, 'dimacs', len(text), hashlib.sha256(
        text.encode('utf-8')).hexdigest())
    if len(F) <= 40:
        rec(tag, 'clauses', list(F))


def bases():
    out = []
    out.append(('empty', CNF()))
    out.append(('emptyclause', CNF([[]])))
    out.append(('onlyvars', (lambda F: (F.update_variable_number(3), F)[1])(CNF())))
    out.append(('unit', CNF([[1]])))
    out.append(('negunit', CNF([[-1]])))
    out.append(('small', CNF([[1, -2], [], [2, 3, -1], [-3], [1, 1], [2, -2]])))
    F = CNF([[1, -2]])
    F.update_variable_number(5)       # unused trailing variables
    out.append(('trailing', F))
    out.append(('php', cnfgen.PigeonholePrinciple(5, 4)))
    out.append(('op', cnfgen.OrderingPrinciple(5)))
    out.append(('tseitin', cnfgen.TseitinFormula(nx.cycle_graph(6))))
    out.append(('peb', cnfgen.PebblingFormula(
        nx.DiGraph([(1, 3), (2, 3), (3, 5), (4, 5), (2, 4)]))))
    out.append(('rand', cnfgen.RandomKCNF(3, 12, 30, seed=5)))
    out.append(('curly', (lambda F: (F.new_block(2, 2, label='z_{{{},{}}}'),
                                     F.add_clause([1, -4]), F)[2])(CNF())))
    return out


def compression_graph(n, m):
    B = BipartiteGraph(n, m)
    for u in range(1, n + 1):
        for d in range(3):
            v = (u * 2 + d * d) % m + 1
            if not B.has_edge(u, v):
                B.add_edge(u, v)
    return B


def transformations():
    for name, F in bases():
        n = F.number_of_variables()
        dump('base:' + name, F)
        dump(name + ':flip', attempt(name + ':flip', lambda: S.FlipPolarity(F)))
        dump(name + ':ite', attempt(name + ':ite',
                                    lambda: S.IfThenElseSubstitution(F)))
        for k in (1, 2, 3):
            big = len(F) > 40 and k == 3
            for tname, T in (('xor', S.XorSubstitution),
                             ('or', S.OrSubstitution),
                             ('and', S.AndSubstitution),
                             ('maj', S.MajoritySubstitution),
                             ('eq', S.AllEqualSubstitution),
                             ('neq', S.NotAllEqualSubstitution),
                             ('one', S.ExactlyOneSubstitution),
                             ('lift', S.FormulaLifting)):
                if big and tname in ('xor', 'maj', 'one', 'neq', 'eq'):
                    continue
                tag = '{}:{}{}'.format(name, tname, k)
                dump(tag, attempt(tag, lambda: T(F, k)))
        for tname, T in (('atleast', S.AtLeastKSubstitution),
                         ('atmost', S.AtMostKSubstitution),
                         ('exactly', S.ExactlyKSubstitution),
                         ('anybut', S.AnythingButKSubstitution)):
            for (N, k) in ((2, 1), (3, 2), (2, 0), (2, 3)):
                if len(F) > 40 and N == 3:
                    continue
                tag = '{}:{}{}-{}'.format(name, tname, N, k)
                dump(tag, attempt(tag, lambda: T(F, N, k)))
        if n > 0:
            B = compression_graph(n, max(3, n // 2))
            for fn in ('xor', 'maj'):
                tag = '{}:compress-{}'.format(name, fn)
                dump(tag, attempt(tag, lambda: S.VariableCompression(F, B, fn)))
        # bad arguments
        attempt(name + ':xor0', lambda: S.XorSubstitution(F, 0))
        attempt(name + ':or-1', lambda: S.OrSubstitution(F, -1))
        attempt(name + ':liftstr', lambda: S.FormulaLifting(F, 'a'))
        attempt(name + ':badcompress', lambda: S.VariableCompression(
            F, compression_graph(n + 1, 3), 'xor'))
    # chains
    F = cnfgen.PigeonholePrinciple(3, 2)
    G = S.OrSubstitution(S.XorSubstitution(F, 2), 2)
    dump('chain1', G)
    G = S.FlipPolarity(S.FormulaLifting(S.IfThenElseSubstitution(F), 2))
    dump('chain2', G)
    G = cnfgen.Shuffle(S.MajoritySubstitution(F, 3),
                       polarity_flips=[-1] * 18)
    dump('chain3', G)


def direct():
    """apply_substitution itself: laziness, order of the calls, error cases"""
    rec('isgenfn', inspect.isgeneratorfunction(apply_substitution))
    events = []

    def tracing(lit):
        events.append(('subst', lit))
        if lit > 0:
            return [[lit, lit + 100], [lit + 200]]
        return [[lit], [lit - 100, lit - 200], []]

    F = CNF([[1, -2], [], [3], [-3, 2, 1]])
    F.update_variable_number(4)
    it = apply_substitution(F, tracing)
    rec('type', type(it).__name__)
    events.append('created')
    for c in it:
        events.append(('yield', c, type(c).__name__))
    rec('events', events)

    # the clauses of the formula are read while iterating
    F = CNF([[1], [2]])
    it = apply_substitution(F, lambda l: [[l]])
    first = next(it)
    F.add_clause([-1, -2])
    rec('lazy', first, list(it))

    # a formula changed after the table is built
    F = CNF([[1], [2]])
    it = apply_substitution(F, lambda l: [[l]])
    first = next(it)
    F.add_clause([3])
    attempt('grown', lambda: list(it))

    # various shapes returned by the substitution
    F = CNF([[1, -2], [2]])
    shapes = [
        ('emptycnf', lambda l: []),
        ('emptyclause', lambda l: [[]]),
        ('tuples', lambda l: ((l,), (l, -l))),
        ('gens', lambda l: [iter([l, l])]),
        ('flat', lambda l: [l, -l]),
        ('none', lambda l: None),
        ('int', lambda l: l),
        ('string', lambda l: ['ab', 'c']),
        ('mixed', lambda l: [[l]] if l > 0 else [-l]),
        ('raises', lambda l: 1 // (l - 2)),
    ]
    for tag, sub in shapes:
        attempt('shape:' + tag, lambda: list(apply_substitution(F, sub)))
    attempt('shape:on-empty', lambda: list(apply_substitution(CNF(), None)))
    attempt('shape:no-clauses', lambda: list(apply_substitution(
        (lambda G: (G.update_variable_number(2), G)[1])(CNF()), lambda l: [[l]])))
    # literal outside the table
    G = CNF()
    G.add_clause([1, 5], check=False)
    G.update_variable_number(2)
    attempt('outside', lambda: list(apply_substitution(G, lambda l: [[l]])))
    G = CNF()
    G.add_clause([1, 4], check=False)    # 4 == -1 modulo the table size 5
    G.update_variable_number(2)
    attempt('wrap', lambda: list(apply_substitution(G, lambda l: [[l]])))
    G = CNF()
    G.add_clause([1, 0], check=False)
    G.update_variable_number(1)
    attempt('zero', lambda: list(apply_substitution(G, lambda l: [[l]])))


def cli():
    for argv in (['cnfgen', '-q', 'php', '4', '3', '-T', 'xor', '2'],
                 ['cnfgen', '-q', 'op', '4', '-T', 'lift', '2', '-T', 'or', '2'],
                 ['cnfgen', '-q', 'php', '3', '2', '-T', 'and', '2'],
                 ['cnfgen', '-q', 'parity', '4', '-T', 'flip', '-T', 'ite'],
                 ['cnfgen', '-q', 'and', '0', '0', '-T', 'maj', '3'],
                 ['cnfgen', '-q', 'or', '0', '0', '-T', 'eq', '2'],
                 ['cnfgen', '-q', 'php', '3', '2', '-T', 'one', '0'],
                 ['cnfgen', '-q', 'peb', 'pyramid', '3', '-T', 'exact', '3', '2'],
                 ['cnfgen', '-q', '--seed', '3', 'randkcnf', '3', '8', '15',
                  '-T', 'xorcomp', 'glrd', '8', '4', '3']):
        out, err = io.StringIO(), io.StringIO()
        code = None
        try:
            with redirect_stdout(out), redirect_stderr(err):
                cnfgen_cli(argv)
        except SystemExit as e:
            code = e.code
        except Exception as e:  # noqa
            code = (type(e).__name__, str(e))
        rec('cli', argv, code, out.getvalue(), err.getvalue())


direct()
transformations()
cli()

if '-v' in sys.argv:
    print('\n'.join(LOG))
print(H.hexdigest())
