#!/usr/bin/env python
"""Equivalence script for refactoring t21 (compression command line helpers).

Run as:  cd <checkout> && /venv/bin/python equiv.py
Prints one SHA256 digest of everything observable.
"""
import os
import sys
import io
import argparse
import hashlib
import random
from contextlib import redirect_stdout, redirect_stderr

sys.path.insert(0, os.getcwd())

from cnfgen import CNF
from cnfgen.graphs import BipartiteGraph
from cnfgen.clitools import cnfgen, CLIError
from cnfgen.clitools.cmdline import get_transformation_helpers
from cnfgen.clihelpers import transformation_helpers as TH

OUT = []


def emit(*things):
    OUT.append(repr(things))


def observe(tag, F):
    emit(tag, 'nvars', F.number_of_variables())
    emit(tag, 'clauses', [list(c) for c in F.clauses()])
    emit(tag, 'header', sorted((str(k), str(v)) for k, v in F.header.items()))
    emit(tag, 'labels', list(F.all_variable_labels()))
    emit(tag, 'dimacs', F.to_dimacs())


def run_cli(argv, mode):
    """Run the command line, catching output, errors and exit codes"""
    tag = 'cli/{}/{}'.format(mode, ' '.join(str(a) for a in argv))
    so, se = io.StringIO(), io.StringIO()
    try:
        with redirect_stdout(so), redirect_stderr(se):
            res = cnfgen(['cnfgen'] + list(argv), mode=mode)
    except SystemExit as e:
        emit(tag, 'EXIT', e.code)
        res = None
    except BaseException as e:  # noqa
        emit(tag, 'EXC', type(e).__name__, str(e))
        res = None
    emit(tag, 'stdout', so.getvalue())
    emit(tag, 'stderr', se.getvalue())
    if isinstance(res, str):
        emit(tag, 'string', res)
    elif res is not None:
        observe(tag, res)
    # state of the random stream after the command
    emit(tag, 'rnd', random.random())


def bipartite(L, R, edges):
    B = BipartiteGraph(L, R)
    for u, v in edges:
        B.add_edge(u, v)
    return B


def direct(tag, cls, F, ns):
    try:
        G = cls.transform_cnf(F, ns)
    except BaseException as e:  # noqa
        emit(tag, 'EXC', type(e).__name__, str(e))
        return
    observe(tag, G)
    emit(tag, 'rnd', random.random())


def main():
    # which helpers are discovered, and their public surface
    helpers = get_transformation_helpers()
    emit('helpers', [(h.__name__, h.name) for h in helpers])
    for cls in (TH.XorCompressionCmd, TH.MajCompressionCmd):
        emit('class', cls.__name__, cls.name,
             issubclass(cls, TH.TransformationHelper),
             callable(cls.transform_cnf), callable(cls.setup_command_line))

    # command line
    formulas = [['php', 3, 2], ['php', 7, 5], ['op', 3], ['and', 0, 0],
                ['or', 1, 0], ['or', 2, 2], ['randkcnf', 3, 6, 9]]
    tails = [[4], [4, 2], [12, 3], [1], [1, 1], [3, 3], [2, 5], [0], [-1],
             [4, 0], ['x'], [4, 'x'], [4, 2, 1], [],
             ['glrd', 6, 4, 2], ['glrd', 35, 12, 3], ['glrd', 30, 12, 3],
             ['glrm', 9, 5, 20], ['regular', 6, 4, 2], ['complete', 6, 3],
             ['complete', 2, 2], ['complete', 4, 1], ['gnp', 6, 5, 0.5],
             ['nosuchgraph', 3], ['-h']]
    for T in ('xorcomp', 'majcomp'):
        for fi, f in enumerate(formulas):
            for ti, t in enumerate(tails):
                if fi > 1 and ti % 3 != fi % 3:
                    continue
                random.seed(99)
                argv = ['--seed', 17 + ti] + f + ['-T', T] + t
                run_cli(argv, 'formula')
        random.seed(5)
        run_cli(['-q', '--seed', 3, 'php', 4, 3, '-T', T, 5, 2], 'string')
        run_cli(['--seed', 3, 'php', 4, 3, '-T', T, 5, 2], 'output')
        run_cli(['--seed', 3, '-v', 'php', 4, 3, '-T', T, 'glrd', 12, 5, 2], 'output')
        run_cli(['--seed', 3, '-of', 'latex', 'php', 3, 2, '-T', T, 4, 2], 'output')
        run_cli(['--seed', 3, 'php', 3, 2, '-T', T, 4, 2, '-T', T, 3], 'formula')
        run_cli(['--seed', 3, 'php', 3, 2, '-T', 'xor', 2, '-T', T, 5, 2, '-T', 'flip'], 'formula')
    run_cli(['--seed', 8, 'php', 3, 2, '-T', 'xorcomp', 4, 2, '-T', 'majcomp', 3], 'formula')
    run_cli(['--seed', 8, 'php', 3, 2, '-T', 'majcomp', 4, 2, '-T', 'xorcomp', 3], 'formula')

    # direct use of the helper classes
    F0 = CNF()
    F1 = CNF([[]])
    F2 = CNF([[1, -2], [2, 3], [-1, -3]])
    F3 = CNF([[1, -2]])
    F3.update_variable_number(5)
    F4 = CNF()
    a = F4.new_variable('a_{1}')
    b = F4.new_block(2, label='b_{}')
    F4.add_clause([a, -b(1), b(2)])
    for cls in (TH.XorCompressionCmd, TH.MajCompressionCmd):
        for fname, F in (('F0', F0), ('F1', F1), ('F2', F2), ('F3', F3), ('F4', F4)):
            n = F.number_of_variables()
            for N, d in ((1, 1), (3, 1), (3, 3), (4, 2), (2, 3), (5, 0)):
                random.seed(1234)
                direct('direct/{}/{}/N{}d{}'.format(cls.__name__, fname, N, d),
                       cls, F, argparse.Namespace(N=N, d=d))
            B = bipartite(n, 3, [(u, 1 + (u % 3)) for u in range(1, n + 1)]
                          + [(u, 1 + ((u + 1) % 3)) for u in range(1, n + 1)])
            random.seed(1234)
            direct('direct/{}/{}/B'.format(cls.__name__, fname),
                   cls, F, argparse.Namespace(B=B))
            direct('direct/{}/{}/Bwrong'.format(cls.__name__, fname),
                   cls, F, argparse.Namespace(B=bipartite(n + 2, 3, [])))
            # both present: N wins
            random.seed(1234)
            direct('direct/{}/{}/both'.format(cls.__name__, fname),
                   cls, F, argparse.Namespace(B=B, N=4, d=2))
            # N without d, and nothing at all
            direct('direct/{}/{}/Nonly'.format(cls.__name__, fname),
                   cls, F, argparse.Namespace(N=4))
            direct('direct/{}/{}/nothing'.format(cls.__name__, fname),
                   cls, F, argparse.Namespace())

    # the version string comes from `git describe`: it is not part of the behaviour
    from cnfgen.info import info
    text = '\n'.join(OUT).replace('CNFgen ({})'.format(info['version']), 'CNFgen (VERSION)')
    digest = hashlib.sha256(text.encode('utf-8')).hexdigest()
    print(digest)


if __name__ == '__main__':
    main()
