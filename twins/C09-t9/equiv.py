#!/usr/bin/env python
"""Equivalence check for cnfgen.clitools.cnfgen.parse_command_line
(splitting of the command line around '-T', used by '-T shuffle')."""
import sys, os, io, hashlib, random, itertools, contextlib
sys.path.insert(0, os.getcwd())

from cnfgen.clitools.cnfgen import cli, parse_command_line, setup_command_line_parsers
from cnfgen.clitools.cmdline import get_formula_helpers, get_transformation_helpers

H = hashlib.sha256()
def rec(*items):
    if os.environ.get("DUMP"): print(repr(items))
    for it in items:
        H.update(repr(it).encode('utf-8'))
        H.update(b'\x00')

def ns(a):
    d = {}
    for k, v in sorted(vars(a).items()):
        if isinstance(v, type):
            v = v.__name__
        elif hasattr(v, 'name') and hasattr(v, 'mode'):
            v = ('file', v.name, v.mode)
        elif isinstance(v, io.IOBase):
            v = ('stream', type(v).__name__)
        d[k] = v
    return sorted(d.items(), key=lambda kv: kv[0])

def run(f, *args, **kw):
    out, err = io.StringIO(), io.StringIO()
    try:
        with contextlib.redirect_stdout(out), contextlib.redirect_stderr(err):
            r = f(*args, **kw)
        res = ('ok', r)
    except SystemExit as e:
        res = ('exit', e.code)
    except BaseException as e:
        res = ('exc', type(e).__name__, str(e))
    return res, out.getvalue(), err.getvalue()

# --- direct calls of parse_command_line
fh = get_formula_helpers()
th = get_transformation_helpers()
parser, t_parser = setup_command_line_parsers('cnfgen', fh, th)

switches = ['-p', '-v', '-c', '--no-polarity-flips', '--no-variables-permutation',
            '--no-clauses-permutation']
shuffle_chunks = [[]]
for k in range(1, 4):
    for comb in itertools.combinations(switches[:3], k):
        shuffle_chunks.append(list(comb))
shuffle_chunks += [['--no-polarity-flips'], ['--no-variables-permutation', '-c'],
                   ['--no-clauses-permutation', '-p', '-v']]

cmdlines = []
for sw in shuffle_chunks:
    cmdlines.append(['cnfgen', '-q', 'php', '4', '3', '-T', 'shuffle'] + sw)
    cmdlines.append(['cnfgen', '-S', '17', 'op', '4', '-T', 'shuffle'] + sw + ['-T', 'shuffle'] + sw[::-1])
cmdlines += [
    ['cnfgen'],
    [],
    ['-T'],
    ['cnfgen', '-T'],
    ['cnfgen', '-T', '-T'],
    ['cnfgen', 'php', '3', '2'],
    ['cnfgen', 'php', '3', '2', '-T'],
    ['cnfgen', 'php', '3', '2', '-T', '-T', 'shuffle'],
    ['cnfgen', 'php', '3', '2', '-T', 'shuffle', '-T'],
    ['cnfgen', 'php', '3', '2', '-T', 'shuffle', '-x'],
    ['cnfgen', 'php', '3', '2', '-T', 'shuffle', '3'],
    ['cnfgen', 'php', '3', '2', '-T', 'nosuch'],
    ['cnfgen', 'php', '3', '2', '-T', 'xor', '2', '-T', 'shuffle', '-c'],
    ['cnfgen', 'php', '3', '2', '-T', 'shuffle', '-T', 'or', '2', '-T', 'shuffle', '-p'],
    ['cnfgen', '-T', 'shuffle', 'php', '3', '2'],
    ['cnfgen', '-T', 'shuffle'],
    ['-T', 'php', '3', '2'],
    ['cnfgen', 'php', '-T', 'shuffle'],
    ['cnfgen', '-q', '-S', '5', 'randkcnf', '3', '8', '12', '-T', 'shuffle', '-v'],
    ['cnfgen', 'php', '3', '2', '-TT', 'shuffle'],
    ['cnfgen', 'php', '3', '2', '-T shuffle'],
    ['cnfgen', 'and', '2', '2', '-T', 'shuffle', '-pvc'],
    ['cnfgen', 'and', '0', '0', '-T', 'shuffle'],
    ['cnfgen', 'or', '3', '1', '-T', 'none', '-T', 'shuffle', '-T', 'none'],
]

for argv in cmdlines:
    random.seed(1234)
    res, out, err = run(parse_command_line, list(argv), parser, t_parser)
    if res[0] == 'ok':
        fargs, targs = res[1]
        res = ('ok', ns(fargs), [ns(t) for t in targs], type(targs).__name__)
    rec('parse', argv, res, out, err)

# --- full command line runs
for argv in cmdlines:
    for mode in ('string', 'formula'):
        random.seed(99)
        res, out, err = run(cli, list(argv), mode=mode)
        if res[0] == 'ok' and mode == 'formula' and res[1] is not None:
            F = res[1]
            res = ('ok', F.number_of_variables(), [list(c) for c in F], list(F.header.items()))
        rec('cli', mode, argv, res, out, err)

# seeds: random stream for a given seed
for seed in range(12):
    for sw in shuffle_chunks[:8]:
        argv = ['cnfgen', '-q', '-S', str(seed), 'randkcnf', '3', '7', '9', '-T', 'shuffle'] + sw
        res, out, err = run(cli, argv, mode='string')
        rec('seed', argv, res, out, err, random.random())

# output mode to stdout
for argv in cmdlines[:6]:
    random.seed(3)
    res, out, err = run(cli, list(argv), mode='output')
    rec('output', argv, res, out, err)

print(H.hexdigest())
