#!/usr/bin/env python
"""Equivalence harness for the OPB writer (cnfgen/utils/opb.py).

Renders CNF and OPB formulas in OPB format through every public entry
point (to_opb, to_file on file objects / file names / stdout, and the
two command line tools) and hashes everything observable.
"""
import sys, os, io, hashlib, random, tempfile, contextlib
sys.path.insert(0, os.getcwd())

from cnfgen.formula.cnf import CNF
from cnfgen.formula.opb import OPB
from cnfgen.formula.cnfio import CNFio
from cnfgen.formula.opbio import OPBio
from cnfgen.clitools.cnfgen import cli as cnfgen_cli
from cnfgen.clitools.pbgen import cli as pbgen_cli

H = hashlib.sha256()
VERBOSE = os.environ.get('EQUIV_VERBOSE')

# work with relative file names inside a scratch directory, so that no
# random path ends up in headers or messages
_scratch = tempfile.TemporaryDirectory()
os.chdir(_scratch.name)


def rec(*items):
    for it in items:
        if VERBOSE:
            print('REC', repr(it)[:3000], file=sys.__stderr__)
        H.update(repr(it).encode('utf-8'))
        H.update(b'\x00')


def attempt(tag, fn):
    try:
        rec(tag, 'ok', fn())
    except BaseException as e:   # SystemExit included
        rec(tag, 'exc', type(e).__name__, str(e))
        if VERBOSE:
            print('EXC', tag, type(e).__name__, str(e)[:200], file=sys.__stderr__)


def render_all(tag, F):
    """All the ways to get an OPB rendering out of F"""
    attempt(tag + ':to_opb', F.to_opb)
    for eh in (True, False):
        for ev in (True, False):
            buf = io.StringIO()
            attempt(tag + ':to_file%d%d' % (eh, ev),
                    lambda: F.to_file(buf, fileformat='opb',
                                      export_header=eh, export_varnames=ev))
            rec(buf.getvalue())
    # by file name, with and without the format guessed by extension
    with tempfile.TemporaryDirectory(dir='.') as d:
        d = os.path.relpath(d)
        for name, ff in (('a.opb', None), ('b.txt', 'opb'), ('c.opb', 'opb')):
            path = os.path.join(d, name)
            attempt(tag + ':fname:' + name,
                    lambda: F.to_file(path, fileformat=ff, export_varnames=True))
            with open(path, 'rb') as fh:
                rec(fh.read())
    # standard output
    out = io.StringIO()
    with contextlib.redirect_stdout(out):
        attempt(tag + ':stdout', lambda: F.to_file(None, fileformat='opb'))
    rec(out.getvalue())


# ---------------------------------------------------------------- library
def library_formulas():
    yield 'cnf-empty', CNF()
    yield 'opb-empty', OPB()
    F = CNF([[1, 2, -3], [-2, 4], [], [5], [-5]])
    yield 'cnf-small', F
    F = CNFio([[-1, 2, -3], [-2, -4], [2, 3, -4]])
    yield 'cnfio', F
    F = OPB()
    F.add_clause([1, 2, -3])
    F.add_clause([])
    F.add_constraint([(1, 3), (-2, 2), (1, 4), '>', 3])
    F.add_constraint([(2, -3), '<', 1])
    F.add_constraint([(1, 3), (2, 1), (-3, -2), '==', 3])
    F.add_constraint([(10, 1), (200, -7), '<=', -5])
    F.add_constraint(['>=', 0])
    F.add_constraint(['==', 2])
    yield 'opb-mixed', F
    F = OPBio()
    F.cardinality_geq([1, 2, 4, -3], 3)
    F.cardinality_leq([1, 4, 2], 2)
    F.cardinality_eq([3, -4], 1)
    F.cardinality_neq([1, 2, 3], 2)
    F.add_parity([1, -2, 5], 1)
    yield 'opbio', F
    # headers: multi line, non ascii, empty, numbers
    for cls in (CNF, OPB):
        F = cls(description='una fórmula ∈ test\nsecond line\n')
        F.header['empty'] = ''
        F.header['number'] = 42
        F.header['multi'] = 'a\n\nb'
        x = F.new_variable(label='X\nY')
        y = F.new_variable(label='α')
        B = F.new_block(2, 3, label='z_{{{},{}}}')
        F.add_clause([x, -y, B(2, 3)])
        F.add_clause([-B(1, 1), 9])
        f = F.new_mapping(3, 2)
        F.force_complete_mapping(f)
        F.force_injective_mapping(f)
        F.force_functional_mapping(f)
        yield cls.__name__ + '-labels', F
    # unchecked content
    F = CNF()
    F.add_clauses_from([[-1, 2], [1, 0, -2], [1, 3]], check=False)
    yield 'cnf-unchecked', F
    F = OPB()
    F.add_clauses_from([[-1, 2], [1, 0, -2], [1, 3]], check=False)
    F.add_constraint([(0, 1), (3, 0), '>=', 1], check=False)
    yield 'opb-unchecked', F
    # random material
    rnd = random.Random(1108)
    for i in range(6):
        C, P = CNF(), OPB()
        for _ in range(rnd.randint(0, 12)):
            lits = [rnd.choice([-1, 1]) * rnd.randint(1, 15)
                    for _ in range(rnd.randint(0, 6))]
            C.add_clause(lits)
            P.add_constraint([(rnd.randint(-9, 9), l) for l in lits]
                             + [rnd.choice(['>=', '<=', '==', '<', '>']),
                                rnd.randint(-4, 8)])
        yield 'rnd-cnf%d' % i, C
        yield 'rnd-opb%d' % i, P


for tag, F in library_formulas():
    render_all(tag, F)

# something that is neither a CNF nor a OPB
from cnfgen.utils import opb as opbmodule
writer = [getattr(opbmodule, n) for n in sorted(dir(opbmodule))
          if n.endswith('opb_file') and not n.startswith('_')]
rec(len(writer))


class Fake:
    header = {'k': 'v'}
    def number_of_variables(self): return 3
    def __len__(self): return 1
    def __iter__(self): return iter([[1, 2]])
    def all_variable_labels(self): return iter(['a', 'b', 'c'])


buf = io.StringIO()
attempt('fake', lambda: writer[0](Fake(), buf, export_varnames=True))
rec(buf.getvalue())

# ---------------------------------------------------------------- tools
CMDS = [
    ['php', 4, 3], ['php', 3, 3, '--functional', '--onto'], ['php', 0, 0],
    ['bphp', 3, 2], ['rphp', 2, 3, 2], ['op', 4], ['op', 3, '--total'],
    ['and', 2, 1], ['or', 0, 0], ['true'], ['false'],
    ['parity', 3], ['count', 4, 2], ['matching', 'complete', 4],
    ['tseitin', 'first', 'grid', 2, 3], ['peb', 'pyramid', 2],
    ['stone', 2, 'pyramid', 1], ['kcolor', 3, 'complete', 3],
    ['ec', 'complete', 3], ['domset', 2, 'grid', 2, 2],
    ['tiling', 'grid', 2, 2], ['kclique', 2, 'complete', 3],
    ['kcliquebin', 2, 'complete', 3], ['ram', 2, 2, 3], ['ptn', 5],
    ['vdw', 4, 2, 2], ['subsetcard', 'bcomplete', 3, 3],
    ['cliquecoloring', 3, 2, 2], ['cpls', 2, 2, 2],
    ['randkcnf', 3, 6, 7], ['iso', 'complete', 2],
    ['ramlb', 2, 2, 'gnp', 4, 0.5],
    ['subgraph', '-G', 'complete', 4, '-H', 'complete', 2],
    ['pitfall', 4, 2, 2, 1, 2],
]
for cmd in CMDS:
    for opts in ([], ['-q'], ['--varnames']):
        argv_c = ['cnfgen', '-S', 7, '-of', 'opb'] + opts + cmd
        argv_p = ['pbgen', '-S', 7] + opts + cmd
        attempt('cnfgen:' + repr(argv_c), lambda: cnfgen_cli(argv_c, mode='string'))
        attempt('pbgen:' + repr(argv_p), lambda: pbgen_cli(argv_p, mode='string'))
    # full output path of the tools
    for tool, cli in (('cnfgen', cnfgen_cli), ('pbgen', pbgen_cli)):
        if True:
            path = 'out.opb'
            if os.path.exists(path):
                os.unlink(path)
            argv = [tool, '-S', 7, '--varnames', '-o', path] + cmd
            err = io.StringIO()
            with contextlib.redirect_stderr(err):
                attempt(tool + ':file:' + repr(cmd), lambda: cli(argv, mode='output'))
            rec(err.getvalue())
            if os.path.exists(path):
                with open(path, 'rb') as fh:
                    rec(fh.read())
    # the formula object of pbgen rendered again
    def both():
        F = pbgen_cli(['pbgen', '-S', 7] + cmd, mode='formula')
        return (F.number_of_variables(), len(F), F.to_opb())
    attempt('pbgen:formula:' + repr(cmd), both)

os.chdir('/')
_scratch.cleanup()
print(H.hexdigest())
