#!/usr/bin/env python
"""Equivalence script for property C09 (shuffling).

Exercises cnfgen.Shuffle, the cnfshuffle tool (cli + main), the DIMACS
reader it depends on and `cnfgen ... -T shuffle`, and prints one SHA256
digest of everything observable.
"""
import hashlib
import io
import itertools
import os
import random
import sys
import tempfile
from contextlib import redirect_stdout, redirect_stderr

sys.path.insert(0, os.getcwd())

from cnfgen import CNF, Shuffle, RandomKCNF, PigeonholePrinciple
from cnfgen.clitools import cnfshuffle, cnfgen as cnfgen_cli, redirect_stdin
import cnfgen.clitools.cnfshuffle  # noqa
cnfshuffle_module = sys.modules['cnfgen.clitools.cnfshuffle']
from cnfgen.utils.parsedimacs import from_dimacs_file
from cnfgen.info import info as _info
VERSION = str(_info['version'])

H = hashlib.sha256()


DEBUG = os.environ.get('EQUIV_DEBUG')
TMPDIR = tempfile.mkdtemp(prefix='equiv_c09_')


def rec(*items):
    if DEBUG:
        print(repr(items).replace(TMPDIR, '<TMP>').replace(VERSION, '<VER>')[:400])
    for it in items:
        H.update(repr(it).replace(TMPDIR, '<TMP>').replace(VERSION, '<VER>').encode('utf-8'))
        H.update(b'\x00')


def rng_mark():
    return hashlib.sha256(repr(random.getstate()).encode()).hexdigest()


def describe(F):
    return (F.number_of_variables(), F.number_of_clauses(),
            [tuple(c) for c in F], sorted(F.header.items()), F.to_dimacs())


def attempt(label, fn):
    try:
        res = fn()
        rec(label, 'ok', res)
    except SystemExit as e:
        rec(label, 'exit', e.code)
    except Exception as e:  # noqa
        rec(label, 'exc', type(e).__name__, str(e))
    rec(rng_mark())


# ---------------------------------------------------------------- formulas
def formulas():
    out = []
    out.append(('empty', CNF()))
    F = CNF()
    F.update_variable_number(3)
    out.append(('novars-clauses', F))
    F = CNF([[]])
    out.append(('emptyclause', F))
    F = CNF([[1], [-1], [1, -2], [], [2, 2, -1]])
    out.append(('small', F))
    F = CNF([[1, -2, 3], [-3, 4], [5, -1, 2, -4], [4]])
    F.update_variable_number(7)
    F.header['transformation 1'] = 'whatever'
    F.header['transformation 2'] = 'other'
    out.append(('withheader', F))
    F = CNF([[1, 2]])
    del F.header['description']
    out.append(('nodescr', F))
    out.append(('php', PigeonholePrinciple(4, 3)))
    random.seed(1234)
    out.append(('rand3', RandomKCNF(3, 8, 12)))
    out.append(('rand4', RandomKCNF(4, 10, 25)))
    return out


FORMULAS = formulas()
MODES = ['fixed', 'shuffle']

# ------------------------------------------------------- 1. Shuffle library
for name, F in FORMULAS:
    for seed in [0, 7, 'abc']:
        for p, v, c in itertools.product(MODES, repeat=3):
            random.seed(seed)
            attempt(('lib', name, seed, p, v, c),
                    lambda: describe(Shuffle(F, p, v, c)))
    random.seed(99)
    attempt(('lib-default', name), lambda: describe(Shuffle(F)))
    # shuffling twice
    random.seed(5)
    attempt(('lib-twice', name), lambda: describe(Shuffle(Shuffle(F))))

# explicit arguments
for name, F in FORMULAS:
    N = F.number_of_variables()
    M = F.number_of_clauses()
    rnd = random.Random(31337)
    for rep in range(4):
        flips = [rnd.choice([-1, 1]) for _ in range(N)]
        vperm = list(range(1, N + 1))
        rnd.shuffle(vperm)
        cperm = list(range(M))
        rnd.shuffle(cperm)
        random.seed(rep)
        attempt(('explicit', name, rep, flips, vperm, cperm),
                lambda: describe(Shuffle(F, flips, vperm, cperm)))
        attempt(('explicit-tuple', name, rep),
                lambda: describe(Shuffle(F, tuple(flips), tuple(vperm), tuple(cperm))))
        attempt(('explicit-mixed1', name, rep),
                lambda: describe(Shuffle(F, flips, 'fixed', cperm)))
        attempt(('explicit-mixed2', name, rep),
                lambda: describe(Shuffle(F, 'shuffle', vperm, 'fixed')))
        attempt(('explicit-mixed3', name, rep),
                lambda: describe(Shuffle(F, 'fixed', 'shuffle', cperm)))
        attempt(('explicit-kw', name, rep),
                lambda: describe(Shuffle(F, clauses_permutation=cperm,
                                         polarity_flips=flips)))
    attempt(('explicit-range', name),
            lambda: describe(Shuffle(F, [1] * N, range(1, N + 1), range(M))))
    attempt(('explicit-rev', name),
            lambda: describe(Shuffle(F, [-1] * N, list(range(N, 0, -1)),
                                     list(range(M - 1, -1, -1)))))

    # invalid arguments
    okf, okv, okc = [1] * N, list(range(1, N + 1)), list(range(M))
    badflips = [[1] * (N + 1), [1] * (N - 1) if N else [1], [0] * N if N else [0],
                [2] + [1] * (N - 1) if N else [2, 2], [1] * (N - 1) + [-2] if N else [-2],
                [], [1.5] * N if N else [1.5], 'shuffled', 'Fixed']
    badv = [list(range(N)), list(range(1, N + 2)), list(range(1, N)) if N else [1],
            [1] * N if N else [1], list(range(2, N + 2)), [-x for x in okv] if N else [0],
            okv[:-1] + [N + 1] if N else [2], [], 'none']
    badc = [list(range(1, M + 1)), list(range(M + 1)), list(range(M - 1)) if M else [0],
            [0] * M if M else [1], okc[:-1] + [M] if M else [5], [], 'no', [-1] + okc[1:] if M else [-1]]
    for i, b in enumerate(badflips):
        random.seed(3)
        attempt(('badflips', name, i, b), lambda: describe(Shuffle(F, b, okv, okc)))
        attempt(('badflips-s', name, i, b), lambda: describe(Shuffle(F, b)))
    for i, b in enumerate(badv):
        random.seed(3)
        attempt(('badv', name, i, b), lambda: describe(Shuffle(F, okf, b, okc)))
        attempt(('badv-s', name, i, b), lambda: describe(Shuffle(F, 'shuffle', b, 'shuffle')))
    for i, b in enumerate(badc):
        random.seed(3)
        attempt(('badc', name, i, b), lambda: describe(Shuffle(F, okf, okv, b)))
        attempt(('badc-s', name, i, b), lambda: describe(Shuffle(F, 'shuffle', 'shuffle', b)))
    # several invalid at once: which error wins
    attempt(('bad-all', name), lambda: describe(Shuffle(F, [3] * N + [3], [0] * (N + 1), [7] * (M + 1))))
    attempt(('bad-vc', name), lambda: describe(Shuffle(F, okf, [0] * (N + 1), [7] * (M + 1))))

# ------------------------------------------------- 2. cnfshuffle command line
SWITCHSETS = [[], ['-p'], ['-v'], ['-c'], ['-p', '-v'], ['-p', '-c'], ['-v', '-c'],
              ['-p', '-v', '-c'],
              ['--no-polarity-flips', '--no-variables-permutation'],
              ['--no-clauses-permutation'], ['-pvc'], ['-q', '-pc']]

tmpdir = TMPDIR


def run_cli(argv, stdin_text=None, mode='string'):
    out, err = io.StringIO(), io.StringIO()
    with redirect_stdout(out), redirect_stderr(err):
        if stdin_text is None:
            res = cnfshuffle(argv, mode=mode)
        else:
            with redirect_stdin(io.StringIO(stdin_text)):
                res = cnfshuffle(argv, mode=mode)
    if mode == 'formula':
        res = describe(res)
    return res, out.getvalue(), err.getvalue()


for name, F in FORMULAS:
    dimacs = F.to_dimacs()
    path = os.path.join(tmpdir, name + '.cnf')
    with open(path, 'w') as f:
        F.to_file(f, fileformat='dimacs')
    for seed in [0, 45, 'xyz']:
        for sw in SWITCHSETS:
            argv = ['cnfshuffle', '--seed', seed, '--input', '-'] + sw
            attempt(('cli-string', name, seed, sw), lambda: run_cli(argv, dimacs))
    for sw in SWITCHSETS[:8]:
        argv = ['cnfshuffle', '-S', 11, '-i', path] + sw
        attempt(('cli-formula', name, sw),
                lambda: tuple(str(x).replace(tmpdir, '<TMP>') if isinstance(x, str) else
                              repr(x).replace(tmpdir, '<TMP>')
                              for x in run_cli(argv, None, mode='formula')))
        attempt(('cli-output', name, sw), lambda: tuple(
            x.replace(tmpdir, '<TMP>') if isinstance(x, str) else x
            for x in run_cli(['cnfshuffle', '-S', 12] + sw, dimacs, mode='output')))
        outpath = os.path.join(tmpdir, name + '.out.cnf')
        attempt(('cli-output-q', name, sw),
                lambda: run_cli(['cnfshuffle', '-S', 12, '-q'] + sw, dimacs, mode='output'))

        def to_file():
            # argparse opens the file; the cli does not close it, so flush via a handle of ours
            fh = open(outpath, 'w')
            try:
                G = cnfshuffle(['cnfshuffle', '-S', 13, '-i', path] + sw, mode='formula')
                G.to_file(fh, fileformat='dimacs')
            finally:
                fh.close()
            with open(outpath) as g:
                return g.read().replace(tmpdir, '<TMP>')
        attempt(('cli-file', name, sw), to_file)
    # no seed given: uses the current random stream
    random.seed(2024)
    attempt(('cli-noseed', name), lambda: run_cli(['cnfshuffle'], dimacs))
    # library and tool agree
    random.seed('45')
    lib = Shuffle(F).to_dimacs()
    tool = run_cli(['cnfshuffle', '-q', '--seed', '45'], dimacs)[0]
    rec(('agree', name, lib == tool))

# bad command lines
for argv in [['cnfshuffle', '--bogus'], ['cnfshuffle', '-i', os.path.join(tmpdir, 'missing.cnf')],
             ['cnfshuffle', '-h'], ['cnfshuffle', 'extra'], ['cnfshuffle', '-S']]:
    attempt(('cli-bad', argv[1:] if 'missing' not in argv[-1] else 'missing'),
            lambda: tuple(x.replace(tmpdir, '<TMP>') if isinstance(x, str) else x
                          for x in run_cli(argv, 'p cnf 1 1\n1 0\n')))

# ----------------------------------------------- 3. DIMACS inputs (good, bad)
DIMACS = [
    "p cnf 0 0\n",
    "p cnf 3 0\n",
    "p cnf 0 1\n0\n",
    "c comment\n\nc another\np cnf 3 2\n1 -2 0\n3 0\n",
    "p cnf 3 2\n1 -2\n 0 3\n0\n",
    "p cnf 3 2\n1 -2 0 3 0",
    "   p cnf 2 1\n  1 2 0  \n",
    "p cnf 3 2\n1 -2 0\n",
    "p cnf 3 1\n1 -2 0\n3 0\n",
    "p cnf 3 2\n1 -2 0\n3\n",
    "p cnf 3 2\n1 -4 0\n3 0\n",
    "p cnf 3 2\n1 x 0\n3 0\n",
    "p cnf 3 2\n1 2.0 0\n3 0\n",
    "1 2 0\np cnf 3 2\n",
    "p cnf 3 2\np cnf 3 2\n1 0\n2 0\n",
    "p cnf 3\n1 0\n",
    "p cnf 3 2 1\n1 0\n",
    "p cnf -3 2\n1 0\n",
    "p cnf 3 -2\n1 0\n",
    "p cnf a b\n1 0\n",
    "p cnf 3.0 2\n1 0\n",
    "p dnf 3 1\n1 0\n",
    "p\n",
    "pcnf 1 1\n1 0\n",
    "",
    "c only comments\n",
    "\n\n",
    "p cnf 2 1\ncomment in the middle\n1 0\n",
    "p cnf 2 2\n1 0\n\n\nc x\n-2 0\n",
    "p cnf 1 1\n1 0\nc trailing\np cnf 1 1\n",
    "p cnf 5 3\n1 2 3 4 5 0 -1 -2 0 0\n",
]
for i, text in enumerate(DIMACS):
    attempt(('dimacs-parse', i),
            lambda: describe(from_dimacs_file(CNF, io.StringIO(text))))
    attempt(('dimacs-classmethod', i),
            lambda: describe(CNF.from_file(io.StringIO(text))))
    for sw in [[], ['-p', '-v', '-c'], ['-c']]:
        attempt(('dimacs-cli', i, sw),
                lambda: run_cli(['cnfshuffle', '-S', 4] + sw, text))
    p = os.path.join(tmpdir, 'd%d.cnf' % i)
    with open(p, 'w') as f:
        f.write(text)
    attempt(('dimacs-fromname', i),
            lambda: tuple(repr(x).replace(tmpdir, '<TMP>') for x in describe(CNF.from_file(p))))


# main(): exit codes and stderr
class FakeErr(io.StringIO):
    def close(self):  # main() closes stderr at the end
        pass


def run_main(argv, stdin_text):
    old_argv, old_err = sys.argv, sys.stderr
    out, err = io.StringIO(), FakeErr()
    code = None
    sys.argv = argv
    sys.stderr = err
    try:
        with redirect_stdout(out), redirect_stdin(io.StringIO(stdin_text)):
            try:
                cnfshuffle_module.main()
            except SystemExit as e:
                code = ('exit', e.code)
    finally:
        sys.argv, sys.stderr = old_argv, old_err
    return code, out.getvalue(), err.getvalue().replace(tmpdir, '<TMP>')


for i, text in enumerate(DIMACS):
    attempt(('main', i), lambda: run_main(['cnfshuffle', '-S', '8'], text))
attempt(('main-missing',), lambda: run_main(
    ['cnfshuffle', '-i', os.path.join(tmpdir, 'nothere.cnf')], ''))
attempt(('main-badopt',), lambda: run_main(['cnfshuffle', '--what'], ''))
attempt(('main-outdir',), lambda: run_main(
    ['cnfshuffle', '-o', os.path.join(tmpdir, 'no', 'such', 'dir.cnf')], 'p cnf 1 1\n1 0\n'))

# --------------------------------------------------- 4. cnfgen ... -T shuffle
def run_T(argv, mode='string'):
    out, err = io.StringIO(), io.StringIO()
    with redirect_stdout(out), redirect_stderr(err):
        res = cnfgen_cli(argv, mode=mode)
    if mode == 'formula':
        res = describe(res)
    return res, out.getvalue(), err.getvalue()


GEN = [['php', 4, 3], ['randkcnf', 3, 6, 10], ['and', 2, 2], ['or', 0, 0], ['php', 3, 2, '-T', 'xor', 2]]
for gen in GEN:
    for seed in [1, 77]:
        for sw in SWITCHSETS[:8] + [['--no-polarity-flips'], ['--no-variables-permutation',
                                                               '--no-clauses-permutation']]:
            argv = ['cnfgen', '-q', '--seed', seed] + gen + ['-T', 'shuffle'] + sw
            attempt(('T-shuffle', gen, seed, sw),
                    lambda: run_T(argv))


for gen in GEN:
    attempt(('T-shuffle-formula', gen),
            lambda: run_T(['cnfgen', '--seed', 3] + gen + ['-T', 'shuffle', '-v'], mode='formula'))
    attempt(('T-shuffle-twice', gen),
            lambda: run_T(['cnfgen', '--seed', 3] + gen + ['-T', 'shuffle', '-v', '-T', 'shuffle', '-c'],
                          mode='formula'))
    attempt(('T-shuffle-header', gen),
            lambda: run_T(['cnfgen', '--seed', 3] + gen + ['-T', 'shuffle']))
attempt(('T-shuffle-help',), lambda: run_T(['cnfgen', 'php', 3, 2, '-T', 'shuffle', '-h']))
attempt(('T-shuffle-badopt',), lambda: run_T(['cnfgen', 'php', 3, 2, '-T', 'shuffle', '-z']))
attempt(('T-shuffle-extra',), lambda: run_T(['cnfgen', 'php', 3, 2, '-T', 'shuffle', '3']))

# cleanup
for root, dirs, files in os.walk(tmpdir, topdown=False):
    for f in files:
        os.remove(os.path.join(root, f))
    for d in dirs:
        os.rmdir(os.path.join(root, d))
os.rmdir(tmpdir)

print(H.hexdigest())
