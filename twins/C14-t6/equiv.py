"""Equivalence harness for C14/t6: cnfgen.graphs._read_graph_matrix_format
(bipartite adjacency matrix reader: valid, truncated, corrupted, oversized
inputs, blank and comment lines) and the matrix round trip."""
import sys, os, io, hashlib, random, contextlib
sys.path.insert(0, os.getcwd())
import cnfgen.graphs as cg
from cnfgen.graphs import (BipartiteGraph, readGraph, writeGraph,
                           _read_graph_matrix_format)

OUT = []


def rec(*items):
    OUT.append(repr(items))


def dump(G):
    return [type(G).__name__, G.number_of_vertices(), G.left_order(),
            G.right_order(), G.name, G.number_of_edges(),
            [tuple(e) for e in G.edges()],
            [G.right_neighbors(u) for u in range(1, G.left_order() + 1)],
            [G.left_neighbors(v) for v in range(1, G.right_order() + 1)]]


def attempt(tag, f, *a):
    try:
        r = f(*a)
        rec(tag, 'ok', dump(r))
    except BaseException as e:
        rec(tag, 'exc', type(e).__name__, str(e),
            type(e.__cause__).__name__, type(e.__context__).__name__,
            getattr(e, '__suppress_context__', None))


def both(tag, text):
    attempt((tag, 'direct', text), _read_graph_matrix_format,
            io.StringIO(text))
    attempt((tag, 'readGraph', text), readGraph, io.StringIO(text),
            'bipartite', 'matrix')
    s = io.StringIO(text)
    s.name = 'x.matrix'
    attempt((tag, 'auto', text), readGraph, s, 'bipartite')


rnd = random.Random(1406)
CAPTURED = io.StringIO()
with contextlib.redirect_stdout(CAPTURED):
    # hand written texts
    texts = [
        '', '\n', '\n\n\n', '0 0', '0 0\n', '0', '0\n', '3', '3\n', '0 5\n',
        '5 0\n', '0 0 0\n', '0 0 1\n', '0 0\n\n\n', '0 0\n# end\n',
        '0 0\n#\n1\n', '1 1\n1\n', '1 1\n0\n', '1 1\n2\n', '1 1\n-1\n',
        '1 1\n', '1 1\n1 1\n', '1 1\n1\n1\n', '1 1\n1\n\n0', '1\n1\n1\n',
        '2 3\n1 0 1\n0 1 0\n', '2 3 1 0 1 0 1 0', '2\n3\n1\n0\n1\n0\n1\n0\n',
        '2 3\n1 0 1\n0 1\n', '2 3\n1 0 1\n0 1 0 1\n', '2 3\n1 0 1\n0 1 0\n0\n',
        '2 3\n1 0 1\n0 1 0\n\n\n7 7 7\n', '# c\n2 3\n1 0 1\n# mid\n0 1 0\n',
        '#2 3\n1 1\n1\n', '2 3 # no\n1 0 1\n0 1 0\n', '2 3\n1 0 # x\n',
        '2 3\n1 0 1\n0 x 0\n', '2 3\n1 0 1\n0 1.0 0\n', 'a b\n', '2 b\n',
        'b 2\n1 1\n', '-1 2\n', '2 -1\n', '-1 -1\n', '2 3\n1 0 1\n0 1 3\n',
        '2 3\n1 0 1\n0 1 00\n', '2 3\n01 +1 1\n0 1 0\n', '2 3\n1 0 1\n0 1 -0\n',
        '  2   3  \n\t1\t0\t1\n 0 1 0   \n   \n', '2 3\r\n1 0 1\r\n0 1 0\r\n',
        '\n\n2 3\n\n1 0 1\n\n0 1 0', '2 3\n1 0 1 0 1 0 1\n', '2 3\n9 0 1\n',
        '2 3\n1 0 1\n0 1 0\n#\n', '2 3\n1 0 1\n0 1 0\n #\n',
        '2 3\n1 0 1\n0 1 0\n # 1\n', '2 3\n1 0 1\n0 1 0\n1 #\n',
        '1_0 1\n' + '1\n' * 10, '1e1 1\n', '0x2 1\n', '١ 1\n1\n',
        '2 2\n1 ٠\n0 1\n', '10 1\n' + '1\n' * 10,
        '1 12\n' + '1 0 ' * 6 + '\n', '12 12\n' + ('1 ' * 12 + '\n') * 12,
        '12 12\n' + ('0 ' * 12 + '\n') * 12, '12 12\n' + ('0 ' * 12 + '\n') * 11,
        '12 12\n' + ('0 ' * 12 + '\n') * 13, '3 3\n1 1 1\n\n# gap\n\n1 1 1\n1 1 2',
        '3 3\n2', '3 3\n1 1 1 1 1 1 1 1\n', '3 3\n1 1 1 1 1 1 1 1 1 1\n',
        '1 1 1', '1 1 1 1', '1 1 1\n#1', '1 1 1\n1', '1 1 0 0', '1 1 0 x',
        '1 1 x', '1 x', 'x',
    ]
    for i, t in enumerate(texts):
        both(('hand', i), t)

    # random graphs, round trip, then systematic corruption
    shapes = [(0, 0), (0, 3), (3, 0), (1, 1), (2, 5), (4, 4), (10, 3),
              (3, 11), (12, 13)]
    for (L, R) in shapes:
        for p in [0.0, 0.3, 1.0]:
            G = BipartiteGraph(L, R, 'B{}x{}'.format(L, R))
            for u in range(1, L + 1):
                for v in range(1, R + 1):
                    if rnd.random() < p:
                        G.add_edge(u, v)
            out = io.StringIO()
            writeGraph(G, out, 'bipartite', 'matrix')
            text = out.getvalue()
            rec(('written', L, R, p), text)
            both(('rt', L, R, p), text)
            if L * R > 30:
                cuts = sorted(rnd.sample(range(len(text)), 12))
            else:
                cuts = range(len(text) + 1)
            for c in cuts:
                both(('trunc', L, R, p, c), text[:c])
            lines = text.split('\n')
            for k in range(min(len(lines), 6) + 1):
                for ins in ['', '   ', '# comment 1 2 3', '#', '1', '0 1',
                            'x', '2']:
                    t2 = '\n'.join(lines[:k] + [ins] + lines[k:])
                    both(('ins', L, R, p, k, ins), t2)
            toks = text.split()
            for _ in range(10):
                if not toks:
                    break
                j = rnd.randrange(len(toks))
                for rep in ['2', '-1', 'q', '#', '1 1', '']:
                    t3 = ' '.join(toks[:j] + [rep] + toks[j + 1:])
                    both(('tok', L, R, p, j, rep), t3)
            # drop a whole line
            for k in range(min(len(lines), 5)):
                both(('drop', L, R, p, k), '\n'.join(lines[:k] + lines[k + 1:]))

rec('stdout', CAPTURED.getvalue())
print(hashlib.sha256('\n'.join(OUT).encode('utf-8')).hexdigest())
