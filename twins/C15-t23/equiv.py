"""Equivalence script for t23: cnfgen.graphs.bipartite_random_regular (the
sampler behind the 'regular' bipartite construction of the command line),
including the fallback search for a free pair and the restart on dead ends.
Prints one SHA256 digest of everything observed."""
import sys, os, io, hashlib, warnings, contextlib, random
warnings.simplefilter('ignore')
sys.path.insert(0, os.getcwd())

from cnfgen.graphs import bipartite_random_regular, BipartiteGraph
from cnfgen.clitools.graph_args import make_graph_from_spec
from cnfgen.clitools.cnfgen import cli as cnfgen_cli

H = hashlib.sha256()
NOBS = 0


def obs(*items):
    global NOBS
    NOBS += 1
    H.update(repr(items).encode('utf-8'))
    H.update(b'\n')


def graphdata(g):
    L, R = g.parts()
    return (type(g).__name__, g.name, g.left_order(), g.right_order(), g.number_of_edges(),
            list(g.edges()), [g.left_degree(v) for v in R], [g.right_degree(u) for u in L])


def sample(l, r, d, seed, useparam):
    try:
        if useparam:
            g = bipartite_random_regular(l, r, d, seed=seed)
        else:
            random.seed(seed)
            g = bipartite_random_regular(l, r, d)
        obs('G', l, r, d, seed, useparam, graphdata(g), random.random(), random.getrandbits(64))
    except RecursionError:
        obs('GRECURSION', l, r, d, seed, useparam)
    except Exception as e:
        obs('GEXC', l, r, d, seed, useparam, type(e).__name__, str(e), random.random())


# 1. every small legal and illegal triple, a few seeds
for l in range(-1, 7):
    for r in range(-1, 7):
        for d in range(-1, 8):
            if r > 0 and l >= 0 and d > r:
                continue  # cannot be regular: endless restarts, never reached from the CLI
            for seed in (0, 1, 'abc'):
                sample(l, r, d, seed, False)
            sample(l, r, d, 5, True)

# 2. dense cases where dead ends (restart) and unlucky sampling (fallback search) happen
for (l, r, d, seeds) in [(2, 2, 2, range(300)), (3, 3, 3, range(300)), (4, 4, 4, range(150)),
                         (5, 5, 5, range(60)), (5, 5, 4, range(60)), (6, 6, 5, range(40)),
                         (6, 3, 3, range(100)), (3, 6, 6, range(100)), (4, 6, 3, range(100)),
                         (8, 8, 7, range(20)), (10, 10, 10, range(6)), (12, 8, 6, range(6)),
                         (3, 2, 2, range(4100)), (4, 2, 2, range(4400, 5900)),
                         (6, 3, 2, range(4000, 4200)),
                         (3, 2, 2, [2493, 3980]), (4, 2, 2, [4458, 5842]), (6, 3, 2, [4089])]:
    for seed in seeds:
        sample(l, r, d, seed, False)
    sample(l, r, d, seeds[0], True)

# 3. larger sparse cases
for (l, r, d) in [(20, 20, 3), (30, 10, 2), (10, 30, 6), (50, 50, 1), (40, 40, 0), (25, 5, 5)]:
    for seed in range(3):
        sample(l, r, d, seed, False)

# 4. consecutive samples from one stream
random.seed(2024)
for i in range(200):
    g = bipartite_random_regular(3, 3, 3)
    obs('STREAM', i, list(g.edges()))
obs('STREAMEND', random.random())

# 5. the command line construction
specs = ['regular 4 4 2', 'regular 3 3 3', 'regular 6 4 2', 'regular 4 6 3', 'regular 4 6 2',
         'regular 3 3 4', 'regular 3 3 0', 'regular 0 3 0', 'regular 3 0 0', 'regular 3 3',
         'regular 3 3 -1', 'regular 3 2 2', 'regular 4 2 2', 'regular 3 3 x', 'regular 3 3 1.5',
         'regular 5 5 5 addedges 0', 'regular 5 5 5 addedges 1', 'regular 5 5 2 addedges 4',
         'regular 5 5 2 plantbiclique 3 3', 'regular 4 4 4 plantbiclique 4 4']
for spec in specs:
    for seed in range(25):
        random.seed(seed)
        try:
            g = make_graph_from_spec('bipartite', spec)
            obs('SPEC', spec, seed, graphdata(g), random.random())
        except Exception as e:
            obs('SPECEXC', spec, seed, type(e).__name__, str(e), random.random())
    for seed in (1, 2493, 4458):
        argv = ['cnfgen', '-q', '--seed', str(seed), 'php'] + spec.split()
        out, err = io.StringIO(), io.StringIO()
        try:
            with contextlib.redirect_stdout(out), contextlib.redirect_stderr(err):
                res = cnfgen_cli(argv, mode='string')
            obs('CLI', argv, res, out.getvalue(), err.getvalue())
        except BaseException as e:
            obs('CLIEXC', argv, type(e).__name__, str(e), out.getvalue(), err.getvalue())

obs('COUNT', NOBS)
print(H.hexdigest())
