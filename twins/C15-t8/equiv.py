"""Equivalence check for modify_bipartite_graph_plantbiclique
(cnfgen/clitools/graph_build.py), the `plantbiclique A B` option of bipartite
graph specifications on the command line."""
import warnings
warnings.simplefilter("ignore")
import contextlib
import hashlib
import io
import os
import random
import sys
import tempfile

sys.path.insert(0, os.getcwd())

from cnfgen.graphs import BipartiteGraph, CompleteBipartiteGraph, bipartite_random
from cnfgen.clitools.graph_build import modify_bipartite_graph_plantbiclique
from cnfgen.clitools.graph_args import make_graph_from_spec
from cnfgen.clitools.cnfgen import cli

H = hashlib.sha256()


def emit(*items):
    for x in items:
        H.update(repr(x).encode('utf-8'))
        H.update(b'\n')
        if os.environ.get('EQUIV_DEBUG'):
            sys.stderr.write(repr(x)[:200] + '\n')


def dump(G):
    emit(type(G).__name__, G.name, G.left_order(), G.right_order(),
         G.number_of_edges(), sorted(G.edges()))


def has_biclique(G, a, b):
    """Brute force: is there an (a,b)-biclique in the small graph G?"""
    from itertools import combinations
    L, R = G.parts()
    for A in combinations(L, a):
        for B in combinations(R, b):
            if all(G.has_edge(u, v) for u in A for v in B):
                return True
    return False


def direct(G, parsed, seed):
    emit('DIRECT', G.name, sorted(G.edges()), sorted(parsed.items()), seed)
    before = sorted(G.edges())
    random.seed(seed)
    try:
        res = modify_bipartite_graph_plantbiclique(parsed, G)
    except BaseException as e:
        emit('EXC', type(e).__name__, str(e), type(e.__context__).__name__)
        emit('UNCHANGED', sorted(G.edges()) == before)
    else:
        emit(res is G)
        dump(res)
        emit(set(before) <= set(res.edges()))
    emit(random.random())


# every size inside and just outside the legal range, on small graphs
for L in range(0, 4):
    for R in range(0, 4):
        for a in range(-1, L + 2):
            for b in range(-1, R + 2):
                for seed in (1, 2):
                    G = BipartiteGraph(L, R, name='empty({},{})'.format(L, R))
                    direct(G, {'plantbiclique': [str(a), str(b)]}, seed)
                    G = BipartiteGraph(L, R)
                    if 0 <= a <= L and 0 <= b <= R:
                        random.seed(seed)
                        modify_bipartite_graph_plantbiclique(
                            {'plantbiclique': [str(a), str(b)]}, G)
                        emit('HAS', L, R, a, b, has_biclique(G, a, b))

# on random graphs
for seed in range(1, 6):
    for (L, R, p) in ((5, 6, 0.3), (6, 5, 0.0), (4, 4, 1.0), (7, 3, 0.5)):
        for (a, b) in ((0, 0), (1, 1), (2, 3), (3, 2), (L, R), (L, 0), (0, R),
                       (L + 1, 1), (1, R + 1), (L + 1, R + 1)):
            G = bipartite_random(L, R, p, seed=seed * 100 + L)
            direct(G, {'plantbiclique': [str(a), str(b)]}, seed)

G = CompleteBipartiteGraph(3, 3)
direct(G, {'plantbiclique': ['2', '2']}, 3)

# malformed option arguments
for bad in ([], ['2'], ['2', '2', '2'], ['x', '2'], ['2', 'x'], ['1.5', '2'],
            ['2', '1.5'], ['1e0', '1'], [None, '2'], ['2', None], None, 5,
            [2, 2], [2.0, 1], ('1', '2'), '12', '1', 'ab', ['-1', '2'],
            ['2', '-1'], ['-0', '+2'], [' 2', '2 '], ['9', '1'], ['1', '9'],
            ['9', '-1'], ['-1', '9'], ['x', '9']):
    G = bipartite_random(3, 4, 0.4, seed=8)
    direct(G, {'plantbiclique': bad}, 5)
G = bipartite_random(3, 4, 0.4, seed=8)
direct(G, {}, 5)
direct(G, {'plantclique': ['2']}, 5)

# through the graph specification
origdir = os.getcwd()
scratch = tempfile.mkdtemp()
os.chdir(scratch)
try:
    for text in ['glrp 5 5 0.2 plantbiclique 3 3',
                 'glrp 5 5 0.2 plantbiclique 5 5',
                 'glrp 5 5 0.2 plantbiclique 6 5',
                 'glrp 5 5 0.2 plantbiclique 5 6',
                 'glrp 5 5 0.2 plantbiclique 0 0',
                 'glrp 5 5 0.2 plantbiclique 3',
                 'glrp 5 5 0.2 plantbiclique',
                 'glrp 5 5 0.2 plantbiclique 1 2 3',
                 'glrp 5 5 0.2 plantbiclique -1 2',
                 'glrp 5 5 0.2 plantbiclique 1.5 2',
                 'glrp 5 5 0.2 plantbiclique 2 2 plantbiclique 1 1',
                 'glrm 4 6 7 plantbiclique 2 4 addedges 3',
                 'glrm 4 6 7 addedges 3 plantbiclique 2 4',
                 'glrd 4 6 2 plantbiclique 4 1 save out.matrix',
                 'regular 6 6 2 plantbiclique 3 3 save kthlist out.txt',
                 'shift 5 5 0 1 plantbiclique 2 2',
                 'complete 3 3 plantbiclique 2 2',
                 'empty 3 3 plantbiclique 3 3 addedges 1',
                 'empty 3 3 plantbiclique 2 3 addedges 3',
                 'empty 3 3 plantbiclique 2 3 addedges 4',
                 'empty 3 3 plantclique 2']:
        for seed in (1, 2, 3):
            emit('SPEC', text, seed)
            random.seed(seed)
            try:
                G = make_graph_from_spec('bipartite', text)
            except BaseException as e:
                emit('EXC', type(e).__name__, str(e))
            else:
                dump(G)
            emit(random.random())
            for fname in sorted(os.listdir('.')):
                with open(fname, 'rb') as f:
                    emit('FILE', fname, f.read())
                os.unlink(fname)
    emit('SPEC simple')
    try:
        make_graph_from_spec('simple', 'gnm 5 4 plantbiclique 2 2')
    except BaseException as e:
        emit('EXC', type(e).__name__, str(e))
finally:
    os.chdir(origdir)
    os.rmdir(scratch)


def run_cli(argv):
    emit('CLI', argv)
    out, err = io.StringIO(), io.StringIO()
    code = None
    with contextlib.redirect_stdout(out), contextlib.redirect_stderr(err):
        try:
            cli(argv)
        except SystemExit as e:
            code = e.code
        except BaseException as e:
            code = (type(e).__name__, str(e))
    emit(code, out.getvalue().splitlines(), err.getvalue())


for argv in (['cnfgen', '-q', '--seed', '5', 'php', 'glrp', '4', '4', '0.2', 'plantbiclique', '2', '2'],
             ['cnfgen', '-q', '--seed', '6', 'php', 'glrp', '4', '4', '0.2', 'plantbiclique', '2', '2'],
             ['cnfgen', '-q', '--seed', '5', 'php', 'glrp', '4', '4', '0.2', 'plantbiclique', '5', '2'],
             ['cnfgen', '-q', '--seed', '5', 'php', 'glrp', '4', '4', '0.2', 'plantbiclique', '2', '5'],
             ['cnfgen', '-q', '--seed', '5', 'php', 'glrp', '4', '4', '0.2', 'plantbiclique', '2'],
             ['cnfgen', '-q', '--seed', '5', 'subsetcard', 'glrd', '4', '4', '1', 'plantbiclique', '4', '4'],
             ['cnfgen', '-q', '--seed', '5', 'subsetcard', 'glrd', '4', '4', '1', 'plantbiclique', '0', '4']):
    run_cli(argv)

print(H.hexdigest())
