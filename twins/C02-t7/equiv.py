import sys, os, hashlib, random, itertools, warnings, io, contextlib
warnings.simplefilter("ignore")
sys.path.insert(0, os.getcwd())
import networkx as nx
from cnfgen.graphs import Graph

_H = hashlib.sha256()


def emit(*items):
    for it in items:
        _H.update(repr(it).encode("utf-8"))
        _H.update(b"\x00")


def dump(tag, fn, *args, **kwargs):
    """Call fn and record everything observable about the outcome."""
    emit("CALL", tag)
    try:
        F = fn(*args, **kwargs)
    except Exception as exc:  # record the exception type and message
        emit("EXC", type(exc).__name__, str(exc))
        return None
    emit("HEADER", sorted((str(k), str(v)) for k, v in F.header.items()))
    emit("NVARS", F.number_of_variables(), "NCLS", F.number_of_clauses())
    emit("LABELS", list(F.all_variable_labels()))
    emit("CLAUSES", [list(c) for c in F.clauses()])
    emit("DIMACS", F.to_dimacs())
    return F


def mkgraph(n, edges, name=None):
    G = Graph(n, name=name) if name is not None else Graph(n)
    for u, v in edges:
        G.add_edge(u, v)
    return G


def all_graphs(maxn):
    """Every labelled simple graph with at most maxn vertices."""
    for n in range(0, maxn + 1):
        pairs = list(itertools.combinations(range(1, n + 1), 2))
        for mask in range(1 << len(pairs)):
            yield n, [p for i, p in enumerate(pairs) if (mask >> i) & 1]


def random_graphs(rng, count, nmin, nmax):
    for _ in range(count):
        n = rng.randint(nmin, nmax)
        p = rng.choice([0.0, 0.2, 0.5, 0.8, 1.0])
        pairs = itertools.combinations(range(1, n + 1), 2)
        yield n, [e for e in pairs if rng.random() < p]



def run_cli(cli, argv, seed=4242):
    random.seed(seed)
    out, err = io.StringIO(), io.StringIO()
    code = None
    try:
        with contextlib.redirect_stdout(out), contextlib.redirect_stderr(err):
            cli(argv)
    except SystemExit as exc:
        code = exc.code
    except Exception as exc:
        emit("CLI-EXC", type(exc).__name__, str(exc))
    emit("CLI", argv, code, out.getvalue(), err.getvalue(), random.random())


# ---- T7: RamseyWitnessFormula (cnfgen/families/subgraph.py) ----
from cnfgen import RamseyWitnessFormula
from cnfgen.formula.opb import OPB
from cnfgen.clitools.cnfgen import cli as cnfgen_cli


def nsat(F):
    """Number of satisfying assignments by brute force (small formulas only)"""
    n = F.number_of_variables()
    cls = [list(c) for c in F.clauses()]
    count = 0
    for bits in range(1 << n):
        for c in cls:
            for l in c:
                if ((bits >> (abs(l) - 1)) & 1) == (l > 0):
                    break
            else:
                break
        else:
            count += 1
    return count


rng = random.Random(7007)

# every labelled graph on at most 4 vertices, all k, s, both flag values
for n, edges in all_graphs(4):
    G = mkgraph(n, edges)
    for k in range(0, 5):
        for s in range(0, 4):
            for sb in (True, False):
                F = dump(("ramsey", n, edges, k, s, sb), RamseyWitnessFormula, G, k, s, symbreak=sb)
                if F is not None and F.number_of_variables() <= 13:
                    emit("NSAT", nsat(F))
            dump(("ramsey-default", n, edges, k, s), RamseyWitnessFormula, G, k, s)

# larger random graphs
for n, edges in random_graphs(rng, 40, 5, 8):
    G = mkgraph(n, edges, name="rnd graph %d" % n)
    for _ in range(3):
        k = rng.randint(0, 5)
        s = rng.randint(0, 5)
        sb = rng.choice([True, False, 0, 1, None, "yes"])
        dump(("ramsey-rnd", n, edges, k, s, sb), RamseyWitnessFormula, G, k, s, sb)

# networkx input, OPB formula class, positional symbreak
for H in [nx.path_graph(5), nx.cycle_graph(5), nx.complete_graph(4),
          nx.empty_graph(4), nx.null_graph(), nx.grid_2d_graph(2, 3)]:
    for sb in (True, False):
        dump(("ramsey-nx", sorted(map(str, H.edges())), sb), RamseyWitnessFormula, H, 3, 2, sb)
        emit("OPB", sorted(map(str, H.edges())), sb)
        try:
            P = RamseyWitnessFormula(H, 2, 3, sb, formula_class=OPB)
            emit(sorted((str(a), str(b)) for a, b in P.header.items()),
                 P.number_of_variables(), list(P.all_variable_labels()), P.to_opb())
        except Exception as exc:
            emit("EXC", type(exc).__name__, str(exc))

# bad arguments
G = mkgraph(4, [(1, 2), (2, 3)])
for k, s in [(-1, 2), (2, -1), (1.5, 2), (2, "2"), (None, 1), (True, 2), (2, None), (10, 0), (0, 10)]:
    dump(("ramsey-bad", k, s), RamseyWitnessFormula, G, k, s)
dump("bad-graph", RamseyWitnessFormula, 5, 2, 2)
dump("bad-digraph", RamseyWitnessFormula, nx.DiGraph([(1, 2)]), 2, 2)
dump("bad-missing", RamseyWitnessFormula, G, 2)

# command line front end
for cmd in (["ramlb", "3", "3", "complete", "4"], ["ramlb", "2", "2", "empty", "3"],
            ["ramlb", "3", "2", "gnp", "6", "0.5"], ["ramlb", "3", "3", "gnd", "6", "3"],
            ["ramlb", "0", "0", "grid", "2", "2"], ["ramlb", "4", "1", "complete", "0"],
            ["ramlb", "-1", "2", "grid", "2", "2"], ["ramlb", "2", "grid", "2", "2"],
            ["ramlb", "3", "3", "cycle", "5"], ["ramlb", "x", "3", "complete", "3"]):
    for pre in (["cnfgen", "-q"], ["cnfgen", "--seed", "5"], ["cnfgen", "-q", "-of", "latex"],
                ["cnfgen", "-q", "-of", "opb"]):
        run_cli(cnfgen_cli, pre + cmd)

print(_H.hexdigest())
