"""Equivalence check for GraphOrderingPrinciple / OrderingPrinciple (C03, t1)."""
import sys, os, hashlib, random, itertools
sys.path.insert(0, os.getcwd())
import networkx
from cnfgen.families.ordering import OrderingPrinciple, GraphOrderingPrinciple
from cnfgen.graphs import Graph

H = hashlib.sha256()
def emit(*a):
    H.update((" ".join(str(x) for x in a) + "\n").encode())

def dump(tag, fn):
    emit("CASE", tag)
    try:
        F = fn()
    except Exception as e:
        emit("EXC", type(e).__name__, str(e))
        return
    emit("HDR", sorted(F.header.items()) if hasattr(F.header, 'items') else F.header)
    emit("NV", F.number_of_variables(), "NC", len(F))
    emit("LABELS", list(F.all_variable_labels()))
    for c in F:
        emit("C", list(c))
    emit(F.to_dimacs())

flags = list(itertools.product([False, True], repeat=3))
for n in range(0, 7):
    for total, smart, plant in flags:
        for knuth in (0, 2, 3, 5):
            dump(("op", n, total, smart, plant, knuth),
                 lambda: OrderingPrinciple(n, total=total, smart=smart, plant=plant, knuth=knuth))
for bad in (-1, 2.5, "3", None):
    dump(("opbad", bad), lambda: OrderingPrinciple(bad))

random.seed(12345)
graphs = []
for n in range(0, 8):
    for p in (0.0, 0.3, 0.6, 1.0):
        g = networkx.gnp_random_graph(n, p, seed=random.randrange(10**6))
        graphs.append(("gnp", n, p, g))
graphs.append(("path", 6, 0, networkx.path_graph(6)))
graphs.append(("cycle", 7, 0, networkx.cycle_graph(7)))
graphs.append(("star", 6, 0, networkx.star_graph(5)))
graphs.append(("grid", 9, 0, networkx.convert_node_labels_to_integers(networkx.grid_2d_graph(3, 3))))
for name, n, p, g in graphs:
    for total, smart, plant in flags:
        for knuth in (0, 2, 3):
            dump(("gop", name, n, p, total, smart, plant, knuth),
                 lambda: GraphOrderingPrinciple(g, total=total, smart=smart, plant=plant, knuth=knuth))
# native Graph objects
G = Graph(5)
for e in [(1, 5), (5, 2), (3, 4), (2, 3), (1, 3)]:
    G.add_edge(*e)
for total, smart, plant in flags:
    dump(("native", total, smart, plant), lambda: GraphOrderingPrinciple(G, total, smart, plant))
for bad in (None, 3, "graph", networkx.DiGraph([(0, 1)])):
    dump(("gopbad", repr(type(bad))), lambda: GraphOrderingPrinciple(bad))
print(H.hexdigest())
