#!/usr/bin/env python
"""Equivalence check for the Tseitin command line helper (charge selection)."""
import sys, os, io, random, hashlib, itertools
from argparse import Namespace
from contextlib import redirect_stdout, redirect_stderr
sys.path.insert(0, os.getcwd())

import networkx as nx
from cnfgen.formula.cnf import CNF
from cnfgen.graphs import Graph
from cnfgen.clitools import cnfgen
from cnfgen.clihelpers.counting_helpers import TseitinCmdHelper

H = hashlib.sha256()


def emit(*items):
    for it in items:
        H.update(repr(it).encode('utf8'))
        H.update(b'\x00')


def run_cli(argv, mode='string'):
    out, err = io.StringIO(), io.StringIO()
    try:
        with redirect_stdout(out), redirect_stderr(err):
            res = cnfgen(argv, mode=mode)
        if mode == 'formula':
            res = (res.header.get('description'), list(res.clauses()))
        emit('CLI', argv, 'ok', res, out.getvalue(), err.getvalue())
    except SystemExit as e:
        emit('CLI', argv, 'exit', e.code, out.getvalue(), err.getvalue())
    except BaseException as e:
        emit('CLI', argv, 'exc', type(e).__name__, str(e), out.getvalue(), err.getvalue())
    emit('rnd', random.random())


def mkgraph(n, edges, name=None):
    G = Graph(n, name=name)
    for u, v in edges:
        G.add_edge(u, v)
    return G


def run_direct(ns, seed):
    desc = sorted((k, getattr(v, 'name', v) if k == 'G' else v)
                  for k, v in vars(ns).items())
    random.seed(seed)
    try:
        F = TseitinCmdHelper.build_formula(ns, CNF)
        emit('DIR', desc, seed, 'ok',
             F.header.get('description'), F.number_of_variables(),
             list(F.clauses()), F.to_dimacs())
    except BaseException as e:
        emit('DIR', desc, seed, 'exc', type(e).__name__, str(e))
    # state of the random stream afterwards
    emit('rnd', random.random(), random.getstate()[1][:5])


# ---------------- command line runs -------------------------------
charges = ['first', 'random', 'randomodd', 'randomeven', 'zero', 'one']
graph_specs = [
    ['complete', 1], ['complete', 2], ['complete', 5], ['empty', 4],
    ['grid', 3, 3], ['torus', 3, 3], ['gnd', 10, 4], ['gnm', 8, 11],
    ['gnp', 7, 0.4], ['complete', 3, 'plantclique', 2], ['path', 6],
    ['cycle', 5], ['star', 4],
]
for seed in (0, 1, 42):
    for ch in charges:
        for gs in graph_specs:
            run_cli(['cnfgen', '-q', '--seed', seed, 'tseitin', ch] + gs)
# shortcut form
for seed in (0, 7, 13):
    for nd in ([10], [10, 4], [20, 5], [7, 3], [7, 4], [4, 4], [3, 5], [5, 4],
               [2, 1], [1], [1, 1], [6, 2], [12, 3], [9, 2], [0], [0, 0], [5, 0],
               [-3, 2]):
        run_cli(['cnfgen', '-q', '--seed', seed, 'tseitin'] + nd)
# no seed given but deterministic
random.seed(99)
run_cli(['cnfgen', '-q', 'tseitin', 'first', 'grid', 2, 3])
run_cli(['cnfgen', '-q', 'tseitin', 'zero', 'grid', 2, 3])
random.seed(5)
run_cli(['cnfgen', '-q', 'tseitin', 'random', 'gnd', 8, 3])
run_cli(['cnfgen', '-q', 'tseitin', 8, 3])
# verbose header, other formats, formula mode
run_cli(['cnfgen', '--seed', 3, 'tseitin', 'randomodd', 'gnd', 6, 3])
run_cli(['cnfgen', '--seed', 3, 'tseitin', 6, 3])
run_cli(['cnfgen', '-q', '--seed', 3, '-of', 'latex', 'tseitin', 'randomeven', 'cycle', 4])
run_cli(['cnfgen', '-q', '--seed', 3, '-of', 'opb', 'tseitin', 'random', 'cycle', 4])
run_cli(['cnfgen', '-q', '--seed', 3, 'tseitin', 'random', 'cycle', 4], mode='formula')
run_cli(['cnfgen', '-q', '--seed', 3, 'tseitin', 6, 3], mode='formula')
run_cli(['cnfgen', '-q', '--seed', 3, 'tseitin', 6, 3], mode='output')
run_cli(['cnfgen', '-q', '--seed', 3, 'tseitin', 'one', 'path', 3], mode='output')
# error paths on the command line
run_cli(['cnfgen', '-q', 'tseitin', 'randomodd'])
run_cli(['cnfgen', '-q', 'tseitin'])
run_cli(['cnfgen', '-q', 'tseitin', 'bogus', 'complete', 3])
run_cli(['cnfgen', '-q', 'tseitin', 'first'])
run_cli(['cnfgen', '-q', 'tseitin', 'first', 'nosuchgraph', 3])
run_cli(['cnfgen', '-q', 'tseitin', 3, 4, 5])
run_cli(['cnfgen', '-q', 'tseitin', 'first', 'complete', 0])
run_cli(['cnfgen', '-q', 'tseitin', 'random', 'complete', 0])
run_cli(['cnfgen', '-q', 'tseitin', 'x', 4])

# ---------------- direct calls of the helper ---------------------
graphs = [
    mkgraph(0, [], 'null'),
    mkgraph(1, [], 'single'),
    mkgraph(2, [(1, 2)], 'edge'),
    mkgraph(3, [], 'empty3'),
    mkgraph(4, [(1, 2), (2, 3), (3, 4), (4, 1)], 'c4'),
    mkgraph(6, [(1, 2), (2, 3), (1, 3), (4, 5)], 'tri+edge+iso'),
    mkgraph(5, list(itertools.combinations(range(1, 6), 2)), 'k5'),
]
all_charges = charges + ['bogus', '', None, 'RANDOM', 'randomx', 0, 1]
for seed in (0, 3):
    for G in graphs:
        for ch in all_charges:
            run_direct(Namespace(G=G, charge=ch), seed)
        # no charge attribute at all
        run_direct(Namespace(G=G), seed)
# networkx graph given directly
for ch in all_charges:
    run_direct(Namespace(G=nx.path_graph(4), charge=ch), 11)
# shortcut form, including error paths
for seed in (0, 5):
    for N, d in [(10, 4), (8, 3), (7, 3), (5, 5), (3, 7), (4, 2), (2, 1),
                 (1, 1), (9, 4), (6, 5), (5, 3), (11, 2)]:
        run_direct(Namespace(N=N, d=d), seed)
        # a stray charge attribute along the shortcut form
        for ch in ('first', 'zero', 'one', 'random', 'randomodd', 'randomeven', 'bogus'):
            run_direct(Namespace(N=N, d=d, charge=ch), seed)

print(H.hexdigest())
