#!/usr/bin/env python
"""Equivalence harness for property C20 (solve / is_satisfiable / sat_solve).

Fake SAT solvers (small python scripts speaking the three I/O
conventions) are installed in a private directory which becomes the
whole PATH.  Every call made by cnfgen.utils.solver is observed:
return value, exception type and message, text printed on stderr,
the subprocess.Popen invocations, what the solver received as input,
and the files left in the temporary directory.  A single SHA256 digest
of all of this is printed.
"""
import contextlib
import hashlib
import io
import os
import random
import re
import shutil
import stat
import subprocess
import sys
import tempfile
import warnings

warnings.simplefilter("ignore")
sys.path.insert(0, os.getcwd())

FAKE = r'''#!/venv/bin/python -SE
import sys, os, itertools
args = sys.argv[1:]
if '--help' in args:
    sys.exit(0)
files = [a for a in args if not a.startswith('-')]
opts = [a for a in args if a.startswith('-')]
env = os.environ
mode = env.get('FAKE_MODE', 'brute')
name = os.path.basename(sys.argv[0])
if len(files) == 0:
    text = sys.stdin.read()
else:
    with open(files[0]) as f:
        text = f.read()
with open(env['FAKE_LOG'], 'a') as f:
    f.write(repr((name, opts, len(files), text)) + "\n")

def emit(data):
    sys.stdout.write(data)
    sys.stdout.flush()

if mode == 'binary':
    if len(files) == 2:
        with open(files[1], 'wb') as f:
            f.write(b'SAT\n\xff\xfe 0\n')
    else:
        sys.stdout.buffer.write(b's SATISFIABLE\nv \xff\xfe 0\n')
    sys.exit(0)

if mode == 'script':
    if len(files) == 2:
        emit(env.get('FAKE_STDOUT', ''))
        if env.get('FAKE_NOFILE') != '1':
            with open(files[1], 'w') as f:
                f.write(env.get('FAKE_OUT', ''))
        else:
            os.unlink(files[1])
    else:
        emit(env.get('FAKE_OUT', ''))
    sys.exit(int(env.get('FAKE_EXIT', '0')))

# brute force
n = 0
clauses = []
cur = []
for line in text.splitlines():
    if line.startswith('c'):
        continue
    if line.startswith('p'):
        n = int(line.split()[2])
        continue
    for tok in line.split():
        v = int(tok)
        if v == 0:
            clauses.append(cur)
            cur = []
        else:
            cur.append(v)
model = None
for bits in itertools.product([False, True], repeat=n):
    if all(any((l > 0) == bits[abs(l) - 1] for l in c) for c in clauses):
        model = [(i + 1) if b else -(i + 1) for i, b in enumerate(bits)]
        break
split = int(env.get('FAKE_SPLIT', '0'))
comments = env.get('FAKE_COMMENTS') == '1'
if model is not None and env.get('FAKE_REVERSE') == '1':
    model = model[::-1]
if len(files) == 2:
    emit("this is fake minisat\nrestarts 0\n")
    with open(files[1], 'w') as f:
        if model is None:
            f.write("UNSAT\n")
        else:
            f.write("SAT\n" + " ".join(str(l) for l in model + [0]) + "\n")
    sys.exit(20 if model is None else 10)
out = ["c fake solver " + name]
if comments:
    out.append("")
    out.append("c s SATISFIABLE is not the answer")
if model is None:
    out.append("s UNSATISFIABLE")
else:
    out.append("s SATISFIABLE")
    lits = [str(l) for l in model] + ['0']
    if split <= 0:
        chunks = [lits]
    else:
        chunks = [lits[i:i + split] for i in range(0, len(lits), split)]
    for ch in chunks:
        if comments:
            out.append("c v 99 98 comment in between")
        out.append("v " + " ".join(ch))
if comments:
    out.append("c bye")
emit("\n".join(out) + "\n")
sys.exit(20 if model is None else 10)
'''

ROOT = tempfile.mkdtemp(prefix="c20equiv")
BIN = os.path.join(ROOT, "bin")
TMP = os.path.join(ROOT, "tmp")
LOG = os.path.join(ROOT, "log.txt")
os.mkdir(BIN)
os.mkdir(TMP)
tempfile.tempdir = TMP
os.environ['TMPDIR'] = TMP
os.environ['PATH'] = BIN
os.environ['FAKE_LOG'] = LOG

FAKE_VARS = ['FAKE_MODE', 'FAKE_OUT', 'FAKE_STDOUT', 'FAKE_SPLIT',
             'FAKE_COMMENTS', 'FAKE_REVERSE', 'FAKE_EXIT', 'FAKE_NOFILE']

POPEN_CALLS = []
_RealPopen = subprocess.Popen


class RecPopen(_RealPopen):
    def __init__(self, *a, **k):
        POPEN_CALLS.append((repr(a), repr(sorted(k.items(), key=lambda kv: kv[0]))))
        _RealPopen.__init__(self, *a, **k)


subprocess.Popen = RecPopen

import cnfgen
from cnfgen import CNF
from cnfgen.utils import solver as S

RECORD = []


def norm(text):
    text = text.replace(TMP, "<TMP>")
    text = re.sub(r"<TMP>/tmp[a-z0-9_]{8}", "<TMP>/tmpX", text)
    text = text.replace(BIN, "<BIN>").replace(ROOT, "<ROOT>")
    return text


def reap():
    # wait for the '--help' probes which cnfgen never waits for (a
    # solver process leaked after an exception gets its stdin closed)
    for leaked in list(getattr(subprocess, '_active', None) or []):
        if leaked.stdin is not None:
            leaked.stdin.close()
    while True:
        try:
            os.waitpid(-1, 0)
        except ChildProcessError:
            break


def install(names, nonexec=()):
    reap()
    for f in os.listdir(BIN):
        os.unlink(os.path.join(BIN, f))
    for nm in list(names) + list(nonexec):
        p = os.path.join(BIN, nm)
        with open(p, "w") as f:
            f.write(FAKE)
        if nm in nonexec:
            os.chmod(p, stat.S_IRUSR | stat.S_IWUSR)
        else:
            os.chmod(p, stat.S_IRWXU)


def setenv(**kw):
    for v in FAKE_VARS:
        os.environ.pop(v, None)
    for k, v in kw.items():
        os.environ['FAKE_' + k.upper()] = str(v)


def satisfied(F, witness):
    if witness is None:
        return None
    val = set(witness)
    return all(any(l in val for l in c) for c in F)


def run(label, fn, F=None):
    del POPEN_CALLS[:]
    open(LOG, "w").close()
    err = io.StringIO()
    with contextlib.redirect_stderr(err):
        try:
            r = fn()
            out = ('ok', repr(r), type(r).__name__)
            if F is not None and isinstance(r, tuple):
                out += (repr(satisfied(F, r[1])),
                        repr(type(r[1]).__name__),
                        repr(r[1] is None or [abs(x) for x in r[1]] == sorted(abs(x) for x in r[1])))
        except Exception as e:
            out = ('exc', type(e).__name__, norm(str(e)))
    with open(LOG) as f:
        log = f.read()
    leftover = sorted(os.listdir(TMP))
    for f in leftover:
        os.unlink(os.path.join(TMP, f))
    RECORD.append(repr((label, out, norm(err.getvalue()),
                        [(norm(a), norm(k)) for a, k in POPEN_CALLS],
                        norm(log), len(leftover))))


# ---------------------------------------------------------------- formulas
def formulas():
    Fs = []
    Fs.append(('empty', CNF()))
    Fs.append(('emptyclause', CNF([[]])))
    Fs.append(('contradiction', CNF([[1], [-1]])))
    Fs.append(('small', CNF([[1, -2], [2, 3], [-1, -3]])))
    F = CNF()
    F.update_variable_number(5)
    F.add_clause([1, -3])
    Fs.append(('unused', F))
    F = CNF()
    F.update_variable_number(3)
    Fs.append(('noclauses', F))
    F = CNF([[1, 2], [-4]])
    F.add_clause([])
    Fs.append(('withempty', F))
    Fs.append(('php32', cnfgen.PigeonholePrinciple(3, 2)))
    Fs.append(('php23', cnfgen.PigeonholePrinciple(2, 3)))
    rng = random.Random(2020)
    for k in range(3):
        n = 6 + 3 * k
        cls = []
        for _ in range(3 * n):
            vs = rng.sample(range(1, n + 1), 3)
            cls.append([v if rng.random() < 0.5 else -v for v in vs])
        Fs.append(('rand%d' % k, CNF(cls)))
    F = CNF([[-i] for i in range(1, 12)] + [[12]])
    Fs.append(('twelve', F))
    return Fs


FS = formulas()
FSD = dict(FS)
ALL = S.supported_satsolvers()
RECORD.append(repr(ALL))
RECORD.append(repr(sorted((k, v.__name__) for k, v in S._SATSOLVER_INTERFACE.items())))

# A. each supported solver installed alone
for nm in ALL:
    install([nm])
    setenv()
    for fn in ['empty', 'emptyclause', 'small', 'unused', 'php32', 'rand1']:
        F = FSD[fn]
        run(('A', nm, fn, 'solve'), lambda: F.solve(cmd=nm), F)
        run(('A', nm, fn, 'is_sat'), lambda: F.is_satisfiable(cmd=nm))
    F = FSD['small']
    run(('A', nm, 'default'), lambda: F.solve(), F)
    run(('A', nm, 'default-is'), lambda: F.is_satisfiable())

# B. shapes of the answer for the three conventions
install(ALL)
for nm in ['lingeling', 'march', 'minisat', 'sat4j']:
    for shape in [dict(split=1), dict(split=3, comments=1),
                  dict(split=4, reverse=1), dict(comments=1, reverse=1)]:
        setenv(**shape)
        for fn, F in FS:
            run(('B', nm, sorted(shape.items()), fn),
                lambda: F.solve(cmd=nm + ' -q --opt=3'), F)
setenv()
for fn, F in FS:
    run(('B0', fn, 'solve'), lambda: F.solve(), F)
    run(('B0', fn, 'is'), lambda: F.is_satisfiable())
    run(('B0', fn, 'sat_solve'), lambda: S.sat_solve(F), F)

# C. scripted answers
STDOUT_SCRIPTS = [
    "", "c only comments\nc more\n", "s UNKNOWN\n", "s SATISFIABLE\n", "s\n",
    "s SATISFIABLE\ns UNKNOWN\n", "s UNKNOWN\ns UNSATISFIABLE\n",
    "s UNSATISFIABLE\nv 1 2 0\n", "\n\ns SATISFIABLE\n\nv 1\nv -2 0\n\n",
    "v 3 -1 0\ns SATISFIABLE", "s SATISFIABLE\nv 1 x 0\n", "sSATISFIABLE\n",
    "solution SATISFIABLE extra\nv -3 2 -1\n", "vv 3 0\ns SATISFIABLE\n",
    " s SATISFIABLE\n v 1 0\n", "s SATISFIABLE\r\nv 1 -2 0\r\n",
    "s SATISFIABLE\nv\nv 0\nv 0 0 2 0 -1\n", "s UNSATISFIABLE trailing\n",
    "s   SATISFIABLE\nv\t-2\t1\t0\n", "c s SATISFIABLE\ns unsatisfiable\n",
    "s SATISFIABLE\nv 1 -2 0\ns UNSATISFIABLE\n", "S SATISFIABLE\n",
    "s SATISFIABLE\nv 2 v 1 0\n", "s SATISFIABLE\nv 00 01 -02\n",
]
FILE_SCRIPTS = [
    "", "SAT\n1 -2 0\n", "SAT", "SAT\n", "UNSAT\n", "UNSAT 1 2", "INDET\n",
    "SAT\n-2 1 0 3\n", "SAT\n1 x 0", "sat\n", "  \n\n", "SAT 3 -2\n1 0",
    "SATISFIABLE\n", "UNSAT\nSAT\n", "SAT\nUNSAT\n", "0\n", "SAT\n0 0\n",
]
F = FSD['small']
for nm in ['kissat', 'sat4j']:
    for i, sc in enumerate(STDOUT_SCRIPTS):
        setenv(mode='script', out=sc, exit=i % 3)
        run(('C', nm, i, 'solve'), lambda: F.solve(cmd=nm), F)
        run(('C', nm, i, 'is'), lambda: F.is_satisfiable(cmd=nm))
for i, sc in enumerate(FILE_SCRIPTS):
    setenv(mode='script', out=sc, stdout="garbage s SATISFIABLE\n", exit=i % 3)
    run(('C', 'minisat', i, 'solve'), lambda: F.solve(cmd='minisat'), F)
    run(('C', 'minisat', i, 'is'), lambda: F.is_satisfiable(cmd='minisat -x'))
    run(('C', 'minisat', i, 'v2'), lambda: F.solve(cmd='minisat', verbose=2), F)
setenv(mode='script', nofile=1)
run(('C', 'minisat', 'nofile'), lambda: F.solve(cmd='minisat'), F)
setenv(mode='binary')
for nm in ['cadical', 'march', 'minisat']:
    run(('C', nm, 'binary'), lambda: F.solve(cmd=nm), F)
    run(('C', nm, 'binary-is'), lambda: F.is_satisfiable(cmd=nm))

# D. choice of the solver, sameas, errors
setenv(split=2)
SETS = [
    ([], []), (['minisat'], []), (['march', 'sat4j'], []), (ALL, []),
    (['kissat', 'mysolver'], ['lingeling', 'cadical']),
    (['glucose', 'mysolver', 'other-solver'], ['minisat']),
    (['sat4j'], ALL[:-1]), (['mysolver'], []),
]
CMDS = [None, '', '   ', 'lingeling', 'minisat -no-pre', 'march',
        'mysolver -x', 'other-solver', ' kissat ', 'glucose -pre',
        'unknownsolver', 'cadical\t-q']
SAMEAS = [None, 'lingeling', 'minisat', 'sat4j', 'bogus', '']
for si, (inst, nonexec) in enumerate(SETS):
    install(inst, nonexec)
    for cmd in CMDS:
        for sa in SAMEAS:
            F = FSD['small'] if si % 2 else FSD['php32']
            run(('D', si, cmd, sa, 'solve'),
                lambda: F.solve(cmd=cmd, sameas=sa), F)
            run(('D', si, cmd, sa, 'is'),
                lambda: FSD['unused'].is_satisfiable(cmd=cmd, sameas=sa))
install(ALL)
for bad in [None, [[1, 2]], "p cnf 1 1\n1 0\n", 5]:
    run(('D', 'typeerror', repr(bad)), lambda: S.sat_solve(bad))
    run(('D', 'typeerror', repr(bad), 'cmd'), lambda: S.sat_solve(bad, cmd='bogus', sameas='bogus'))
run(('D', 'cmdtype'), lambda: S.sat_solve(FSD['small'], cmd=5))
run(('D', 'positional'), lambda: S.sat_solve(FSD['small'], 'mysolver', 'minisat', 1), FSD['small'])

# E. verbosity
install(ALL + ['mysolver'])
for verbose in [-1, 0, 1, 2, 3]:
    for nm in ['lingeling', 'march -v', 'minisat -no-pre', 'sat4j']:
        for fn in ['small', 'php32', 'empty']:
            F = FSD[fn]
            setenv(comments=1, split=2)
            run(('E', verbose, nm, fn), lambda: F.solve(cmd=nm, verbose=verbose), F)
            run(('E', verbose, nm, fn, 'sat_solve'),
                lambda: S.sat_solve(F, cmd='mysolver', sameas=nm.split()[0], verbose=verbose), F)
        setenv(mode='script', out='c nothing\n', stdout='c nothing on stdout\n')
        run(('E', verbose, nm, 'fail'), lambda: FSD['small'].solve(cmd=nm, verbose=verbose))

# F. some_solver_installed
setenv()


def gen(items):
    for x in items:
        yield x


class Str(str):
    pass


for si, (inst, nonexec) in enumerate(SETS):
    install(inst, nonexec)
    ARGS = [None, 'lingeling', 'minisat', 'mysolver', '', 'nonexistent',
            [], (), ['a', 'b'], ['a', 'minisat', 'b'], ['mysolver', 'minisat'],
            ('sat4j', 'march'), ['x', 3], [3], [None], 5, 5.5, [['minisat']],
            {'minisat': 1}, {'kissat', }, ['lingeling', 'kissat', 'glucose'],
            Str('minisat'), [Str('minisat')], ['minisat', Str('x')], b'minisat',
            [b'minisat'], ['mini sat'], 'mini sat', ['minisat -x'],
            [os.path.join(BIN, 'minisat')], BIN, ['.'], ALL, ALL[::-1]]
    for a in ARGS:
        run(('F', si, repr(a).replace(BIN, '<BIN>')), lambda: S.some_solver_installed(a))
        run(('F', si, repr(a).replace(BIN, '<BIN>'), 'kw'),
            lambda: cnfgen.some_solver_installed(solvers=a))
    run(('F', si, 'gen-ok'), lambda: S.some_solver_installed(gen(['a', 'minisat', 'sat4j'])))
    run(('F', si, 'gen-bad'), lambda: S.some_solver_installed(gen(['a', 3, 'sat4j'])))
    run(('F', si, 'noarg'), lambda: S.some_solver_installed())

# G. the three interface functions called directly
install(['lingeling', 'sat4j', 'minisat', 'mysolver'], ['locked'])
for fn in ['small', 'php32', 'empty', 'withempty']:
    F = FSD[fn]
    for func in [S._satsolve_stdin_stdout, S._satsolve_filein_stdout, S._satsolve_filein_fileout]:
        setenv(split=5, comments=1, reverse=1)
        run(('G', func.__name__, fn, 'default'), lambda: func(F), F)
        for cmd in ['mysolver', 'mysolver -a -b', 'nonexistent', 'nonexistent -z', 'locked', '']:
            for verbose in [0, 1, 2]:
                if verbose == 1:
                    run(('G', func.__name__, fn, cmd, verbose),
                        lambda: func(F, cmd, verbose), F)
                else:
                    run(('G', func.__name__, fn, cmd, verbose, 'kw'),
                        lambda: func(F, cmd=cmd, verbose=verbose), F)
    for func in [S._satsolve_stdin_stdout, S._satsolve_filein_stdout]:
        for sc in STDOUT_SCRIPTS[:12]:
            setenv(mode='script', out=sc)
            run(('G', func.__name__, fn, 'script', sc), lambda: func(F, 'mysolver', 2), F)
    for sc in FILE_SCRIPTS:
        setenv(mode='script', out=sc, stdout='c hello\n')
        run(('G', 'fileout', fn, 'script', sc),
            lambda: S._satsolve_filein_fileout(F, 'mysolver', 2), F)
for func in [S._satsolve_stdin_stdout, S._satsolve_filein_stdout, S._satsolve_filein_fileout]:
    run(('G', func.__name__, 'notcnf'), lambda: func([[1, 2]], 'mysolver'))

reap()
shutil.rmtree(ROOT, ignore_errors=True)
h = hashlib.sha256()
for r in RECORD:
    h.update(r.encode('utf-8', 'backslashreplace'))
    h.update(b"\n")
if os.environ.get('C20_DUMP'):
    with open(os.environ['C20_DUMP'], 'w') as f:
        f.write("\n".join(RECORD))
print(h.hexdigest())
