#!/usr/bin/env python
"""Equivalence script for t21: BaseCNF variable counter attribute rename.

Exercises every BaseCNF/CNF code path that reads or writes the number of
variables, and the Shuffle transformation on top of it.
Run as:  cd <checkout> && /venv/bin/python equiv.py
"""
import sys, os, io, random, hashlib, copy, pickle
sys.path.insert(0, os.getcwd())

from cnfgen.formula.basecnf import BaseCNF, ClausesView
from cnfgen.formula.cnf import CNF
from cnfgen.transformations.shuffle import Shuffle
from cnfgen.utils.parsedimacs import from_dimacs_file

H = hashlib.sha256()


def rec(*items):
    for x in items:
        H.update(repr(x).encode('utf-8'))
        H.update(b'\x00')


def attempt(label, fn, *args, **kwargs):
    try:
        res = fn(*args, **kwargs)
        rec(label, 'ok', res)
        return res
    except Exception as e:   # record type and message
        rec(label, 'exc', type(e).__name__, str(e))
        return None


def snapshot(label, F):
    obs = [
        ('str', lambda: str(F)),
        ('len', lambda: len(F)),
        ('nv', lambda: F.number_of_variables()),
        ('nc', lambda: F.number_of_clauses()),
        ('clauses', lambda: list(F)),
        ('vars', lambda: list(F.variables())),
        ('labels', lambda: list(F.all_variable_labels())),
        ('labels-y', lambda: list(F.all_variable_labels('y_{}'))),
        ('header', lambda: list(F.header.items())),
        ('debug', lambda: F.debug()),
        ('debug-o', lambda: F.debug(allow_opposite=True)),
        ('debug-r', lambda: F.debug(allow_repetition=True)),
        ('debug-or', lambda: F.debug(allow_opposite=True, allow_repetition=True)),
        ('view', lambda: (len(F.clauses()), list(F.clauses()), str(F.clauses()),
                          F.clauses() == F, F.clauses() == list(F))),
    ]
    if isinstance(F, CNF):
        obs += [('dimacs', F.to_dimacs), ('opb', F.to_opb), ('latex', F.to_latex)]
    for name, fn in obs:
        attempt(label + ' ' + name, fn)


clause_sets = [
    None,
    [],
    [[]],
    [[], []],
    [[1]],
    [[-1]],
    [[1, -1]],
    [[1, 2, -3], [-2, 4]],
    [[5], [-3, 2], [], [1, 1], [7, -7, 2]],
    [[-9, 3], [2], [4, -4]],
    [(1, 2), (3,), ()],
    [[10 ** 6]],
    [[0]],
    [[1, 0, 2]],
    [['a']],
    [[1, 'a']],
    [[None]],
    [[1.5]],
    [[1, 2], 3],
    [range(1, 4), range(-5, -2)],
]

for cls in (BaseCNF, CNF):
    for idx, cs in enumerate(clause_sets):
        label = '{}-{}'.format(cls.__name__, idx)
        F = attempt(label + ' build', lambda: str(cls(cs)))
        try:
            F = cls(cs)
        except Exception as e:
            rec(label, 'ctor-exc', type(e).__name__, str(e))
            continue
        snapshot(label, F)
        # raise the number of variables in several ways
        for nv in [0, 1, 3, 3, 20, 7, -1, 2.5, 'x', None, True]:
            attempt(label + ' upd {!r}'.format(nv), F.update_variable_number, nv)
            rec(label, F.number_of_variables(), str(F))
        snapshot(label + ' after-upd', F)
        # add clauses with and without check
        for cl, chk in [([21, -22], True), ([30], False), ([], True), ([0], False),
                        ([0], True), (['z'], True), ([-40, 3], True), ([50, 'q'], False),
                        ((x for x in [41, -42]), True), ([None], True)]:
            attempt(label + ' add', F.add_clause, cl, check=chk)
            rec(label, F.number_of_variables(), len(F), str(F))
        attempt(label + ' addfrom', F.add_clauses_from, [[60], [-61, 2]], check=False)
        rec(label, F.number_of_variables())
        attempt(label + ' addfrom', F.add_clauses_from, [[60], [-61, 2]], check=True)
        rec(label, F.number_of_variables())
        attempt(label + ' addfrom', F.add_clauses_from, [[62], [0], [70]])
        rec(label, F.number_of_variables(), len(F))
        attempt(label + ' final debug', F.debug)
        # copies keep the counter
        G = copy.deepcopy(F)
        rec(label, 'deepcopy', G.number_of_variables(), len(G), str(G))
        G.update_variable_number(G.number_of_variables() + 3)
        rec(label, 'deepcopy-upd', G.number_of_variables(), F.number_of_variables())
        G2 = copy.copy(F)
        rec(label, 'copy', G2.number_of_variables(), str(G2))

# description handling and __str__
for d in [None, '', 'my formula', 'multi\nline']:
    F = CNF([[1, -2]], description=d)
    rec('descr', d, str(F), F.number_of_variables())
    del F.header['description']
    rec('descr-del', str(F))

# Shuffle relies on number_of_variables / update_variable_number / add_clause
random.seed(2024)
bases = []
for n, m, w in [(0, 0, 0), (1, 1, 1), (3, 0, 0), (4, 6, 3), (8, 20, 4), (12, 5, 12), (6, 9, 0)]:
    F = CNF()
    F.update_variable_number(n)
    for _ in range(m):
        k = random.randint(0, w) if w else 0
        F.add_clause([random.choice([-1, 1]) * random.randint(1, n) for _ in range(k)] if n else [])
    bases.append(F)
# formula with unused trailing variables
F = CNF([[1, -2], [2, 3]])
F.update_variable_number(9)
bases.append(F)

modes = ['fixed', 'shuffle']
for bi, F in enumerate(bases):
    N = F.number_of_variables()
    M = F.number_of_clauses()
    for seed in (0, 1, 'abc'):
        for pf in modes:
            for vp in modes:
                for cp in modes:
                    random.seed(seed)
                    G = attempt('shuf {} {} {}{}{}'.format(bi, seed, pf, vp, cp),
                                lambda: Shuffle(F, pf, vp, cp).to_dimacs())
                    rec(random.random())
    random.seed(bi)
    flips = [random.choice([-1, 1]) for _ in range(N)]
    vperm = list(range(1, N + 1)); random.shuffle(vperm)
    cperm = list(range(M)); random.shuffle(cperm)
    G = Shuffle(F, flips, vperm, cperm)
    snapshot('explicit {}'.format(bi), G)
    rec(G.number_of_variables() == N, G.number_of_clauses() == M,
        sorted(len(c) for c in G) == sorted(len(c) for c in F))
    # invalid explicit arguments
    bad = [
        (flips + [1], vperm, cperm),
        (flips[:-1], vperm, cperm),
        ([0] * N, vperm, cperm),
        ([2] * N, vperm, cperm),
        (flips, vperm + [N + 1], cperm),
        (flips, vperm[:-1], cperm),
        (flips, [1] * N, cperm),
        (flips, list(range(N)), cperm),
        (flips, vperm, cperm + [M]),
        (flips, vperm, cperm[:-1]),
        (flips, vperm, [0] * M),
        (flips, vperm, list(range(1, M + 1))),
        ('other', vperm, cperm),
        (flips, 'other', cperm),
        (flips, vperm, 'other'),
        (None, vperm, cperm),
        (flips, 5, cperm),
    ]
    for bj, (a, b, c) in enumerate(bad):
        attempt('bad {} {}'.format(bi, bj), lambda: Shuffle(F, a, b, c).to_dimacs())

# DIMACS round trip (update_variable_number from the spec line)
texts = [
    "p cnf 0 0\n",
    "p cnf 5 0\n",
    "c hi\np cnf 3 2\n1 -2 0\n3 0\n",
    "p cnf 7 3\n1 2\n 3 0 0 -7 0\n",
    "p cnf 2 1\n3 0\n",
    "p cnf 2 2\n1 0\n",
    "p cnf -1 2\n",
    "1 2 0\n",
    "",
    "p cnf 2 1\n1 2\n",
    "p cnf 2 1\np cnf 2 1\n1 0\n",
]
for ti, t in enumerate(texts):
    for cls in (BaseCNF, CNF):
        try:
            F = from_dimacs_file(cls, io.StringIO(t))
        except Exception as e:
            rec('dimacs', ti, cls.__name__, type(e).__name__, str(e))
            continue
        snapshot('fromdimacs {} {}'.format(ti, cls.__name__), F)
        if cls is CNF:
            random.seed(ti)
            snapshot('fromdimacs-shuffled {}'.format(ti), Shuffle(F))

print(H.hexdigest())
