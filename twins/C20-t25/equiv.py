"""Equivalence script for property C20 (solve / is_satisfiable and the solver facade).

Builds fake SAT solvers (python scripts) speaking the three I/O conventions,
puts them alone on PATH, and records everything observable.
Prints a single SHA256 digest.
"""
import sys, os, re, io, hashlib, random, tempfile, shutil, contextlib, stat
sys.path.insert(0, os.getcwd())

WORK = tempfile.mkdtemp(prefix="c20equiv")
BIN = os.path.join(WORK, "bin")
TMP = os.path.join(WORK, "tmp")
os.mkdir(BIN); os.mkdir(TMP)
os.environ["TMPDIR"] = TMP
tempfile.tempdir = TMP

FAKE = r'''#!/venv/bin/python -S
import sys, os, itertools
args = sys.argv[1:]
if "--help" in args:
    sys.exit(0)
files = [a for a in args if not a.startswith("-")]
mode = os.environ.get("FAKE_MODE", "solve")
def parse(text):
    n = 0; cls = []
    for line in text.splitlines():
        line = line.strip()
        if not line or line[0] == "c": continue
        if line[0] == "p":
            n = int(line.split()[2]); continue
        lits = [int(x) for x in line.split()]
        assert lits[-1] == 0
        cls.append(lits[:-1])
    return n, cls
if len(files) == 0:
    text = sys.stdin.read()
else:
    text = open(files[0]).read()
n, cls = parse(text)
model = None
for bits in itertools.product([False, True], repeat=n):
    if all(any((l > 0) == bits[abs(l) - 1] for l in c) for c in cls):
        model = [(i + 1) if b else -(i + 1) for i, b in enumerate(bits)]
        break
order = os.environ.get("FAKE_ORDER", "fwd")
if model is not None and order == "rev":
    model = model[::-1]
chunk = int(os.environ.get("FAKE_CHUNK", "3"))
if len(files) == 2:
    # minisat convention
    out = open(files[1], "w")
    print("c this is minisat stdout with", n, "vars")
    if mode == "silent":
        pass
    elif mode == "garbage":
        out.write("INDET\n")
    elif mode == "fail":
        out.close(); sys.exit(3)
    elif model is None:
        out.write("UNSAT\n")
    else:
        out.write("SAT\n" + " ".join(str(l) for l in model) + " 0\n")
    out.close()
    sys.exit(10 if model is not None else 20)
print("c fake solver")
if mode == "silent":
    print("c nothing to say")
elif mode == "garbage":
    print("s UNKNOWN")
elif mode == "bare_s":
    print("s")
elif mode == "fail":
    sys.exit(3)
elif mode == "flipflop":
    print("s SATISFIABLE")
    print("s UNKNOWN")
elif model is None:
    print("c interleaved")
    print("")
    print("s UNSATISFIABLE")
else:
    print("s SATISFIABLE")
    model = model + [0]
    for i in range(0, len(model), chunk):
        print("c interleaved comment", i)
        print("")
        print("v " + " ".join(str(l) for l in model[i:i + chunk]))
    if mode == "no_v":
        pass
    print("c done")
'''
fake = os.path.join(WORK, "fake.py")
with open(fake, "w") as f:
    f.write(FAKE)
os.chmod(fake, 0o755)

def install(names):
    for x in os.listdir(BIN):
        os.unlink(os.path.join(BIN, x))
    for nm in names:
        os.symlink(fake, os.path.join(BIN, nm))
    # a non executable / broken entry
os.environ["PATH"] = BIN

import cnfgen
from cnfgen import CNF
from cnfgen.utils import solver as S
from cnfgen.formula.cnfio import CNFio
from cnfgen.formula.basecnf import BaseCNF

LOG = []
def norm(s):
    s = s.replace(WORK, "<W>")
    s = re.sub(r"<W>/tmp/tmp[A-Za-z0-9_]+", "<T>", s)
    return s
def log(*a):
    LOG.append(norm(" ".join(repr(x) if not isinstance(x, str) else x for x in a)))

def call(tag, fn, *args, **kw):
    err = io.StringIO(); out = io.StringIO()
    try:
        with contextlib.redirect_stderr(err), contextlib.redirect_stdout(out):
            r = fn(*args, **kw)
        log(tag, "->", repr(r), type(r).__name__)
    except Exception as e:
        r = None
        log(tag, "EXC", type(e).__name__, str(e))
    log("  stderr:", err.getvalue()); log("  stdout:", out.getvalue())
    log("  tmp:", repr(sorted(os.listdir(TMP))))
    return r

def check(F, res):
    if res is None or not isinstance(res, tuple): return
    ok, w = res
    if ok:
        assert [abs(x) for x in w] == list(range(1, F.number_of_variables() + 1)), w
        s = set(w)
        assert all(any(l in s for l in c) for c in F), w
    else:
        assert w is None

# ---- formulas
rnd = random.Random(20)
formulas = []
formulas.append(("empty", CNF()))
F = CNF(); F.add_clause([]); formulas.append(("emptyclause", F))
F = CNF(); F.update_variable_number(4); formulas.append(("novars_clauses", F))
F = CNF([[1, -3]]); F.update_variable_number(6); formulas.append(("unused", F))
F = CNF([[1], [-1]]); formulas.append(("contradiction", F))
F = CNF([[1, 2], [-1, 2], [1, -2], [-1, -2]]); formulas.append(("full2", F))
for k in range(8):
    n = rnd.randint(1, 8); m = rnd.randint(0, 30)
    cl = []
    for _ in range(m):
        w = rnd.randint(1, min(3, n))
        vs = rnd.sample(range(1, n + 1), w)
        cl.append([v if rnd.random() < .5 else -v for v in vs])
    formulas.append(("rnd%d" % k, CNF(cl)))
formulas.append(("php32", cnfgen.PigeonholePrinciple(3, 2)))
formulas.append(("php22", cnfgen.PigeonholePrinciple(2, 2)))
formulas.append(("cnfio", CNFio([[1, 2], [-2, 3], [-1, -3]])))

SUBSET = formulas[:7] + formulas[9:11] + formulas[-2:]
log("supported", repr(S.supported_satsolvers()), repr(cnfgen.supported_satsolvers()))
log("table", repr(sorted((k, v.__name__) for k, v in S._SATSOLVER_INTERFACE.items())))

# ---- no solver installed
install([])
call("installed none", cnfgen.some_solver_installed)
for nm, F in formulas[:4]:
    call("nosolver solve " + nm, F.solve)
    call("nosolver issat " + nm, F.is_satisfiable)
    call("nosolver solve cmd " + nm, F.solve, cmd="minisat -x")
    call("nosolver solve cmd2 " + nm, F.solve, cmd="foo", sameas="kissat")
    call("nosolver empty cmd " + nm, F.solve, cmd="   ")

# ---- argument errors
F = formulas[5][1]
call("bad sameas", F.solve, sameas="zchaff")
call("bad sameas2", F.is_satisfiable, cmd="lingeling", sameas="zchaff")
call("unsupported", F.solve, cmd="zchaff -x")
call("unsupported2", F.is_satisfiable, cmd="zchaff")
call("notcnf", S.sat_solve, [[1, 2]])
call("notcnf2", S.sat_solve, None, cmd="minisat")
call("basecnf", S.sat_solve, BaseCNF([[1, -2]]), cmd="minisat")
call("ssi str", S.some_solver_installed, "minisat")
call("ssi list", S.some_solver_installed, ["a", "b"])
call("ssi bad", S.some_solver_installed, ["a", 3])
call("ssi bad2", S.some_solver_installed, 3)
call("ssi empty", S.some_solver_installed, [])

# ---- each supported solver alone
for name in S.supported_satsolvers():
    install([name])
    call("installed " + name, cnfgen.some_solver_installed)
    call("installed? minisat", S.some_solver_installed, "minisat")
    for fn, F in SUBSET:
        os.environ["FAKE_ORDER"] = "fwd"
        r = call("%s default %s fwd" % (name, fn), F.solve)
        check(F, r)
        os.environ["FAKE_ORDER"] = "rev"
        r = call("%s cmd %s rev" % (name, fn), F.solve, cmd=name + " -q --opt=1")
        check(F, r)
        os.environ["FAKE_ORDER"] = "fwd"
        if fn in ("empty", "emptyclause", "unused", "rnd3"):
            call("%s issat %s" % (name, fn), F.is_satisfiable)
            call("%s issat cmd %s" % (name, fn), F.is_satisfiable, cmd=name)
    for mode in ("silent", "garbage", "bare_s", "fail", "flipflop"):
        os.environ["FAKE_MODE"] = mode
        for fn, F in formulas[3:5]:
            for v in (0, 2):
                call("%s %s %s v%d" % (name, mode, fn, v), F.solve, cmd=name, verbose=v)
            call("%s %s %s issat" % (name, mode, fn), F.is_satisfiable)
    os.environ["FAKE_MODE"] = "solve"

# ---- verbose and chunking, sameas with custom command names
install(["mysolver", "lingeling", "minisat", "sat4j"])
for chunk in ("1", "100"):
    os.environ["FAKE_CHUNK"] = chunk
    for fn, F in SUBSET:
        for sameas in ("lingeling", "minisat", "march"):
            for v in (0, 1, 2):
                r = call("mysolver as %s %s chunk%s v%d" % (sameas, fn, chunk, v), F.solve,
                         cmd="mysolver -flag", sameas=sameas, verbose=v)
                check(F, r)
            call("mysolver issat as %s %s" % (sameas, fn), F.is_satisfiable,
                 cmd="mysolver", sameas=sameas)
        call("sameas ignored when cmd None " + fn, F.solve, sameas="minisat", verbose=1)
        call("direct sat_solve " + fn, S.sat_solve, F, "sat4j", None, 2)
os.environ["FAKE_CHUNK"] = "3"

# ---- sets of installed solvers
names = S.supported_satsolvers()
for k in range(6):
    sub = rnd.sample(names, rnd.randint(0, 4))
    install(sub)
    call("set %r installed" % (sorted(sub),), cnfgen.some_solver_installed)
    for fn, F in formulas[3:9]:
        r = call("set %d solve %s" % (k, fn), F.solve, verbose=1)
        check(F, r)
        call("set %d issat %s" % (k, fn), F.is_satisfiable)
        call("set %d cmd cadical %s" % (k, fn), F.solve, cmd="cadical", verbose=1)

# ---- direct calls of the interface functions
install(["lingeling", "minisat", "sat4j"])
for fn, F in SUBSET:
    for func in (S._satsolve_stdin_stdout, S._satsolve_filein_stdout, S._satsolve_filein_fileout):
        r = call("direct default %s %s" % (func.__name__, fn), func, F)
        check(F, r)
        call("direct missing %s %s" % (func.__name__, fn), func, F, "notthere -a", 2)
        call("direct kw %s %s" % (func.__name__, fn), func, F, cmd="lingeling", verbose=1)

shutil.rmtree(WORK, ignore_errors=True)
data = "\n".join(LOG)
if os.environ.get("C20_DUMP"):
    open(os.environ["C20_DUMP"], "w").write(data)
print(hashlib.sha256(data.encode()).hexdigest())
