#!/usr/bin/env python
"""Equivalence check for BaseOPB.cardinality_neq (cnfgen/formula/baseopb.py)

Calls cardinality_neq on BaseOPB and OPB formulas with many kinds of
literal sequences (lists, tuples, ranges, generators, bad literals) and
thresholds, checks that the arguments are left untouched, and prints
a digest of everything observable.
"""
import sys
import os
import hashlib
import warnings
from itertools import product

warnings.simplefilter('ignore')
sys.path.insert(0, os.getcwd())

from cnfgen.formula.baseopb import BaseOPB
from cnfgen.formula.opb import OPB
from cnfgen.info import info

OUT = []


def rec(*items):
    OUT.append(" | ".join(repr(x) for x in items))


def snapshot(F):
    res = [F.number_of_variables(), len(F), [list(c) for c in F],
           sorted(F.header.items())]
    for fn in ['to_opb']:
        if hasattr(F, fn):
            try:
                res.append(getattr(F, fn)())
            except Exception as e:
                res.append((type(e).__name__, str(e)))
    return res


class Weird:
    """A number-like literal, which records what is done with it"""
    log = []

    def __init__(self, v):
        self.v = v

    def __imul__(self, other):
        Weird.log.append(('imul', self.v, other))
        return Weird(self.v * other)

    def __mul__(self, other):
        Weird.log.append(('mul', self.v, other))
        return Weird(self.v * other)

    def __neg__(self):
        Weird.log.append(('neg', self.v))
        return Weird(-self.v)

    def __abs__(self):
        return abs(self.v)

    def __eq__(self, other):
        return self.v == other

    def __lt__(self, other):
        return self.v < other

    def __repr__(self):
        return 'W({})'.format(self.v)


def literal_sequences():
    yield 'empty', lambda: []
    yield 'single', lambda: [3]
    yield 'neg', lambda: [-2]
    yield 'two', lambda: [1, -2]
    yield 'doc', lambda: [1, 4, 2, -3, 6]
    yield 'tuple', lambda: (5, -1, 2)
    yield 'range', lambda: range(1, 5)
    yield 'gen', lambda: (x for x in [2, -4, 7])
    yield 'iter', lambda: iter([1, 2, 3])
    yield 'repeated', lambda: [1, 1, -1, 2]
    yield 'six', lambda: [-1, -2, -3, 4, 5, 6]
    yield 'zero', lambda: [1, 0, 2]
    yield 'str', lambda: [1, 'a', 2]
    yield 'float', lambda: [1.0, -2.5, 3]
    yield 'bool', lambda: [True, 2, False]
    yield 'none', lambda: [1, None]
    yield 'nested', lambda: [[1], [2]]
    yield 'weird', lambda: [Weird(1), Weird(-2), Weird(3)]


def copy_of(x):
    if isinstance(x, (list, tuple)):
        return type(x)(x)
    return None


def run():
    values = [-1, 0, 1, 2, 3, 4, 5, 6, 7]
    for cls in [BaseOPB, OPB]:
        for (name, mk), value, check in product(literal_sequences(), values,
                                                [True, False]):
            F = cls()
            F.header['transformation 1'] = 'something'
            if name in ('six', 'doc') and cls is OPB:
                F.update_variable_number(3)
            F.add_clause([1, -2], check=True)
            lits = mk()
            saved = copy_of(lits)
            Weird.log = []
            tag = (cls.__name__, name, value, check)
            try:
                res = F.cardinality_neq(lits, value, check=check)
                rec(tag, 'OK', res)
            except Exception as e:
                rec(tag, 'EXC', type(e).__name__, str(e))
            rec(tag, snapshot(F))
            rec(tag, 'log', Weird.log)
            if saved is not None:
                rec(tag, 'arg untouched', saved == lits, type(lits).__name__)
            else:
                rec(tag, 'rest', list(lits))
        # odd thresholds
        for value in [None, 'a', 1.0, 2.5, True, [1]]:
            for lits in [[1, 2, 3], []]:
                F = cls()
                tag = (cls.__name__, 'oddvalue', value, lits)
                saved = list(lits)
                try:
                    rec(tag, 'OK', F.cardinality_neq(lits, value))
                except Exception as e:
                    rec(tag, 'EXC', type(e).__name__, str(e))
                rec(tag, snapshot(F), saved == lits)
        # several constraints in a row, shared list
        F = cls()
        shared = [1, -2, 3, -4]
        for value in range(0, 5):
            F.cardinality_neq(shared, value)
            F.cardinality_neq(shared[:value], 1, check=False)
            rec(cls.__name__, 'chain', value, shared, snapshot(F))
        # clauses stored in the formula are independent objects
        F = cls()
        F.cardinality_neq([1, 2, 3], 1)
        first = F[0]
        first[0] = 'garbage'
        rec(cls.__name__, 'indep', snapshot(F))
        rec(cls.__name__, 'ids', len(set(id(c) for c in F._constraints)))


run()
text = "\n".join(OUT)
text = text.replace(str(info['version']), '<VERSION>')
if os.environ.get('EQUIV_DUMP'):
    sys.stderr.write(text + '\n')
print(hashlib.sha256(text.encode('utf-8')).hexdigest())
