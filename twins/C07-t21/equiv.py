#!/usr/bin/env python
"""Equivalence script for refactoring t21 (property C07).

Exercises the argparse actions that build graph arguments while the
command line is parsed (ObtainGraphAction and its three subclasses in
cnfgen/clitools/graph_args.py), directly and through cnfgen / pbgen.
Prints one SHA256 digest of everything observed.
"""
import os
import sys
import io
import random
import hashlib
import argparse
import tempfile
import shutil
import warnings

sys.path.insert(0, os.getcwd())
warnings.simplefilter('ignore')

from contextlib import redirect_stdout, redirect_stderr

import cnfgen.info
cnfgen.info.info['version'] = 'equiv'

from cnfgen.clitools import graph_args
from cnfgen.clitools.graph_args import ObtainGraphAction
from cnfgen.clitools.graph_args import ObtainSimpleGraph
from cnfgen.clitools.graph_args import ObtainBipartiteGraph
from cnfgen.clitools.graph_args import ObtainDirectedAcyclicGraph
from cnfgen.clitools.cmdline import CLIParser, CLIError, SeedAction
from cnfgen.clitools.cnfgen import cli as cnfgen_cli
from cnfgen.clitools.pbgen import cli as pbgen_cli

H = hashlib.sha256()
tmpdir = tempfile.mkdtemp()


def emit(*items):
    for x in items:
        H.update(repr(x).replace(tmpdir, '<TMP>').encode('utf-8'))
        H.update(b'\x00')


def observe(label, fn):
    out, err = io.StringIO(), io.StringIO()
    try:
        with redirect_stdout(out), redirect_stderr(err):
            res = fn()
        emit(label, 'ok', res, out.getvalue(), err.getvalue())
    except SystemExit as e:
        emit(label, 'exit', e.code, out.getvalue(), err.getvalue())
    except BaseException as e:
        emit(label, 'exc', type(e).__name__, str(e), out.getvalue(),
             err.getvalue())


def describe(G):
    if G is None:
        return None
    data = [type(G).__name__, G.name, G.number_of_vertices(),
            G.number_of_edges(), sorted(G.edges())]
    if G.is_bipartite():
        data.append((G.left_order(), G.right_order()))
    return data


simplefile = os.path.join(tmpdir, 'g.dimacs')
with open(simplefile, 'w') as f:
    f.write("p edge 5 4\ne 1 2\ne 2 3\ne 3 4\ne 4 5\n")
bipfile = os.path.join(tmpdir, 'b.kthlist')
dagfile = os.path.join(tmpdir, 'd.kthlist')
with open(dagfile, 'w') as f:
    f.write("4\n1 : 0\n2 : 1 0\n3 : 1 2 0\n4 : 3 0\n")

ACTIONS = [('simple', ObtainSimpleGraph),
           ('bipartite', ObtainBipartiteGraph),
           ('dag', ObtainDirectedAcyclicGraph)]

SPECS = {
    'simple': [
        ['gnp', '8', '.5'], ['gnp', '4', '.3', '3'], ['gnm', '7', '9'],
        ['gnd', '8', '3'], ['gnd', '7', '3'], ['grid', '3', '2'],
        ['torus', '3', '3'], ['complete', '4'], ['complete', '2', '3'],
        ['empty', '3'], ['gnp', '9', '.4', 'plantclique', '4'],
        ['gnm', '6', '3', 'addedges', '5'],
        ['gnp', '7', '.6', 'splitedges', '2'],
        ['gnp', '7', '.6', 'plantclique', '3', 'addedges', '2',
         'splitedges', '3'],
        ['gnp', '3', '.6', 'plantclique', '5'],
        ['gnp', '-1', '.5'], ['gnp'], ['gnm', '3', '40'],
        ['glrp', '3', '3', '.5'], ['tree', '3'], ['kthlist', 'x'],
        ['dimacs'], ['dimacs', simplefile], [simplefile],
        [simplefile, 'addedges', '3'],
        [os.path.join(tmpdir, 'missing.dimacs')],
        ['dimacs', os.path.join(tmpdir, 'nothere')],
        ['gnp', '5', '.5', 'gnp', '5', '.5'],
        ['gnp', '5', '.5', 'addedges', '1', 'addedges', '1'],
        ['gnp', '5', '.5', '--bad'], ['gnp', '5', '.5', 'plantbiclique', '1',
                                      '1'],
        ['complete', '4', 'addedges', '1'],
        ['empty', '4', 'splitedges', '1'],
        ['gnp', '5', '.5', 'save'],
        ['gnp', '5', '.5', 'save', 'dimacs'],
        ['gnp', '5', '.5', 'save', 'dimacs', os.path.join(tmpdir, 'o1')],
        ['gnp', '5', '.5', 'save', os.path.join(tmpdir, 'o2.gml')],
        ['gnp', '5', '.5', 'save', os.path.join(tmpdir, 'nodir', 'o3.gml')],
    ],
    'bipartite': [
        ['glrp', '4', '5', '.5'], ['glrm', '4', '4', '7'],
        ['glrm', '4', '4', '2'], ['glrd', '5', '4', '2'],
        ['regular', '4', '4', '2'], ['regular', '3', '3', '3'],
        ['regular', '4', '3', '2'], ['shift', '4', '5', '0', '1', '3'],
        ['shift', '4'], ['complete', '2', '3'], ['empty', '2', '2'],
        ['glrp', '4', '5', '.3', 'plantbiclique', '2', '2'],
        ['glrp', '4', '5', '.3', 'plantbiclique', '9', '2'],
        ['glrd', '4', '5', '1', 'addedges', '6'],
        ['glrd', '4', '5', '1', 'plantbiclique', '2', '3', 'addedges', '4'],
        ['complete', '2', '2', 'addedges', '1'],
        ['glrp', '4', '5', '.3', 'plantclique', '2'],
        ['glrp', '4', '5', '.3', 'splitedges', '2'],
        ['gnp', '5', '.5'], ['glrp', '0', '5', '.3'], ['glrp', 'a'],
        ['dot', 'x'], [os.path.join(tmpdir, 'missing.kthlist')],
        ['glrp', '3', '3', '.5', 'save', 'kthlist', bipfile],
        ['kthlist', bipfile], [bipfile, 'addedges', '1'],
    ],
    'dag': [
        ['tree', '2'], ['pyramid', '3'], ['path', '4'], ['path', '0'],
        ['tree', '-1'], ['pyramid'], ['tree', '2', 'addedges', '1'],
        ['gnp', '4', '.5'], ['matrix', 'x'], ['kthlist', dagfile], [dagfile],
        [os.path.join(tmpdir, 'missing.kthlist')],
        ['path', '3', 'save', 'kthlist', os.path.join(tmpdir, 'p.kthlist')],
        ['path', '3', 'path', '3'],
    ],
}

# 1. the action classes themselves
for name, cls in [('base', ObtainGraphAction)] + ACTIONS:
    emit(name, cls.__name__, [c.__name__ for c in cls.__mro__],
         issubclass(cls, ObtainGraphAction), issubclass(cls, argparse.Action))
    observe(name + ' nargs', lambda: cls(['--g'], 'G', nargs=2))
    observe(name + ' nargs0', lambda: cls(['--g'], 'G', nargs=0))

    def fields():
        a = cls([], 'G', help='h', metavar='<G>')
        return (a.nargs, a.dest, a.option_strings, a.help, a.metavar,
                a.default, a.required, a.const, a.type, a.choices)
    observe(name + ' fields', fields)


def base_call():
    a = ObtainGraphAction([], 'G')
    ns = argparse.Namespace()
    random.seed(5)
    a(CLIParser(prog='p'), ns, ['gnp', '5', '.5'])
    return sorted(vars(ns)), random.random()


observe('base call', base_call)

# 2. direct calls of the actions, seeded, twice each
for gtype, cls in ACTIONS:
    for spec in SPECS[gtype]:
        for seed in (0, 1, 'abc', 2 ** 40):
            for dest in ('G', 'other'):
                def direct():
                    act = cls([], dest)
                    ns = argparse.Namespace()
                    parser = CLIParser(prog='prog', usage='usage: prog <G>')
                    random.seed(seed)
                    res = act(parser, ns, list(spec))
                    return (res, sorted(vars(ns)),
                            describe(getattr(ns, dest, None)),
                            random.random())
                observe(('direct', gtype, spec, seed, dest), direct)
            if seed in (0, 'abc'):
                observe(('direct again', gtype, spec, seed), direct)

# 3. through a parser with a seed option before the graph argument
for gtype, cls in ACTIONS:
    for spec in SPECS[gtype]:
        for seed in ('0', '17', '-3'):
            def viaparser():
                parser = CLIParser(prog='prog', usage='usage: prog <G>')
                parser.add_argument('--seed', '-S', action=SeedAction,
                                    default=None, type=int)
                parser.add_argument('k', type=int)
                parser.add_argument('G', action=cls)
                ns = parser.parse_args(['-S', seed, '3'] + list(spec))
                return (ns.seed, ns.k, describe(ns.G), random.random())
            observe(('parser', gtype, spec, seed), viaparser)

    def twographs():
        parser = CLIParser(prog='prog')
        parser.add_argument('--seed', action=SeedAction, type=int)
        parser.add_argument('--first', action=cls)
        parser.add_argument('G', action=cls)
        a, b = SPECS[gtype][0], SPECS[gtype][1]
        ns = parser.parse_args(['--seed', '4', '--first'] + a + ['--'] + b)
        return describe(ns.first), describe(ns.G)
    observe(('two graphs', gtype), twographs)

    def nograph():
        parser = CLIParser(prog='prog')
        parser.add_argument('G', action=cls)
        return parser.parse_args([])
    observe(('no graph', gtype), nograph)

    def helptext():
        parser = CLIParser(prog='prog', usage='usage: prog G')
        parser.add_argument('G', action=cls)
        parser.add_argument('--H', action=cls, metavar='<H>')
        f = parser._get_formatter()
        return [f._format_args(a, 'X') for a in parser._actions[1:]]
    observe(('help', gtype), helptext)

# 4. whole command lines
CMDLINES = [
    ['kcolor', '3', 'gnp', '7', '.5'],
    ['kcolor', '3', 'gnp', '7', '.5', 'plantclique', '3', 'addedges', '2'],
    ['kclique', '3', 'gnm', '8', '12', 'splitedges', '2'],
    ['domset', '2', 'gnd', '8', '3'],
    ['tseitin', 'random', 'gnd', '8', '4'],
    ['tseitin', 'randomodd', 'grid', '3', '3', 'addedges', '2'],
    ['tseitin', '9', '4'],
    ['op', '5'], ['gop', 'gnp', '6', '.5'],
    ['php', '5', '4', '2'],
    ['php', 'glrd', '5', '4', '2'],
    ['php', 'regular', '6', '4', '2', 'plantbiclique', '2', '2'],
    ['subsetcard', 'glrm', '5', '5', '9'],
    ['peb', 'pyramid', '3'], ['peb', 'tree', '2', '-T', 'xor', '2'],
    ['stone', '3', 'path', '4'],
    ['iso', 'gnp', '4', '.5', '-e', 'gnp', '4', '.5'],
    ['iso', 'gnp', '4', '.5'],
    ['ram', '3', '3', '5'],
    ['randkcnf', '3', '8', '12', '-T', 'shuffle'],
    ['kcolor', '3', 'gnp', '7'], ['kcolor', '3', 'glrp', '3', '3', '.5'],
    ['kcolor', '3', os.path.join(tmpdir, 'absent.gml')],
    ['php', 'gnp', '5', '.5'], ['peb', 'gnp', '5', '.5'],
    ['kcolor', '3', simplefile, 'plantclique', '3'],
    ['kcolor', '3'],
]
for cmd in CMDLINES:
    for seed in ('0', '1', '123456789'):
        for prog, cli in (('cnfgen', cnfgen_cli), ('pbgen', pbgen_cli)):
            for rep in range(2):
                observe((prog, cmd, seed, rep),
                        lambda: cli([prog, '--seed', seed] + cmd,
                                    mode='output'))
    observe(('cnfgen noseed', cmd),
            lambda: (random.seed(99), cnfgen_cli(['cnfgen', '-q'] + cmd,
                                                 mode='output'))[1])

for name in sorted(os.listdir(tmpdir)):
    path = os.path.join(tmpdir, name)
    if os.path.isfile(path):
        with open(path) as f:
            emit('file', name, f.read())

shutil.rmtree(tmpdir, ignore_errors=True)
print(H.hexdigest())
