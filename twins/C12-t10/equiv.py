#!/usr/bin/env python
"""Equivalence harness for cnfgen.formula.baseopb.normalize_opb and the code built on it.

Run as:  cd <checkout> && /venv/bin/python equiv.py
Prints one SHA256 digest of everything observable.
"""
import sys, os, io, hashlib, random, copy, itertools
from fractions import Fraction
sys.path.insert(0, os.getcwd())

from cnfgen.formula.baseopb import normalize_opb, BaseOPB
from cnfgen.formula.opbio import OPBio
from cnfgen.formula.opb import OPB
from cnfgen.utils.latexoutput import to_latex_document

LOG = []


def rec(*items):
    LOG.append(repr(items))


def attempt(tag, fn, *args, **kwargs):
    try:
        res = fn(*args, **kwargs)
        rec(tag, 'ok', type(res).__name__, res)
        return res
    except BaseException as e:  # noqa
        cause = e.__cause__
        rec(tag, 'exc', type(e).__name__, str(e),
            None if cause is None else (type(cause).__name__, str(cause)))
        return None


OPS = ['>=', '<=', '==', '>', '<', '=', '!=', '=>', None, 3, '']


class Loud:
    """Number like object recording the operations performed on it, in order"""
    trace = []

    def __init__(self, v, name):
        self.v = v
        self.name = name

    def __lt__(self, other):
        Loud.trace.append(('lt', self.name, repr(other)))
        return self.v < other

    def __neg__(self):
        Loud.trace.append(('neg', self.name))
        return Loud(-self.v, '-' + self.name)

    def __abs__(self):
        Loud.trace.append(('abs', self.name))
        return Loud(abs(self.v), '|' + self.name + '|')

    def __radd__(self, other):
        Loud.trace.append(('radd', self.name, repr(other)))
        return other + self.v

    def __add__(self, other):
        Loud.trace.append(('add', self.name, repr(other)))
        return self.v + other

    def __sub__(self, other):
        Loud.trace.append(('sub', self.name, repr(other)))
        return self.v - other

    def __repr__(self):
        return 'Loud({},{})'.format(self.v, self.name)


def fixed_constraints():
    # docstring examples and boundary shapes
    yield [(1, 3), (-2, 2), (1, 4), '>', 3]
    yield [(1, 3), (2, 1), (3, -2), '>=', 3]
    yield [(1, 3), (2, 1), (-3, -2), '==', 3]
    yield [(2, -3), '<', 1]
    yield ['>=', 0]
    yield ['<=', 0]
    yield ['<', 0]
    yield ['>', -5]
    yield ['==', 7]
    yield [(0, 1), '>=', 0]
    yield [(0, 1), (0, -2), '<=', 0]
    yield [(-1, 1), (-1, 1), (-1, -1), '>=', -1]
    yield [(-1, 1), (-1, 1), (-1, -1), '<=', -1]
    yield [(10**30, 5), (-10**30, -5), '<', -10**30]
    yield [(1.5, 1), (-2.5, 2), '<=', 0.5]
    yield [(Fraction(-1, 3), 1), (Fraction(2, 3), -2), '>', Fraction(1, 7)]
    yield [(True, 1), (False, 2), '>=', True]
    yield [(-1, 0), '>=', 0]
    yield [[-1, 2], [3, -4], '<=', 2]
    # malformed
    yield []
    yield [1]
    yield ['>=']
    yield [1, 2]
    yield [(1, 2), (3, 4)]
    yield [(1, 2, 3), '>=', 1]
    yield [(1,), '>=', 1]
    yield [5, '>=', 1]
    yield ['ab', '>=', 1]
    yield ['abc', '<=', 1]
    yield [('a', 1), '>=', 1]
    yield [('a', 1), '<=', 1]
    yield [(-1, 'x'), '>=', 1]
    yield [(-1, None), '>=', 1]
    yield [(None, 1), '>=', 1]
    yield [(-1, 1), '>=', 'v']
    yield [(-1, 1), '>=', None]
    yield [(1, 1), '<', None]
    yield [(1, 1), '>', 'z']
    yield [(1, 1), '<=', 'z']
    yield [(1, 1), (-1, 2), (None, 3), (-1, 4), '>=', 0]
    yield [(-1, 'x'), '>=', 'v']
    yield [(-1, None), '>=', None]
    yield [(-1, 'x'), '<', 'v']
    yield [('c', 'x'), '>=', 'v']
    yield [(-1, 2), (-1, 'x'), '>=', 'v']
    yield ((-1, 'x'), '>=', 'v')
    yield ((-1, 2), '>=', 'v')
    yield [(float('nan'), 1), (-float('inf'), 2), '>=', 0]
    yield [(-2, 1), (-1, 'x'), (-3, 2), '>=', 0]
    # other sequence types
    yield ((1, 3), (-2, 2), '>=', 3)
    yield ((1, 3), (2, 2), '>=', 3)
    yield ((1, 3), (-2, 2), '<=', 3)
    yield ('>=', 3)
    yield '>=3'
    yield 'ab<1'
    yield b'abcd'
    yield None
    yield 17
    yield {1: 2}
    yield range(5)
    yield iter([(1, 2), '>=', 1])


def generated_constraints():
    rnd = random.Random(20240612)
    for length in range(0, 7):
        for _ in range(60):
            terms = []
            for _ in range(length):
                c = rnd.choice([-7, -3, -2, -1, 0, 1, 2, 3, 11])
                l = rnd.choice([-6, -5, -4, -3, -2, -1, 1, 2, 3, 4, 5, 6])
                terms.append((c, l))
            op = rnd.choice(['>=', '<=', '==', '>', '<'])
            value = rnd.randint(-9, 9)
            yield terms + [op, value]
    # exhaustive on small shapes
    for c1, c2 in itertools.product([-2, -1, 0, 1, 2], repeat=2):
        for op in OPS:
            for value in (-1, 0, 2):
                yield [(c1, 1), (c2, -2), op, value]


def snapshot(x):
    try:
        return copy.deepcopy(x)
    except Exception:
        return repr(type(x))


# 1. the function alone, also checking that the argument is left alone
for idx, cons in enumerate(itertools.chain(fixed_constraints(), generated_constraints())):
    before = repr(cons) if not hasattr(cons, '__next__') else 'an iterator'
    res = attempt(('normalize', idx, before), normalize_opb, cons)
    rec('after', idx, repr(cons) if not hasattr(cons, '__next__') else list(cons))
    if isinstance(res, list) and isinstance(cons, list):
        rec('fresh', idx, res is not cons)

# 2. order of the arithmetic performed on coefficients and degree
for op in ['>=', '<=', '==', '>', '<']:
    Loud.trace = []
    cons = [(Loud(-2, 'a'), 1), (Loud(3, 'b'), -2), (Loud(-1, 'c'), 3), op, Loud(4, 'v')]
    attempt(('loud', op), normalize_opb, cons)
    rec('loud-trace', op, list(Loud.trace))

# 3. through the formula classes and their renderings
for cls in (BaseOPB, OPBio, OPB):
    for check in (True, False):
        F = cls()
        for idx, cons in enumerate(itertools.chain(fixed_constraints(), generated_constraints())):
            if idx % 3 == 1 and idx > 60:
                continue
            attempt(('add', cls.__name__, check, idx), F.add_constraint, cons, check=check)
        rec('formula', cls.__name__, check, len(F), F.number_of_variables(),
            F.number_of_constraints())
        attempt(('list', cls.__name__, check), lambda: [c for c in F])
        if hasattr(F, 'to_opb'):
            attempt(('opb', cls.__name__, check), F.to_opb)
            attempt(('latex', cls.__name__, check), F.to_latex)

# well formed formulas: all writers
rnd = random.Random(7)
for cls in (OPBio, OPB):
    for size in (0, 1, 2, 34, 35, 36, 71):
        F = cls(description='formula_{} é'.format(size))
        for _ in range(size):
            kind = rnd.randrange(8)
            lits = [rnd.choice([-1, 1]) * rnd.randint(1, 9) for _ in range(rnd.randint(0, 5))]
            if kind == 0:
                F.cardinality_geq(lits, rnd.randint(-1, 4))
            elif kind == 1:
                F.cardinality_leq(lits, rnd.randint(-1, 4))
            elif kind == 2:
                F.cardinality_eq(lits, rnd.randint(-1, 4))
            elif kind == 3:
                F.add_loose_minority(lits)
            elif kind == 4:
                F.add_strict_minority(lits)
            elif kind == 5:
                F.add_strict_majority(lits)
            elif kind == 6:
                F.add_clause(lits)
            else:
                terms = [(rnd.randint(-5, 5), l) for l in lits]
                F.add_constraint(terms + [rnd.choice(['>=', '<=', '==', '>', '<']),
                                          rnd.randint(-6, 6)])
        rec('wf', cls.__name__, size, list(F), F.number_of_variables())
        rec('wf-opb', F.to_opb())
        rec('wf-latex', F.to_latex())
        for hdr in (True, False):
            for vn in (True, False):
                out = io.StringIO()
                F.to_file(out, fileformat='opb', export_header=hdr, export_varnames=vn)
                rec('wf-opbfile', hdr, vn, out.getvalue())
            out = io.StringIO()
            to_latex_document(F, out, export_header=hdr, extra_text='some text\n')
            rec('wf-latexdoc', hdr, out.getvalue())
        attempt(('debug', cls.__name__, size), F.debug)

# constructor path
attempt('ctor', lambda: list(OPB([[(1, 1), (-2, 2), '<', 1], [(-1, -3), '==', -1], ['>', 0]])))
attempt('ctor-bad', lambda: list(OPB([[(1, 1), (-2, 2), '!=', 1]])))
attempt('ctor-bad2', lambda: list(OPB([[(-1, 0), '>=', 1]])))
attempt('ctor-bad3', lambda: list(OPB([((-1, 1), '>=', 1)])))

blob = "\n".join(LOG).encode('utf-8', errors='backslashreplace')
print(hashlib.sha256(blob).hexdigest())
