"""Equivalence script for t26: VariableCompression (choice of the compression function)."""
import sys, os, hashlib, random
sys.path.insert(0, os.getcwd())
import networkx as nx
import cnfgen
from cnfgen import CNF, BipartiteGraph, VariableCompression, Shuffle, XorSubstitution
from cnfgen.graphs import bipartite_random_left_regular, bipartite_random_regular, bipartite_random

out = []


def rec(*a):
    out.append(repr(a))


def snap(F):
    return (list(F.clauses()), F.number_of_variables(), F.number_of_clauses(),
            list(F.all_variable_labels()), list(F.header.items()), F.to_dimacs())


def gsnap(B):
    if isinstance(B, BipartiteGraph):
        return ('B', B.left_order(), B.right_order(), B.number_of_edges(), B.name,
                [list(B.right_neighbors(u)) for u in range(1, B.left_order() + 1)],
                [list(B.left_neighbors(v)) for v in range(1, B.right_order() + 1)])
    if isinstance(B, nx.Graph):
        return ('nx', sorted(B.nodes(data=True), key=repr), sorted(B.edges(data=True), key=repr), dict(B.graph))
    return repr(B)


def formulas():
    yield 'empty', CNF()
    yield 'emptyclause', CNF([[]])
    yield 'unit', CNF([[1]])
    yield 'negunit', CNF([[-1]])
    F = CNF([[1, -2], [2, 3], [-1, -3], [1, 2, 3]], description='three vars')
    F.header['transformation 1'] = 'pre-existing'
    yield 'three', F
    yield 'php', cnfgen.PigeonholePrinciple(3, 2)
    yield 'op', cnfgen.OrderingPrinciple(3)
    random.seed(77)
    yield 'rand', cnfgen.RandomKCNF(3, 7, 9)
    yield 'xorphp', XorSubstitution(cnfgen.PigeonholePrinciple(2, 2), 2)


def graphs(L):
    if L == 0:
        yield 'B00', BipartiteGraph(0, 0)
        yield 'B03', BipartiteGraph(0, 3)
        return
    yield 'noedges', BipartiteGraph(L, 2)
    yield 'zero right', BipartiteGraph(L, 0)
    B = BipartiteGraph(L, 1, name='star')
    for u in range(1, L + 1):
        B.add_edge(u, 1)
    yield 'star', B
    B = BipartiteGraph(L, L + 1, name='path')
    for u in range(1, L + 1):
        B.add_edge(u, u)
        B.add_edge(u, u + 1)
    yield 'path', B
    for R, d in [(3, 1), (3, 2), (4, 3), (5, 4), (5, 5)]:
        random.seed(100 * R + d)
        yield 'glrd %d %d' % (R, d), bipartite_random_left_regular(L, R, d)
    random.seed(3)
    yield 'gnp', bipartite_random(L, 4, 0.5)
    # mismatched left side
    yield 'too small', BipartiteGraph(max(L - 1, 0), 3)
    yield 'too big', BipartiteGraph(L + 1, 3)
    # networkx graph with bipartite labels
    G = nx.Graph(name='nx bip')
    left = ['l%d' % i for i in range(L)]
    G.add_nodes_from(left, bipartite=0)
    G.add_nodes_from(['r0', 'r1', 'r2'], bipartite=1)
    for i, u in enumerate(left):
        G.add_edge(u, 'r%d' % (i % 3))
        G.add_edge(u, 'r%d' % ((i + 1) % 3))
    yield 'nx', G
    yield 'nx not bipartite', nx.complete_graph(L)
    yield 'not a graph', [1, 2, 3]
    yield 'none', None


FUNCS = ['xor', 'maj', 'and', 'XOR', '', None, 3, ['xor'], ('maj',)]

for fname, F in formulas():
    L = F.number_of_variables()
    for gname, B in graphs(L):
        for fn in FUNCS:
            fb, gb = snap(F), gsnap(B)
            random.seed(9)
            try:
                G = VariableCompression(F, B, fn)
                rec(fname, gname, fn, 'OK', snap(G), G is not F, G.header is not F.header)
                if fn in ('xor', 'maj') and G.number_of_variables() <= 8 and G.number_of_clauses() <= 40 \
                        and max([len(c) for c in G.clauses()] + [0]) <= 4:
                    # chain: compress again and shuffle
                    B2 = BipartiteGraph(G.number_of_variables(), 3)
                    for u in range(1, G.number_of_variables() + 1):
                        B2.add_edge(u, 1 + u % 3)
                        B2.add_edge(u, 1 + (u + 1) % 3)
                    g2 = snap(G)
                    for fn2 in ('maj', 'xor'):
                        H = VariableCompression(G, B2, function=fn2)
                        random.seed(4)
                        rec('chain', fn2, snap(H), snap(Shuffle(H)), g2 == snap(G))
            except BaseException as e:
                rec(fname, gname, fn, 'EXC', type(e).__name__, str(e))
            rec('inputs untouched', fb == snap(F), gb == gsnap(B))

# keyword / positional variants and missing arguments
F = CNF([[1, -2], [-1, 2]])
B = BipartiteGraph(2, 2)
B.add_edge(1, 1); B.add_edge(2, 2); B.add_edge(1, 2)
for args, kw in [((F, B), {}), ((F,), {'function': 'xor'}), ((F, B), {'function': 'maj'}),
                 ((), {'F': F, 'B': B, 'function': 'xor'}), ((F, B, 'xor', 1), {}),
                 ((None, B, 'xor'), {}), ((F, B), {'func': 'xor'})]:
    try:
        rec('call', snap(VariableCompression(*args, **kw)))
    except BaseException as e:
        rec('call', 'EXC', type(e).__name__, str(e))

print(hashlib.sha256("\n".join(out).encode()).hexdigest())
