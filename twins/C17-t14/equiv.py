"""Equivalence script for refactoring of ShuffleCmd.transform_cnf
(cnfgen/clihelpers/transformation_helpers.py)."""
import argparse
import hashlib
import io
import itertools
import os
import random
import re
import sys
sys.path.insert(0, os.getcwd())

from cnfgen.clihelpers.transformation_helpers import ShuffleCmd
from cnfgen.clitools import cnfgen as cnfgen_cli
from cnfgen.clitools import kthlist2pebbling, CLIError
from cnfgen.transformations.shuffle import Shuffle
from cnfgen.formula.cnf import CNF
from cnfgen.families.pigeonhole import PigeonholePrinciple
from cnfgen.families.ordering import OrderingPrinciple

out = []


def rec(*items):
    # the version string comes from 'git describe': normalise it
    out.append(re.sub(r'CNFgen \([^)]*\)', 'CNFgen (VERSION)', repr(items)))


def formula_repr(F):
    return (type(F).__name__, F.number_of_variables(),
            list(F.all_variable_labels()), list(F.clauses()),
            sorted((str(k), str(v)) for k, v in F.header.items()))


def base_formulas():
    F0 = CNF()
    F1 = CNF([[1, -2], [2, 3, -4], [-1], [4, 5], []])
    F2 = PigeonholePrinciple(4, 3)
    F3 = OrderingPrinciple(4)
    return [('empty', F0), ('small', F1), ('php', F2), ('op', F3)]


# 1. direct calls of the helper with all flag combinations (and odd values)
values = [False, True, 0, 1, None, '', 'x']
for p, v, c in itertools.product(values, repeat=3):
    if sum(1 for x in (p, v, c) if x not in (False, True)) > 1:
        continue
    for name, F in base_formulas():
        args = argparse.Namespace(no_polarity_flips=p,
                                  no_variables_permutation=v,
                                  no_clauses_permutation=c)
        random.seed(12345)
        try:
            G = ShuffleCmd.transform_cnf(F, args)
            rec('DIRECT', name, p, v, c, formula_repr(G), random.random())
        except BaseException as e:
            rec('DIRECTEXC', name, p, v, c, type(e).__name__, str(e))

# 2. missing attributes: which one is reported
full = dict(no_polarity_flips=False, no_variables_permutation=True,
            no_clauses_permutation=False)
for k in range(0, 4):
    for keys in itertools.combinations(sorted(full), k):
        args = argparse.Namespace(**{x: full[x] for x in keys})
        random.seed(5)
        try:
            G = ShuffleCmd.transform_cnf(base_formulas()[1][1], args)
            rec('MISS', keys, formula_repr(G))
        except BaseException as e:
            rec('MISSEXC', keys, type(e).__name__, str(e))

# 3. through cnfgen -T chains, compared against the library call
flagsets = [[], ['-p'], ['-v'], ['-c'], ['-p', '-v'], ['-p', '-c'],
            ['-v', '-c'], ['-p', '-v', '-c'],
            ['--no-polarity-flips'], ['--no-variables-permutation'],
            ['--no-clauses-permutation'], ['-pvc'], ['-x'], ['3']]
for flags in flagsets:
    for seed in (0, 17):
        for pre, post in [([], []), (['-T', 'xor', '2'], []),
                          ([], ['-T', 'flip']), ([], ['-T', 'shuffle', '-v'])]:
            cmd = ['cnfgen', '--seed', str(seed), 'php', '4', '3'] + pre + \
                ['-T', 'shuffle'] + flags + post
            try:
                s = cnfgen_cli(cmd, mode='string')
                rec('CLI', cmd, s)
                Fc = cnfgen_cli(cmd, mode='formula')
                rec('CLIF', cmd, formula_repr(Fc))
            except CLIError as e:
                rec('CLIERR', cmd, str(e))
            except BaseException as e:
                rec('CLIEXC', cmd, type(e).__name__, str(e))
        if all(f in ('-p', '-v', '-c') for f in flags):
            random.seed(seed)
            L = Shuffle(PigeonholePrinciple(4, 3),
                        polarity_flips='fixed' if '-p' in flags else 'shuffle',
                        variables_permutation='fixed' if '-v' in flags else 'shuffle',
                        clauses_permutation='fixed' if '-c' in flags else 'shuffle')
            Fc = cnfgen_cli(['cnfgen', '--seed', str(seed), 'php', '4', '3',
                             '-T', 'shuffle'] + flags, mode='formula')
            rec('LIB', flags, seed, list(L.clauses()) == list(Fc.clauses()),
                list(L.all_variable_labels()) == list(Fc.all_variable_labels()),
                list(L.clauses()))

# other output formats
for fmt in ('dimacs', 'opb', 'latex'):
    cmd = ['cnfgen', '--seed', '3', '-of', fmt, 'op', '3', '-T', 'shuffle', '-c']
    try:
        rec('FMT', cmd, cnfgen_cli(cmd, mode='string'))
    except BaseException as e:
        rec('FMTEXC', cmd, type(e).__name__, str(e))

# 4. through kthlist2pebbling
PYR = "6\n1 : 0\n2 : 0\n3 : 0\n4 : 1 2 0\n5 : 2 3 0\n6 : 4 5 0\n"
for flags in flagsets:
    old = sys.stdin
    sys.stdin = io.StringIO(PYR)
    random.seed(8)
    try:
        rec('KTH', flags, kthlist2pebbling(['kthlist2pebbling', 'shuffle'] + flags,
                                           mode='string'))
    except BaseException as e:
        rec('KTHEXC', flags, type(e).__name__, str(e))
    finally:
        sys.stdin = old

print(hashlib.sha256("\n".join(out).encode('utf-8')).hexdigest())
