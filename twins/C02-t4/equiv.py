import sys, os, hashlib, random, itertools, warnings
warnings.simplefilter("ignore")
sys.path.insert(0, os.getcwd())
import networkx as nx
from cnfgen.graphs import Graph

_H = hashlib.sha256()


def emit(*items):
    for it in items:
        _H.update(repr(it).encode("utf-8"))
        _H.update(b"\x00")


def dump(tag, fn, *args, **kwargs):
    """Call fn and record everything observable about the outcome."""
    emit("CALL", tag)
    try:
        F = fn(*args, **kwargs)
    except Exception as exc:  # record the exception type and message
        emit("EXC", type(exc).__name__, str(exc))
        return None
    emit("HEADER", sorted((str(k), str(v)) for k, v in F.header.items()))
    emit("NVARS", F.number_of_variables(), "NCLS", F.number_of_clauses())
    emit("LABELS", list(F.all_variable_labels()))
    emit("CLAUSES", [list(c) for c in F.clauses()])
    emit("DIMACS", F.to_dimacs())
    return F


def mkgraph(n, edges, name=None):
    G = Graph(n, name=name) if name is not None else Graph(n)
    for u, v in edges:
        G.add_edge(u, v)
    return G


def all_graphs(maxn):
    """Every labelled simple graph with at most maxn vertices."""
    for n in range(0, maxn + 1):
        pairs = list(itertools.combinations(range(1, n + 1), 2))
        for mask in range(1 << len(pairs)):
            yield n, [p for i, p in enumerate(pairs) if (mask >> i) & 1]


def random_graphs(rng, count, nmin, nmax):
    for _ in range(count):
        n = rng.randint(nmin, nmax)
        p = rng.choice([0.0, 0.2, 0.5, 0.8, 1.0])
        pairs = itertools.combinations(range(1, n + 1), 2)
        yield n, [e for e in pairs if rng.random() < p]


def cli(argv, seed=4242):
    """Run the cnfgen command line tool in-process and record its outcome."""
    import io, contextlib
    from cnfgen.clitools import cnfgen as cnfgen_cli
    random.seed(seed)
    out, err = io.StringIO(), io.StringIO()
    code = None
    try:
        with contextlib.redirect_stdout(out), contextlib.redirect_stderr(err):
            cnfgen_cli(argv)
    except SystemExit as exc:
        code = exc.code
    except Exception as exc:
        emit("CLI-EXC", type(exc).__name__, str(exc))
    emit("CLI", argv, code, out.getvalue(), err.getvalue())


def finish():
    print(_H.hexdigest())

# ---- T4: GraphIsomorphism / GraphAutomorphism ----
from cnfgen import GraphIsomorphism, GraphAutomorphism

rng = random.Random(909)

small = list(all_graphs(3))
for (n1, e1) in small:
    for (n2, e2) in small:
        for nt in (False, True):
            dump(("iso", n1, e1, n2, e2, nt), GraphIsomorphism,
                 mkgraph(n1, e1), mkgraph(n2, e2), nontrivial=nt)

for n, edges in all_graphs(4):
    dump(("auto", n, edges), GraphAutomorphism, mkgraph(n, edges))

# 4-vertex graphs against a few fixed graphs, including different orders
fixed = [(4, [(1, 2), (2, 3), (3, 4)]), (4, [(1, 2), (1, 3), (1, 4)]),
         (5, [(1, 2), (2, 3), (3, 4), (4, 5), (1, 5)]), (1, []), (0, [])]
for n, edges in all_graphs(4):
    if n < 4:
        continue
    for m, fe in fixed:
        dump(("iso4", n, edges, m, fe), GraphIsomorphism, mkgraph(n, edges), mkgraph(m, fe))
        dump(("iso4r", m, fe, n, edges), GraphIsomorphism, mkgraph(m, fe), mkgraph(n, edges), True)

for _ in range(25):
    (n1, e1), = random_graphs(rng, 1, 4, 7)
    # an isomorphic copy through a random relabelling, and an unrelated graph
    perm = list(range(1, n1 + 1)); rng.shuffle(perm)
    e1p = sorted(tuple(sorted((perm[u - 1], perm[v - 1]))) for u, v in e1)
    (n2, e2), = random_graphs(rng, 1, 4, 7)
    G1 = mkgraph(n1, e1, name="first")
    for nt in (False, True):
        dump(("iso-rnd-copy", n1, e1, e1p, nt), GraphIsomorphism, G1, mkgraph(n1, e1p, name="second"), nt)
        dump(("iso-rnd-other", n1, e1, n2, e2, nt), GraphIsomorphism, G1, mkgraph(n2, e2), nt)
    dump(("auto-rnd", n1, e1), GraphAutomorphism, G1)

# number of models equals number of isomorphisms on small cases (brute force)
def count_models(F):
    nv = F.number_of_variables()
    cls = [list(c) for c in F.clauses()]
    cnt = 0
    for bits in itertools.product([False, True], repeat=nv):
        if all(any(bits[abs(l) - 1] == (l > 0) for l in c) for c in cls):
            cnt += 1
    return cnt

for (n1, e1) in small:
    for (n2, e2) in small:
        if n1 * n2 <= 9:
            emit("COUNT", n1, e1, n2, e2,
                 count_models(GraphIsomorphism(mkgraph(n1, e1), mkgraph(n2, e2))))
    emit("COUNT-AUTO", n1, e1, count_models(GraphAutomorphism(mkgraph(n1, e1))))

# networkx inputs and bad inputs
dump("nx-iso", GraphIsomorphism, nx.cycle_graph(5), nx.path_graph(5))
dump("nx-iso2", GraphIsomorphism, nx.cycle_graph(4), nx.complete_bipartite_graph(2, 2), True)
dump("nx-auto", GraphAutomorphism, nx.petersen_graph())
dump("nx-auto-null", GraphAutomorphism, nx.null_graph())
dump("bad-G1", GraphIsomorphism, 3, mkgraph(2, []))
dump("bad-G2", GraphIsomorphism, mkgraph(2, []), "x")
dump("bad-digraph", GraphIsomorphism, nx.DiGraph([(1, 2)]), mkgraph(2, []))
dump("bad-auto", GraphAutomorphism, None)

cli(["cnfgen", "-q", "iso", "gnp", "5", "0.5"])
cli(["cnfgen", "-q", "iso", "gnd", "6", "3", "-e", "gnd", "6", "3"])
cli(["cnfgen", "-q", "iso", "grid", "2", "3", "-e", "path", "6"])
cli(["cnfgen", "-q", "iso", "complete", "3", "-e", "complete", "4"])
cli(["cnfgen", "-q", "-of", "latex", "iso", "path", "3"])

finish()
