#!/usr/bin/env python
"""Equivalence check for the 'shift' bipartite construction on the
command line: cnfgen.clitools.graph_build.obtain_bipartite_shift"""
import sys
import os
import io
import random
import hashlib
import itertools
import contextlib

sys.path.insert(0, os.getcwd())

from cnfgen.clitools.graph_build import obtain_bipartite_shift
from cnfgen.clitools.graph_args import make_graph_from_spec
from cnfgen.clitools import cnfgen as cnfgen_cli

H = hashlib.sha256()


def emit(*items):
    H.update((" ".join(str(x) for x in items) + "\n").encode('utf-8'))


def describe(G):
    L, R = G.left_order(), G.right_order()
    return (type(G).__name__, L, R, G.number_of_edges(), sorted(G.edges()),
            [G.left_degree(v) for v in range(1, R + 1)],
            [G.right_degree(u) for u in range(1, L + 1)],
            G.name)


def attempt(label, fn):
    try:
        emit(label, 'OK', fn())
    except BaseException as e:  # noqa
        emit(label, 'EXC', type(e).__name__, str(e),
             type(e.__cause__).__name__, type(e.__context__).__name__)


# ---- direct calls with a parsed dictionary ----
values = ['-1', '0', '1', '2', '3', '4', '5']
for L in ['-1', '0', '1', '3', '4']:
    for R in ['-2', '0', '1', '3', '4']:
        for plen in range(0, 4):
            for pattern in itertools.product(values, repeat=plen):
                args = [L, R] + list(pattern)
                attempt(('direct', args),
                        lambda: describe(obtain_bipartite_shift({'args': args})))

odd = [
    [], ['3'], ['3', '3'], ['3.0', '3'], ['3', '3.0'], ['3', '3', '1.0'],
    ['3', '3', '1', '1.0'], ['3', '3', '1e0'], ['3', '3', '.5'], ['a', 'b'],
    ['3', '3', ' 1 ', '+1'], ['3', '3', '+0', '-0'], ['3', '3', '01', '1'],
    ['3', '3', '3', '0'], ['5', '2', '2', '0'], ['5', '2', '2', '1', '0'],
    ['5', '2', '3'], ['2', '5', '5', '4', '3', '2', '1', '0'],
    ['2', '5', '5', '4', '3', '3', '1', '0'], ['2', '5', '6', '0'],
    [3, 3, 1, 2], [3, 3, 1.5], [3, 3, None], [None, 3], ['3', None],
    [3, 3, [1]], ('4', '4', '0', '2'), ['4', '4', '2', '0', '2'],
    ['1', '1', '0'], ['1', '1', '1'], ['1', '1', '0', '1'], ['1', '1', '2'],
    ['10', '7', '0', '1', '2', '3', '4', '5', '6', '7'],
    ['10', '7', '0', '1', '2', '3', '4', '5', '6', '7', '8'],
    ['7', '10', '9', '1', '10'],
]
for args in odd:
    attempt(('odd', repr(args)),
            lambda: describe(obtain_bipartite_shift({'args': args})))
for parsed in [{}, {'args': None}, {'args': 5}, None]:
    attempt(('parsed', repr(parsed)),
            lambda: describe(obtain_bipartite_shift(parsed)))

# ---- through graph specifications ----
specs = [
    'shift', 'shift 3', 'shift 3 3', 'shift 3 3 0', 'shift 3 3 0 1 2',
    'shift 3 3 0 1 2 3', 'shift 3 3 3', 'shift 3 3 4', 'shift 3 3 -1',
    'shift 3 3 1 1', 'shift 0 3 1', 'shift 3 0 1', 'shift 3 3 0.5',
    'shift 5 7 0 2 4 plantbiclique 2 2', 'shift 5 7 0 2 4 addedges 3',
    'shift 5 7 0 2 4 addedges 20', 'shift 5 7 0 2 4 addedges 21',
    'shift 5 7 6 4 2 0 plantbiclique 5 7', 'shift 5 7 6 4 2 0 plantbiclique 6 7',
    'shift 4 4 1 3 plantbiclique 2 1 addedges 2',
    'shift 6 4 0 4', 'shift 6 4 1 2 2', 'shift 6 4 3 1 2', 'shift 2 9 8 7',
]
for spec in specs:
    def run():
        random.seed(31)
        G = make_graph_from_spec('bipartite', spec)
        return describe(G), random.random()
    attempt(('spec', spec), run)
for gtype in ['simple', 'dag', 'digraph']:
    attempt(('wrongtype', gtype),
            lambda: make_graph_from_spec(gtype, 'shift 3 3 1'))

# ---- through the cnfgen command line ----
cmdlines = [
    ['cnfgen', '-q', 'php', 'shift', 5, 4, 0, 1],
    ['cnfgen', '-q', 'php', 'shift', 5, 4, 1, 0, 3],
    ['cnfgen', '-q', 'php', 'shift', 5, 4, 1, 1],
    ['cnfgen', '-q', 'php', 'shift', 5, 4, 5],
    ['cnfgen', '-q', 'php', 'shift', 5, 4, 4],
    ['cnfgen', '-q', 'php', 'shift', 5],
    ['cnfgen', '-q', 'php', 'shift', 0, 4, 1],
    ['cnfgen', '-q', 'subsetcard', 'shift', 4, 4, 0, 1, 2],
    ['cnfgen', '-q', 'parity', 'shift', 6, 4, 0, 2],
    ['cnfgen', '-q', '--seed', 9, 'matching', 'shift', 4, 4, 0, 1, 'addedges', 2],
    ['cnfgen', '-q', '--seed', 9, 'php', '--functional', 'shift', 3, 5, 0, 2, 4, 'plantbiclique', 2, 2],
    ['cnfgen', '-q', '-of', 'latex', 'php', 'shift', 3, 3, 0, 1],
    ['cnfgen', '-q', '-of', 'opb', 'subsetcard', 'shift', 3, 3, 2, 0],
]
for cmd in cmdlines:
    def run():
        out = io.StringIO()
        err = io.StringIO()
        try:
            with contextlib.redirect_stdout(out), contextlib.redirect_stderr(err):
                res = cnfgen_cli(cmd, mode='string')
        except SystemExit as e:
            return ('exit', e.code, out.getvalue(), err.getvalue())
        return (res, out.getvalue(), err.getvalue())
    attempt(('cli', cmd), run)

print(H.hexdigest())
