"""Equivalence check for PitfallFormula (C03, t4)."""
import sys, os, hashlib, random, itertools, warnings
warnings.simplefilter("ignore")
sys.path.insert(0, os.getcwd())
from cnfgen.families.pitfall import PitfallFormula

H = hashlib.sha256()
def emit(*a):
    H.update((" ".join(str(x) for x in a) + "\n").encode())

def dump(tag, fn, seed):
    emit("CASE", tag, seed)
    random.seed(seed)
    try:
        F = fn()
    except Exception as e:
        emit("EXC", type(e).__name__, str(e))
        emit("RNG", random.random())
        return
    emit("RNG", random.random())
    emit("HDR", sorted(F.header.items()) if hasattr(F.header, 'items') else F.header)
    emit("NV", F.number_of_variables(), "NC", len(F))
    emit("LABELS", list(F.all_variable_labels()))
    for c in F:
        emit("C", list(c))
    emit(F.to_dimacs())

seed = 1000
# regular graph parameters (v, d): includes smallest possible ones
VD = [(2, 1), (3, 2), (4, 1), (4, 2), (4, 3), (5, 2), (5, 4), (6, 3), (6, 5), (7, 2), (8, 3)]
for (v, d) in VD:
    for ny, nz in itertools.product((1, 2, 3, 4), (1, 2, 3)):
        for k in (2, 4):
            seed += 1
            dump(("pit", v, d, ny, nz, k), lambda: PitfallFormula(v, d, ny, nz, k), seed)
# several random outcomes for the same parameters
for s in range(10):
    dump(("rep", s), lambda: PitfallFormula(8, 3, 3, 2, 2), 77 + s)
dump(("big",), lambda: PitfallFormula(10, 4, 5, 4, 6), 5)
# invalid parameters
bad = [(3, 1, 2, 2, 2), (3, 3, 2, 2, 2), (2, 4, 2, 2, 2), (5, 3, 2, 2, 2), (4, 2, 2, 2, 3), (4, 2, 2, 2, 1),
       (0, 2, 2, 2, 2), (4, 0, 2, 2, 2), (4, 2, 0, 2, 2), (4, 2, 2, 0, 2), (4, 2, 2, 2, 0),
       (-4, 2, 2, 2, 2), (4, 2, 2, 2, -2), (4.0, 2, 2, 2, 2), (4, "2", 2, 2, 2), (4, 2, None, 2, 2),
       (4, 2, 2, 2.5, 2), (4, 2, 2, 2, "2")]
for args in bad:
    dump(("bad", args), lambda: PitfallFormula(*args), 9)
print(H.hexdigest())
