#!/usr/bin/env python
"""Equivalence script for t19: random multipartite graph builder `multipartite_tnp`
(reachable as cnfgen.clitools.graph_build.multipartite_tnp, used by `gnp N p t`).

Prints a single SHA256 digest of graphs, random states, command line
outputs and error messages.
"""
import sys
import os
import io
import hashlib
import random
import warnings
from contextlib import redirect_stdout, redirect_stderr

warnings.simplefilter('ignore')
sys.path.insert(0, os.getcwd())

from cnfgen.clitools import graph_build
from cnfgen.clitools.graph_build import multipartite_tnp, obtain_gnp
from cnfgen.clitools.graph_args import make_graph_from_spec
from cnfgen.clitools.cnfgen import cli as cnfgen_cli
from cnfgen.clitools.pbgen import cli as pbgen_cli

H = hashlib.sha256()


def record(*items):
    for x in items:
        H.update(repr(x).encode('utf-8'))
        H.update(b'\x00')


def summary(G):
    return (type(G).__name__, G.name, G.number_of_vertices(),
            G.number_of_edges(), sorted(G.edges()),
            [sorted(G.neighbors(v)) for v in G.vertices()])


def attempt(tag, f, *args, **kwargs):
    try:
        G = f(*args, **kwargs)
        record(tag, args, sorted(kwargs.items()), summary(G),
               random.getstate()[1][:5], random.random())
    except BaseException as e:
        record(tag + '-EXC', args, sorted(kwargs.items()),
               type(e).__name__, str(e))


# the function still lives (at least) in graph_build's namespace
record(callable(graph_build.multipartite_tnp),
       graph_build.multipartite_tnp.__name__,
       graph_build.multipartite_tnp.__doc__)

# 1. direct calls
for seed in [0, 1, 17, -5, 123456789]:
    for t in [1, 2, 3, 5]:
        for n in [1, 2, 4, 7]:
            for p in [0, 0.0, 0.25, 0.5, 0.9, 1, 1.0]:
                random.seed(seed)
                attempt('TNP', multipartite_tnp, t, n, p)
                random.seed(seed)
                attempt('TNP', multipartite_tnp, t, n, p, True)
                random.seed(seed)
                attempt('TNP', multipartite_tnp, t, n, p, shuffleblocks=False)
# boundary and wrong arguments
for args in [(0, 3, .5), (3, 0, .5), (0, 0, .5), (2, 3, 2.0), (2, 3, -1),
             (-1, 3, .5), (2, -2, .5), (2.0, 3, .5), ('2', 3, .5),
             (2, 3, '.5'), (2, 3, None), (None, 3, .5)]:
    random.seed(3)
    attempt('TNP-BAD', multipartite_tnp, *args)
    random.seed(3)
    attempt('TNP-BAD', multipartite_tnp, *args, shuffleblocks=True)

# two calls in a row on the same stream
random.seed(99)
attempt('TNP-SEQ', multipartite_tnp, 3, 3, .5, True)
attempt('TNP-SEQ', multipartite_tnp, 3, 3, .5, True)
attempt('TNP-SEQ', multipartite_tnp, 2, 5, .3)

# 2. obtain_gnp and graph specifications
specs = [['4', '.5'], ['4', '.5', '1'], ['4', '.5', '2'], ['3', '.7', '4'],
         ['1', '1', '3'], ['5', '0', '2'], ['5', '1', '2'], ['2', '.5', '0'],
         ['2', '.5', '-1'], ['2', '1.5', '2'], ['0', '.5', '2'],
         ['2', '.5', '2', '3'], ['2'], [], ['2', '.5', '2.5'],
         ['2.5', '.5', '2'], ['x', '.5', '2'], [3, 0.5, 3]]
for seed in [0, 5, 2024]:
    for args in specs:
        random.seed(seed)
        attempt('OBTAIN', obtain_gnp, {'args': args})
        random.seed(seed)
        attempt('SPEC', make_graph_from_spec, 'simple', ['gnp'] + list(args))
        random.seed(seed)
        attempt('SPEC', make_graph_from_spec, 'simple',
                ['gnp'] + list(args) + ['plantclique', 2, 'addedges', 1])
random.seed(1)
attempt('OBTAIN', obtain_gnp, {'args': None})
attempt('OBTAIN', obtain_gnp, {})


# 3. command line
def run_cli(cli, argv):
    out = io.StringIO()
    err = io.StringIO()
    try:
        with redirect_stdout(out), redirect_stderr(err):
            res = cli(argv, mode='output')
        record('OK', argv, res, out.getvalue(), err.getvalue())
    except SystemExit as e:
        record('EXIT', argv, e.code, out.getvalue(), err.getvalue())
    except BaseException as e:
        record('EXC', argv, type(e).__name__, str(e), out.getvalue(),
               err.getvalue())


for seed in ['0', '1', '42', '-7']:
    for args in specs[:-1]:
        run_cli(cnfgen_cli, ['cnfgen', '-S', seed, 'kclique', '3', 'gnp'] + args)
        run_cli(cnfgen_cli, ['cnfgen', '-S', seed, 'kcolor', '2', 'gnp'] + args +
                ['splitedges', '1'])
        run_cli(cnfgen_cli, ['cnfgen', '-S', seed, 'ramlb', '2', '2', 'gnp'] + args +
                ['-T', 'shuffle'])
        run_cli(pbgen_cli, ['pbgen', '-S', seed, 'domset', '3', 'gnp'] + args)
        run_cli(pbgen_cli, ['pbgen', '-S', seed, 'kclique', '2', 'gnp'] + args)

print(H.hexdigest())
