"""Equivalence check for WordOfIndicesVariables.__init__ (C11)."""
import sys, os, hashlib, itertools, warnings
warnings.simplefilter('ignore')
sys.path.insert(0, os.getcwd())

from cnfgen.formula.cnf import CNF
from cnfgen.formula.opb import OPB
from cnfgen.formula.basecnf import BaseCNF
from cnfgen.formula.variables import WordOfIndicesVariables, VariablesManager

out = []


def rec(*args):
    out.append(repr(args))


def attempt(tag, fn):
    try:
        res = fn()
        rec(tag, 'ok', res)
        return res
    except Exception as e:  # noqa
        rec(tag, 'EXC', type(e).__name__, str(e))
        return None


def materialize(x):
    if isinstance(x, (int, str, tuple)):
        return x
    return list(x)


WORDTYPES = ['combinations', 'combinations_with_replacement',
             'permutations', 'words']


def dump_group(tag, F, g):
    rec(tag, 'len', len(g), 'ids', list(g), 'range', repr(g.ids))
    rec(tag, 'n,k,type,offset', g.n, g.k, g.wordtype, g.offset)
    rec(tag, 'vid2seq', g.vid2seq)
    rec(tag, 'seq2vid', sorted(g.seq2vid.items()), list(g.seq2vid.items()))
    rec(tag, 'indices', list(g.indices()))
    attempt((tag, 'call()'), lambda: materialize(g()))
    attempt((tag, 'labels'), lambda: materialize(g.label()))
    rec(tag, 'to_dict', list(g.to_dict().items()))
    rec(tag, 'numvar', F.number_of_variables())
    for idx in g.indices():
        v = g(*idx)
        rec(tag, idx, v, g.to_index(v), g.to_index(-v), materialize(g.label(*idx)),
            list(g.indices(*idx)), v in g, -v in g, g._unsafe_index_to_lit(idx))
    lo = (g[0] if len(g) else F.number_of_variables() + 1)
    hi = (g[-1] if len(g) else F.number_of_variables())
    for lit in [lo - 1, -(lo - 1), hi + 1, -(hi + 1), 0, hi + 7]:
        attempt((tag, 'to_index', lit), lambda: g.to_index(lit))
        rec(tag, 'contains', lit, lit in g)
    n, k = g.n, g.k
    bad = [(0,) * k, (n + 1,) * k, tuple(range(1, k + 2)), tuple(range(1, k)),
           (None,) * k, (1,) * k, tuple(range(k, 0, -1)), (1, None), (-1,) * k]
    for b in bad:
        attempt((tag, 'call', b), lambda: materialize(g(*b)))
        attempt((tag, 'indices', b), lambda: materialize(g.indices(*b)))
        attempt((tag, 'label', b), lambda: materialize(g.label(*b)))


# 1. direct constructions, over all shapes, with an initial offset
for wt in WORDTYPES:
    for n in range(0, 5):
        for k in range(0, 4):
            for start in (0, 3):
                for lab in (None, 'w[{}]', 'q'):
                    F = BaseCNF()
                    F.update_variable_number(start)
                    tag = ('direct', wt, n, k, start, lab)
                    g = attempt(tag + ('new',), lambda: repr(type(
                        WordOfIndicesVariables(F, n, k, labelfmt=lab, wordtype=wt))))
                    F = BaseCNF()
                    F.update_variable_number(start)
                    g = WordOfIndicesVariables(F, n, k, labelfmt=lab, wordtype=wt)
                    dump_group(tag, F, g)

# default wordtype
F = BaseCNF()
g = WordOfIndicesVariables(F, 4, 2)
dump_group(('default',), F, g)

# 2. constructor error paths (order of checks matters)
bad_args = [
    dict(n=3, k=2, wordtype='subsets'),
    dict(n=3, k=2, wordtype=None),
    dict(n=3, k=2, wordtype=''),
    dict(n=3, k=2, wordtype='Combinations'),
    dict(n=3, k=2, wordtype=b'words'),
    dict(n=3, k=2, wordtype=['words']),
    dict(n=3, k=2, wordtype=('words',)),
    dict(n=3, k=2, wordtype=3),
    dict(n=-1, k=2, wordtype='words'),
    dict(n=-1, k=2, wordtype='nope'),
    dict(n=3, k=-2, wordtype='permutations'),
    dict(n=3.0, k=2, wordtype='combinations'),
    dict(n=3, k='2', wordtype='combinations'),
    dict(n=None, k=2, wordtype='combinations'),
    dict(n=True, k=True, wordtype='combinations'),
    dict(n=3, k=2, labelfmt='{}{}', wordtype='combinations'),
    dict(n=3, k=2, labelfmt='{}{}', wordtype='nope'),
    dict(n=-3, k=2, labelfmt='{}{}', wordtype='nope'),
    dict(n=3, k=2, labelfmt='{0}{0}', wordtype='words'),
    dict(n=3, k=2, labelfmt='{x}', wordtype='words'),
    dict(n=3, k=2, labelfmt=7, wordtype='words'),
    dict(n=2, k=5, wordtype='combinations'),
    dict(n=2, k=5, wordtype='permutations'),
]
for i, kw in enumerate(bad_args):
    F = BaseCNF()
    F.update_variable_number(5)

    def build():
        g = WordOfIndicesVariables(F, **kw)
        return (len(g), list(g), list(g.indices()), list(g.label()),
                sorted(g.__dict__.keys() - {'formula'}))
    attempt(('ctor', i, sorted((k, repr(v)) for k, v in kw.items())), build)
    rec('ctor numvar', i, F.number_of_variables())

# partially initialised object state after failure
for wt in ['nope', None]:
    F = BaseCNF()
    g = WordOfIndicesVariables.__new__(WordOfIndicesVariables)
    try:
        g.__init__(F, 3, 2, wordtype=wt)
    except Exception as e:
        rec('partial', wt, type(e).__name__, str(e), sorted(g.__dict__.items(), key=lambda p: p[0]))

# 3. through the managers, interleaved with clauses and variable raises
for cls in (CNF, OPB):
    F = cls()
    x = F.new_variable('x')
    a = F.new_combinations(4, 2)
    F.update_variable_number(F.number_of_variables() + 2)
    b = F.new_permutations(3)
    F.add_clause([1, -(F.number_of_variables() + 3)])
    c = F.new_words(2, 3, label='w<{}>')
    e0 = F.new_combinations(2, 3, label='empty{}')
    d = F.new_combinations_with_replacement(3, 2, label='m({})')
    e1 = F.new_words(0, 2)
    e2 = F.new_words(3, 0, label='eps{}')
    p2 = F.new_permutations(4, 2, label='pi_{}')
    F.update_variable_number(F.number_of_variables() + 1)
    for name, g in [('a', a), ('b', b), ('c', c), ('e0', e0), ('d', d),
                    ('e1', e1), ('e2', e2), ('p2', p2)]:
        dump_group((cls.__name__, name), F, g)
    labels = list(F.all_variable_labels())
    rec(cls.__name__, 'labels', labels, len(labels), F.number_of_variables())
    rec(cls.__name__, 'labels2', list(F.all_variable_labels('y_{}')))
    for g in (a, b, c, d, e2, p2):
        for idx in g.indices():
            rec('aligned', idx, labels[g(*idx) - 1], materialize(g.label(*idx)))
    if cls is CNF:
        rec('dimacs', F.to_dimacs())
        rec('latex', F.to_latex())
    else:
        rec('opb', F.to_opb())
    attempt((cls.__name__, 'bad wordtype via manager'),
            lambda: F.new_combinations(-1, 2))
    attempt((cls.__name__, 'bad label via manager'),
            lambda: F.new_words(2, 2, label='{}{}'))
    rec(cls.__name__, 'after errors', F.number_of_variables(),
        len(list(F.all_variable_labels())))

print(hashlib.sha256('\n'.join(out).encode('utf-8')).hexdigest())
