"""Equivalence check for the refactoring of
cnfgen.clitools.graph_build.obtain_bipartite_shift (validation of the
'shift L R v1 v2 ...' bipartite graph specification)."""
import hashlib
import itertools
import os
import random
import sys

sys.path.insert(0, os.getcwd())

from cnfgen.clitools.graph_build import obtain_bipartite_shift
from cnfgen.clitools.graph_args import make_graph_from_spec, parse_graph_argument
from cnfgen.clitools.cnfgen import cli

H = hashlib.sha256()


def rec(*items):
    for x in items:
        H.update(repr(x).encode('utf-8'))
        H.update(b'\x00')


def attempt(label, fn):
    try:
        res = fn()
        rec(label, 'ok', res)
    except SystemExit as e:
        rec(label, 'exit', e.code)
    except BaseException as e:
        rec(label, 'exc', type(e).__name__, str(e))


def describe(G):
    degs_left = [list(G.right_neighbors(u)) for u in range(1, G.left_order() + 1)]
    degs_right = [list(G.left_neighbors(v)) for v in range(1, G.right_order() + 1)]
    return (G.name, G.left_order(), G.right_order(), G.number_of_edges(),
            sorted(G.edges()), degs_left, degs_right)


# 1. the builder called directly on parsed dictionaries
values = ['-1', '0', '1', '2', '3', '4', '5', '6', '7']
for L in ['0', '1', '3']:
    for R in ['0', '1', '2', '4', '6']:
        for k in range(0, 4):
            for pat in itertools.product(values, repeat=k):
                if k == 3 and pat[0] > pat[1]:
                    continue   # keep running time low
                args = [L, R] + list(pat)
                attempt(('direct', tuple(args)),
                        lambda: describe(obtain_bipartite_shift({'args': args})))

odd = [
    [], ['3'], ['3', '3'], ['3', '3', '3'], ['3', '3', '0', '0'],
    ['3', '3', '1', '0', '1'], ['3', '3', '2', '1', '0'],
    ['3', '3', '3', '0'], ['3', '3', '4'], ['3', '3', '0', '3'],
    ['3', '3', '1.5'], ['3.0', '3', '1'], ['3', '3.0', '1'], ['3', '3', '1e0'],
    ['3', '3', 'x'], ['a', 'b'], ['3', '3', '-0'], ['3', '3', '+1', '1'],
    ['3', '3', ' 2 ', '2'], ['3', '3', '01', '1'], ['3', '3', None],
    [3, 3, 0, 1], [3, 3, 1, 1], [3, 3, 0, 4], [None, 3], ['5', '7'] + [str(i) for i in range(8)],
    ['5', '7'] + [str(i) for i in range(7, -1, -1)], ['5', '7'] + [str(i) for i in range(9)],
    ['2', '100', '100', '0'], ['2', '100', '101'], ['1', '1', '0', '1'], ['1', '1', '1'],
    ['1', '1', '0'], ['1', '1', '2'], ['4', '6', '5', '3', '1'], ['4', '6', '6', '6'],
]
for args in odd:
    attempt(('odd', tuple(args)),
            lambda: describe(obtain_bipartite_shift({'args': args})))
attempt('noargs', lambda: obtain_bipartite_shift({}))
attempt('noneargs', lambda: obtain_bipartite_shift({'args': None}))

# 2. random patterns
rnd = random.Random(4321)
for trial in range(600):
    L = rnd.randint(0, 8)
    R = rnd.randint(0, 8)
    k = rnd.randint(0, 5)
    if trial % 3 == 0:
        pat = [str(rnd.randint(-1, R + 1)) for _ in range(k)]
    else:
        pat = [str(x) for x in rnd.sample(range(0, R + 1), min(k, R + 1))]
        if trial % 3 == 1 and pat:
            pat[rnd.randrange(len(pat))] = str(rnd.choice([-1, R, R + 1, 0]))
    args = [str(L), str(R)] + pat
    attempt(('random', tuple(args)),
            lambda: describe(obtain_bipartite_shift({'args': args})))

# 3. through the graph specification parser, with options
specs = ['shift 4 4 0 1', 'shift 4 4 1 0', 'shift 4 4 0 0', 'shift 4 4 5',
         'shift 4 4 4', 'shift 4 4 -1', 'shift 4 4', 'shift 4', 'shift',
         'shift 0 4 1', 'shift 4 0 1', 'shift 4 4 0 1 plantbiclique 2 2',
         'shift 4 4 0 1 addedges 3', 'shift 4 4 0 1 2 3 addedges 1',
         'shift 4 4 0 1 plantbiclique 5 1', 'shift 3 5 0 2 4 addedges 2 plantbiclique 1 2',
         'shift 4 4 0.5', 'shift 4 4 1 2 3 4 0', 'shift 4 4 1 2 3 4 0 1']
for i, spec in enumerate(specs):
    def run():
        random.seed(i)
        return describe(make_graph_from_spec('bipartite', spec))
    attempt(('spec', spec), run)

# 4. full command line
for i, argv in enumerate([
        ['php', 'shift', 5, 4, 0, 1, 2],
        ['php', 'shift', 5, 4, 2, 1, 0],
        ['php', 'shift', 5, 4, 1, 1],
        ['php', 'shift', 5, 4, 5],
        ['php', 'shift', 5, 4, 4],
        ['php', 'shift', 5, 4, -1],
        ['php', 'shift', 5],
        ['php', 'shift', 0, 4, 1],
        ['subsetcard', 'shift', 4, 4, 0, 1, 3],
        ['subsetcard', 'shift', 4, 4, 0, 1, 3, 'addedges', 1],
        ['php', 'shift', 3, 3, 0, 'plantbiclique', 2, 2],
]):
    attempt(('cli', i),
            lambda: cli(['cnfgen', '-q', '--seed', 50 + i] + argv, mode='string'))

print(H.hexdigest())
