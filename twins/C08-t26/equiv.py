import hashlib, io, os, sys, contextlib, warnings, random
sys.path.insert(0, os.getcwd())
warnings.simplefilter("ignore")
H = hashlib.sha256()
def rec(*xs):
    for x in xs:
        H.update(repr(x).encode()); H.update(b"\n")
def attempt(label, f):
    try:
        rec(label, "ok", f())
    except SystemExit as e:
        rec(label, "exit", e.code)
    except BaseException as e:
        rec(label, "exc", type(e).__name__, str(e))

from cnfgen.formula.linear import CNFLinear
from cnfgen.formula.baseopb import BaseOPB
from cnfgen.formula.cnf import CNF
from cnfgen.formula.opb import OPB

rng = random.Random(2024)
def litsets():
    yield []
    for n in range(1, 7):
        yield list(range(1, n + 1))
        yield [(-1) ** i * (i + 2) for i in range(n)]
        yield [rng.choice([-1, 1]) * v for v in rng.sample(range(1, 12), n)]
    yield [3, 3, -3]
    yield [True, 2]
    yield [1, 0, 2]
    yield [1, 'a']
    yield [1.0, 2]

def state(F):
    return (F.number_of_variables(), len(F), [list(c) if isinstance(c, (list, tuple)) else c for c in F])

for cls in (CNFLinear, CNF, BaseOPB, OPB):
    for lits in litsets():
        for const in [0, 1, 2, -1, 3, True, False, None, '1', 1.0, 0.0]:
            for check in (True, False):
                for shape in (list, tuple, iter, lambda x: (l for l in x), lambda x: dict.fromkeys(x)):
                    F = cls()
                    arg = shape(lits)
                    attempt((cls.__name__, "parity", lits, const, check), lambda: F.add_parity(arg, const, check=check))
                    rec(state(F))
                    if shape is list:
                        rec(arg)
                    attempt("opb", F.to_opb) if hasattr(F, 'to_opb') else None
    F = cls()
    for i in range(1, 8):
        F.add_parity(range(i, 2 * i), i % 2)
        F.add_parity([-v for v in range(i, 2 * i)], i % 3, check=False)
    rec(state(F))
    attempt("kw", lambda: F.add_parity(lits=[1, 2], constant=1))
    attempt("missing", lambda: F.add_parity([1, 2]))
    attempt("noniter", lambda: F.add_parity(5, 1))
    rec(state(F))

# same solutions on both sides (brute force), and via the command line
from itertools import product
def sat_cnf(F, a):
    return all(any((l > 0) == a[abs(l) - 1] for l in c) for c in F)
def sat_opb(F, a):
    for c in F:
        s = sum(co for co, l in c[:-2] if (l > 0) == a[abs(l) - 1])
        if c[-2] == '>=' and not s >= c[-1]: return False
        if c[-2] == '==' and not s == c[-1]: return False
    return True
for n in range(0, 6):
    lits = [(-1) ** i * (i + 1) for i in range(n)]
    for k in range(-1, n + 2):
        A = CNF(); B = OPB()
        A.add_parity(lits, k); B.add_parity(lits, k)
        A.update_variable_number(n); B.update_variable_number(n)
        rec(n, k, [(sat_cnf(A, a), sat_opb(B, a)) for a in product([False, True], repeat=n)])

from cnfgen.clitools.cnfgen import cli as cnfcli
from cnfgen.clitools.pbgen import cli as pbcli
CMDS = [["tseitin", "random", "gnd", 6, 3], ["tseitin", "randomodd", "grid", 3, 3], ["tseitin", "randomeven", "complete", 4],
        ["randkxor", 3, 6, 5], ["randkxor", 1, 3, 3], ["randkxor", 0, 3, 2], ["parity", 0], ["parity", 6], ["php", 4, 3], ["php", 3, 3, "--functional", "--onto"], ["parity", 5], ["count", 5, 3],
        ["subsetcard", "glrd", 4, 4, 3], ["matching", "complete", 4], ["tseitin", "first", "grid", 2, 3],
        ["domset", 2, "grid", 2, 3], ["cliquecoloring", 4, 3, 2], ["op", 3], ["vdw", 5, 3, 3], ["ec", "complete", 5]]
TR = [[], ["-T", "xor", 2], ["-T", "xor", 3], ["-T", "xorcomp", 2], ["-T", "exact", 2], ["-T", "exact", 3], ["-T", "one", 3], ["-T", "maj", 3], ["-T", "eq", 2], ["-T", "neq", 2], ["-T", "lift", 2], ["-T", "anybut", 3, 1], ["-T", "anybut", 4, 2], ["-T", "anybut", 2, 3]]
for cmd in CMDS:
    for tr in TR:
        argv = ["cnfgen", "--seed", 5, "-q"] + cmd + tr
        def run():
            with contextlib.redirect_stderr(io.StringIO()):
                return cnfcli(argv, mode='string')
        attempt(argv, run)
    argv = ["pbgen", "--seed", 5, "-q", "-of", "opb"] + cmd
    def run():
        with contextlib.redirect_stderr(io.StringIO()):
            return pbcli(argv, mode='string')
    attempt(argv, run)
print(H.hexdigest())
