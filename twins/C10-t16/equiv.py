#!/usr/bin/env python
"""Equivalence check for cnfgen.transformations.shuffle.Shuffle
(library use, transformation chains, `cnfshuffle`, `cnfgen ... -T shuffle`).
Prints one SHA256 digest of everything observed."""
import sys, os, io, hashlib, random
sys.path.insert(0, os.getcwd())

from cnfgen.formula.cnf import CNF
from cnfgen.transformations.shuffle import Shuffle
from cnfgen.transformations.substitutions import XorSubstitution, OrSubstitution, FlipPolarity
from cnfgen.families.pigeonhole import PigeonholePrinciple
from cnfgen.families.ordering import OrderingPrinciple
from cnfgen.families.randomformulas import RandomKCNF
from cnfgen.families.counting import CountingPrinciple
from cnfgen.clitools import cnfshuffle, cnfgen as cnfgencli

H = hashlib.sha256()
def rec(*items):
    for it in items:
        H.update(repr(it).encode('utf-8'))
        H.update(b'\x00')

def excinfo(e):
    return [type(e).__name__, str(e)]

def observe(tag, G):
    n = G.number_of_variables()
    cls = list(G)
    ok = all(isinstance(l, int) and l != 0 and 1 <= abs(l) <= n for c in cls for l in c)
    rec(tag, n, G.number_of_clauses(), cls, ok, list(G.header.items()),
        list(G.all_variable_labels())[:20], G.to_dimacs())

def formulas():
    yield 'empty', CNF()
    yield 'emptyclause', CNF([[]])
    F = CNF(); F.update_variable_number(5)
    yield 'novars-clauses', F
    F = CNF([[1]]); yield 'unit', F
    F = CNF([[1, -2], [2, -3], [3, -1], [], [1, 2, 3]]); F.update_variable_number(6)
    yield 'small+unused', F
    F = CNF([[1, 1, -1], [2, 2]]); yield 'repetitions', F
    yield 'php', PigeonholePrinciple(5, 4)
    yield 'php-big', PigeonholePrinciple(12, 9, functional=True, onto=True)
    yield 'op', OrderingPrinciple(7)
    yield 'count', CountingPrinciple(7, 3)
    random.seed(99)
    yield 'rand', RandomKCNF(3, 60, 250)
    random.seed(100)
    yield 'rand-big', RandomKCNF(4, 300, 1200)

rnd = random.Random(4242)

for name, F in formulas():
    N = F.number_of_variables()
    M = F.number_of_clauses()
    before = (N, list(F), list(F.header.items()))
    # all combinations of the string modes
    for pf in ('fixed', 'shuffle'):
        for vp in ('fixed', 'shuffle'):
            for cp in ('fixed', 'shuffle'):
                random.seed((name, pf, vp, cp).__repr__())
                G = Shuffle(F, pf, vp, cp)
                observe((name, pf, vp, cp), G)
                rec('rng-after', random.random())
    # default arguments
    random.seed(5)
    observe((name, 'default'), Shuffle(F))
    # explicit data
    for rep in range(3):
        flips = [rnd.choice([-1, 1]) for _ in range(N)]
        vperm = list(range(1, N + 1)); rnd.shuffle(vperm)
        cperm = list(range(M)); rnd.shuffle(cperm)
        random.seed(17)
        for args in ((flips, vperm, cperm),
                     (tuple(flips), tuple(vperm), tuple(cperm)),
                     (flips, 'fixed', 'fixed'),
                     ('fixed', vperm, 'fixed'),
                     ('fixed', 'fixed', cperm),
                     (flips, 'shuffle', cperm),
                     ('shuffle', vperm, 'shuffle'),
                     ([-1] * N, list(range(N, 0, -1)), list(range(M - 1, -1, -1))),
                     ([1] * N, range(1, N + 1), range(M)),
                     ([1.0] * N, [float(v) for v in vperm], cperm)):
            try:
                G = Shuffle(F, *args)
                observe((name, 'explicit', rep), G)
            except Exception as e:
                rec((name, 'explicit exc', rep), excinfo(e))
        rec('rng-after', random.random())
    # invalid data
    bad = [
        ([1] * (N + 1), 'fixed', 'fixed'),
        ([1] * max(N - 1, 0), 'fixed', 'fixed') if N > 0 else ([1], 'fixed', 'fixed'),
        ([0] * N, 'fixed', 'fixed'),
        ([1] * max(N - 1, 0) + [2], 'fixed', 'fixed'),
        ([1] * max(N - 1, 0) + [-2], 'fixed', 'fixed'),
        ([1] * max(N - 1, 0) + ['a'], 'fixed', 'fixed'),
        ('fixed', list(range(N)), 'fixed'),
        ('fixed', list(range(1, N + 2)), 'fixed'),
        ('fixed', list(range(2, N + 2)), 'fixed'),
        ('fixed', [1] * N, 'fixed'),
        ('fixed', list(range(1, N)) + [N + 1], 'fixed'),
        ('fixed', list(range(1, N)) + [None], 'fixed'),
        ('fixed', 'fixed', list(range(1, M + 1))),
        ('fixed', 'fixed', list(range(M + 1))),
        ('fixed', 'fixed', [0] * M),
        ('fixed', 'fixed', list(range(M - 1)) + [M]),
        ('fixed', 'fixed', list(range(M - 1)) + ['x']),
        ('nonsense', 'fixed', 'fixed'),
        ('fixed', 'nonsense', 'fixed'),
        ('fixed', 'fixed', 'nonsense'),
        (None, 'fixed', 'fixed'),
        ('fixed', None, 'fixed'),
        ('fixed', 'fixed', None),
        (5, 'fixed', 'fixed'),
    ]
    for k, args in enumerate(bad):
        random.seed(23)
        try:
            G = Shuffle(F, *args)
            observe((name, 'bad-accepted', k), G)
        except Exception as e:
            rec((name, 'bad', k), excinfo(e))
        rec('rng-after', random.random())
    # the source formula is untouched
    rec('untouched', before == (F.number_of_variables(), list(F), list(F.header.items())))

# chains
random.seed(31)
F = PigeonholePrinciple(4, 3)
G = Shuffle(XorSubstitution(Shuffle(F), 2))
observe('chain1', G)
G = Shuffle(Shuffle(Shuffle(OrSubstitution(FlipPolarity(F), 3))))
observe('chain2', G)
G.add_clause([G.number_of_variables() + 2])
v = G.new_variable()
rec('fresh', v, G.number_of_variables())
observe('chain2+', Shuffle(G, 'fixed', 'shuffle', 'fixed'))

# command line
for argv in (['cnfgen', '-q', '--seed', '3', 'php', '6', '5', '-T', 'shuffle'],
             ['cnfgen', '--seed', '3', 'php', '6', '5', '-T', 'shuffle', '-p'],
             ['cnfgen', '-q', '--seed', '3', 'op', '6', '-T', 'shuffle', '-v', '-c'],
             ['cnfgen', '-q', '--seed', '3', 'op', '6', '-T', 'shuffle', '-T', 'xor', '2', '-T', 'shuffle', '-c'],
             ['cnfgen', '-q', '--seed', '4', 'randkcnf', '3', '40', '120', '-T', 'shuffle', '-p', '-v'],
             ['cnfgen', '-q', '--seed', '4', 'and', '0', '0', '-T', 'shuffle'],
             ['cnfgen', '-q', '--seed', '4', 'or', '3', '2', '-T', 'shuffle'],
             ['cnfgen', '-v', '--seed', '4', 'or', '3', '2', '-T', 'shuffle'],
             ['cnfgen', '-q', '--seed', '3', '-of', 'latex', 'php', '3', '2', '-T', 'shuffle']):
    try:
        rec(argv, cnfgencli(argv, mode='string'))
    except SystemExit as e:
        rec(argv, 'exit', e.code)
    except Exception as e:
        rec(argv, excinfo(e))

src = PigeonholePrinciple(7, 5).to_dimacs()
old = sys.stdin
try:
    for argv in (['cnfshuffle', '-S', '1'], ['cnfshuffle', '-S', '1', '-q', '-p'],
                 ['cnfshuffle', '-S', '2', '-v'], ['cnfshuffle', '-S', '2', '-c'],
                 ['cnfshuffle', '-S', 'abc', '-p', '-v', '-c']):
        sys.stdin = io.StringIO(src)
        rec(argv, cnfshuffle(argv, mode='string'))
        sys.stdin = io.StringIO("p cnf 0 0\n")
        rec(argv, cnfshuffle(argv, mode='string'))
        sys.stdin = io.StringIO("p cnf 4 2\n0\n-4 0\n")
        rec(argv, cnfshuffle(argv, mode='string'))
finally:
    sys.stdin = old

print(H.hexdigest())
