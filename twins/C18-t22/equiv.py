#!/usr/bin/env python
"""Equivalence check for refactoring t22 (property C18).

Exercises the command line tools `cnfgen` and `pbgen` (entry points
`main` and `cli` in all modes) over all the output formats, chosen
explicitly or guessed from the output file name, with good, boundary,
wrong, missing and extra arguments, unknown options and unreadable
files: what matters is the comment marker that shields the error
messages, the exit code and the text written on the streams and files.
Prints one SHA256 digest of everything observed.

Run as:  cd <checkout> && /venv/bin/python equiv.py
"""
import os
import sys
import io
import random
import hashlib
import tempfile
import shutil
import warnings

warnings.simplefilter('ignore')

sys.path.insert(0, os.getcwd())

import cnfgen  # noqa
from cnfgen.info import info as _info
# the version is asked to git: make the digest independent of the commit
REAL_VERSION = str(_info['version'])
_info['version'] = 'VERSION'
import importlib
cnfgen_tool = importlib.import_module('cnfgen.clitools.cnfgen')
pbgen_tool = importlib.import_module('cnfgen.clitools.pbgen')
from cnfgen.clitools import graph_args
from cnfgen.clitools.cmdline import CLIParser, CLIError, CLIHelpFormatter
from cnfgen.clitools.msg import msg_prefix
from cnfgen.clitools import msg as msg_module

LOG = []
CHECKOUT = os.getcwd()


def log(*items):
    LOG.append(repr(items))


class Sink(io.StringIO):
    """StringIO that survives close() (main() closes stderr)"""
    def close(self):
        pass


def run_main(tool, argv):
    """Run the `main` entry point of a tool as the shell would do"""
    out, err = Sink(), Sink()
    saved = sys.argv, sys.stdout, sys.stderr, sys.stdin
    sys.argv, sys.stdout, sys.stderr = list(argv), out, err
    sys.stdin = io.StringIO('')
    code = 0
    exc = None
    random.seed(12345)
    msg_module._prefix = ''  # a fresh process starts with no prefix
    try:
        tool.main()
    except SystemExit as e:
        code = e.code
    except BaseException as e:  # an unhandled internal exception
        exc = (type(e).__name__, str(e))
    finally:
        sys.argv, sys.stdout, sys.stderr, sys.stdin = saved
    log('main', argv, code, exc, out.getvalue(), err.getvalue())


def run_cli(tool, argv, mode='string'):
    out, err = Sink(), Sink()
    saved = sys.stdin, sys.stdout, sys.stderr
    sys.stdin, sys.stdout, sys.stderr = io.StringIO(''), out, err
    random.seed(54321)
    msg_module._prefix = ''
    try:
        res = tool.cli(list(argv), mode=mode)
        if mode == 'formula':
            res = (type(res).__name__, res.number_of_variables(),
                   len(res), sorted(res.header.items()))
        log('cli', argv, mode, 'ok', res)
    except SystemExit as e:
        log('cli', argv, mode, 'exit', e.code)
    except BaseException as e:
        log('cli', argv, mode, 'exc', type(e).__name__, str(e),
            type(e.__cause__).__name__, type(e.__context__).__name__)
    finally:
        sys.stdin, sys.stdout, sys.stderr = saved
    log('cli-streams', out.getvalue(), err.getvalue())


def describe_graph(G):
    try:
        edges = sorted(G.edges())
    except Exception as e:
        edges = repr(e)
    return (type(G).__name__, G.number_of_vertices(), G.number_of_edges(),
            edges, getattr(G, 'name', None))


def run_action(action_cls, tokens, dest='G', with_prefix='c '):
    """Use the action in a stand alone parser"""
    parser = CLIParser(prog='prog', usage='usage: prog <graph>',
                       description='descr')
    parser.add_argument('--flag', action='store_true')
    act = parser.add_argument(dest, action=action_cls)
    log('action-attrs', action_cls.__name__, act.dest, act.nargs,
        act.option_strings, act.required, act.metavar,
        isinstance(act, graph_args.ObtainGraphAction),
        [c.__name__ for c in action_cls.__mro__])
    random.seed(999)
    msg_module._prefix = ''
    out, err = Sink(), Sink()
    saved = sys.stdin, sys.stdout, sys.stderr
    sys.stdin, sys.stdout, sys.stderr = io.StringIO(''), out, err
    try:
        with msg_prefix(with_prefix):
            ns = parser.parse_args(list(tokens))
        log('action', action_cls.__name__, tokens, 'ok', ns.flag,
            describe_graph(getattr(ns, dest)))
    except CLIError as e:
        log('action', action_cls.__name__, tokens, 'clierror', str(e))
    except SystemExit as e:
        log('action', action_cls.__name__, tokens, 'exit', e.code)
    except BaseException as e:
        log('action', action_cls.__name__, tokens, 'exc',
            type(e).__name__, str(e))
    finally:
        sys.stdin, sys.stdout, sys.stderr = saved
    log('action-streams', out.getvalue(), err.getvalue())
    log('help', parser.format_help(), parser.format_usage())


def write(name, content):
    with open(name, 'w') as f:
        f.write(content)


def main():
    checkout = os.getcwd()
    tmp = tempfile.mkdtemp(prefix='equiv_c18_')
    os.chdir(tmp)
    try:
        body()
    finally:
        os.chdir(checkout)
        shutil.rmtree(tmp, ignore_errors=True)
    data = "\n".join(LOG).encode('utf-8', 'backslashreplace')
    if '--dump' in sys.argv[1:]:
        sys.stdout.write("\n".join(LOG) + "\n")
    print(hashlib.sha256(data).hexdigest())


def run_subprocess(entry, argv, stdin_text=''):
    """Really run the entry point in a fresh interpreter"""
    import subprocess
    code = ("import sys, warnings; warnings.simplefilter('ignore'); "
            "sys.argv = {!r}; "
            "from cnfgen.clitools.{} import main; main()").format(
                list(argv), entry)
    env = dict(os.environ)
    env['PYTHONPATH'] = CHECKOUT
    env['PYTHONHASHSEED'] = '0'
    env.pop('PAGER', None)
    p = subprocess.run([sys.executable, '-W', 'ignore', '-c', code],
                       input=stdin_text, capture_output=True, text=True,
                       env=env, timeout=50)
    stdout = p.stdout.replace('(%s)' % REAL_VERSION, '(VERSION)')
    log('subprocess', entry, argv, p.returncode, stdout, p.stderr)


def body():
    write('good.cnf', "c hello\np cnf 3 2\n1 -2 0\n2 3 0\n")
    write('bad.cnf', "p cnf 3 2\n1 -2 0\n")
    write('good.kthlist', "3\n1 : 0\n2 : 1 0\n3 : 1 2 0\n")
    os.mkdir('adir')

    formats = [[], ['-of', 'dimacs'], ['-of', 'latex'], ['-of', 'opb'],
               ['--output-format', 'latex'], ['-l'], ['--latex'],
               ['-of', 'bogus'], ['-of'], ['-of', ''],
               ['-o', 'f1.cnf'], ['-o', 'f2.tex'], ['-o', 'f3.opb'],
               ['-o', 'f4'], ['-o', 'f5.tex', '-of', 'dimacs'],
               ['-o', 'f6.cnf', '-of', 'opb'], ['-o', 'f7.opb', '-l'],
               ['-o', 'adir'], ['-o', 'nodir/f.cnf'], ['-o', '-'], ['-o'],
               ['-o', 'f8.tex', '-q'], ['-o', 'f9.opb', '--varnames'],
               ['-q'], ['-v'], ['--varnames'], ['-q', '--varnames'],
               ['-S', '17'], ['--seed', 'abc', '-of', 'opb'], ['--seed']]
    formulas = [
        ['php', '3', '2'],                # fine
        ['php', '0', '2'],                # out of range
        ['php', '3'],                     # fine, one argument
        ['php', '3', '2', '1', '7'],      # extra arguments
        ['php', 'x', '2'],                # malformed
        ['op', '3', '--nonsense'],        # unknown option
        ['randkcnf', '3', '5', '4'],      # random
        ['randkcnf', '6', '5', '4'],      # k > n
        ['nosuchformula', '3'],           # unknown formula
        [],                               # no formula at all
        ['peb', 'pyramid', '2'],
        ['peb', 'pyramid', 'x'],
        ['dimacs', 'good.cnf'], ['dimacs', 'bad.cnf'],
        ['dimacs', 'missing.cnf'],
        ['and', '2', '2'], ['or', '0', '0'], ['and', '-1', '2'],
        ['op', '3', '-T', 'xor', '2'], ['op', '3', '-T'],
        ['op', '3', '-T', 'nosuch', '2'], ['op', '3', '-T', 'xor', '0'],
        ['op', '3', '-T', 'xor', '2', '-T', 'or', '2'],
        ['op', '3', '-T', 'xor'], ['-T', 'xor', '2'],
    ]

    # every format with a representative set of formulas
    for fmt in formats:
        for frm in (formulas[:10] if fmt in formats[:4] else formulas[:10:3]):
            run_main(cnfgen_tool, ['cnfgen'] + fmt + frm)
            if fmt in formats[:4] or frm in (formulas[0], formulas[9]):
                run_main(pbgen_tool, ['pbgen'] + fmt + frm)
    # every formula in the main formats
    for fmt in formats[1:4] + [['-o', 'g.tex']]:
        for frm in formulas[10:]:
            run_main(cnfgen_tool, ['cnfgen'] + fmt + frm)
            if fmt in formats[2:4]:
                run_main(pbgen_tool, ['pbgen'] + fmt + frm)

    # library-like modes
    for mode in ('string', 'formula', 'output'):
        for fmt in formats[:4] + [['-o', 'h.tex'], ['-of', 'bogus']]:
            for frm in [['php', '3', '2'], ['php', '0', '2'], [],
                        ['op', '2', '-T']]:
                run_cli(cnfgen_tool, ['cnfgen'] + fmt + frm, mode=mode)
                run_cli(pbgen_tool, ['pbgen'] + fmt + frm, mode=mode)

    # non string arguments, help texts, version
    run_cli(cnfgen_tool, ['cnfgen', 'php', 3, 2], mode='string')
    run_cli(pbgen_tool, ['pbgen', 'php', 3, 2], mode='string')
    for tool, name in ((cnfgen_tool, 'cnfgen'), (pbgen_tool, 'pbgen')):
        for opt in (['-h'], ['--help'], ['-V'], ['--tutorial'],
                    ['--help-graph'], ['--help-dag'], ['--help-bipartite'],
                    ['php', '-h'], ['-of', 'latex', '-h'],
                    ['-of', 'latex', 'php', '-h'], ['--bogus'],
                    ['-of', 'opb', '--bogus'], ['-l', '--bogus']):
            run_main(tool, [name] + opt)

    # files written (or not written) by the runs above
    for fname in sorted(os.listdir('.')):
        if os.path.isfile(fname):
            with open(fname) as f:
                log('file', fname, f.read())
        else:
            log('dir', fname, sorted(os.listdir(fname)))

    # a few real processes
    run_subprocess('cnfgen', ['cnfgen', '-S', '3', 'randkcnf', '3', '6', '4'])
    run_subprocess('cnfgen', ['cnfgen', '-of', 'latex', 'php', '0', '2'])
    run_subprocess('cnfgen', ['cnfgen', '-o', 's.opb', 'php', '3', 'x'])
    run_subprocess('cnfgen', ['cnfgen', '-of', 'opb'])
    run_subprocess('pbgen', ['pbgen', 'php', '3', '2'])
    run_subprocess('pbgen', ['pbgen', '-of', 'latex', 'nosuch'])
    run_subprocess('pbgen', ['pbgen', '-o', 's.cnf', 'php', '3', '2'])
    run_subprocess('pbgen', ['pbgen', 'php', '3', '2', '-T', 'xor', '2'])
    log('after', sorted(os.listdir('.')))


if __name__ == '__main__':
    main()
