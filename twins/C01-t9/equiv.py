#!/usr/bin/env python
"""Equivalence oracle for the refactoring of
cnfgen.formula.variables.BinaryMappingVariables.indices

Run as:  cd <checkout> && /venv/bin/python equiv.py
Prints a single SHA256 digest of everything observed.
"""
import hashlib
import os
import sys

sys.path.insert(0, os.getcwd())

from cnfgen.formula.basecnf import BaseCNF
from cnfgen.formula.cnf import CNF
from cnfgen.formula.variables import BinaryMappingVariables
from cnfgen.families.pigeonhole import BinaryPigeonholePrinciple
from cnfgen.clitools.cnfgen import cli

H = hashlib.sha256()


def rec(*items):
    for it in items:
        H.update(repr(it).encode('utf-8'))
        H.update(b'\x00')
    H.update(b'\n')


def attempt(tag, fn):
    """Record the result of fn() or the exception it raises."""
    try:
        res = fn()
        rec(tag, 'OK', res)
    except BaseException as e:  # noqa
        rec(tag, 'EXC', type(e).__name__, str(e))


PATTERNS = [(), (None, None)]
VALUES = [None, -2, -1, 0, 1, 2, 3, 4, 5, 6, 7, 9, 100]
for a in VALUES:
    for b in VALUES:
        PATTERNS.append((a, b))
# wrong arities
PATTERNS += [(1,), (None,), (1, 2, 3), (None, None, None), (1, 0, 0, 0)]
# odd types
PATTERNS += [(True, 0), (1, False), (1.0, 1.0), (2.5, 0), ('a', 0), (1, 'b'),
             ('a', 'b'), ([1], 0)]

for offset in [0, 3]:
    for n in range(0, 6):
        for m in [0, 1, 2, 3, 4, 5, 7, 8, 9, 16, 17]:
            F = BaseCNF()
            if offset:
                F.update_variable_number(offset)
            f = BinaryMappingVariables(F, n, m, labelfmt='w[{},{}]')
            rec('group', offset, n, m, len(f), f.bits(),
                list(f.domain()), list(f.range()), f.flips)
            for pat in PATTERNS:
                attempt(('indices', pat), lambda: list(f.indices(*pat)))
                attempt(('call', pat),
                        lambda: (lambda r: list(r) if hasattr(r, '__iter__') else r)(f(*pat)))
                attempt(('label', pat),
                        lambda: (lambda r: r if isinstance(r, str) else list(r))(f.label(*pat)))
            # the generator returned by indices is lazy: interleave consumers
            try:
                g1 = f.indices()
                g2 = f.indices(None, 0) if f.bits() > 0 else f.indices()
                mixed = []
                for x, y in zip(g1, g2):
                    mixed.append((x, y))
                rec('interleaved', mixed, list(g1), list(g2))
            except BaseException as e:  # noqa
                rec('interleaved', 'EXC', type(e).__name__, str(e))
            for lit in range(-(n * f.bits() + offset + 2),
                             n * f.bits() + offset + 3):
                attempt(('to_index', lit), lambda: f.to_index(lit))
            for i in range(0, n + 2):
                for j in range(-1, 2 ** f.bits() + 2):
                    attempt(('forbid', i, j), lambda: f.forbid(i, j))

# negative sizes
for n, m in [(-1, 3), (3, -1), (-1, -1)]:
    attempt(('negsize', n, m), lambda: BinaryMappingVariables(BaseCNF(), n, m))
    attempt(('negsize-mgr', n, m), lambda: CNF().new_binary_mapping(n, m))

# the binary pigeonhole principle itself
for pigeons in range(0, 7):
    for holes in range(0, 10):
        F = BinaryPigeonholePrinciple(pigeons, holes)
        rec('bphp', pigeons, holes, F.number_of_variables(), len(F),
            list(F.clauses()), list(F.all_variable_labels()),
            F.to_dimacs(), F.to_latex() if pigeons * holes < 20 else None)

for bad in [(-1, 2), (2, -1), (1.5, 2), ('3', 2), (2, None)]:
    attempt(('bphp-bad', bad), lambda: BinaryPigeonholePrinciple(*bad))

# command line
for argv in [['bphp', '3', '4'], ['bphp', '5', '3'], ['bphp', '1', '1'],
             ['bphp', '0', '3'], ['bphp', '3'], ['bphp', '3', '-1'],
             ['bphp', 'a', '2'], ['-of', 'opb', 'bphp', '3', '5'],
             ['-of', 'latex', 'bphp', '2', '3']]:
    attempt(('cli', argv), lambda: cli(['cnfgen', '-q'] + argv, mode='string'))

print(H.hexdigest())
