"""Equivalence script for t21: graph argparse actions (ObtainSimpleGraph,
ObtainBipartiteGraph, ObtainDirectedAcyclicGraph) used by cnfgen/pbgen
command lines.  Prints one SHA256 digest of everything observed."""
import sys, os, io, hashlib, tempfile, shutil, warnings, contextlib, argparse, random
warnings.simplefilter('ignore')
sys.path.insert(0, os.getcwd())

from cnfgen.clitools.cnfgen import cli as cnfgen_cli
from cnfgen.clitools.pbgen import cli as pbgen_cli
from cnfgen.clitools.cmdline import CLIParser, CLIError, CLIHelpFormatter
from cnfgen.clitools import graph_args
from cnfgen.clitools.graph_args import (ObtainGraphAction, ObtainSimpleGraph,
                                        ObtainBipartiteGraph,
                                        ObtainDirectedAcyclicGraph)

H = hashlib.sha256()
NOBS = 0


def obs(*items):
    global NOBS
    NOBS += 1
    H.update(repr(items).encode('utf-8'))
    H.update(b'\n')


tmp = tempfile.mkdtemp(prefix='c15t21_')


def clean(text):
    return str(text).replace(tmp, '<TMP>')


def run(tool, argv):
    out, err = io.StringIO(), io.StringIO()
    try:
        with contextlib.redirect_stdout(out), contextlib.redirect_stderr(err):
            res = tool(argv, mode='string')
        obs('OK', argv_clean(argv), clean(res), clean(out.getvalue()), clean(err.getvalue()))
    except SystemExit as e:
        obs('EXIT', argv_clean(argv), e.code, clean(out.getvalue()), clean(err.getvalue()))
    except BaseException as e:
        obs('EXC', argv_clean(argv), type(e).__name__, clean(e), clean(out.getvalue()),
            clean(err.getvalue()))


def argv_clean(argv):
    return [clean(a) for a in argv]


def dumpfile(path):
    try:
        with open(path) as f:
            obs('FILE', clean(path), f.read())
    except OSError as e:
        obs('NOFILE', clean(path), type(e).__name__)


simple_specs = [
    'gnm 6 7', 'gnm 6 15', 'gnm 6 16', 'gnm 6 0', 'gnm 0 0', 'gnm 6 -1', 'gnm 6',
    'gnm 6 2.5', 'gnd 6 3', 'gnd 5 3', 'gnd 4 4', 'gnd 6 0', 'gnp 6 .5', 'gnp 3 .5 2',
    'gnp 6 1.5', 'grid 3 2', 'grid 3 0', 'torus 3 3', 'torus', 'grid', 'complete 4',
    'complete 3 2', 'complete 0', 'complete', 'empty 3', 'empty 0', 'empty 2 2',
    'gnm 6 7 plantclique 3', 'gnm 6 7 plantclique 7', 'gnm 6 7 plantclique -1',
    'gnm 6 7 plantclique', 'gnm 6 7 addedges 3', 'gnm 6 7 addedges 8', 'gnm 6 7 addedges 9',
    'gnm 6 7 addedges -1', 'gnm 6 7 splitedges 2', 'gnm 6 7 splitedges 7',
    'gnm 6 7 splitedges 8', 'gnm 6 7 splitedges x', 'gnm 6 7 plantbiclique 1 1',
    'gnm 6 7 addedges 1 addedges 1', 'gnm 6 7 gnm 3 2', 'gnm 6 7 simple', 'gnm 6 7 -q',
    'gnm 6 7 foo', 'glrm 3 3 2', 'path 4', 'matrix foo.matrix', 'kthlist', 'nofile.gml',
    'nofile', 'nofile.xyz', 'gml nofile.gml', 'gnm 6 7 save', 'gnm 6 7 save kthlist',
    'grid 2 2 plantclique 3 addedges 1 splitedges 2',
]
bip_specs = [
    'glrp 4 3 .5', 'glrp 4 3 2', 'glrm 4 3 5', 'glrm 4 3 12', 'glrm 4 3 13', 'glrm 4 3 0',
    'glrm 4 0 0', 'glrd 4 3 2', 'glrd 4 3 3', 'glrd 4 3 4', 'glrd 4 3 0', 'regular 4 4 2',
    'regular 6 4 2', 'regular 4 6 3', 'regular 4 6 2', 'regular 3 3 3', 'regular 3 3 4',
    'regular 4 4 0', 'shift 4 4 0 1', 'shift 4 4 1 1', 'shift 4 4 5', 'shift 4 4', 'shift 4',
    'complete 3 2', 'complete 3', 'complete 0 2', 'empty 3 2', 'empty 3',
    'glrm 4 3 5 plantbiclique 2 2', 'glrm 4 3 5 plantbiclique 5 2',
    'glrm 4 3 5 plantbiclique 2', 'glrm 4 3 5 plantbiclique 0 0', 'glrm 4 3 5 addedges 7',
    'glrm 4 3 5 addedges 8', 'glrm 4 3 5 plantclique 2', 'glrm 4 3 5 splitedges 1',
    'gnm 4 3', 'dimacs foo.dimacs', 'nofile.matrix', 'glrm 4 3 5 save',
    'complete 3 2 addedges 0', 'complete 3 2 addedges 1',
]
dag_specs = [
    'path 3', 'path 0', 'path -1', 'path', 'path 1 2', 'tree 2', 'tree 0', 'tree -1',
    'tree x', 'pyramid 3', 'pyramid 0', 'pyramid -2', 'pyramid 2 addedges 1', 'gnm 3 2',
    'matrix foo.matrix', 'nofile.kthlist', 'pyramid 2 save', 'pyramid 2 pyramid 2',
]

# --- through the real command lines -----------------------------------
seed = 0
for spec in simple_specs:
    for prefix in (['kcolor', '3'], ['tseitin', 'first'], ['domset', '2']):
        seed += 1
        run(cnfgen_cli, ['cnfgen', '-q', '--seed', str(seed)] + prefix + spec.split())
for spec in bip_specs:
    for prefix in (['php'], ['parity'], ['subsetcard']):
        seed += 1
        run(cnfgen_cli, ['cnfgen', '-q', '--seed', str(seed)] + prefix + spec.split())
    seed += 1
    run(cnfgen_cli, ['cnfgen', '-q', '--seed', str(seed), 'op', '3', '-T', 'xorc'] + spec.split())
for spec in dag_specs:
    for prefix in (['peb'], ['stone', '3']):
        seed += 1
        run(cnfgen_cli, ['cnfgen', '-q', '--seed', str(seed)] + prefix + spec.split())

# two graph arguments and pbgen
run(cnfgen_cli, ['cnfgen', '-q', '--seed', '5', 'iso', 'gnm', '4', '3', '-e', 'gnm', '4', '3'])
run(cnfgen_cli, ['cnfgen', '-q', '--seed', '5', 'iso', 'gnm', '4', '3', '-e', 'gnm', '4', '9'])
for spec in ['gnm 6 7', 'gnm 6 17', 'gnd 6 3 addedges 2', 'nofile.gml', 'grid 2 3 foo']:
    seed += 1
    run(pbgen_cli, ['pbgen', '-q', '--seed', str(seed), 'vertexcover'] + spec.split())

# save option and files through the command line
for i, (prefix, spec, fmt, ext) in enumerate([
        (['kcolor', '3'], 'gnm 6 7 addedges 2', 'kthlist', 'kthlist'),
        (['kcolor', '3'], 'gnd 6 3 splitedges 2', 'gml', 'gml'),
        (['kcolor', '3'], 'grid 2 3 plantclique 3', 'dimacs', 'dimacs'),
        (['kcolor', '3'], 'grid 2 3', 'matrix', 'matrix'),
        (['php'], 'glrd 4 3 2 plantbiclique 2 2', 'matrix', 'matrix'),
        (['php'], 'regular 4 4 2 addedges 3', 'kthlist', 'kthlist'),
        (['php'], 'glrm 4 3 5', 'dimacs', 'dimacs'),
        (['peb'], 'pyramid 3', 'kthlist', 'kthlist'),
        (['peb'], 'tree 2', 'dimacs', 'dimacs'),
        (['peb'], 'path 4', 'gml', 'gml'),
        (['peb'], 'path 4', 'matrix', 'matrix')]):
    f1 = os.path.join(tmp, 'a{}.{}'.format(i, ext))
    f2 = os.path.join(tmp, 'b{}.{}'.format(i, ext))
    f3 = os.path.join(tmp, 'c{}.noext'.format(i))
    run(cnfgen_cli, ['cnfgen', '-q', '--seed', str(100 + i)] + prefix + spec.split() + ['save', f1])
    dumpfile(f1)
    run(cnfgen_cli, ['cnfgen', '-q', '--seed', str(100 + i)] + prefix + spec.split() + ['save', fmt, f2])
    dumpfile(f2)
    run(cnfgen_cli, ['cnfgen', '-q', '--seed', str(100 + i)] + prefix + spec.split() + ['save', f3])
    dumpfile(f3)
    # read back
    run(cnfgen_cli, ['cnfgen', '-q'] + prefix + [f1])
    run(cnfgen_cli, ['cnfgen', '-q'] + prefix + [fmt, f2])
    run(cnfgen_cli, ['cnfgen', '-q'] + prefix + [f2, 'addedges', '1'])
run(cnfgen_cli, ['cnfgen', '-q', 'kcolor', '3', 'gnm', '4', '2', 'save',
                 os.path.join(tmp, 'nodir', 'x.gml')])
run(cnfgen_cli, ['cnfgen', '-q', 'kcolor', '3', tmp])

# --- directly through small argparse parsers --------------------------
class P(argparse.ArgumentParser):
    def error(self, message):
        raise CLIError('P.error: ' + str(message))


for cls, gt, specs in [(ObtainSimpleGraph, 'simple', simple_specs),
                       (ObtainBipartiteGraph, 'bipartite', bip_specs),
                       (ObtainDirectedAcyclicGraph, 'dag', dag_specs)]:
    obs('CLASS', cls.__name__, [c.__name__ for c in cls.__mro__],
        issubclass(cls, ObtainGraphAction))
    for kw in ({'nargs': 2}, {'nargs': '+'}, {'nargs': None}):
        try:
            a = cls([], 'G', **kw)
            obs('INIT', cls.__name__, kw, a.nargs, a.dest, a.option_strings, a.required)
        except Exception as e:
            obs('INITEXC', cls.__name__, kw, type(e).__name__, str(e))
    for spec in specs:
        for dest in ('G', 'other'):
            seed += 1
            random.seed(seed)
            p = P(prog='x')
            p.add_argument(dest, action=cls)
            try:
                ns = p.parse_args(spec.split())
                g = getattr(ns, dest)
                obs('NS', cls.__name__, spec, sorted(vars(ns)), type(g).__name__, g.name,
                    g.number_of_vertices(), list(g.edges()), random.random())
            except SystemExit as e:
                obs('NSEXIT', cls.__name__, spec, e.code)
            except BaseException as e:
                obs('NSEXC', cls.__name__, spec, type(e).__name__, clean(e), random.random())
    # optional-argument flavour and help formatting
    p = CLIParser(prog='y', usage='usage: y', formatter_class=CLIHelpFormatter)
    p.add_argument('--graph', '-g', action=cls, metavar='<graph>', help='a graph')
    p.add_argument('k', type=int)
    obs('HELP', cls.__name__, p.format_help(), p.format_usage())
    for line in (['3'], ['--graph'] + specs[0].split() + ['--', '3'],
                 ['-g'] + specs[1].split() + ['--', '3'], ['-g', '--', '3']):
        random.seed(7)
        try:
            ns = p.parse_args(line)
            g = ns.graph
            obs('OPT', cls.__name__, line, ns.k,
                None if g is None else (g.name, list(g.edges())))
        except BaseException as e:
            obs('OPTEXC', cls.__name__, line, type(e).__name__, clean(e))

shutil.rmtree(tmp, ignore_errors=True)
obs('COUNT', NOBS)
print(H.hexdigest())
