"""Equivalence check for obtain_bipartite_shift (cnfgen/clitools/graph_build.py),
the command line construction `shift L R v1 v2 ...` of bipartite graphs."""
import warnings
warnings.simplefilter("ignore")
import contextlib
import hashlib
import io
import itertools
import os
import random
import sys

sys.path.insert(0, os.getcwd())

from cnfgen.clitools.graph_build import obtain_bipartite_shift
from cnfgen.clitools.graph_args import make_graph_from_spec, parse_graph_argument
from cnfgen.clitools.cnfgen import cli

H = hashlib.sha256()


def emit(*items):
    for x in items:
        H.update(repr(x).encode('utf-8'))
        H.update(b'\n')
        if os.environ.get('EQUIV_DEBUG'):
            sys.stderr.write(repr(x)[:160] + '\n')


def dump(G):
    emit(type(G).__name__, G.name, G.left_order(), G.right_order(),
         G.number_of_edges(), sorted(G.edges()))
    # right_neighbors(u) are the neighbours of the left vertex u, and viceversa
    emit([G.right_neighbors(u) for u in range(1, G.left_order() + 1)])
    emit([G.left_neighbors(v) for v in range(1, G.right_order() + 1)])


def direct(args):
    emit('DIRECT', args)
    parsed = {'graphtype': 'bipartite', 'construction': 'shift', 'args': args}
    saved = list(args) if isinstance(args, list) else args
    random.seed(11)
    try:
        G = obtain_bipartite_shift(parsed)
    except BaseException as e:
        emit('EXC', type(e).__name__, str(e), type(e.__cause__).__name__,
             type(e.__context__).__name__)
    else:
        dump(G)
    emit(random.random(), args == saved)


def spec(text, seed=4):
    emit('SPEC', text)
    random.seed(seed)
    try:
        G = make_graph_from_spec('bipartite', text)
    except BaseException as e:
        emit('EXC', type(e).__name__, str(e))
    else:
        dump(G)
    emit(random.random())


def run_cli(argv):
    emit('CLI', argv)
    out, err = io.StringIO(), io.StringIO()
    code = None
    with contextlib.redirect_stdout(out), contextlib.redirect_stderr(err):
        try:
            cli(argv)
        except SystemExit as e:
            code = e.code
        except BaseException as e:
            code = (type(e).__name__, str(e))
    text = out.getvalue().splitlines()
    # the header contains date/version independent lines only after filtering
    text = [l for l in text if not l.startswith('c Generated with')
            and not l.startswith('c (C)') and not l.startswith('c https')]
    emit(code, text, err.getvalue())


# exhaustive small range: L, R in 0..4 and patterns of up to 3 offsets in -1..R+1
for L in range(0, 4):
    for R in range(0, 4):
        values = [str(x) for x in range(-1, R + 2)]
        for k in range(0, 4):
            for pattern in itertools.product(values, repeat=k):
                direct([str(L), str(R)] + list(pattern))

# bigger instances and longer patterns
direct(['7', '9', '8', '0', '3', '5'])
direct(['9', '7', '7', '0', '3', '5'])
direct(['9', '7', '6', '0', '3', '5', '3'])
direct(['9', '7', '3', '0', '3', '5', '6'])
direct(['5', '5', '5', '4', '3', '2', '1', '0'])
direct(['5', '5', '0', '1', '2', '3', '4', '5', '6'])
direct(['10', '10'] + [str(i) for i in range(10, -1, -1)])
direct(['10', '10'] + [str(i) for i in range(10)] + ['4'])

# malformed arguments
for bad in ([], ['3'], ['x', '3'], ['3', 'x'], ['3', '3', 'x'], ['3.5', '3'],
            ['3', '3', '1.5'], ['3', '3', '1e0'], ['3', '3', None], [None, '3'],
            [3, 3, 1, 2], [3, 3, 1, 1], [3, 3, 1.0, 1], ['3', '3', '', '1'],
            ['3', '3', ' 1 ', '2'], ['3', '3', '+1', '1'], ['3', '3', '-0', '0'],
            ['0', '3', '1'], ['3', '0', '0'], ['-3', '3'], ['3', '-3'],
            ('3', '3', '1', '2'), '33', '3312', '3311', None, 5):
    direct(bad)

# through the graph specification parser
for text in ['shift 4 4', 'shift 4 4 0', 'shift 4 4 0 1', 'shift 4 4 1 0',
             'shift 4 4 4', 'shift 4 4 5', 'shift 4 4 0 4', 'shift 4 4 2 2',
             'shift 4 4 2 1 2', 'shift 4 4 -1', 'shift 4', 'shift', 'shift 4 4 1.5',
             'shift 4 4 1e0', 'shift 0 4 1', 'shift 4 0 1', 'shift 3 5 1 2 plantbiclique 2 2',
             'shift 3 5 1 2 addedges 3', 'shift 3 5 1 2 addedges 10',
             'shift 3 5 0 1 2 3 4 addedges 1', 'shift 3 5 0 1 2 3 4 5 addedges 0',
             'shift 6 4 0 2 plantbiclique 3 3 addedges 2']:
    spec(text)

# through the command line tool
for argv in (['cnfgen', '-q', 'php', 'shift', '4', '3', '0', '1'],
             ['cnfgen', '-q', 'php', 'shift', '4', '3', '1', '1'],
             ['cnfgen', '-q', 'php', 'shift', '4', '3', '4'],
             ['cnfgen', '-q', 'php', 'shift', '4'],
             ['cnfgen', '-q', '--seed', '7', 'php', 'shift', '4', '3', '0', 'addedges', '2'],
             ['cnfgen', '-q', 'subsetcard', 'shift', '4', '4', '0', '1', '3'],
             ['cnfgen', '-q', 'subsetcard', 'shift', '4', '4', '0', '1', '0']):
    run_cli(argv)

print(H.hexdigest())
