#!/usr/bin/env python
"""Equivalence harness for property C20 (solve / is_satisfiable / sat_solve).

Builds a private directory of fake SAT solvers (speaking the three I/O
conventions, with many output shapes), runs cnfgen's solver interface
against them and prints one SHA256 digest of everything observable:
results, exceptions and their messages, stderr text, every subprocess
launched (arguments), the DIMACS text handed to the solver, and the
temporary files left behind.

Run as:  cd <checkout> && /venv/bin/python equiv.py
"""
import contextlib
import hashlib
import io
import os
import random
import re
import shutil
import stat
import subprocess
import sys
import tempfile

sys.path.insert(0, os.getcwd())

WORK = tempfile.mkdtemp(prefix='c20equiv')
TMPD = os.path.join(WORK, 'tmp')
BINS = os.path.join(WORK, 'bins')
LOG = os.path.join(WORK, 'log.txt')
os.mkdir(TMPD)
os.mkdir(BINS)
tempfile.tempdir = TMPD
os.environ['TMPDIR'] = TMPD
os.environ['FAKE_LOG'] = LOG

import cnfgen                                        # noqa: E402
from cnfgen import CNF                               # noqa: E402
from cnfgen.utils import solver as S                 # noqa: E402
from cnfgen.utils.solver import (sat_solve, some_solver_installed,
                                 supported_satsolvers)  # noqa: E402

FAKE = r'''#!%s -SE
import sys, os, itertools
args = sys.argv[1:]
if '--help' in args:
    sys.stdout.write('fake help\n')
    sys.exit(0)
me = os.path.basename(sys.argv[0])
conv = os.environ.get('FAKE_CONV', 'stdin')
if me in ('sat4j', 'march'):
    conv = 'filein'
elif me == 'minisat':
    conv = 'fileout'
elif me not in ('mysolver', 'other-solver'):
    conv = 'stdin'
mode = os.environ.get('FAKE_MODE', 'good')
infile = outfile = None
if conv == 'stdin':
    text = sys.stdin.read()
elif conv == 'filein':
    infile = args[-1]
    text = open(infile).read()
else:
    infile, outfile = args[-2], args[-1]
    text = open(infile).read()
with open(os.environ['FAKE_LOG'], 'a') as log:
    log.write('RUN %%s %%r conv=%%s mode=%%s\n' %% (me, args, conv, mode))
    log.write(text)
    log.write('END\n')
n = 0
clauses = []
cur = []
for line in text.splitlines():
    if line.startswith('c'):
        continue
    if line.startswith('p'):
        n = int(line.split()[2])
        continue
    for tok in line.split():
        if tok == '0':
            clauses.append(cur)
            cur = []
        else:
            cur.append(int(tok))
model = None
for bits in itertools.product([False, True], repeat=n):
    ok = True
    for c in clauses:
        if not any((l > 0) == bits[abs(l) - 1] for l in c):
            ok = False
            break
    if ok:
        model = [(i + 1) if b else -(i + 1) for i, b in enumerate(bits)]
        break
out = sys.stdout
code = 0
def vlines(lits, per, zero=True):
    toks = [str(l) for l in lits] + (['0'] if zero else [])
    res = []
    for i in range(0, len(toks), per):
        res.append('v ' + ' '.join(toks[i:i + per]))
    if not toks:
        res.append('v')
    return res
if conv in ('stdin', 'filein'):
    sat = model is not None
    sline = 's SATISFIABLE' if sat else 's UNSATISFIABLE'
    L = []
    if mode == 'good':
        L = ['c fake solver', 'c', sline, 'c middle']
        if sat:
            for v in vlines(model, 3):
                L += [v, 'c interleaved']
        L.append('c the end')
        code = 10 if sat else 20
    elif mode == 'oneline':
        L = [sline] + (vlines(model, 10 ** 6) if sat else [])
    elif mode == 'nozero':
        L = [sline] + (vlines(model, 2, zero=False) if sat else [])
    elif mode == 'reversed':
        L = ['c rev', sline] + (vlines(model[::-1], 2) if sat else [])
    elif mode == 'vfirst':
        L = (vlines(model, 4) if sat else []) + ['c late answer', sline]
    elif mode == 'blank':
        L = ['', 'c x', '', sline, ''] + (vlines(model, 1) if sat else []) + ['', '']
    elif mode == 'vextra':
        L = [sline] + (['v v ' + ' '.join(map(str, model)) + ' 0 0'] if sat else ['v 0'])
    elif mode == 'noanswer':
        L = ['c only comments', 'c nothing else']
    elif mode == 'empty':
        L = []
    elif mode == 'unknown':
        L = ['c x', 's UNKNOWN']
    elif mode == 'sonly':
        L = ['s']
    elif mode == 'twos':
        L = [sline, 'c', 's UNKNOWN']
    elif mode == 'twos2':
        L = ['s UNKNOWN', sline] + (vlines(model, 3) if sat else [])
    elif mode == 'lower':
        L = ['s satisfiable']
    elif mode == 'indent':
        L = [' ' + sline]
    elif mode == 'stats':
        L = [sline] + (vlines(model, 3) if sat else []) + ['statistics: none']
    elif mode == 'stats2':
        L = ['solving now', sline] + (vlines(model, 3) if sat else [])
    elif mode == 'exit1':
        L = []
        code = 1
    elif mode == 'nonascii':
        sys.stdout.buffer.write(b'c caf\xe9\n' + sline.encode() + b'\n')
        sys.stdout.buffer.flush()
        sys.exit(0)
    elif mode == 'badint':
        L = [sline, 'v 1 x 0']
    elif mode == 'vunsat':
        L = ['s UNSATISFIABLE', 'v 1 2 0']
    elif mode == 'tabs':
        L = ['s\tSATISFIABLE' if sat else 's\tUNSATISFIABLE'] + (['v\t' + '\t'.join(map(str, model)) + '\t0'] if sat else [])
    elif mode == 'crlf':
        out.write('\r\n'.join([sline] + (vlines(model, 2) if sat else [])) + '\r\n')
        sys.exit(0)
    elif mode == 'delin':
        if infile:
            os.unlink(infile)
        L = [sline] + (vlines(model, 3) if sat else [])
    out.write(''.join(l + '\n' for l in L))
else:
    sat = model is not None
    out.write('fake minisat banner\nmode %%s\n' %% mode)
    if mode == 'good':
        body = ('SAT\n' + ' '.join(map(str, model)) + ' 0\n') if sat else 'UNSAT\n'
        code = 10 if sat else 20
    elif mode == 'reversed':
        body = ('SAT\n' + ' '.join(map(str, model[::-1])) + ' 0\n') if sat else 'UNSAT\n'
    elif mode == 'multiline':
        body = ('SAT\n' + '\n'.join(map(str, model)) + '\n0\n') if sat else '\n\nUNSAT\n\n'
    elif mode == 'nozero':
        body = ('SAT ' + ' '.join(map(str, model))) if sat else 'UNSAT'
    elif mode == 'indet':
        body = 'INDET\n'
    elif mode == 'empty':
        body = ''
    elif mode == 'blankonly':
        body = '\n  \n'
    elif mode == 'untouched':
        body = None
    elif mode == 'lower':
        body = 'sat\n1 0\n'
    elif mode == 'unsatextra':
        body = 'UNSAT\n1 2 0\n'
    elif mode == 'badint':
        body = 'SAT\n1 x 0\n'
    elif mode == 'nonascii':
        body = None
        open(outfile, 'wb').write(b'SAT\n1 \xe9 0\n')
    elif mode == 'delout':
        body = None
        os.unlink(outfile)
    elif mode == 'delin':
        body = ('SAT\n' + ' '.join(map(str, model)) + ' 0\n') if sat else 'UNSAT\n'
        os.unlink(infile)
    elif mode == 'exit1':
        body = None
        code = 1
    else:
        body = None
    if body is not None:
        open(outfile, 'w').write(body)
out.flush()
sys.exit(code)
''' % sys.executable

FAKEPATH = os.path.join(WORK, 'fakesolver')
with open(FAKEPATH, 'w') as f:
    f.write(FAKE)
os.chmod(FAKEPATH, stat.S_IRWXU)

# ---------------------------------------------------------------- recording
H = hashlib.sha256()
DEBUG = bool(os.environ.get('EQUIV_DEBUG'))
TMPNAME = re.compile(re.escape(TMPD) + r'/tmp[A-Za-z0-9_]+')


def norm(text):
    text = TMPNAME.sub('<TMPFILE>', text)
    return text.replace(WORK, '<WORK>')


def record(*items):
    line = norm(repr(items))
    H.update(line.encode('utf-8', 'replace'))
    H.update(b'\n')
    if DEBUG:
        sys.__stderr__.write(line + '\n')


POPEN_CALLS = []
_RealPopen = subprocess.Popen
_CHILDREN = []


class RecordingPopen(_RealPopen):
    def __init__(self, *a, **kw):
        POPEN_CALLS.append((list(a), sorted((k, v) for k, v in kw.items())))
        _RealPopen.__init__(self, *a, **kw)
        _CHILDREN.append(self)


subprocess.Popen = RecordingPopen


def reap():
    """Wait for the fire-and-forget '--help' probes."""
    while _CHILDREN:
        p = _CHILDREN.pop()
        try:
            if p.poll() is None:
                p.communicate()
            else:
                for s in (p.stdout, p.stderr, p.stdin):
                    if s is not None:
                        s.close()
        except Exception:
            pass


def install(names):
    """Make exactly the solvers in `names` reachable; return the bin dir."""
    d = os.path.join(BINS, 'set' + str(len(os.listdir(BINS))))
    os.mkdir(d)
    for name in names:
        os.symlink(FAKEPATH, os.path.join(d, name))
    os.environ['PATH'] = d
    return d


def observe(tag, fun, *args, **kwargs):
    """Run fun, record every observable."""
    del POPEN_CALLS[:]
    open(LOG, 'w').close()
    err = io.StringIO()
    outp = io.StringIO()
    try:
        with contextlib.redirect_stderr(err), contextlib.redirect_stdout(outp):
            res = fun(*args, **kwargs)
        outcome = ('OK', res)
    except BaseException as e:     # noqa
        outcome = ('EXC', type(e).__name__, str(e))
    reap()
    with open(LOG) as f:
        log = f.read()
    left = sorted(os.listdir(TMPD))
    for name in left:
        os.unlink(os.path.join(TMPD, name))
    record(tag, outcome, 'stderr', err.getvalue(), 'stdout', outp.getvalue(),
           'popen', POPEN_CALLS, 'log', log, 'leftover', len(left))
    return outcome


# ---------------------------------------------------------------- formulas
def formulas():
    rnd = random.Random(2020)
    res = []
    res.append(('empty', CNF()))
    res.append(('emptyclause0', CNF([[]])))
    F = CNF([[1, -2], []])
    res.append(('emptyclause2', F))
    F = CNF()
    F.update_variable_number(4)
    res.append(('novars4', F))
    F = CNF([[1, 2], [-1]])
    F.update_variable_number(5)
    res.append(('unused', F))
    res.append(('unit', CNF([[1]])))
    res.append(('negunit', CNF([[-1]])))
    res.append(('contradiction', CNF([[1], [-1]])))
    res.append(('small', CNF([[1, 2, -3], [-2, 4], [3], [-4, -1]])))
    res.append(('dup', CNF([[1, 2], [1, 2], [-1, -2], [2, -1]])))
    res.append(('php32', cnfgen.PigeonholePrinciple(3, 2)))
    res.append(('php23', cnfgen.PigeonholePrinciple(2, 3)))
    res.append(('op4', cnfgen.OrderingPrinciple(3)))
    F = CNF()
    x = F.new_variable('x')
    y = F.new_variable('y')
    F.add_clause([x, -y])
    F.add_clause([-x, -y])
    res.append(('named', F))
    for i in range(6):
        n = rnd.randint(1, 9)
        m = rnd.randint(0, 4 * n)
        cls = []
        for _ in range(m):
            k = rnd.randint(1, min(3, n))
            vs = rnd.sample(range(1, n + 1), k)
            cls.append([v if rnd.random() < .5 else -v for v in vs])
        F = CNF(cls)
        F.update_variable_number(n)
        res.append(('rnd%d' % i, F))
    return res


FORMULAS = formulas()
BYNAME = dict(FORMULAS)


def check_model(F, outcome):
    """Digest whether a returned witness is ordered and satisfies F."""
    if outcome[0] != 'OK':
        return
    ans, wit = outcome[1]
    if wit is None:
        record('witness', None)
        return
    ordered = [abs(l) for l in wit] == sorted(abs(l) for l in wit)
    pos = set(wit)
    satisfied = all(any(l in pos for l in c) for c in F)
    record('witness', ordered, satisfied, len(wit))


CONV = {
    'stdin': ['lingeling', 'cadical', 'kissat', 'plingeling', 'precosat',
              'picosat', 'cryptominisat', 'glucose'],
    'filein': ['sat4j', 'march'],
    'fileout': ['minisat'],
}
STD_MODES = ['good', 'oneline', 'nozero', 'reversed', 'vfirst', 'blank',
             'vextra', 'noanswer', 'empty', 'unknown', 'sonly', 'twos',
             'twos2', 'lower', 'indent', 'stats', 'stats2', 'exit1',
             'nonascii', 'badint', 'vunsat', 'tabs', 'crlf', 'delin']
FILE_MODES = ['good', 'reversed', 'multiline', 'nozero', 'indet', 'empty',
              'blankonly', 'untouched', 'lower', 'unsatextra', 'badint',
              'nonascii', 'delout', 'delin', 'exit1']


def main():
    record('supported', supported_satsolvers())
    record('interface', sorted((k, v.__name__)
                               for k, v in S._SATSOLVER_INTERFACE.items()))

    # ---- 1. every supported solver name, every formula, well behaved solver
    install(supported_satsolvers())
    for conv, names in CONV.items():
        os.environ['FAKE_CONV'] = conv
        os.environ['FAKE_MODE'] = 'good'
        for name in names:
            picked = FORMULAS if name in ('lingeling', 'sat4j', 'minisat') \
                else FORMULAS[3:5] + FORMULAS[8:9]
            for fname, F in picked:
                o = observe(('solve', name, fname), F.solve, cmd=name)
                check_model(F, o)
                if name in ('lingeling', 'march', 'minisat'):
                    observe(('is_sat', name, fname), F.is_satisfiable, cmd=name)

    # ---- 2. every output shape, per convention
    for conv, modes in (('stdin', STD_MODES), ('filein', STD_MODES),
                        ('fileout', FILE_MODES)):
        os.environ['FAKE_CONV'] = conv
        name = CONV[conv][0]
        for mode in modes:
            os.environ['FAKE_MODE'] = mode
            for fname in ('empty', 'unused', 'contradiction', 'small'):
                F = BYNAME[fname]
                for verbose in (0, 2):
                    o = observe(('shape', conv, mode, fname, verbose),
                                F.solve, cmd=name, verbose=verbose)
                    check_model(F, o)
            observe(('shape-issat', conv, mode), BYNAME['unused'].is_satisfiable,
                    cmd=name)
            observe(('shape-issat-u', conv, mode),
                    BYNAME['emptyclause2'].is_satisfiable, cmd=name)

    # ---- 3. command lines, sameas, verbosity
    os.environ['FAKE_MODE'] = 'good'
    F = BYNAME['small']
    U = BYNAME['contradiction']
    install(supported_satsolvers() + ['mysolver', 'other-solver'])
    for conv, sameas_names in (('stdin', ['lingeling', 'glucose', 'cadical']),
                               ('filein', ['sat4j', 'march']),
                               ('fileout', ['minisat'])):
        os.environ['FAKE_CONV'] = conv
        for sameas in sameas_names:
            for cmd in ('mysolver', 'mysolver -a --b=3', '  other-solver   -q ',
                        sameas, sameas + ' --plain -v', 'absent-solver',
                        'absent-solver -x', '', '   ', None, '\t\n'):
                for verbose in (0, 1, 2):
                    o = observe(('cmd', conv, sameas, cmd, verbose),
                                F.solve, cmd=cmd, sameas=sameas,
                                verbose=verbose)
                    check_model(F, o)
                o = observe(('cmd-unsat', conv, sameas, cmd), U.solve, cmd=cmd,
                            sameas=sameas, verbose=-1)
                check_model(U, o)
                observe(('cmd-issat', conv, sameas, cmd),
                        F.is_satisfiable, cmd=cmd, sameas=sameas)
    os.environ['FAKE_CONV'] = 'stdin'
    for cmd in ('mysolver', 'mysolver -x', 'absent-solver', 'absent-solver -y',
                'Lingeling', 'lingeling2', '/bin/true', '-x lingeling',
                'lingeling', ' lingeling -q', 'glucose -pre'):
        for verbose in (0, 1):
            observe(('nosameas', cmd, verbose), sat_solve, F, cmd=cmd,
                    verbose=verbose)
        observe(('nosameas-pos', cmd), sat_solve, F, cmd, None, 2)
    for sameas in ('bogus', '', 'Minisat', 'minisat ', 0, ('minisat',)):
        for cmd in (None, 'lingeling', 'mysolver', 'absent-solver', ''):
            observe(('badsameas', sameas, cmd), sat_solve, F, cmd=cmd,
                    sameas=sameas)
            observe(('badsameas-m', sameas, cmd), F.solve, cmd=cmd,
                    sameas=sameas)
            observe(('badsameas-i', sameas, cmd), F.is_satisfiable, cmd=cmd,
                    sameas=sameas)
    for bad in (None, [[1, 2]], 'p cnf 0 0', 3, CNF):
        observe(('notcnf', repr(bad)), sat_solve, bad)
        observe(('notcnf2', repr(bad)), sat_solve, bad, cmd='lingeling',
                sameas='bogus')
    for cmd in (3, ['lingeling'], b'lingeling'):
        observe(('badcmd', repr(cmd)), sat_solve, F, cmd=cmd)

    # ---- 4. sets of installed solvers, default solver choice
    sup = supported_satsolvers()
    rnd = random.Random(77)
    subsets = [[], sup, ['minisat'], ['sat4j'], ['march'], ['glucose'],
               ['sat4j', 'minisat'], ['march', 'minisat'], ['minisat', 'glucose'],
               ['unknownsolver'], ['unknownsolver', 'sat4j'], sup[::-1][:3]]
    subsets += [[s] for s in sup[1:4]]
    for _ in range(5):
        subsets.append(rnd.sample(sup, rnd.randint(1, len(sup) - 1)))
    for names in subsets:
        install(names)
        first = next((s for s in sup if s in names), None)
        conv = 'stdin'
        for c, ns in CONV.items():
            if first in ns:
                conv = c
        os.environ['FAKE_CONV'] = conv
        os.environ['FAKE_MODE'] = 'good'
        for fname in ('small', 'contradiction'):
            G = BYNAME[fname]
            for verbose in (0, 1):
                o = observe(('default', names, fname, verbose), G.solve,
                            verbose=verbose)
                check_model(G, o)
            observe(('default-issat', names, fname), G.is_satisfiable)
            observe(('default-sameas', names, fname), G.solve,
                    sameas='minisat')
            observe(('default-empty', names, fname), G.solve, cmd='')
        os.environ['FAKE_MODE'] = 'noanswer' if conv != 'fileout' else 'indet'
        observe(('default-failing', names), BYNAME['small'].solve)
        os.environ['FAKE_MODE'] = 'good'
        for cmd in ('minisat', 'sat4j -x', 'lingeling', 'kissat -q'):
            for c in ('stdin', 'filein', 'fileout'):
                if cmd.split()[0] in CONV[c]:
                    os.environ['FAKE_CONV'] = c
            observe(('explicit', names, cmd), BYNAME['small'].solve, cmd=cmd)
            observe(('explicit-issat', names, cmd),
                    BYNAME['small'].is_satisfiable, cmd=cmd)
        for arg in (None, 'minisat', 'lingeling', 'unknownsolver', '',
                    [], ['minisat'], ['nope', 'sat4j'], ['nope'],
                    ('march', 'glucose'), ['cadical', 'kissat', 'minisat'],
                    [3], ['minisat', 3], [None], 3, 2.5, [['minisat']],
                    {'minisat': 1}, {'nope'}, b'minisat', [b'minisat'])[::1 if len(names) in (0, 2, 11) else 4]:
            observe(('installed', names, repr(arg)), some_solver_installed, arg)
        observe(('installed-kw', names), some_solver_installed,
                solvers=['sat4j', 'minisat'])
        observe(('installed-noarg', names), some_solver_installed)
        observe(('installed-gen', names), some_solver_installed,
                (s for s in ['nope', 'minisat', 'sat4j']))
        observe(('installed-badgen', names), some_solver_installed,
                (s for s in ['minisat', 3]))

    # ---- 5. solver binary present but not executable / PATH unset
    d = install([])
    with open(os.path.join(d, 'lingeling'), 'w') as f:
        f.write('not executable\n')
    with open(os.path.join(d, 'minisat'), 'w') as f:
        f.write('no shebang\n')
    os.chmod(os.path.join(d, 'minisat'), stat.S_IRWXU)
    os.mkdir(os.path.join(d, 'sat4j'))
    for cmd in ('lingeling', 'minisat', 'sat4j', None):
        observe(('unusable', cmd), BYNAME['small'].solve, cmd=cmd)
        observe(('unusable-issat', cmd), BYNAME['small'].is_satisfiable, cmd=cmd)
        observe(('unusable-inst', cmd), some_solver_installed, cmd)
    # direct calls of the three interfaces with a command that cannot start
    for fun in (S._satsolve_stdin_stdout, S._satsolve_filein_stdout,
                S._satsolve_filein_fileout):
        for verbose in (0, 1, 2):
            observe(('direct-absent', fun.__name__, verbose), fun,
                    BYNAME['small'], 'no-such-solver -z', verbose)
            observe(('direct-absent-kw', fun.__name__, verbose), fun,
                    BYNAME['small'], cmd='no-such-solver', verbose=verbose)
    install(supported_satsolvers())
    os.environ['FAKE_MODE'] = 'good'
    for conv, fun in (('stdin', S._satsolve_stdin_stdout),
                      ('filein', S._satsolve_filein_stdout),
                      ('fileout', S._satsolve_filein_fileout)):
        os.environ['FAKE_CONV'] = conv
        for fname, G in FORMULAS:
            o = observe(('direct-default', conv, fname), fun, G)
            check_model(G, o)


try:
    main()
finally:
    reap()
    subprocess.Popen = _RealPopen
    shutil.rmtree(WORK, ignore_errors=True)

print(H.hexdigest())
