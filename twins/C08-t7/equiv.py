#!/usr/bin/env python
"""Equivalence check for CNFLinear.add_parity (cnfgen/formula/linear.py): the CNF
rendering of parity constraints (Tseitin formulas, random k-XOR, xor substitutions),
compared also with the OPB rendering of the same constraints."""
import sys, os, hashlib, random, warnings, itertools
sys.path.insert(0, os.getcwd())
warnings.simplefilter("ignore")

from fractions import Fraction
import networkx as nx
from cnfgen.formula.linear import CNFLinear
from cnfgen.formula.cnf import CNF
from cnfgen.formula.opb import OPB
from cnfgen.families.tseitin import TseitinFormula
from cnfgen.families.randomkxor import RandomKXOR
from cnfgen.graphs import Graph
from cnfgen.clitools.pbgen import cli as pbcli
from cnfgen.clitools.cnfgen import cli as cnfcli

random.seed(20260107)
H = hashlib.sha256()
def rec(*items):
    for it in items:
        H.update(repr(it).encode('utf-8'))
        H.update(b'\x00')

def attempt(tag, fn, *args, **kw):
    try:
        res = fn(*args, **kw)
        if hasattr(res, 'all_variable_labels'):
            rec(tag, 'ok-formula', res.number_of_variables(), len(res), list(res), list(res.all_variable_labels()))
        else:
            rec(tag, 'ok', res)
        return res
    except SystemExit as e:
        rec(tag, 'exit', e.code)
    except BaseException as e:
        rec(tag, 'exc', type(e).__name__, str(e))

def sat_cnf(F, n):
    sols = []
    for bits in itertools.product([False, True], repeat=n):
        if all(any((bits[abs(l) - 1] if l > 0 else not bits[abs(l) - 1]) for l in cls) for cls in F):
            sols.append(bits)
    return sols

def sat_opb(F, n):
    sols = []
    for bits in itertools.product([False, True], repeat=n):
        ok = True
        for c in F:
            tot = sum(co for co, l in c[:-2] if (bits[abs(l) - 1] if l > 0 else not bits[abs(l) - 1]))
            if (c[-2] == '>=' and not tot >= c[-1]) or (c[-2] == '==' and not tot == c[-1]):
                ok = False
                break
        if ok:
            sols.append(bits)
    return sols

# 1. direct calls on the CNF classes
constants = [0, 1, 2, 3, -1, True, False, None, '1', '0', 1.0, 0.0, Fraction(1), 1 + 0j, [1], 'odd']
litsets = [[], [1], [-1], [1, 2], [-1, 2], [1, -2], [3, 1, 2], [-1, -2, -3], [1, 2, 3, 4], [2, -5, 3, -1, 4],
           [1, 1], [1, -1], [2, 2, -2], [7], [10, -20], [1, 2, 3, 4, 5, 6], [6, 5, 4, 3, 2, 1, 7]]
for cls in (CNFLinear, CNF):
    for lits in litsets:
        for const in constants:
            for check in (True, False):
                F = cls()
                attempt(('parity', cls.__name__, lits, repr(const), check), F.add_parity, list(lits), const, check=check)
                rec(F.number_of_variables(), len(F), list(F))
                F = cls()
                attempt(('parity-tuple', cls.__name__, lits, repr(const), check), F.add_parity, tuple(lits), const, check)
                rec(F.number_of_variables(), len(F), list(F))
                F = cls()
                attempt(('parity-gen', cls.__name__, lits, repr(const), check), F.add_parity, (l for l in lits), const, check)
                rec(F.number_of_variables(), len(F), list(F))
    # accumulation in one formula
    F = cls()
    for i, lits in enumerate(litsets):
        attempt(('acc', cls.__name__, i), F.add_parity, lits, i % 2)
    rec(cls.__name__, 'acc', F.number_of_variables(), len(F), list(F))
    if cls is CNF:
        rec(F.to_dimacs(), F.to_opb(), F.to_latex())

# 2. bad inputs and error paths
bad_lits = [lambda: [0], lambda: [1, 0], lambda: [1.5], lambda: ['a'], lambda: [None], lambda: [[1]], lambda: None, lambda: 5,
            lambda: 'ab', lambda: [1, 'b'], lambda: [True, 2], lambda: [2.0, 3], lambda: {1, 2}, lambda: {1: 2},
            lambda: range(1, 4), lambda: iter([1, 2]), lambda: map(int, '123'), lambda: [10**20, -3]]
for cls in (CNFLinear, CNF):
    for bi, mk in enumerate(bad_lits):
        for check in (True, False):
            for const in (0, 1):
                F = cls()
                attempt(('bad', cls.__name__, bi, check, const), F.add_parity, mk(), const, check=check)
                attempt(('bad-state', cls.__name__, bi, check, const), lambda: (F.number_of_variables(), len(F), list(F)))
    F = cls()
    attempt(('missing-constant', cls.__name__), F.add_parity, [1, 2])
    attempt(('kw', cls.__name__), F.add_parity, lits=[1, 2], constant=1, check=True)
    rec(list(F))

# 3. random parities, CNF against OPB: same variables and same solutions
rng = random.Random(4242)
for trial in range(120):
    n = rng.randint(1, 7)
    FC, FO = CNF(), OPB()
    for _ in range(rng.randint(1, 4)):
        k = rng.randint(0, min(n, 5))
        lits = [v * rng.choice([-1, 1]) for v in rng.sample(range(1, n + 1), k)]
        b = rng.choice([0, 1, True, False])
        chk = rng.random() < .7
        if not chk:
            FC.update_variable_number(n); FO.update_variable_number(n)
        FC.add_parity(lits, b, check=chk)
        FO.add_parity(lits, b, check=chk)
    nv = max(FC.number_of_variables(), FO.number_of_variables())
    sc, so = sat_cnf(FC, nv), sat_opb(FO, nv)
    rec('rnd', trial, FC.number_of_variables(), FO.number_of_variables(), list(FC), list(FO), sc, sc == so)

# 4. families using parity constraints, library level
graphs = [nx.empty_graph(0), nx.empty_graph(3), nx.path_graph(2), nx.path_graph(4), nx.cycle_graph(5), nx.complete_graph(4),
          nx.complete_graph(5), nx.star_graph(5), nx.grid_2d_graph(2, 3), nx.complete_bipartite_graph(2, 3), nx.petersen_graph()]
for gi, G in enumerate(graphs):
    G = nx.convert_node_labels_to_integers(G, first_label=1)
    n = G.order()
    for charges in [None, [], [True] * n, [False] * n, [1, 0, 1], [i % 3 == 0 for i in range(n)], [True] * (n + 3), [0, 2, 5]]:
        res = []
        for cls in (CNF, OPB):
            F = attempt(('tseitin', gi, repr(charges), cls.__name__), TseitinFormula, G, charges, cls)
            res.append(F)
        if res[0] is not None and res[1] is not None and res[0].number_of_variables() <= 10:
            nv = res[0].number_of_variables()
            sc, so = sat_cnf(res[0], nv), sat_opb(res[1], nv)
            rec('tseitin-sols', gi, repr(charges), len(sc), sc == so)
for k, n, m, seed in [(0, 0, 0, 1), (1, 1, 1, 2), (2, 4, 3, 3), (3, 5, 6, 4), (3, 3, 2, 5), (3, 3, 3, 6), (4, 6, 10, 7), (2, 5, 20, 8), (2, 5, 21, 9), (5, 4, 1, 10), (1, 6, 12, 11), (1, 6, 13, 12)]:
    for cls in (CNF, OPB):
        attempt(('kxor', k, n, m, seed, cls.__name__), RandomKXOR, k, n, m, seed, None, cls)
        attempt(('kxor-planted', k, n, m, seed, cls.__name__), RandomKXOR, k, n, m, seed,
                [[i + 1 for i in range(n)], [-(i + 1) for i in range(n)]], cls)

# 5. command line tools
cmds = [
    ['tseitin', 'first', 'complete', '4'], ['tseitin', 'first', 'complete', '1'], ['-S', '9', 'tseitin', 'random', 'gnd', '6', '3'],
    ['-S', '9', 'tseitin', 'randomodd', 'gnd', '6', '3'], ['-S', '9', 'tseitin', 'randomeven', 'gnd', '6', '3'],
    ['-S', '2', 'tseitin', 'random', 'grid', '2', '3'], ['-S', '3', 'tseitin', '6'], ['-S', '3', 'tseitin', '7', '4'], ['tseitin', 'first', 'torus', '3', '3'],
    ['-S', '13', 'tseitin', 'randomodd', 'gnp', '5', '1'], ['tseitin', 'bogus', 'complete', '3'],
    ['-S', '2', 'randkxor', '3', '5', '4'], ['-S', '2', 'randkxor', '1', '1', '2'], ['-S', '2', 'randkxor', '2', '4', '13'], ['-S', '5', 'randkxor', '4', '4', '2'],
    ['-S', '5', 'randkxor', '2', '6', '5', '--plant'], ['-S', '5', 'randkxor', '5', '4', '2'], ['randkxor', '3', '5', '0'],
]
for cmd in cmds:
    attempt(('pbgen', cmd), pbcli, ['pbgen', '-q'] + cmd, mode='string')
    attempt(('pbgen-v', cmd), pbcli, ['pbgen', '--varnames'] + cmd, mode='string')
    attempt(('cnfgen', cmd), cnfcli, ['cnfgen', '-q'] + cmd, mode='string')
    attempt(('cnfgen-v', cmd), cnfcli, ['cnfgen', '--varnames'] + cmd, mode='string')
    attempt(('cnfgen-opb', cmd), cnfcli, ['cnfgen', '-q', '-of', 'opb'] + cmd, mode='string')
    attempt(('cnfgen-latex', cmd), cnfcli, ['cnfgen', '-q', '-of', 'latex'] + cmd, mode='string')
    Fp = attempt(('pbgen-f', cmd), pbcli, ['pbgen'] + cmd, mode='formula')
    Fc = attempt(('cnfgen-f', cmd), cnfcli, ['cnfgen'] + cmd, mode='formula')
    if Fp is not None and Fc is not None and Fc.number_of_variables() <= 12:
        nv = Fc.number_of_variables()
        sc, so = sat_cnf(Fc, nv), sat_opb(Fp, nv)
        rec('cli-sols', cmd, nv == Fp.number_of_variables(), len(sc), sc == so)
# xor substitution transformations go through add_parity of the CNF class
for tail in [['-T', 'xor', '1'], ['-T', 'xor', '2'], ['-T', 'xor', '3'], ['-T', 'xorcomp', '2', '1'], ['-T', 'xor', '2', '-T', 'xor', '2']]:
    for base in (['and', '1', '1'], ['php', '3', '2'], ['or', '2', '1'], ['false'], ['true']):
        attempt(('cnfgen-T', base, tail), cnfcli, ['cnfgen', '-q'] + base + tail, mode='string')

print(H.hexdigest())
