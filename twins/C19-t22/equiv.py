#!/usr/bin/env python
"""Equivalence script for t22: numbering of 'transformation N' header entries
(add_description helper, used by the substitutions and by Shuffle)."""
import sys, os, io, hashlib, random, itertools
from collections import OrderedDict
sys.path.insert(0, os.getcwd())

import cnfgen
from cnfgen import CNF, PigeonholePrinciple, OrderingPrinciple, Shuffle
from cnfgen import (FlipPolarity, XorSubstitution, OrSubstitution, FormulaLifting,
                    IfThenElseSubstitution, MajoritySubstitution,
                    AllEqualSubstitution, NotAllEqualSubstitution,
                    ExactlyOneSubstitution, ExactlyKSubstitution,
                    AtLeastKSubstitution, AtMostKSubstitution,
                    AnythingButKSubstitution, VariableCompression)
from cnfgen.transformations import substitutions as S
from cnfgen.transformations import shuffle as SH
from cnfgen.transformations.substitutions import add_description
from cnfgen.graphs import BipartiteGraph

OUT = []


def rec(*items):
    OUT.append(repr(items))


def snapshot(F):
    return (F.number_of_variables(), [list(c) for c in F],
            list(F.all_variable_labels()), list(F.header.items()))


def attempt(tag, fn):
    try:
        rec(tag, 'ok', fn())
    except BaseException as e:  # noqa
        rec(tag, 'exc', type(e).__name__, str(e))


# 1. the helper itself, on several header shapes
class Dummy:
    pass

headers = [
    OrderedDict(),
    {},
    OrderedDict(description='d'),
    OrderedDict([('transformation 1', 'a')]),
    OrderedDict([('transformation 2', 'b')]),
    OrderedDict([('transformation 1', 'a'), ('transformation 3', 'c')]),
    OrderedDict([('transformation 1', 'a'), ('transformation 2', 'b'), ('x', 'y')]),
    OrderedDict([('transformation 01', 'a'), ('transformation  1', 'b'), ('Transformation 1', 'c')]),
    OrderedDict([('transformation {}'.format(i), str(i)) for i in range(1, 40)]),
    OrderedDict([('transformation {}'.format(i), str(i)) for i in range(12, 0, -1)]),
]
for h in headers:
    d = Dummy()
    d.header = h
    for text in ['first', '', 'with {curly} and {}', 'x' * 100, None, 42]:
        r = add_description(d, text)
        rec('add_description', r, list(d.header.items()))
    rec('same object', d.header is h)
attempt('no header', lambda: add_description(Dummy(), 'x'))
attempt('None header', lambda: add_description(type('T', (), {'header': None})(), 'x'))
attempt('list header', lambda: (lambda d: (add_description(d, 'x'), d.header))(type('T', (), {'header': ['transformation 1']})()))
rec('names', S.add_description.__name__, callable(getattr(S, 'add_description')),
    S.add_description.__doc__)

# 2. formulas with pre-existing headers
def mk(kind):
    if kind == 'php':
        return PigeonholePrinciple(3, 2)
    if kind == 'op':
        return OrderingPrinciple(3)
    if kind == 'empty':
        return CNF()
    if kind == 'nodesc':
        F = CNF([[1, 2], [-1], [], [2, -3]])
        del F.header['description']
        return F
    if kind == 'gap':
        F = CNF([[1, -2], [2, 3, -4]], description='gap {0} {x}')
        F.header['transformation 2'] = 'second without first'
        return F
    if kind == 'pre':
        F = CNF([[1], [-1, 2]], description='pre')
        F.header['transformation 1'] = 'one'
        F.header['transformation 2'] = 'two'
        F.header['note'] = 'extra'
        return F
    if kind == 'names':
        F = CNF(description='named')
        F.new_variable('a')
        F.new_block(2, 2, label='p_{{{},{}}}')
        F.add_clause([1, -3, 5])
        F.add_clause([-2, 4])
        return F

KINDS = ['php', 'op', 'empty', 'nodesc', 'gap', 'pre', 'names']


def bip(F, R):
    V = F.number_of_variables()
    B = BipartiteGraph(V, R)
    for i in range(1, V + 1):
        for j in (0, 1, 2):
            v = (i + j * j) % R + 1
            if not B.has_edge(i, v):
                B.add_edge(i, v)
    return B

TRANSF = [
    ('shuffle', lambda F: Shuffle(F)),
    ('shuffle-fixed', lambda F: Shuffle(F, 'fixed', 'fixed', 'fixed')),
    ('shuffle-pf', lambda F: Shuffle(F, 'shuffle', 'fixed', 'shuffle')),
    ('shuffle-explicit', lambda F: Shuffle(
        F, [(-1) ** i for i in range(F.number_of_variables())],
        list(range(F.number_of_variables(), 0, -1)),
        list(range(F.number_of_clauses() - 1, -1, -1)))),
    ('flip', FlipPolarity),
    ('xor2', lambda F: XorSubstitution(F, 2)),
    ('or1', lambda F: OrSubstitution(F, 1)),
    ('or3', lambda F: OrSubstitution(F, 3)),
    ('lift2', lambda F: FormulaLifting(F, 2)),
    ('ite', IfThenElseSubstitution),
    ('maj3', lambda F: MajoritySubstitution(F, 3)),
    ('eq2', lambda F: AllEqualSubstitution(F, 2)),
    ('neq3', lambda F: NotAllEqualSubstitution(F, 3)),
    ('one2', lambda F: ExactlyOneSubstitution(F, 2)),
    ('exact', lambda F: ExactlyKSubstitution(F, 3, 2)),
    ('atleast', lambda F: AtLeastKSubstitution(F, 2, 1)),
    ('atmost', lambda F: AtMostKSubstitution(F, 3, 1)),
    ('anybut', lambda F: AnythingButKSubstitution(F, 2, 1)),
    ('xorcomp', lambda F: VariableCompression(F, bip(F, 4), 'xor')),
    ('majcomp', lambda F: VariableCompression(F, bip(F, 5), 'maj')),
]

for kind in KINDS:
    for name, T in TRANSF:
        random.seed(kind + name)
        F = mk(kind)
        before = snapshot(F)

        def run():
            G = T(F)
            return snapshot(G), G is F, G.header is F.header, G.to_dimacs()
        attempt((kind, name), run)
        rec('untouched', before == snapshot(F), random.random())

# 3. chains of transformations
random.seed(2024)
names = [n for n, _ in TRANSF]
table = dict(TRANSF)
chains = [['shuffle', 'shuffle', 'shuffle'],
          ['flip', 'shuffle', 'xor2', 'shuffle-fixed'],
          ['or1', 'flip', 'flip', 'shuffle-explicit', 'lift2'],
          ['shuffle-pf', 'ite', 'shuffle', 'eq2'],
          ['xorcomp', 'shuffle', 'majcomp', 'flip', 'shuffle']]
rng = random.Random(5)
small = ['shuffle', 'flip', 'or1', 'shuffle-fixed', 'shuffle-pf', 'shuffle-explicit', 'xorcomp', 'atleast']
for _ in range(12):
    chains.append([rng.choice(small) for _ in range(rng.randint(2, 12))])
for kind in ['php', 'gap', 'pre', 'nodesc', 'empty']:
    for chain in chains:
        F = mk(kind)
        steps = [F]
        snaps = [snapshot(F)]
        try:
            for n in chain:
                steps.append(table[n](steps[-1]))
                snaps.append(snapshot(steps[-1]))
            rec('chain', kind, chain, snaps[-1],
                [k for k in steps[-1].header if k.startswith('transformation')],
                steps[-1].to_dimacs())
        except BaseException as e:  # noqa
            rec('chain exc', kind, chain, type(e).__name__, str(e))
        rec('chain inputs untouched', [s == snapshot(G) for s, G in zip(snaps, steps)])

# 4. error paths of Shuffle leave the input alone
F = mk('pre')
before = snapshot(F)
for args in [([1], 'fixed', 'fixed'), ([1, 2], 'fixed', 'fixed'), ([1, 0], 'fixed', 'fixed'),
             ('fixed', [1, 1], 'fixed'), ('fixed', [2, 1, 3], 'fixed'), ('fixed', [2, 1], [0, 0]),
             ('fixed', 'fixed', [1, 0, 2]), ('fixed', [2, 1], [1, 0]), ('bogus', 'fixed', 'fixed'),
             ('fixed', 'bogus', 'fixed'), ('fixed', 'fixed', 'bogus'), (None, None, None)]:
    random.seed(4)
    attempt(('shuffle args', repr(args)), lambda: snapshot(Shuffle(F, *args)))
    rec(before == snapshot(F), random.random())

# 5. command line
from cnfgen.clitools import cnfgen as cli, cnfshuffle
from cnfgen.clitools import redirect_stdin
for argv in [['cnfgen', '--seed', 1, 'php', 3, 2, '-T', 'shuffle', '-T', 'xor', 2, '-T', 'shuffle', '-p'],
             ['cnfgen', '--seed', 2, 'op', 3, '-T', 'flip', '-T', 'shuffle', '-c', '-v', '-T', 'shuffle'],
             ['cnfgen', '--seed', 3, '-of', 'latex', 'op', 3, '-T', 'shuffle', '-T', 'or', 2],
             ['cnfgen', '--seed', 3, '-of', 'opb', 'or', 2, 1, '-T', 'shuffle', '-T', 'shuffle']]:
    attempt(('cli', tuple(map(str, argv))), lambda: cli(argv, mode='string'))
text = mk('pre').to_dimacs()
for opts in [[], ['-p'], ['-v', '-c'], ['-p', '-v', '-c'], ['-q']]:
    def run():
        with redirect_stdin(io.StringIO(text)):
            return cnfshuffle(['cnfshuffle', '--seed', 11] + opts, mode='string')
    attempt(('cnfshuffle', tuple(opts)), run)

if os.environ.get('EQUIV_DEBUG'):
    sys.stderr.write("\n".join(o[:300] for o in OUT) + "\n")
print(hashlib.sha256("\n".join(OUT).encode('utf-8')).hexdigest())
