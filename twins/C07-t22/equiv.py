#!/usr/bin/env python
"""Equivalence script for refactoring t22 (property C07).

Exercises the random multipartite graph construction (`gnp N p t` on
the command line, `multipartite_tnp` / `obtain_gnp` in
cnfgen/clitools/graph_build.py) directly, through graph specifications
and through cnfgen / pbgen, for many seeds, twice each.
Prints one SHA256 digest of everything observed.
"""
import os
import sys
import io
import random
import hashlib
import warnings

sys.path.insert(0, os.getcwd())
warnings.simplefilter('ignore')

from contextlib import redirect_stdout, redirect_stderr

import cnfgen.info
cnfgen.info.info['version'] = 'equiv'

from cnfgen.clitools import graph_build
from cnfgen.clitools.graph_build import obtain_gnp
from cnfgen.clitools.graph_args import make_graph_from_spec
from cnfgen.clitools.graph_args import parse_graph_argument, obtain_graph
from cnfgen.clitools.cnfgen import cli as cnfgen_cli
from cnfgen.clitools.pbgen import cli as pbgen_cli

H = hashlib.sha256()


def emit(*items):
    for x in items:
        H.update(repr(x).encode('utf-8'))
        H.update(b'\x00')


def observe(label, fn):
    out, err = io.StringIO(), io.StringIO()
    try:
        with redirect_stdout(out), redirect_stderr(err):
            res = fn()
        emit(label, 'ok', res, out.getvalue(), err.getvalue())
    except SystemExit as e:
        emit(label, 'exit', e.code, out.getvalue(), err.getvalue())
    except BaseException as e:
        emit(label, 'exc', type(e).__name__, str(e), out.getvalue(),
             err.getvalue())


def describe(G):
    return [type(G).__name__, G.name, G.number_of_vertices(),
            G.number_of_edges(), list(G.edges()),
            [list(G.neighbors(v)) for v in G.vertices()]]


SEEDS = [0, 1, 2, 42, -7, 2 ** 64 + 1, 'seed', 3.5]

# 1. the generator function itself
emit(callable(graph_build.multipartite_tnp),
     graph_build.multipartite_tnp.__name__,
     graph_build.multipartite_tnp.__doc__)
PARAMS = [(1, 1, .5), (1, 5, 1), (2, 1, .5), (2, 3, 0), (2, 3, 1),
          (2, 3, 0.0), (2, 3, 1.0), (3, 2, .5), (3, 4, .3), (4, 3, .7),
          (5, 2, .9), (2, 6, .01), (6, 1, .5), (0, 3, .5), (3, 0, .5),
          (0, 0, .5), (2, 3, 1.5), (2, 3, -1), (3, 3, .999999)]
for t, n, p in PARAMS:
    for seed in SEEDS:
        for shuffle in (False, True):
            def direct():
                random.seed(seed)
                G = graph_build.multipartite_tnp(t, n, p, shuffle)
                return describe(G), random.random()
            observe(('direct', t, n, p, seed, shuffle), direct)
            observe(('direct again', t, n, p, seed, shuffle), direct)

    def default_arg():
        random.seed(11)
        return describe(graph_build.multipartite_tnp(t, n, p))
    observe(('default', t, n, p), default_arg)

    def keyword_args():
        random.seed(11)
        return describe(graph_build.multipartite_tnp(p=p, n=n, t=t,
                                                     shuffleblocks=True))
    observe(('keywords', t, n, p), keyword_args)

# 2. bad arguments
BAD = [(-1, 3, .5), (3, -1, .5), (2, 2, 'x'), (2, 2, None), ('2', 2, .5),
       (2, '2', .5), (2.0, 2, .5), (2, 2.0, .5), (None, 2, .5), (1, 3, 'x')]
for t, n, p in BAD:
    for shuffle in (False, True):
        def bad():
            random.seed(3)
            try:
                return describe(graph_build.multipartite_tnp(t, n, p, shuffle))
            finally:
                emit(random.random())
        observe(('bad', t, n, p, shuffle), bad)
observe('noargs', lambda: graph_build.multipartite_tnp())
observe('toomany', lambda: graph_build.multipartite_tnp(1, 2, .3, True, 5))

# 3. obtain_gnp on parsed arguments
ARGS = [['5', '.5'], ['5', '.5', '1'], ['5', '.5', '2'], ['3', '.4', '3'],
        ['2', '1', '4'], ['2', '0', '4'], ['1', '.5', '7'], ['4', '.5', '0'],
        ['4', '.5', '-2'], ['0', '.5', '2'], ['4', '1.5', '2'],
        ['4', '.5', '2.5'], ['4', '.5', '2', '9'], ['4'], [], ['a', '.5', '2'],
        ['3', '1e-1', '3'], ['3', '1', '3'], ['3', '0.0', '3']]
for args in ARGS:
    for seed in SEEDS[:5]:
        def parsed():
            random.seed(seed)
            G = obtain_gnp({'graphtype': 'simple', 'construction': 'gnp',
                            'args': list(args)})
            return describe(G), random.random()
        observe(('obtain_gnp', args, seed), parsed)
        observe(('obtain_gnp again', args, seed), parsed)
observe('obtain_gnp none', lambda: obtain_gnp({'args': None}))

# 4. graph specifications with further random components
SPECS = [
    'gnp 3 .5 3', 'gnp 3 .5 3 plantclique 3', 'gnp 3 .5 3 addedges 4',
    'gnp 3 .5 3 splitedges 2',
    'gnp 2 .5 4 plantclique 3 addedges 3 splitedges 2',
    'gnp 2 1 3 addedges 3', 'gnp 2 1 3 addedges 4', 'gnp 2 0 3 splitedges 1',
    'gnp 2 .3 3 plantclique 7', 'gnp 6 .5', 'gnp 6 .5 1',
    'gnp 4 .5 2 gnp 4 .5 2', 'gnp 4 .5 2 3',
]
for spec in SPECS:
    for seed in SEEDS[:6]:
        def fromspec():
            random.seed(seed)
            G = make_graph_from_spec('simple', spec)
            return describe(G), random.random()
        observe(('spec', spec, seed), fromspec)
        observe(('spec again', spec, seed), fromspec)

        def twice_in_a_row():
            random.seed(seed)
            P = parse_graph_argument('simple', spec)
            return describe(obtain_graph(P)), describe(obtain_graph(P))
        observe(('spec twice', spec, seed), twice_in_a_row)

# 5. whole command lines
CMDLINES = [
    ['kcolor', '3', 'gnp', '3', '.5', '3'],
    ['kclique', '3', 'gnp', '3', '.6', '3', 'plantclique', '3'],
    ['kcliquebin', '3', 'gnp', '2', '.6', '3'],
    ['domset', '2', 'gnp', '2', '.5', '4', 'addedges', '2'],
    ['tseitin', 'random', 'gnp', '3', '.7', '2'],
    ['tseitin', 'randomeven', 'gnp', '3', '.7', '2', 'splitedges', '2'],
    ['gop', 'gnp', '2', '.5', '3'],
    ['ec', 'gnp', '2', '1', '3'],
    ['iso', 'gnp', '2', '.5', '2', '-e', 'gnp', '2', '.5', '2'],
    ['ramlb', '3', '3', 'gnp', '2', '.5', '3'],
    ['subgraph', '-G', 'gnp', '2', '.5', '3', '-H', 'complete', '3'],
    ['kcolor', '3', 'gnp', '3', '.5', '3', '-T', 'shuffle'],
    ['kcolor', '3', 'gnp', '3', '.5', '0'],
    ['kcolor', '3', 'gnp', '3', '.5', '3', '2'],
    ['kcolor', '3', 'gnp', '5', '.5'],
]
for cmd in CMDLINES:
    for seed in ('0', '1', '987654321', '-5'):
        for prog, cli in (('cnfgen', cnfgen_cli), ('pbgen', pbgen_cli)):
            for rep in range(2):
                observe((prog, cmd, seed, rep),
                        lambda: cli([prog, '--seed', seed] + cmd,
                                    mode='output'))
    observe(('cnfgen latex', cmd),
            lambda: cnfgen_cli(['cnfgen', '-S', '5', '-of', 'latex'] + cmd,
                               mode='output'))
    observe(('cnfgen noseed', cmd),
            lambda: (random.seed(99), cnfgen_cli(['cnfgen', '-q'] + cmd,
                                                 mode='output'))[1])

print(H.hexdigest())
