#!/usr/bin/env python
"""Equivalence script for refactoring t4
(cnfgen.families.tseitin.TseitinFormula: handling of the `charges` argument).

Run as:  cd <checkout> && /venv/bin/python equiv.py
Prints one SHA256 digest of everything observable.
"""
import sys
import os
import hashlib
import random
import warnings

warnings.simplefilter('ignore')
sys.path.insert(0, os.getcwd())

import networkx as nx
import cnfgen
from cnfgen import CNF, Graph, TseitinFormula
from cnfgen.clitools.cnfgen import cli

H = hashlib.sha256()


def emit(*items):
    for it in items:
        H.update(repr(it).encode('utf-8'))
        H.update(b'\x00')


def snapshot(F):
    gen = str(F.header.get('generator'))
    hdr = [(k, v) for k, v in F.header.items() if k != 'generator']
    return (hdr,
            F.number_of_variables(),
            F.number_of_clauses(),
            [list(c) for c in F],
            list(F.all_variable_labels()),
            F.to_dimacs().replace(gen, 'GEN'),
            F.to_latex().replace(gen, 'GEN'),
            )


def graph_state(G):
    if isinstance(G, nx.Graph):
        return ('nx', sorted(G.nodes()), sorted(map(sorted, G.edges())),
                sorted(G.graph.items()))
    if isinstance(G, Graph):
        return ('cnfgen', G.order(), sorted(G.edges()), G.name)
    return repr(G)


def graphs():
    yield 'null-nx', nx.Graph()
    yield 'null', Graph.null_graph()
    yield 'single', Graph.empty_graph(1)
    yield 'empty3', Graph.empty_graph(3)
    yield 'edge', nx.path_graph(2)
    yield 'path4', nx.path_graph(4)
    yield 'cycle5', nx.cycle_graph(5)
    yield 'K4', Graph.complete_graph(4)
    yield 'star', Graph.star_graph(4)
    yield 'grid', nx.grid_2d_graph(2, 3)
    G = nx.Graph(name='named graph')
    G.add_edges_from([('a', 'b'), ('b', 'c'), ('c', 'a'), ('c', 'd')])
    yield 'named', G
    yield 'petersen', nx.petersen_graph()
    yield 'digraph', nx.DiGraph([(1, 2)])
    yield 'notagraph', [1, 2, 3]


class Weird:
    """non boolean charge with its own truth value and sum behaviour"""
    def __init__(self, v):
        self.v = v

    def __bool__(self):
        return self.v > 0

    def __radd__(self, other):
        return other + self.v

    def __repr__(self):
        return 'Weird({})'.format(self.v)


def charge_vectors(n):
    yield 'none', lambda: None
    yield 'emptylist', lambda: []
    yield 'emptytuple', lambda: ()
    yield 'T', lambda: [True]
    yield 'F', lambda: [False]
    yield 'all1', lambda: [1] * n
    yield 'all0', lambda: [0] * n
    yield 'alt', lambda: [i % 2 for i in range(n)]
    yield 'short', lambda: [1] * max(n - 1, 0)
    yield 'short2', lambda: [True, True][:max(n - 2, 0)]
    yield 'long', lambda: [1] * (n + 2)
    yield 'long-even', lambda: [0] * n + [1, 1, 0]
    yield 'long-odd', lambda: [0] * n + [1]
    yield 'tuple', lambda: tuple(i % 3 == 0 for i in range(n))
    yield 'ints', lambda: [2, 3, -1, 0, 7][:n]
    yield 'floats', lambda: [0.5, 1.5, 0.0][:n]
    yield 'weird', lambda: [Weird(i - 1) for i in range(n)]
    yield 'range', lambda: range(n)
    yield 'generator', lambda: (i % 2 for i in range(n))
    yield 'iterator', lambda: iter([1, 0, 1][:n])
    yield 'strings', lambda: ['a', 'b']
    yield 'nones', lambda: [None] * n
    yield 'nested', lambda: [[1], []]
    yield 'int', lambda: 3
    yield 'string', lambda: 'odd'
    yield 'dict', lambda: {1: 1, 0: 0}
    yield 'set', lambda: {1}


for gname, G in graphs():
    try:
        n = G.order() if not isinstance(G, list) else len(G)
    except Exception:  # noqa
        n = 3
    for cname, maker in charge_vectors(n):
        for fclass in (None, CNF):
            charges = maker()
            crep = repr(charges) if not hasattr(charges, '__next__') else None
            gbefore = graph_state(G)
            tag = (gname, cname, fclass is None)
            try:
                if fclass is None:
                    F = TseitinFormula(G, charges)
                else:
                    F = TseitinFormula(G, charges=charges, formula_class=fclass)
                emit(tag, 'ok', type(F).__name__, snapshot(F))
            except Exception as e:  # noqa
                emit(tag, 'exc', type(e).__name__, str(e))
            if crep is not None:
                emit(tag, 'charges-same', repr(charges) == crep, crep)
            emit(tag, 'graph-same', graph_state(G) == gbefore)
    # no charges argument at all
    try:
        emit(gname, 'default', snapshot(TseitinFormula(G)))
    except Exception as e:  # noqa
        emit(gname, 'default', 'exc', type(e).__name__, str(e))

# transformations applied on top: provenance entries
T = TseitinFormula(nx.cycle_graph(4), [1, 1, 1])
before = snapshot(T)
X = cnfgen.XorSubstitution(T, 2)
random.seed(7)
Y = cnfgen.Shuffle(X)
emit(snapshot(X), snapshot(Y), snapshot(T) == before)

# the pitfall formula uses Tseitin with charges [True]
try:
    random.seed(11)
    P = cnfgen.PitfallFormula(4, 3, 2, 2, 3)
    emit('pitfall', snapshot(P)[:4])
except Exception as e:  # noqa
    emit('pitfall', 'exc', type(e).__name__, str(e))

# command line
CMDS = [
    ['tseitin', '6', '3'],
    ['tseitin', '5'],
    ['tseitin', '4', '2'],
    ['tseitin', '3', '3'],
    ['tseitin', '5', '3'],
    ['tseitin', 'first', 'grid', '2', '3'],
    ['tseitin', 'zero', 'grid', '2', '3'],
    ['tseitin', 'one', 'complete', '4'],
    ['tseitin', 'random', 'gnp', '6', '.5'],
    ['tseitin', 'randomodd', 'gnd', '6', '3'],
    ['tseitin', 'randomeven', 'torus', '3', '3'],
    ['tseitin', 'first', 'empty', '0'],
    ['tseitin', 'one', 'empty', '1'],
    ['tseitin', 'bogus', 'complete', '3'],
    ['tseitin', 'randomodd', 'grid', '2', '2', '-T', 'xor', '2', '-T', 'shuffle'],
]
for cmd in CMDS:
    for seed in ('1', '42'):
        argv = ['cnfgen', '-q', '--seed', seed] + cmd
        try:
            out = cli(argv, mode='string')
            emit(cmd, seed, 'ok', out)
        except SystemExit as e:
            emit(cmd, seed, 'exit', e.code)
        except Exception as e:  # noqa
            emit(cmd, seed, 'exc', type(e).__name__, str(e))
        try:
            F = cli(['cnfgen', '--seed', seed] + cmd, mode='formula')
            emit(cmd, seed, 'formula', snapshot(F))
        except SystemExit as e:
            emit(cmd, seed, 'exit', e.code)
        except Exception as e:  # noqa
            emit(cmd, seed, 'exc', type(e).__name__, str(e))
        emit(random.getstate()[1][:4])

print(H.hexdigest())
