#!/usr/bin/env python
"""Equivalence check for Shuffle (cnfgen/transformations/shuffle.py)

Exercises Shuffle, in particular the validation of explicitly given
polarity flips / variable permutations / clause permutations, with valid
and invalid arguments of many types. Records results, exceptions, the
state of the random generator, and whether the arguments were left
untouched. Prints a digest of everything observable.
"""
import sys
import io
import os
import random
import hashlib
import warnings
import contextlib
from itertools import product, permutations

warnings.simplefilter('ignore')
sys.path.insert(0, os.getcwd())

from cnfgen import CNF, Shuffle, PigeonholePrinciple, XorSubstitution
from cnfgen import FlipPolarity, OrSubstitution
from cnfgen.clitools.cnfgen import cli as cnfgen_cli
from cnfgen.clitools.cnfshuffle import cli as cnfshuffle_cli
from cnfgen.info import info

OUT = []


def rec(*items):
    OUT.append(" | ".join(repr(x) for x in items))


def snapshot(F):
    return (F.number_of_variables(), F.number_of_clauses(),
            [list(c) for c in F], list(F.all_variable_labels()),
            list(F.header.items()), F.to_dimacs())


class Lit:
    """int-like object that records the operations applied to it"""
    log = []

    def __init__(self, v):
        self.v = v

    def __abs__(self):
        Lit.log.append(('abs', self.v))
        return abs(self.v)

    def __eq__(self, other):
        Lit.log.append(('eq', self.v, other))
        return self.v == other

    def __ne__(self, other):
        Lit.log.append(('ne', self.v, other))
        return self.v != other

    def __lt__(self, other):
        return self.v < (other.v if isinstance(other, Lit) else other)

    def __mul__(self, other):
        return self.v * other

    def __rmul__(self, other):
        return other * self.v

    def __repr__(self):
        return 'L({})'.format(self.v)


class Seq:
    """sequence that records how it is accessed"""
    def __init__(self, data, length=None):
        self.data = list(data)
        self.length = len(self.data) if length is None else length
        self.log = []

    def __len__(self):
        self.log.append('len')
        return self.length

    def __getitem__(self, i):
        self.log.append(('get', i))
        return self.data[i]

    def __iter__(self):
        self.log.append('iter')
        return iter(self.data)

    def __repr__(self):
        return 'Seq({}, {})'.format(self.data, self.length)


def attempt(tag, F, pf, vp, cp, seed=0):
    before = snapshot(F)
    reprs = (repr(pf), repr(vp), repr(cp))
    Lit.log = []
    random.seed(seed)
    try:
        G = Shuffle(F, pf, vp, cp)
        rec(tag, 'OK', snapshot(G), G is F)
    except Exception as e:
        rec(tag, 'EXC', type(e).__name__, str(e))
    rec(tag, 'rnd', random.random(), Lit.log)
    rec(tag, 'untouched', before == snapshot(F),
        reprs == (repr(pf), repr(vp), repr(cp)))
    for x in (pf, vp, cp):
        if isinstance(x, Seq):
            rec(tag, 'seqlog', x.log)


def formulas():
    F = CNF([[1, -2], [2, 3, -1], [-3], []], description='small one')
    yield 'small', F
    yield 'empty', CNF()
    G = CNF([[1, 2], [-1, -2]])
    del G.header['description']
    G.header['transformation 1'] = 'first'
    G.header['transformation 3'] = 'third'
    yield 'nodesc', G
    yield 'xorphp', XorSubstitution(PigeonholePrinciple(3, 2), 2)


def run_small():
    F = CNF([[1, -2], [2, 3, -1], [-3], []], description='small one')
    N, M = 3, 4
    flips = [
        'fixed', 'shuffle', [1, 1, 1], [-1, 1, -1], (1, -1, 1), [1, 1],
        [1, 1, 1, 1], [], [1, 0, 1], [1, 1, 2], [2, 1, 1], [1, -2, 0],
        [1.0, -1.0, 1], [True, True, True], [1, 'a', 1], ['a', 1, 1],
        [1, None, 1], 'other', 'abc', None, 5, {0: 1, 1: -1, 2: 1},
        {1: 1, 2: 1, 3: 1}, [Lit(1), Lit(-1), Lit(2)],
        [Lit(1), Lit(-1), Lit(1)], Seq([1, -1, 1]), Seq([1, 3, 1]),
        Seq([1, 1, 1, 7], 3), Seq([1, 1], 3), range(1, 4), range(-1, 2),
    ]
    varperms = [
        'fixed', 'shuffle', [1, 2, 3], [3, 1, 2], (2, 3, 1), [1, 2],
        [1, 2, 3, 4], [], [1, 2, 2], [0, 1, 2], [2, 3, 4], [1, 1, 1],
        [3, 2, 0], [1.0, 2.0, 3.0], [1, 'a', 3], [1, None, 3], 'other',
        'abc', None, 7, {1: 'a', 2: 'b', 3: 'c'}, {0: 1, 1: 2, 2: 3},
        [Lit(2), Lit(1), Lit(3)], [Lit(2), Lit(2), Lit(3)],
        Seq([2, 1, 3]), Seq([2, 1, 1]), Seq([1, 2, 3, 9], 3),
        Seq([1, 2], 3), range(1, 4), range(0, 3), range(3, 0, -1),
    ]
    clperms = [
        'fixed', 'shuffle', [0, 1, 2, 3], [3, 0, 2, 1], (1, 0, 3, 2),
        [0, 1, 2], [0, 1, 2, 3, 4], [], [0, 1, 1, 3], [1, 2, 3, 4],
        [0, 0, 0, 0], [-1, 0, 1, 2], [0.0, 1.0, 2.0, 3.0], [0, 'a', 2, 3],
        [0, None, 2, 3], 'other', 'abcd', None, 2,
        {0: 'a', 1: 'b', 2: 'c', 3: 'd'},
        [Lit(1), Lit(0), Lit(3), Lit(2)], [Lit(1), Lit(1), Lit(3), Lit(2)],
        Seq([1, 0, 3, 2]), Seq([1, 0, 3, 3]), Seq([0, 1, 2, 3, 8], 4),
        Seq([0, 1, 2], 4), range(4), range(1, 5), range(3, -1, -1),
    ]
    import copy
    for k, pf in enumerate(flips):
        attempt(('pf', k), F, copy.deepcopy(pf), 'fixed', 'fixed')
        attempt(('pf+', k), F, copy.deepcopy(pf), 'shuffle', 'shuffle', 3)
    for k, vp in enumerate(varperms):
        attempt(('vp', k), F, 'fixed', copy.deepcopy(vp), 'fixed')
        attempt(('vp+', k), F, 'shuffle', copy.deepcopy(vp), 'shuffle', 4)
    for k, cp in enumerate(clperms):
        attempt(('cp', k), F, 'fixed', 'fixed', copy.deepcopy(cp))
        attempt(('cp+', k), F, 'shuffle', 'shuffle', copy.deepcopy(cp), 5)
    # which error comes first when several arguments are wrong
    bad = [([1, 1], [1, 2], [0]), ([1, 1, 5], [1, 2, 2], [0, 0, 0, 0]),
           ([1, 1, 1], [1, 2, 2], [0, 0, 0, 0]), ([1, 1, 1], [1, 2], [0]),
           (None, None, None)]
    for k, (pf, vp, cp) in enumerate(bad):
        attempt(('bad', k), F, pf, vp, cp)
    # all permutations of a small formula
    for pf in product([1, -1], repeat=N):
        for vp in permutations(range(1, N + 1)):
            attempt(('all', pf, vp), F, list(pf), list(vp), [2, 0, 3, 1])
    for cp in permutations(range(M)):
        attempt(('allc', cp), F, [1, -1, 1], [2, 3, 1], list(cp))


def run_formulas():
    for name, F in formulas():
        N = F.number_of_variables()
        M = F.number_of_clauses()
        for seed in [0, 1, 'x']:
            for pf, vp, cp in product(['fixed', 'shuffle'], repeat=3):
                attempt(('mix', name, seed, pf, vp, cp), F, pf, vp, cp, seed)
        attempt(('explicit', name), F, [(-1)**i for i in range(N)],
                list(range(N, 0, -1)), list(range(M - 1, -1, -1)))
        attempt(('short', name), F, [1] * (N + 1), 'fixed', 'fixed')
        attempt(('short', name), F, 'fixed', list(range(1, N)), 'fixed')
        attempt(('short', name), F, 'fixed', 'fixed', list(range(M + 1)))
        # chains
        random.seed(12)
        before = snapshot(F)
        G = Shuffle(F)
        H = Shuffle(FlipPolarity(G), 'fixed')
        K = OrSubstitution(Shuffle(H, clauses_permutation='fixed'), 2)
        L = Shuffle(K, variables_permutation='fixed')
        for X in [G, H, K, L]:
            rec(('chain', name), snapshot(X))
        rec(('chain', name), before == snapshot(F), random.random())


def run_cli():
    cmds = [
        ['php', 3, 2, '-T', 'shuffle'],
        ['php', 3, 2, '-T', 'shuffle', '-p'],
        ['php', 3, 2, '-T', 'shuffle', '-v', '-c'],
        ['php', 3, 2, '-T', 'shuffle', '-p', '-v', '-c'],
        ['op', 3, '-T', 'shuffle', '-T', 'xor', 2, '-T', 'shuffle', '-c'],
        ['and', 0, 0, '-T', 'shuffle'],
    ]
    for cmd in cmds:
        for seed in [3, 99]:
            argv = ['cnfgen', '--seed', seed] + cmd
            try:
                F = cnfgen_cli(list(argv), mode='formula')
                rec(('cli', argv), snapshot(F))
            except BaseException as e:
                rec(('cli', argv), type(e).__name__, str(e))
            rec(('cli', argv), random.random())
    dimacs = "c a comment\np cnf 4 3\n1 -2 0\n2 3 -4 0\n-1 0\n"
    for opts in [[], ['-p'], ['-v'], ['-c'], ['-p', '-v', '-c'], ['-q']]:
        for seed in [5, 'zz']:
            argv = ['cnfshuffle', '--seed', seed] + opts
            stdin = sys.stdin
            err = io.StringIO()
            try:
                sys.stdin = io.StringIO(dimacs)
                with contextlib.redirect_stderr(err):
                    res = cnfshuffle_cli(list(argv), mode='string')
                rec(('shufcli', argv), res, err.getvalue())
            except BaseException as e:
                rec(('shufcli', argv), type(e).__name__, str(e),
                    err.getvalue())
            finally:
                sys.stdin = stdin
            rec(('shufcli', argv), random.random())


run_small()
run_formulas()
run_cli()
text = "\n".join(OUT)
text = text.replace(str(info['version']), '<VERSION>')
if os.environ.get('EQUIV_DUMP'):
    sys.stderr.write(text + '\n')
print(hashlib.sha256(text.encode('utf-8')).hexdigest())
